import PymtlVerif.Model.BitStruct
/-
IR of the method bodies that `pymtl3/datatypes/bitstructs.py` *generates as source text* for every
bitstruct class (`_mk_init_fn`, `_mk_eq_fn`, `_mk_hash_fn`, `_mk_ff_fn`, `_mk_clone_fn`,
`_mk_deepcopy_fn`, `_mk_imatmul_fn`, `_mk_nbits_to_bits_fn`, `_mk_from_bits_fns`), an evaluation
semantics for it over the values / leaf-cell heap of `Model/BitStruct.lean`, and `progOf`: the program
each generator is supposed to emit for a type (written from the generators, loop by loop).

The harness (`harness/checks/c06_genprog.py`) parses the real generated source of every method of every
class a C06 run creates (`inspect.getsource` + `ast`) into this IR and the driver `pv_bsprog` compares it
with `progOf` — syntactic equality, no normalisation. `Props/C06g.lean` proves, for every type,
that evaluating `progOf m T` is the model function of `Model/BitStruct.lean` about which C06 is proved.

What is fixed text in the generators (the `if self.__class__ is not other.__class__:` prologue of
`@=` / `<<=`, `return self`, the `assert` + `other = other.to_bits()` of `from_bits`, `hash(...)`,
`(other.__class__ is self.__class__) and ...`, `return self.__class__( ... )`) is matched verbatim by the
parser and is part of the meaning of the `Prog` constructors here; the type-dependent part is the IR.

A *nested* bitstruct is an element: `self.p @= other.p`, `self.p.clone()`, `self.p._flip()`,
`hash`/`==` of a tuple element, `_type2( ... )` / `_type_p()` call the nested class's own generated method.
The evaluator gives such a call the meaning the model assigns to the nested type (`zipWithM`, `clone`,
`flip`, `eqPy`, `hashV`, `newI`, `build (zeroV _)`); the theorems show that the program of *every* class
meets that meaning provided its elements' classes do — every class, nested ones included, is checked.
Only `to_bits` and `from_bits` are generated flat (paths `self.p.x`, slices through nested classes).

Mathlib-free: linked into the native driver `pv_bsprog`.
-/
namespace PV.BStructProg
open PV.BitStruct
open PV.Bits (B Reg)

/-! ### access paths: `.f` (by field index) and `[i]` -/

inductive Step where
  | fld (i : Nat)
  | idx (i : Nat)
deriving DecidableEq, Repr, Inhabited

abbrev Path := List Step

def stepV : Val → Step → Option Val
  | v, .fld i => fieldVal v i
  | v, .idx i => elemVal v i

def getV : Val → Path → Option Val
  | v, [] => some v
  | v, s :: p => (stepV v s).bind (getV · p)

def fieldI : Inst → Nat → Option Inst
  | .pair a _, 0 => some a
  | .pair _ b, i+1 => fieldI b i
  | _, _ => none

def elemI : Inst → Nat → Option Inst
  | .acons x _, 0 => some x
  | .acons _ xs, k+1 => elemI xs k
  | _, _ => none

def stepI : Inst → Step → Option Inst
  | v, .fld i => fieldI v i
  | v, .idx i => elemI v i

def getI : Inst → Path → Option Inst
  | v, [] => some v
  | v, s :: p => (stepI v s).bind (getI · p)

/-! ### expressions -/

/-- the expression forms of the generated bodies. Sequences (list displays, tuple displays, argument
lists) are `nil` / `cons` chains, first element first; a tuple display is marked with `tup`. -/
inductive Expr where
  | self (p : Path)            -- `self.<p>`                     the object itself, no copy
  | other (p : Path)           -- `other.<p>`
  | clone (p : Path)           -- `self.<p>.clone()`
  | slice (lo hi : Nat)        -- `other[lo:hi]`                 (`other` a Bits: `from_bits`)
  | dflt (T : Ty)              -- `_type_f()`                    default instance of a Bits class `(bits n)` / a bitstruct class
  | nil
  | cons (h t : Expr)
  | rep (x : Expr) (n : Nat)   -- `<list display x> * n`        (n references to the same elements)
  | tup (s : Expr)             -- `( ..., )`
  | new (T : Ty) (args : Expr) -- `C( args )`                    C a bitstruct class of shape T (`cls`, `self.__class__`, `_typeN`)
deriving DecidableEq, Repr, Inhabited

def isArr : Ty → Bool
  | .arr _ _ => true
  | _ => false

def isListV : Val → Bool
  | .acons _ _ => true
  | .anil => true
  | _ => false

def isListI : Inst → Bool
  | .acons _ _ => true
  | .anil => true
  | _ => false

def consN (x : Val) : Nat → Val
  | 0 => .anil
  | k+1 => .acons x (consN x k)

/-- the value of a default-constructed instance -/
def zeroV : Ty → Val
  | .bits n => .bits n 0
  | .unit => .unit
  | .pair a b => .pair (zeroV a) (zeroV b)
  | .arr k t => consN (zeroV t) k

def appV : Val → Val → Val
  | .acons x xs, ys => .acons x (appV xs ys)
  | _, ys => ys

def repV (x : Val) : Nat → Val
  | 0 => .anil
  | n+1 => appV x (repV x n)

def appI : Inst → Inst → Inst
  | .acons x xs, ys => .acons x (appI xs ys)
  | _, ys => ys

def repI (x : Inst) : Nat → Inst
  | 0 => .anil
  | n+1 => appI x (repI x n)

/-! ### value-level semantics (to_bits, from_bits, ==, hash) -/

structure VEnv where
  self : Val
  other : Val
  bits : B          -- `other` when it is a Bits (`from_bits`)

/-- what field `f : A` holds after the generated `__init__` got the argument `x`:
`self.f = _type_f(x)` for a Bits field (a `BitsN(Bits)` construction: widths must agree),
`self.f = x or ...` otherwise -/
def wrapV : Ty → Val → Option Val
  | .bits n, .bits m v => if m = n then some (.bits n v) else none
  | .bits _, _ => none
  | _, x => some x

/-- `C(a0, a1, ...)` with every argument given -/
def newV : Ty → Val → Option Val
  | .unit, .anil => some .unit
  | .pair A R, .acons x xs =>
      match wrapV A x, newV R xs with
      | some a, some r => some (.pair a r)
      | _, _ => none
  | _, _ => none

def evalV (env : VEnv) : Expr → Option Val
  | .self p => getV env.self p
  | .other p => getV env.other p
  | .clone p => (getV env.self p).bind fun v => if isListV v then none else some v
  | .slice lo hi =>
      match PV.Bits.getSlice env.bits (some (lo : Int)) (some (hi : Int)) none with
      | .ok b => some (.bits b.n b.v)
      | .error _ => none
  | .dflt T => if isArr T then none else some (zeroV T)
  | .nil => some .anil
  | .cons a b =>
      match evalV env a, evalV env b with
      | some x, some y => some (.acons x y)
      | _, _ => none
  | .rep x n => (evalV env x).map (repV · n)
  | .tup s => evalV env s
  | .new T a => (evalV env a).bind (newV T)

def mapOpt {α β} (f : α → Option β) : List α → Option (List β)
  | [] => some []
  | x :: xs =>
      match f x, mapOpt f xs with
      | some y, some ys => some (y :: ys)
      | _, _ => none

def asBits : Val → Option B
  | .bits n v => some ⟨n, v⟩
  | _ => none

/-- `return concat( self.<p0>, self.<p1>, ... )` -/
def evalToBits (ps : List Path) (self : Val) : Option PV.Bits.R :=
  (mapOpt (fun p => (getV self p).bind asBits) ps).map PV.Bits.concat

/-- `assert cls.nbits == other.nbits; other = other.to_bits(); return cls( args )` for a Bits `other` -/
def evalFromBits (T : Ty) (args : Expr) (other : B) : Except Err Val :=
  if nbitsPy T ≠ other.n then .error .assert
  else match evalV ⟨.unit, .unit, other⟩ (.new T args) with
    | some v => .ok v
    | none => .error .shape

/-- tuple `==` tuple: same length and element-wise `==` (`Bits`, list, nested struct: `eqPy`) -/
def eqList : List Val → List Val → Bool
  | [], [] => true
  | x :: xs, y :: ys => eqPy x y && eqList xs ys
  | _, _ => false

/-- `return (other.__class__ is self.__class__) and (self.<l0>, ...,) == (other.<r0>, ...,)` -/
def evalEq (l r : List Path) (sameClass : Bool) (self other : Val) : Option Bool :=
  match mapOpt (getV self) l, mapOpt (getV other) r with
  | some a, some b => some (sameClass && eqList a b)
  | _, _ => none

/-- `return hash( e )` -/
def evalHash {α : Type} (hb : Nat → Nat → α) (ht : List α → α) (e : Expr) (self : Val) : Option α :=
  (evalV ⟨self, self, default⟩ e).map (hashV hb ht)

/-! ### heap-level semantics (`__init__`, clone, `__deepcopy__`, `@=`, `<<=`, `_flip`) -/

structure HEnv where
  self : Inst
  other : Inst

/-- `self.f = _type_f(x)` makes a new Bits object; `self.f = x or ...` keeps the argument object -/
def wrapI (h : Heap) : Ty → Inst → Option (Heap × Inst)
  | .bits n, .leaf c =>
      if (h.cell c).cur.n = n then
        let r := h.alloc ⟨(h.cell c).cur, none⟩
        some (r.1, .leaf r.2)
      else none
  | .bits _, _ => none
  | _, x => some (h, x)

/-- `C(a0, a1, ...)` with every argument given: the generated `__init__`, field by field -/
def newI : Heap → Ty → Inst → Option (Heap × Inst)
  | h, .unit, .anil => some (h, .unit)
  | h, .pair A R, .acons x xs =>
      match wrapI h A x with
      | some (h1, a) =>
          match newI h1 R xs with
          | some (h2, r) => some (h2, .pair a r)
          | none => none
      | none => none
  | _, _, _ => none

def evalH (env : HEnv) : Heap → Expr → Option (Heap × Inst)
  | h, .self p => (getI env.self p).map fun i => (h, i)
  | h, .other p => (getI env.other p).map fun i => (h, i)
  | h, .clone p => (getI env.self p).bind fun i => if isListI i then none else some (PV.BitStruct.clone h i)
  | _, .slice _ _ => none
  | h, .dflt T => if isArr T then none else some (build h (zeroV T))
  | h, .nil => some (h, .anil)
  | h, .cons a b =>
      match evalH env h a with
      | some (h1, x) =>
          match evalH env h1 b with
          | some (h2, y) => some (h2, .acons x y)
          | none => none
      | none => none
  | h, .rep x n => (evalH env h x).map fun r => (r.1, repI r.2 n)
  | h, .tup s => evalH env h s
  | h, .new T a => (evalH env h a).bind fun r => newI r.1 T r.2

/-- `return self.__class__( args )` (clone and `__deepcopy__`) -/
def evalClone (T : Ty) (args : Expr) (h : Heap) (self : Inst) : Option (Heap × Inst) :=
  evalH ⟨self, self⟩ h (.new T args)

/-- one statement `self.<d> OP= other.<s>` on an element: a leaf `Bits` or a nested struct (whose own
`__imatmul__` / `__ilshift__` is the statement list of its leaves); a Python list has no such operator -/
def elemOp (op : Heap → Nat → Nat → Except Err Heap) (h : Heap) (a b : Inst) : Except Err Heap :=
  if isListI a then .error .shape else zipWithM op h a b

def runAug (op : Heap → Nat → Nat → Except Err Heap) (env : HEnv) : Heap → List (Path × Path) → Except Err Heap
  | h, [] => .ok h
  | h, st :: rest =>
      match getI env.self st.1, getI env.other st.2 with
      | some a, some b =>
          match elemOp op h a b with
          | .ok h1 => runAug op env h1 rest
          | .error e => .error e
      | _, _ => .error .shape

/-- `__imatmul__` (`nb = false`) / `__ilshift__` (`nb = true`):
`if self.__class__ is not other.__class__: other = self.__class__.from_bits( other.to_bits() )`, the statements, `return self` -/
def evalAug (nb : Bool) (T : Ty) (stmts : List (Path × Path)) (sameClass : Bool) (h : Heap) (dst src : Inst) :
    Except Err Heap :=
  let op := if nb then leafNb else leafAssign
  if sameClass then runAug op ⟨dst, src⟩ h stmts else
  match convert T h src with
  | .ok (h1, tmp) => runAug op ⟨dst, tmp⟩ h1 stmts
  | .error e => .error e

/-- `self.<p>._flip()` statements -/
def runFlip (self : Inst) : Heap → List Path → Except Err Heap
  | h, [] => .ok h
  | h, p :: rest =>
      match getI self p with
      | some a =>
          if isListI a then .error .shape else
          match PV.BitStruct.flip h a with
          | .ok h1 => runFlip self h1 rest
          | .error e => .error e
      | none => .error .shape

/-- right-hand sides of `__init__`: `_type_f(arg)` and `arg or <default expression>` -/
inductive Rhs where
  | wrap (n : Nat) (arg : Nat)
  | orDflt (arg : Nat) (d : Expr)
deriving DecidableEq, Repr, Inhabited

/-- `self.<field> = rhs` -/
structure InitStmt where
  field : Nat
  rhs : Rhs
deriving DecidableEq, Repr, Inhabited

/-- arguments: `none` = not given (the parameter default `0` / `None`); a given argument is an object -/
def evalRhs (h : Heap) (args : List (Option Inst)) : Rhs → Option (Heap × Inst)
  | .wrap n j =>
      match args[j]? with
      | some (some (.leaf c)) =>
          if (h.cell c).cur.n = n then
            let r := h.alloc ⟨(h.cell c).cur, none⟩
            some (r.1, .leaf r.2)
          else none
      | some none => let r := h.alloc ⟨⟨n, 0⟩, none⟩; some (r.1, .leaf r.2)
      | _ => none
  | .orDflt j d =>
      match args[j]? with
      | some (some x) => some (h, x)
      | some none => evalH ⟨.unit, .unit⟩ h d
      | none => none

/-- the statements in order; statement number `k` must set field `k` (the only form the generator has) -/
def evalInit (args : List (Option Inst)) : Heap → Nat → List InitStmt → Option (Heap × Inst)
  | h, _, [] => some (h, .unit)
  | h, k, st :: rest =>
      if st.field ≠ k then none else
      match evalRhs h args st.rhs with
      | some (h1, a) =>
          match evalInit args h1 (k+1) rest with
          | some (h2, r) => some (h2, .pair a r)
          | none => none
      | none => none

/-! ### programs -/

inductive Prog where
  | toBits (args : List Path)
  | fromBits (args : Expr)
  | eq (l r : List Path)
  | hash (e : Expr)
  | clone (args : Expr)                       -- `clone` and `__deepcopy__`
  | aug (nb : Bool) (stmts : List (Path × Path))
  | flip (ps : List Path)
  | init (stmts : List InitStmt)
  | str (fields : List Nat)                   -- `__str__` / `__repr__`: the fields interpolated, in order
deriving DecidableEq, Repr, Inhabited

/-! ### the programs the generators emit -/

/-- `f s ++ f (s+1) ++ … ++ f (s+n-1)` : `for i in range(len)` -/
def flatFrom {α} (f : Nat → List α) : Nat → Nat → List α
  | _, 0 => []
  | s, n+1 => f s ++ flatFrom f (s+1) n

/-- `f (s+n-1) ++ … ++ f s` : `for i in reversed(range(len))` -/
def revFrom {α} (f : Nat → List α) : Nat → Nat → List α
  | _, 0 => []
  | s, n+1 => revFrom f (s+1) n ++ f s

/-- `_gen_to_bits_strs`: for a field tail `.pair A R` the fields from index `i` of the struct at `p`;
for any other type the value at `p` itself (a nested struct is flattened: `tbPaths A 0 (p.f)`) -/
def tbPaths : Ty → Nat → Path → List Path
  | .bits _, _, p => [p]
  | .unit, _, _ => []
  | .pair A R, i, p => tbPaths A 0 (p ++ [.fld i]) ++ tbPaths R (i+1) p
  | .arr k t, _, p => revFrom (fun j => tbPaths t 0 (p ++ [.idx j])) 0 k

/-- the `for i in range(len)` loop of `_gen_from_bits_strs` with `reversed(from_strs)`: the expression
produced first ends up last -/
def fbArr (f : Nat → Expr × Nat) : Nat → Nat → Expr → Expr × Nat
  | 0, e, acc => (acc, e)
  | k+1, e, acc => fbArr f k (f e).2 (.cons (f e).1 acc)

/-- `_gen_from_bits_strs(type_, end_bit)`: expression and new `end_bit`. For a field tail the argument
chain; a nested struct is `_typeN( <its fields> )` -/
def fbExpr : Ty → Nat → Expr × Nat
  | .bits n, e => (.slice (e - n) e, e - n)
  | .unit, e => (.new .unit .nil, e)
  | .pair A R, e =>
      let r1 := fbExpr A e
      let r2 := fbArgs R r1.2
      (.new (.pair A R) (.cons r1.1 r2.1), r2.2)
  | .arr k t, e => fbArr (fbExpr t) k e .nil
where
  fbArgs : Ty → Nat → Expr × Nat
  | .pair A R, e =>
      let r1 := fbExpr A e
      let r2 := fbArgs R r1.2
      (.cons r1.1 r2.1, r2.2)
  | _, e => (.nil, e)

/-- `[ g(p[0]), g(p[1]), … ]` nested over the list dimensions, `g` at the elements -/
def unroll (g : Path → Expr) : Ty → Path → Expr
  | .arr k t, q => go (fun j => unroll g t (q ++ [.idx j])) 0 k
  | _, q => g q
where
  go (f : Nat → Expr) : Nat → Nat → Expr
  | _, 0 => .nil
  | s, n+1 => .cons (f s) (go f (s+1) n)

/-- like `unroll` with every list level a tuple display (`_gen_list_tuple_str`) -/
def unrollT (g : Path → Expr) : Ty → Path → Expr
  | .arr k t, q => .tup (unroll.go (fun j => unrollT g t (q ++ [.idx j])) 0 k)
  | _, q => g q

/-- all element paths of a field in index order (`_gen_list_imatmul_strs`, `_gen_list_ilshift_strs`) -/
def elemPaths : Ty → Path → List Path
  | .arr k t, q => flatFrom (fun j => elemPaths t (q ++ [.idx j])) 0 k
  | _, q => [q]

def eqPaths : Ty → Nat → List Path
  | .pair _ R, i => [.fld i] :: eqPaths R (i+1)
  | _, _ => []

def hashArgs : Ty → Nat → Expr
  | .pair A R, i => .cons (unrollT .self A [.fld i]) (hashArgs R (i+1))
  | _, _ => .nil

def cloneArgs : Ty → Nat → Expr
  | .pair A R, i => .cons (unroll .clone A [.fld i]) (cloneArgs R (i+1))
  | _, _ => .nil

def fieldElemPaths : Ty → Nat → List Path
  | .pair A R, i => elemPaths A [.fld i] ++ fieldElemPaths R (i+1)
  | _, _ => []

/-- `_recursive_generate_init`: the text of one row pasted `len` times (each paste is evaluated) -/
def dfltExpr : Ty → Expr
  | .arr k t => pasteN (dfltExpr t) k
  | T => .dflt T
where
  pasteN (e : Expr) : Nat → Expr
  | 0 => .nil
  | n+1 => .cons e (pasteN e n)

def initStmts : Ty → Nat → List InitStmt
  | .pair (.bits n) R, i => ⟨i, .wrap n i⟩ :: initStmts R (i+1)
  | .pair A R, i => ⟨i, .orDflt i (dfltExpr A)⟩ :: initStmts R (i+1)
  | _, _ => []

def nFields : Ty → Nat
  | .pair _ R => nFields R + 1
  | _ => 0

inductive Method where
  | toBits | fromBits | eq | hash | clone | deepcopy | imatmul | ilshift | flip | init | str | repr
deriving DecidableEq, Repr, Inhabited

/-- the program of method `m` of a bitstruct class whose fields are the `.pair` chain `T` -/
def progOf : Method → Ty → Prog
  | .toBits, T => .toBits (tbPaths T 0 [])
  | .fromBits, T => .fromBits (fbExpr.fbArgs T (nbitsPy T)).1
  | .eq, T => .eq (eqPaths T 0) (eqPaths T 0)
  | .hash, T => .hash (.tup (hashArgs T 0))
  | .clone, T => .clone (cloneArgs T 0)
  | .deepcopy, T => .clone (cloneArgs T 0)
  | .imatmul, T => .aug false ((fieldElemPaths T 0).map fun p => (p, p))
  | .ilshift, T => .aug true ((fieldElemPaths T 0).map fun p => (p, p))
  | .flip, T => .flip (fieldElemPaths T 0)
  | .init, T => .init (initStmts T 0)
  | .str, T => .str (List.range (nFields T))
  | .repr, T => .str (List.range (nFields T))

end PV.BStructProg
