import PymtlVerif.Model.SV
/-
Flat port map of the Yosys backend of pymtl3 and the packed image of structured values.

Written from
* `passes/backends/yosys/translation/structural/YosysStructuralTranslatorL1.py` / `…L2.py` / `…L3.py`:
  - `port_gen` / `struct_gen` / `packed_gen` / `_packed_gen` (the flattened port declarations: a struct
    port `p` becomes one port `p__<field>` per field in declaration order, a packed array one port
    `p__<i>` per element `i = 0 … n-1`, recursively; a list of ports / interfaces `p__<i>`,
    `ifc__<i>__<port>`)                                                     → `flatPorts` (order), `mangle`
  - `struct_conn_gen` / `vec_conn_struct_gen` / `vec_conn_packed_gen` / `vec_conn_vector_gen` (for each leaf
    the part select `[msb:lsb]` of the packed vector of the whole port: `c_nbits` starts at the width
    of the whole port; a struct hands `c_nbits` to its first field and subtracts the field's width for
    the next one — first field at the top; a packed array walks `reversed(range(n))` — element `n-1`
    at the top, element 0 at the bottom; a vector takes `[c_nbits-1 : c_nbits-nbits]`)
                                                                           → `flatPorts` (`msb`, `lsb`)
* `datatypes/bitstructs.py` `_mk_nbits_to_bits_fn` (`to_bits()` is `concat` of the fields in
  declaration order, first field most significant; a list field is emitted
  `for i in reversed(range(len))`, element 0 least significant)           → `toBits`
* Verilog backend (`passes/backends/verilog/translation/structural/VStructuralTranslatorL1.py`): a
  port keeps its packed type and its unpacked dimensions; an interface port is `<ifc>__<port>` with
  the interface list dimensions as unpacked dimensions                    → `portLeaves false`

Mathlib-free: linked into the native driver.
-/
namespace PV.Flat
open PV.SV

/-- one step of a path into a structured signal -/
inductive Tok where
  | fld (f : String)
  | idx (i : Nat)
deriving DecidableEq, Repr, Inhabited

/-- a flattened (vector) port: its path below the port and its part select in the packed vector -/
structure Leaf where
  path : List Tok
  msb : Nat
  lsb : Nat
deriving DecidableEq, Repr, Inhabited

/-- leaf `l` of a component that sits `off` bits above the bottom of its parent, reached by `t` -/
def Leaf.under (t : Tok) (off : Nat) (l : Leaf) : Leaf := ⟨t :: l.path, l.msb + off, l.lsb + off⟩

/-- leaves of a packed array whose element has width `w` and leaves `ls`: declared for
    `i = 0 … n-1` (`_packed_gen`); element `i` occupies bits `[i*w, (i+1)*w)` (`vec_conn_packed_gen`) -/
def flatArr (n w : Nat) (ls : List Leaf) : List Leaf :=
  (List.range n).flatMap fun i => ls.map (Leaf.under (.idx i) (i * w))

mutual
  /-- the flattened ports of a port of type `T`, in declaration order, with their part selects
      (top of the whole port = `T.width - 1`) -/
  def flatPorts : PTy → List Leaf
    | .vec w => [⟨[], w - 1, 0⟩]
    | .arr n e => flatArr n e.width (flatPorts e)
    | .struct _ fs => flatFields fs
  /-- fields in declaration order; a field sits above all later fields -/
  def flatFields : Fields → List Leaf
    | .nil => []
    | .cons f t rest => (flatPorts t).map (Leaf.under (.fld f) rest.width) ++ flatFields rest
end

def Tok.name : Tok → String
  | .fld f => f
  | .idx i => Nat.repr i

/-- `"__" ++ name` for every token -/
def mangleTail : List Tok → String
  | [] => ""
  | t :: p => "__" ++ t.name ++ mangleTail p

/-- `f"{id_}__{name}"`, `f"{id_}__{idx}"` applied along the path -/
def mangle (base : String) (path : List Tok) : String := base ++ mangleTail path

/-! ### values and their packed image -/

/-- a value of a data type: `Bits`, a list (packed array), a bitstruct (fields in declaration order) -/
inductive Val where
  | bits (v : Nat)
  | arr (es : List Val)
  | struct (fs : List Val)
deriving Repr, Inhabited

mutual
  def HasTy : Val → PTy → Prop
    | .bits v, .vec w => v < 2 ^ w
    | .arr es, .arr n e => es.length = n ∧ ∀ v ∈ es, HasTy v e
    | .struct vs, .struct _ fs => HasTyFields vs fs
    | _, _ => False
  def HasTyFields : List Val → Fields → Prop
    | [], .nil => True
    | v :: vs, .cons _ t rest => HasTy v t ∧ HasTyFields vs rest
    | _, _ => False
end

/-- little-endian packing of `w`-bit items: item 0 least significant -/
def packLE (w : Nat) : List Nat → Nat
  | [] => 0
  | x :: xs => x + 2 ^ w * packLE w xs

mutual
  /-- `to_bits()`: first field most significant, element 0 of a list least significant -/
  def toBits : PTy → Val → Nat
    | .vec _, .bits v => v
    | .arr _ e, .arr es => packLE e.width (es.map (toBits e))
    | .struct _ fs, .struct vs => fieldsBits fs vs
    | _, _ => 0
  def fieldsBits : Fields → List Val → Nat
    | .cons _ t rest, v :: vs => toBits t v * 2 ^ rest.width + fieldsBits rest vs
    | _, _ => 0
end

/-- the field called `f` (first match) with its type -/
def fieldAt : Fields → List Val → String → Option (PTy × Val)
  | .cons g t rest, v :: vs, f => if g = f then some (t, v) else fieldAt rest vs f
  | _, _, _ => none

/-- follow a path into a value -/
def leafAt : PTy → Val → List Tok → Option (PTy × Val)
  | T, v, [] => some (T, v)
  | .arr _ e, .arr es, .idx i :: p =>
    match es[i]? with
    | some v => leafAt e v p
    | none => none
  | .struct _ fs, .struct vs, .fld f :: p =>
    match fieldAt fs vs f with
    | some (t, v) => leafAt t v p
    | none => none
  | _, _, _ => none

/-! ### port names of both backends (for the driver) -/

structure PortLeaf where
  svName : String
  elem : Nat
  msb : Nat
  lsb : Nat
deriving Repr, Inhabited, DecidableEq

/-- the `fld` names of a path -/
def fldNames : List Tok → List String
  | [] => []
  | .fld f :: p => f :: fldNames p
  | .idx _ :: p => fldNames p

/-- row-major flattened index of the `idx` tokens with respect to `dims` (in order of appearance) -/
def elemIndex : List Tok → List Nat → Nat → Nat
  | [], _, acc => acc
  | .fld _ :: p, ds, acc => elemIndex p ds acc
  | .idx i :: p, d :: ds, acc => elemIndex p ds (acc * d + i)
  | .idx i :: p, [], acc => elemIndex p [] (acc + i)      -- more indices than dimensions: malformed

/-- name obtained by mangling every token of `path` (the first token is the base name) -/
def mangleAll : List Tok → String
  | [] => ""
  | t :: p => mangle t.name p

/-- SystemVerilog view of ONE PyMTL port signal `path` (list dimensions `dims`) of packed type `ty`:
    Verilog backend: the unpacked-array variable, the flattened element, the whole packed vector;
    Yosys backend: one flattened port per leaf of `flatPorts ty`. -/
def portLeaves (yosys : Bool) (path : List Tok) (dims : List Nat) (ty : PTy) : List PortLeaf :=
  if yosys then
    (flatPorts ty).map fun l => ⟨mangleAll (path ++ l.path), 0, l.msb, l.lsb⟩
  else
    [⟨String.intercalate "__" (fldNames path), elemIndex path dims 0, ty.width - 1, 0⟩]

end PV.Flat
