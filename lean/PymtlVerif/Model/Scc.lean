/-!
# Executable model of the SCC partition and SCC-level topological sort of the cyclic-capable schedulers

Code modelled (written as it is, quirks included):

* `pymtl3/passes/sim/DynamicSchedulePass.py: kosaraju_scc(G, G_T)` — used by `DynamicSchedulePass` and
  `Mamba2020Pass`; `pymtl3/passes/autotick/OpenLoopCLPass.py` has an inline copy which first shuffles `vertices`.
  * phase 1 (`loop1`/`step1`/`postOrder`): the non-recursive DFS with an explicit stack of `(u, second_visit)` pairs that
    pushes `(u, True)` and then *all* successors `reversed(G[u])` at once and tests `visited` when an entry is popped;
    result: the post-order `PO`; `RPO = PO[::-1]`;
  * phase 2 (`step2`/`phase2`): for `u` in `RPO`, if unvisited, a BFS over `G_T` with a `visited` set and a deque; result
    `SCCs` (groups in creation order, members in insertion order) and the map `v_SCC` (an association list, an entry
    is added when a vertex is popped from the deque, as in the code);
  * `gnewRows` / `Kos.gn`: `G_new[scc_u].add(scc_v)` for every edge `u → v` with `scc_u != scc_v` (iteration
    `for u, vs in G.items()`); the dict of sets is a list of rows (insertion order), read as a graph by `rowOf`.
* `DynamicSchedulePass.schedule_intra_cycle` lines 66-87 (`indeg`, `topoInit`, `step3`, `sccSchedule`): `InD` counts, the
  worklist `Q`, `scc_schedule`, `scc_pred`. The worklist discipline is a parameter `pick` (index of the element that
  is popped, as a function of the schedule so far and the worklist): `pickLast` is `Q.pop()` of DynamicSchedulePass,
  `pickFirst` is `Q.pop(0)` of OpenLoopCLPass; the priority order of Mamba2020Pass is some other `pick`.

Parameters that the Python code takes from its environment and that are therefore *arguments* here:
the iteration order `V` of `G.keys()` (dict order / `random.shuffle`), the adjacency orders `G u`, `GT u`
(order of `all_constraints`, a set), the iteration order of the sets `G_new[i]` (the model keeps insertion order;
the theorems about the schedule hold for every `gn` with the same members).

Graphs are `Nat → List Nat`; Python sets are duplicate-free lists. Every loop is `iter done step fuel`; the fuel bounds
are proved sufficient in `Proofs/SccDfs.lean`, `Proofs/SccBfs.lean`, `Proofs/SccTopo.lean` (no result depends on the
fuel running out). Mathlib-free: linked into the native driver `pv_scc`.
-/
namespace PV.Scc

abbrev Graph := Nat → List Nat

/-- `while not done(s): s = step(s)`, at most `fuel` iterations -/
def iter {σ : Type} (done : σ → Bool) (step : σ → σ) : Nat → σ → σ
  | 0, s => s
  | n+1, s => if done s then s else iter done step n (step s)

/-! ## building `G`, `G_T` from the edge sequence (`G[u].append(v); G_T[v].append(u)`) -/

def adjOf (E : List (Nat × Nat)) : Graph := fun u => (E.filter (fun e => e.1 == u)).map (·.2)
def adjTOf (E : List (Nat × Nat)) : Graph := fun v => (E.filter (fun e => e.2 == v)).map (·.1)

/-! ## phase 1: iterative post-order DFS -/

/-- state of the `while stack:` loop; `stack` is the Python list used as a stack, head = top (= last element) -/
structure D1 where
  stack : List (Nat × Bool)
  visited : List Nat
  po : List Nat

def D1.done (s : D1) : Bool := s.stack.isEmpty

/-- `for v in vs: stack.append( (v, False) )` -/
def pushAll (vs : List Nat) (st : List (Nat × Bool)) : List (Nat × Bool) :=
  vs.foldl (fun st v => (v, false) :: st) st

/-- one iteration of the `while stack:` body -/
def step1 (G : Graph) (s : D1) : D1 :=
  match s.stack with
  | [] => s
  | (u, true) :: rest => { s with stack := rest, po := s.po ++ [u] }
  | (u, false) :: rest =>
    if u ∈ s.visited then { s with stack := rest }
    else { s with stack := pushAll (G u).reverse ((u, true) :: rest), visited := u :: s.visited }

def degSum (G : Graph) (V : List Nat) : Nat := (V.map (fun v => (G v).length)).sum

/-- iterations granted to one `while stack:` loop: one per root, one `(u, True)` entry per vertex, one entry per edge -/
def fuel1 (G : Graph) (V : List Nat) : Nat := V.length + degSum G V + 1

/-- body of `for u in vertices:` -/
def dfsRoot (G : Graph) (F : Nat) (acc : List Nat × List Nat) (u : Nat) : List Nat × List Nat :=
  let s := iter D1.done (step1 G) F ⟨[(u, false)], acc.1, acc.2⟩
  (s.visited, s.po)

def phase1 (G : Graph) (V : List Nat) : List Nat × List Nat := V.foldl (dfsRoot G (fuel1 G V)) ([], [])

/-- `PO` -/
def postOrder (G : Graph) (V : List Nat) : List Nat := (phase1 G V).2

/-! ## phase 2: BFS over the transposed graph in reverse post-order -/

/-- state of the `while Q:` loop of one group -/
structure B2 where
  q : List Nat              -- the deque, head = left end
  visited : List Nat
  scc : List Nat            -- the set `scc`, in insertion order
  vmap : List (Nat × Nat)   -- `v_SCC`, latest entry first

def B2.done (s : B2) : Bool := s.q.isEmpty

/-- `if v not in visited: visited.add(v); Q.append(v); scc.add(v)` -/
def visitPred (s : B2) (v : Nat) : B2 :=
  if v ∈ s.visited then s else { s with visited := v :: s.visited, q := s.q ++ [v], scc := s.scc ++ [v] }

/-- one iteration of `while Q:` for the group with index `idx = len(SCCs) - 1` -/
def step2 (GT : Graph) (idx : Nat) (s : B2) : B2 :=
  match s.q with
  | [] => s
  | u :: q' => (GT u).foldl visitPred { s with q := q', vmap := (u, idx) :: s.vmap }

structure P2 where
  visited : List Nat
  sccs : List (List Nat)
  vmap : List (Nat × Nat)

/-- body of `for u in RPO:` -/
def phase2Step (GT : Graph) (F : Nat) (p : P2) (u : Nat) : P2 :=
  if u ∈ p.visited then p
  else
    let s := iter B2.done (step2 GT p.sccs.length) F ⟨[u], u :: p.visited, [u], p.vmap⟩
    ⟨s.visited, p.sccs ++ [s.scc], s.vmap⟩

def phase2 (GT : Graph) (V : List Nat) (rpo : List Nat) : P2 :=
  rpo.foldl (phase2Step GT V.length) ⟨[], [], []⟩

/-- `v_SCC[v]` (the code would raise KeyError for a missing key; `vscc_defined` shows that every vertex has one) -/
def vscc (vm : List (Nat × Nat)) (v : Nat) : Nat := (vm.lookup v).getD 0

/-! ## the condensation `G_new` -/

/-- `rows[i] = r`, for a dict `{ i: set() for i in range(...) }` kept as a list of rows (missing rows are empty) -/
def setRow : List (List Nat) → Nat → List Nat → List (List Nat)
  | [], 0, r => [r]
  | [], k+1, r => [] :: setRow [] k r
  | _ :: xs, 0, r => r :: xs
  | x :: xs, k+1, r => x :: setRow xs k r

def rowOf (rows : List (List Nat)) : Graph := fun i => rows.getD i []

/-- `if scc_u != scc_v and scc_v not in G_new[ scc_u ]: G_new[ scc_u ].add( scc_v )` -/
def addEdge (vm : List (Nat × Nat)) (rows : List (List Nat)) (u v : Nat) : List (List Nat) :=
  let su := vscc vm u
  let sv := vscc vm v
  if su ≠ sv ∧ sv ∉ rowOf rows su then setRow rows su (rowOf rows su ++ [sv]) else rows

def gnewRows (G : Graph) (V : List Nat) (vm : List (Nat × Nat)) : List (List Nat) :=
  V.foldl (fun rows u => (G u).foldl (fun rows v => addEdge vm rows u v) rows) []

/-- what `kosaraju_scc` computes (`rows`: the sets `G_new[i]` in insertion order) -/
structure Kos where
  po : List Nat
  sccs : List (List Nat)
  vmap : List (Nat × Nat)
  rows : List (List Nat)

/-- `G_new` as a graph -/
def Kos.gn (k : Kos) : Graph := rowOf k.rows

def kosaraju (G GT : Graph) (V : List Nat) : Kos :=
  let po := postOrder G V
  let p := phase2 GT V po.reverse
  ⟨po, p.sccs, p.vmap, gnewRows G V p.vmap⟩

/-! ## SCC-level topological sort -/

/-- `InD` after `for u, vs in G_new.items(): for v in vs: InD[v] += 1` -/
def indeg (gn : Graph) (n : Nat) : Nat → Nat :=
  (List.range n).foldl (fun ind u => (gn u).foldl (fun ind v => fun i => if i = v then ind v + 1 else ind i) ind)
    (fun _ => 0)

structure T3 where
  q : List Nat
  ind : Nat → Nat
  out : List Nat                    -- `scc_schedule`
  pred : List (Nat × Option Nat)    -- `scc_pred`, latest entry first

def T3.done (s : T3) : Bool := s.q.isEmpty

/-- `InD[v] -= 1; if not InD[v]: Q.append(v); scc_pred[v] = u` -/
def relax (u : Nat) (s : T3) (v : Nat) : T3 :=
  let d := s.ind v - 1
  let ind' := fun i => if i = v then d else s.ind i
  if d = 0 then { s with ind := ind', q := s.q ++ [v], pred := (v, some u) :: s.pred }
  else { s with ind := ind' }

/-- one iteration of `while Q:`; `pick out Q` is the index of the element popped -/
def step3 (pick : List Nat → List Nat → Nat) (gn : Graph) (s : T3) : T3 :=
  match s.q with
  | [] => s
  | a :: r =>
    let i := pick s.out (a :: r) % (a :: r).length
    let u := (a :: r).getD i a
    (gn u).foldl (relax u) { s with q := (a :: r).eraseIdx i, out := s.out ++ [u] }

def topoInit (gn : Graph) (n : Nat) : T3 :=
  let ind := indeg gn n
  let q := (List.range n).filter (fun i => ind i == 0)
  ⟨q, ind, [], q.reverse.map (fun x => (x, none))⟩

def topo (pick : List Nat → List Nat → Nat) (gn : Graph) (n : Nat) : T3 :=
  iter T3.done (step3 pick gn) n (topoInit gn n)

/-- `Q.pop()` (DynamicSchedulePass: the deque is used as a stack) -/
def pickLast : List Nat → List Nat → Nat := fun _ q => q.length - 1
/-- `Q.pop(0)` (OpenLoopCLPass) -/
def pickFirst : List Nat → List Nat → Nat := fun _ _ => 0

def sccSchedule (pick : List Nat → List Nat → Nat) (gn : Graph) (n : Nat) : List Nat := (topo pick gn n).out

/-- the block order obtained by running the groups in schedule order -/
def expand (sccs : List (List Nat)) (sched : List Nat) : List Nat := sched.flatMap (fun i => sccs.getD i [])

/-! ## executable checkers for a real result (`scc check`) -/

/-- the vertices reachable from the members of `S` inside `dom`, computed by `fuel` rounds of successor closure -/
def closure (G : Graph) (dom : List Nat) : Nat → List Nat → List Nat
  | 0, S => S
  | n+1, S =>
    let new := (S.flatMap G).filter (fun v => decide (v ∈ dom))
    closure G dom n (new.foldl (fun acc v => if v ∈ acc then acc else acc ++ [v]) S)

/-- groups are non-empty, pairwise disjoint, duplicate-free, and cover exactly `V` -/
def partitionB (V : List Nat) (groups : List (List Nat)) : Bool :=
  groups.all (fun g => !g.isEmpty) &&
  decide (groups.flatten.Nodup) &&
  V.all (fun v => decide (v ∈ groups.flatten)) && groups.flatten.all (fun v => decide (v ∈ V))

/-- every member of the group is reachable from its first member, and reaches it, by paths inside the group -/
def stronglyB (G GT : Graph) (g : List Nat) : Bool :=
  match g with
  | [] => false
  | r :: _ =>
    let fwd := closure G g g.length [r]
    let bwd := closure GT g g.length [r]
    g.all (fun v => decide (v ∈ fwd) && decide (v ∈ bwd))

def groupOf (groups : List (List Nat)) (v : Nat) : Nat := groups.findIdx (fun g => decide (v ∈ g))

/-- every edge between two different groups goes forward in `order` (a list of group indices) -/
def orderTopoB (E : List (Nat × Nat)) (groups : List (List Nat)) (order : List Nat) : Bool :=
  E.all (fun e =>
    let gu := groupOf groups e.1
    let gv := groupOf groups e.2
    gu == gv || decide (order.idxOf gu < order.idxOf gv))

/-- `order` lists every group index exactly once -/
def orderPermB (groups : List (List Nat)) (order : List Nat) : Bool :=
  decide (order.Nodup) && order.all (fun i => decide (i < groups.length)) && decide (order.length = groups.length) &&
  (List.range groups.length).all (fun i => decide (i ∈ order))

/-- the condensation has no cycle: Kahn's elimination on the group graph removes every group -/
def condEdges (E : List (Nat × Nat)) (groups : List (List Nat)) : List (Nat × Nat) :=
  (E.map (fun e => (groupOf groups e.1, groupOf groups e.2))).filter (fun e => e.1 != e.2)

def elim (CE : List (Nat × Nat)) : Nat → List Nat → List Nat
  | 0, live => live
  | n+1, live =>
    elim CE n (live.filter (fun v => CE.any (fun e => e.2 == v && decide (e.1 ∈ live))))

def acyclicB (E : List (Nat × Nat)) (groups : List (List Nat)) : Bool :=
  (elim (condEdges E groups) groups.length (List.range groups.length)).isEmpty

end PV.Scc
