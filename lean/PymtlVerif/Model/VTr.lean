import PymtlVerif.Model.SV
/-
Typed behavioural RTLIR (`RExpr`, `RStmt`: the tree `BehavioralRTLIRGenL1–L5` builds, after
`BehavioralRTLIRTypeCheckL1–L5` annotated it with widths), its PyMTL-simulation semantics
(`evalPy`, `execPy`: PythonBits arithmetic, Python control flow, exceptions = `none`) and the
translation to SystemVerilog / Yosys-Verilog (`tr`, `trStmt`) mirroring, clause by clause,

  passes/backends/verilog/translation/behavioral/VBehavioralTranslatorL1.py   visit_Number, visit_SizeCast,
      visit_Concat, visit_ZeroExt, visit_SignExt (all templates, as repaired by the fix: commits for F13/F16), visit_Truncate, visit_Reduce,
      visit_Attribute, visit_Index, visit_Slice (`[hi-1:lo]`, `+:`), visit_FreeVar, visit_Assign
  …/VBehavioralTranslatorL2.py   visit_If, visit_For, visit_IfExp, visit_UnaryOp, visit_BinOp, visit_Compare,
      visit_LoopVar, visit_TmpVar, visit_expr_wrap (parentheses only group: no AST node)
  …/VBehavioralTranslatorL3.py   visit_Attribute (struct member), visit_StructInst
  passes/backends/yosys/translation/behavioral/YosysBehavioralTranslatorL1–L3.py   visit_SizeCast,
      visit_Attribute / visit_FreeVar (constants inlined as literals), struct members mangled to
      `a__b`, visit_For / visit_LoopVar (`integer __loopvar__<blk>_<i>`: a variable of a SIGNED type, so that every
      use `N'(__loopvar__<blk>_<i>)` is a signed expression — IEEE 1800-2017 §6.24.1 — see `signSafe`).

Every node carries the width the type checker computed for it (`node.Type.get_dtype().get_length()`),
so `width` is syntactic; `WT` (Proofs/SV.lean) says that these annotations are consistent.
Names of sub-component and interface signals (`s.c[1].out` → `c__out[1]`, `s.ifc.msg` → `ifc__msg`,
VBehavioralTranslatorL4/L5) are mangled by the harness converter and arrive as `sig`.

The store is the SystemVerilog store (`SV.Store`): PyMTL signal `s.x` lives in variable `x`, a
bitstruct-typed signal as its packed `to_bits()` value (layout: Model/Flat.lean, C06), a list of
signals as the unpacked elements.

Mathlib-free: linked into the native driver `pv_sv`.
-/
namespace PV.VTr
open PV.SV

inductive Backend where | verilog | yosys
deriving DecidableEq, Repr, Inhabited

inductive ROp where | and | or | xor
deriving DecidableEq, Repr, Inhabited

inductive RBin where | add | sub | mul | mod | and | or | xor | shl | shr
deriving DecidableEq, Repr, Inhabited

inductive RCmp where | eq | ne | lt | le | gt | ge
deriving DecidableEq, Repr, Inhabited

inductive RExpr where
  | num (w v : Nat)                          -- bir.Number re-sized to `w` bits by the type checker
  | castC (w v : Nat)                        -- bir.SizeCast whose operand has a known value: BitsW(v)
  | cast (w : Nat) (e : RExpr)               -- bir.SizeCast of an expression
  | sig (x : String) (w : Nat)               -- s.x (port / wire; mangled sub-component or interface signal)
  | const (x : String) (w v : Nat)           -- s.K, a constant attribute (localparam K)
  | freevar (x : String) (w v : Nat)         -- closure / global constant (localparam __const__x)
  | loopvar (blk x : String) (w : Nat)
  | tmpvar (x : String) (w : Nat) (explicit : Bool)     -- x is the full name __tmpvar__<blk>_<name>
  | field (e : RExpr) (f : String) (w : Nat) -- struct member
  | index (e i : RExpr) (w : Nat)            -- array element / packed-array element / bit
  | slice (e : RExpr) (lo hi lw uw : Nat)    -- e[lo:hi] with constant bounds; lw/uw: widths of the bound literals
  | partsel (e b : RExpr) (w : Nat)          -- e[b : b + w]
  | cat1 (e : RExpr)                         -- concat( e )
  | concat (a rest : RExpr)                  -- concat( a, rest… ): `rest` is the last argument or another `concat`
  | zext (w : Nat) (e : RExpr)
  | sext (w : Nat) (e : RExpr)
  | trunc (w : Nat) (e : RExpr)
  | reduce (op : ROp) (e : RExpr)
  | inv (e : RExpr)                          -- ~e
  | bin (op : RBin) (a b : RExpr)
  | cmp (op : RCmp) (a b : RExpr)
  | ifexp (c t f : RExpr)
deriving Repr, Inhabited

def RExpr.width : RExpr → Nat
  | .num w _ => w | .castC w _ => w | .cast w _ => w | .sig _ w => w | .const _ w _ => w
  | .freevar _ w _ => w | .loopvar _ _ w => w | .tmpvar _ w _ => w | .field _ _ w => w | .index _ _ w => w
  | .slice _ lo hi _ _ => hi - lo | .partsel _ _ w => w
  | .cat1 e => e.width | .concat a r => a.width + r.width
  | .zext w _ => w | .sext w _ => w | .trunc w _ => w | .reduce _ _ => 1
  | .inv e => e.width | .bin _ a _ => a.width | .cmp _ _ _ => 1 | .ifexp _ t _ => t.width

/-! ### PyMTL simulation semantics -/

def loopVarName (be : Backend) (blk x : String) : String :=
  match be with
  | .verilog => x
  | .yosys => "__loopvar__" ++ blk ++ "_" ++ x

/-- PythonBits binary operators on two `W`-bit values (Model/Bits.lean `binRaw`); `none` = exception -/
def pyBin (op : RBin) (W a b : Nat) : Option Nat :=
  match op with
  | .add => some ((a + b) % 2 ^ W)
  | .sub => some ((a + 2 ^ W - b) % 2 ^ W)
  | .mul => some ((a * b) % 2 ^ W)
  | .mod => if b = 0 then none else some (a % b)
  | .and => some (a &&& b)
  | .or => some (a ||| b)
  | .xor => some (a ^^^ b)
  | .shl => some (if b ≥ W then 0 else (a * 2 ^ b) % 2 ^ W)
  | .shr => some (a / 2 ^ b)

def pyCmp (op : RCmp) (a b : Nat) : Nat :=
  match op with
  | .eq => b2n (a == b) | .ne => b2n (a != b) | .lt => b2n (decide (a < b))
  | .le => b2n (decide (a ≤ b)) | .gt => b2n (decide (a > b)) | .ge => b2n (decide (a ≥ b))

def pyReduce (op : ROp) (W a : Nat) : Nat :=
  match op with
  | .and => b2n (a == 2 ^ W - 1)
  | .or => b2n (a != 0)
  | .xor => parity W a

/-- `sext`: two's complement reading of a `cw`-bit value, re-encoded on `w` bits -/
def pySext (cw w a : Nat) : Nat := if a ≥ 2 ^ (cw - 1) then a + 2 ^ w - 2 ^ cw else a

mutual
/-- value of an expression in the PyMTL simulation; `none` = the simulation raises (or the node is
    outside the modelled fragment) -/
def evalPy (be : Backend) (Γ : Env) (σ : Store) : RExpr → Option Nat
  | .num _ v => some v
  | .castC _ v => some v
  | .cast _ e => evalPy be Γ σ e
  | .sig x w => match refPy be Γ σ (.sig x w) with | some l => some (readLoc σ l) | none => none
  | .const _ _ v => some v                       -- the Python constant itself (SV side: localparam, `HoldsC`)
  | .freevar _ _ v => some v
  | .loopvar blk x w =>
    let v := σ.get (loopVarName be blk x, 0)
    if v < 2 ^ w then some v else none           -- an int too wide for the Bits operand raises
  | .tmpvar x w ex => match refPy be Γ σ (.tmpvar x w ex) with | some l => some (readLoc σ l) | none => none
  | .field e f w => match refPy be Γ σ (.field e f w) with | some l => some (readLoc σ l) | none => none
  | .index e i w => match refPy be Γ σ (.index e i w) with | some l => some (readLoc σ l) | none => none
  | .slice e lo hi lw uw =>
    match refPy be Γ σ (.slice e lo hi lw uw) with | some l => some (readLoc σ l) | none => none
  | .partsel e b w => match refPy be Γ σ (.partsel e b w) with | some l => some (readLoc σ l) | none => none
  | .cat1 e => evalPy be Γ σ e
  | .concat a r => do some ((← evalPy be Γ σ a) * 2 ^ r.width + (← evalPy be Γ σ r))
  | .zext _ e => evalPy be Γ σ e
  | .sext w e => do some (pySext e.width w (← evalPy be Γ σ e))
  | .trunc w e => do some ((← evalPy be Γ σ e) % 2 ^ w)
  | .reduce op e => do some (pyReduce op e.width (← evalPy be Γ σ e))
  | .inv e => do some (2 ^ e.width - 1 - (← evalPy be Γ σ e))
  | .bin op a b => do pyBin op a.width (← evalPy be Γ σ a) (← evalPy be Γ σ b)
  | .cmp op a b => do some (pyCmp op (← evalPy be Γ σ a) (← evalPy be Γ σ b))
  | .ifexp c t f => do
    if (← evalPy be Γ σ c) ≠ 0 then evalPy be Γ σ t else evalPy be Γ σ f
/-- the storage a signal expression denotes (Python `IndexError` = `none`) -/
def refPy (be : Backend) (Γ : Env) (σ : Store) : RExpr → Option Loc
  | .sig x _ => match Γ x with | some d => some ⟨x, 0, 0, d.ty, d.dims, true⟩ | none => none
  | .tmpvar x _ _ => match Γ x with | some d => some ⟨x, 0, 0, d.ty, d.dims, true⟩ | none => none
  | .field e f _ =>
    match refPy be Γ σ e with
    | some ⟨x, el, lo, .struct _ fs, [], ok⟩ =>
      match fs.find f with
      | some (off, t) => some ⟨x, el, lo + off, t, [], ok⟩
      | none => none
    | _ => none
  | .index e i _ =>
    match refPy be Γ σ e, evalPy be Γ σ i with
    | some ⟨x, el, lo, t, d :: ds, ok⟩, some iv =>
      if iv < d then some ⟨x, stepDim el d iv, lo, t, ds, ok⟩ else none
    | some ⟨x, el, lo, .arr n t, [], ok⟩, some iv =>
      if iv < n then some ⟨x, el, lo + iv * t.width, t, [], ok⟩ else none
    | some ⟨x, el, lo, .vec w, [], ok⟩, some iv =>
      if iv < w then some ⟨x, el, lo + iv, .vec 1, [], ok⟩ else none
    | _, _ => none
  | .slice e lo' hi _ _ =>
    match refPy be Γ σ e with
    | some ⟨x, el, lo, .vec w, [], ok⟩ =>
      if lo' < hi ∧ hi ≤ w then some ⟨x, el, lo + lo', .vec (hi - lo'), [], ok⟩ else none
    | _ => none
  | .partsel e b k =>
    match refPy be Γ σ e, evalPy be Γ σ b with
    | some ⟨x, el, lo, .vec w, [], ok⟩, some bv =>
      if bv + k ≤ w then some ⟨x, el, lo + bv, .vec k, [], ok⟩ else none
    | _, _ => none
  | _ => none
end

/-! ### the translator -/

def trBin : RBin → BinOp
  | .add => .add | .sub => .sub | .mul => .mul | .mod => .mod | .and => .band | .or => .bor
  | .xor => .bxor | .shl => .shl | .shr => .shr

def trCmp : RCmp → BinOp
  | .eq => .eq | .ne => .ne | .lt => .lt | .le => .le | .gt => .gt | .ge => .ge

def trRed : ROp → UnOp
  | .and => .rand | .or => .ror | .xor => .rxor

/-- `{ { k { 1'b0 } }, v }` -/
def zextTpl (k : Nat) (v : Expr) : Expr := .concat (.repl (.num k) (.cat1 (.lit 1 0))) v
/-- `{ { k { b } }, v }` -/
def sextTpl (k : Nat) (b v : Expr) : Expr := .concat (.repl (.num k) (.cat1 b)) v

/-- mangled name of a struct-member chain in the Yosys backend: `a.b.c` → `a__b__c`; the indices met on
    the way (`ps[1].c.x`) are skipped here and re-applied after the name (`ps__c__x[1]`):
    YosysBehavioralTranslatorL1.signal_expr_epilogue renders `s_attr` (names) followed by `s_index` -/
def flatName : RExpr → Option String
  | .sig x _ => some x
  | .tmpvar x _ _ => some x
  | .field e f _ => (flatName e).map fun n => n ++ "__" ++ f
  | .index e _ _ => flatName e
  | _ => none

mutual
def tr (be : Backend) : RExpr → Expr
  | .num w v => .lit w v                                        -- visit_Number
  | .castC w v => .lit w (v % 2 ^ w)                            -- visit_SizeCast, `_value` known
  | .cast w e =>                                                -- visit_SizeCast
    match be with
    | .verilog => .cast w (tr be e)
    | .yosys =>
      if e.width = w then tr be e
      else if e.width > w then
        -- a part selection only of a plain signal name; otherwise the size cast visit_Truncate emits (fix b310bc9)
        match e with
        | .sig _ _ | .field _ _ _ | .index _ _ _ | .tmpvar _ _ true => .range (tr be e) (.num (w - 1)) (.num 0)
        | _ => .cast w (tr be e)
      else zextTpl (w - e.width) (tr be e)
  | .sig x _ => .ident x                                        -- visit_Attribute (Base)
  | .const x w v =>                                             -- visit_Attribute, rt.Const
    match be with
    | .verilog => .cast w (.ident x)
    | .yosys => .lit w v
  | .freevar x w v =>                                           -- visit_FreeVar
    match be with
    | .verilog => .cast w (.ident ("__const__" ++ x))
    | .yosys => .lit w v
  | .loopvar blk x w =>                                         -- visit_LoopVar
    match be with
    | .verilog => .cast w (.ident (loopVarName be blk x))       -- `int unsigned x`
    | .yosys => .cast w (.sgn (.ident (loopVarName be blk x)))  -- `integer __loopvar__…`: signed
  | .tmpvar x w ex => if ex then .ident x else .cast w (.ident x)   -- visit_TmpVar (not on the LHS)
  | .field e f w =>                                             -- L3 visit_Attribute
    match be with
    | .verilog => .member (tr be e) f
    | .yosys => match flatName (.field e f w) with | some n => idxY be (.ident n) e | none => .member (tr be e) f
  | .index e i _ => .index (tr be e) (tr be i)                  -- visit_Index
  | .slice e lo hi lw uw => .range (tr be e) (.lit uw (hi - 1)) (.lit lw lo)   -- visit_Slice
  | .partsel e b w => .plusSel (tr be e) (tr be b) (.num w)     -- visit_Slice, `+:`
  | .cat1 e => .cat1 (tr be e)                                  -- visit_Concat
  | .concat a r => .concat (tr be a) (tr be r)
  | .zext w e =>                                                -- visit_ZeroExt
    if w - e.width = 0 then tr be e else zextTpl (w - e.width) (tr be e)
  | .sext w e =>                                                -- visit_SignExt (as repaired: F13, F16)
    if w - e.width = 0 then tr be e else
    let k := w - e.width
    let v := tr be e
    -- `_selectable`: only the text of a signal can be bit-selected
    let selectable : Bool := match e with
      | .sig _ _ | .field _ _ _ | .index _ _ _ | .slice _ _ _ _ _ => true
      | .tmpvar _ _ ex => ex
      | _ => false
    -- a one-bit operand that is not an Attribute / TmpVar node is its own sign bit
    let attrOrTmp : Bool := match e with
      | .sig _ _ | .field _ _ _ | .const _ _ _ | .tmpvar _ _ _ => true
      | _ => false
    if e.width = 1 ∧ !attrOrTmp then sextTpl k v v
    else if !selectable then sextTpl k (.bin .ge v (.lit e.width (2 ^ (e.width - 1)))) v   -- `( v ) >= N'd2^(n-1)`
    else match e with
      | .slice b _ hi _ uw => sextTpl k (.index (tr be b) (.lit uw (hi - 1))) v            -- `x[hi-1:lo]` → `x[hi-1]`
      | _ => sextTpl k (.index v (.num (e.width - 1))) v                                  -- `v[last_bit]`
  | .trunc w e => if e.width > w then .cast w (tr be e) else tr be e   -- visit_Truncate
  | .reduce op e => .un (trRed op) (tr be e)                    -- visit_Reduce
  | .inv e => .un .bnot (tr be e)                               -- visit_UnaryOp
  | .bin op a b => .bin (trBin op) (tr be a) (tr be b)          -- visit_BinOp
  | .cmp op a b => .bin (trCmp op) (tr be a) (tr be b)          -- visit_Compare
  | .ifexp c t f => .cond (tr be c) (tr be t) (tr be f)         -- visit_IfExp

/-- Yosys backend: re-apply, after the flattened name, the indices met along a member chain -/
def idxY (be : Backend) (base : Expr) : RExpr → Expr
  | .field e _ _ => idxY be base e
  | .index e i _ => .index (idxY be base e) (tr be i)
  | _ => base
end

/-! ### signedness of the emitted expression

The Yosys backend declares loop variables `integer` and renders every use as `N'(__loopvar__…)`: a signed
expression.  An operator whose operands are ALL signed is evaluated signed (IEEE 1800-2017 §11.8.1); among the
emitted operators the result then differs from PyMTL's unsigned arithmetic for `< <= > >=` and `%` (`+ - * & | ^ ~
<< >> == !=` and `?:` give the same bits at the node's own width).  `signSafe` excludes exactly these nodes. -/

/-- the emitted expression is signed -/
def sgnOf (be : Backend) (e : RExpr) : Bool := signedOf (tr be e)

def RCmp.ordering : RCmp → Bool
  | .lt | .le | .gt | .ge => true
  | _ => false

/-- no sub-expression applies `< <= > >=` or `%` to two operands whose emitted forms are both signed -/
def signSafe (be : Backend) : RExpr → Bool
  | .cast _ e => signSafe be e
  | .field e _ _ => signSafe be e
  | .index e i _ => signSafe be e && signSafe be i
  | .slice e _ _ _ _ => signSafe be e
  | .partsel e b _ => signSafe be e && signSafe be b
  | .cat1 e => signSafe be e
  | .concat a r => signSafe be a && signSafe be r
  | .zext _ e => signSafe be e
  | .sext _ e => signSafe be e
  | .trunc _ e => signSafe be e
  | .reduce _ e => signSafe be e
  | .inv e => signSafe be e
  | .bin op a b => signSafe be a && signSafe be b && !(op == .mod && sgnOf be a && sgnOf be b)
  | .cmp op a b => signSafe be a && signSafe be b && !(op.ordering && sgnOf be a && sgnOf be b)
  | .ifexp c t f => signSafe be c && signSafe be t && signSafe be f
  | _ => true

/-- an assignment target: like `tr`, but a temporary is never cast (`is_assign_LHS`) -/
def trLhs (be : Backend) : RExpr → Expr
  | .tmpvar x _ _ => .ident x
  | e => tr be e

/-! ### statements -/

inductive RStmt where
  | skip
  | assign (blocking : Bool) (lhs rhs : RExpr)
  | ite (c : RExpr) (t e : RStmt)
  | seq (a b : RStmt)
  /-- `for x in range(start, stop, ±step)`; `sw ew pw`: widths of the three literals, `neg`: step < 0 -/
  | for_ (blk x : String) (start stop step : Nat) (neg : Bool) (sw ew pw : Nat) (body : RStmt)
deriving Repr, Inhabited

def trStmt (be : Backend) : RStmt → Stmt
  | .skip => .skip
  | .assign true l r => .blocking (trLhs be l) (tr be r)        -- visit_Assign: `=` / `<=`
  | .assign false l r => .nonblocking (trLhs be l) (tr be r)
  | .ite c t e => .ite (tr be c) (trStmt be t) (trStmt be e)    -- visit_If
  | .seq a b => .seq (trStmt be a) (trStmt be b)
  | .for_ blk x start stop step neg sw ew pw body =>            -- visit_For
    let v := loopVarName be blk x
    match be with
    | .verilog =>
      .for_ true v (.lit sw start) (.bin (if neg then .gt else .lt) (.ident v) (.lit ew stop))
        (.bin (if neg then .sub else .add) (.ident v) (.lit pw step)) (trStmt be body)
    | .yosys =>
      -- YosysBehavioralTranslatorL2.visit_For: the comparison is `<` for either sign of the step
      -- (the `integer` loop variable is signed; the header compares it with / adds to it an unsigned literal)
      .for_ false v (.lit sw start) (.bin .lt (.sgn (.ident v)) (.lit ew stop))
        (.bin (if neg then .sub else .add) (.sgn (.ident v)) (.lit pw step)) (trStmt be body)

/-- the values `range(start, stop, ±step)` takes (fuel = an upper bound on their number) -/
def signSafeS (be : Backend) : RStmt → Bool
  | .skip => true
  | .assign _ l r => signSafe be l && signSafe be r
  | .ite c t e => signSafe be c && signSafeS be t && signSafeS be e
  | .seq a b => signSafeS be a && signSafeS be b
  | .for_ _ _ _ _ _ _ _ _ _ body => signSafeS be body

def pyRange (start stop step : Nat) (neg : Bool) : Nat → List Nat
  | 0 => []
  | fuel+1 =>
    if neg then
      if start > stop then start :: (if start ≥ step then pyRange (start - step) stop step neg fuel else [])
      else []
    else
      if start < stop then start :: pyRange (start + step) stop step neg fuel else []

/-- execution of a statement in the PyMTL simulation (`@=` writes the signal, `<<=` its shadow) -/
def execPy (be : Backend) (Γ : Env) : RStmt → XS → Option XS
  | .skip, s => some s
  | .assign blocking l r, s => do
    let lc ← refPy be Γ s.σ l
    let v ← evalPy be Γ s.σ r
    if v < 2 ^ lc.ty.width then
      if blocking then some { s with σ := writeLoc s.σ lc v }
      else some { s with nba := s.nba ++ [(lc, v)] }
    else none
  | .ite c t e, s => do
    if (← evalPy be Γ s.σ c) ≠ 0 then execPy be Γ t s else execPy be Γ e s
  | .seq a b, s => do execPy be Γ b (← execPy be Γ a s)
  | .for_ blk x start stop step neg _ _ _ body, s =>
    (pyRange start stop step neg (start + stop + 1)).foldl
      (fun acc i => do
        let s ← acc
        execPy be Γ body { s with σ := s.σ.set (loopVarName be blk x, 0) i })
      (some s)

end PV.VTr
