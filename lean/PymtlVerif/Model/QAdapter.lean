import PymtlVerif.Model.Queue
/-!
# Queues reached through the level adapters; message ownership (property C17, second part)

Models of the two adapters `connect` inserts between an RTL en/rdy interface and a CL method interface
(`pymtl3/stdlib/ifcs/send_recv_ifcs.py`), composed with the queue models of `Model/Queue.lean`:

* `RecvRTL2SendCL` (RTL producer → CL callee): no storage.  `up_recv_rtl_rdy`: `recv.rdy = send.rdy() & ~reset`;
  `up_send_cl`: `if recv.en: send( clone_deepcopy( recv.msg ) )` (before the repair 7f778b6: `send( recv.msg )`, the
  live signal object itself).  Composed with a CL queue (`clStep`) as `r2cStep`.
* `RecvCL2SendRTL` (CL caller → RTL consumer): one storage slot `entry`, written by the method `recv`
  (`entry = clone_deepcopy( msg )`, ready iff `entry is None`), shown on `send.msg` with `send.en = send.rdy` by
  `up_send_rtl`, cleared by `up_clear` in the NEXT cycle iff `send.en` was left high.  `c2rStep`; composed with any
  queue machine as `composeStep`.

Ownership is modelled the way `Model/BitStruct.lean` models aliasing for C06: a message OBJECT is a heap cell
(an id), its value is what the heap holds at that id now; `clone_deepcopy` = a new cell; `@=` on a signal = writing
the signal's cell in place.  A CL queue stores what it is given: cell ids (`clStep` at `α := Nat`).

No Mathlib; linked into `pv_qadapter`.
-/
namespace PV.QAdapter
open PV.Queue

/-! ## heap of message objects -/

structure Heap (α : Type) where
  val  : Nat → α      -- the value an object shows now
  next : Nat          -- next unused id

/-- rewriting object `c` in place (`sig @= v`, or a consumer scribbling over what it was given) -/
def Heap.write {α} (h : Heap α) (c : Nat) (v : α) : Heap α :=
  { h with val := fun i => if i = c then v else h.val i }

/-- a new object holding `v` (`clone_deepcopy`) -/
def Heap.alloc {α} (h : Heap α) (v : α) : Heap α × Nat :=
  ({ val := fun i => if i = h.next then v else h.val i, next := h.next + 1 }, h.next)

/-- the live signal object `recv.msg` (= the producer's `send.msg`: one net, one object) -/
def sig : Nat := 0

/-! ## RTL producer → `RecvRTL2SendCL` → CL queue → CL consumer -/

structure R2C (α : Type) where
  h : Heap α
  q : List Nat        -- the `deque` of the CL queue: object ids, newest at the left

def R2C.init {α} (d : α) : R2C α := ⟨⟨fun _ => d, 1⟩, []⟩

/-- The queue's method constraints order the METHOD `enq` (pipe: after `deq`), not `enq.rdy`: the adapter samples
`enq.rdy()` in its own block `up_recv_rtl_rdy`, and for `PipeQueueCL` the scheduler is free to run that block before
the consumer's block (`early`).  Then the ready flag is `len < n` of the queue before the dequeue while the enqueue
itself still comes after the dequeue: the behaviour of a normal queue. -/
def effKind (early : Bool) : Kind → Kind
  | .pipe => if early then .normal else .pipe
  | k => k

/-- One cycle.  `i.msg`: the value the producer's block writes into its message signal this cycle (every cycle,
handshake or not); `i.enq`: the producer wants to send (`send.en = send.rdy & want`); `i.deq`: the consumer wants to
dequeue; `i.rst`: the design's reset (only the adapter looks at it).  `aliased`: the adapter as it was before the
repair.  Outputs: `enqRdy` = `recv.rdy`, `deqRdy` = `deq.rdy()`, `ret` = the VALUE of the object at the front as the
consumer reads it, `count` = `len(queue)` before the cycle. -/
def r2cStep {α} (aliased early : Bool) (k : Kind) (n : Nat) (s : R2C α) (i : In α) : R2C α × Out α :=
  let h1 := s.h.write sig i.msg
  let c := if aliased then sig else h1.next
  let r := clStep (effKind early k) n s.q { rst := false, enq := i.enq && !i.rst, msg := c, deq := i.deq }
  let took := (i.enq && !i.rst) && r.2.enqRdy
  let h2 := if took && !aliased then (h1.alloc i.msg).1 else h1
  ({ h := h2, q := r.1 },
   { enqRdy := r.2.enqRdy && !i.rst, deqRdy := r.2.deqRdy, ret := r.2.ret.map h2.val, count := r.2.count })

/-- the object ids in the queue after each cycle (for the identity comparison with the real `deque`) -/
def r2cCells {α} (aliased early : Bool) (k : Kind) (n : Nat) : R2C α → List (In α) → List (List Nat)
  | _, [] => []
  | s, i :: is => (r2cStep aliased early k n s i).1.q :: r2cCells aliased early k n (r2cStep aliased early k n s i).1 is

/-- the object handed to the consumer in this cycle, if any -/
def r2cPopped {α} (aliased early : Bool) (k : Kind) (n : Nat) (s : R2C α) (i : In α) : Option Nat :=
  let c := if aliased then sig else (s.h.write sig i.msg).next
  let r := clStep (effKind early k) n s.q { rst := false, enq := i.enq && !i.rst, msg := c, deq := i.deq }
  if i.deq && r.2.deqRdy then r.2.ret else none

/-- what the adapter does to the producer's offer / to the ready flag -/
def gateIn {α} (i : In α) : In α := { rst := false, enq := i.enq && !i.rst, msg := i.msg, deq := i.deq }
def gateOut {α} (i : In α) (o : Out α) : Out α := { o with enqRdy := o.enqRdy && !i.rst }

/-! ## CL producer → `RecvCL2SendRTL` → RTL queue -/

structure C2R (α : Type) where
  entry : Option α
  sent  : Bool        -- `send.en` as the previous cycle left it (what `up_clear` reads)

def C2R.init {α} : C2R α := ⟨none, false⟩

/-- One cycle of `RecvCL2SendRTL`.  `i.enq`: the CL producer wants to call `recv` (it does iff `recv.rdy()`),
`i.msg` its message (copied), `i.deq`: `send.rdy`.  Order fixed by `add_constraints`: `up_clear`, `recv.rdy` / `recv`,
`up_send_rtl`.  Outputs: `enqRdy` = `recv.rdy()`, `deqRdy` = `send.en`, `ret` = `send.msg` when `send.en`. -/
def c2rStep {α} (s : C2R α) (i : In α) : C2R α × Out α :=
  let e1 := if s.sent then none else s.entry
  let rdy := e1.isNone
  let e2 := if i.enq && rdy then some i.msg else e1
  let en := e2.isSome && i.deq
  ({ entry := e2, sent := en },
   { enqRdy := rdy, deqRdy := en, ret := if en then e2 else none, count := if e1.isSome then 1 else 0 })

/-- the slot as a FIFO content -/
def c2rAbs {α} (s : C2R α) : List α := if s.sent then [] else s.entry.toList

/-- what the adapter and the queue behind it see in one cycle of the composition -/
structure Obs (α : Type) where
  aIn  : In α
  aOut : Out α
  bIn  : In α
  bOut : Out α

/-- One cycle of adapter + queue machine `inner`.  The outer input: `enq`/`msg` = the CL producer's offer,
`deq` = the dequeue-side input of the queue, `rst` = the queue's reset.  `enq.rdy` of every queue is a function of its
state, reset and the dequeue side only, so it is read off a run of the queue with no enqueue offered. -/
def composeStep {σ α} (inner : σ → In α → σ × Out α) (s : C2R α × σ) (i : In α) : (C2R α × σ) × Obs α :=
  let probe := (inner s.2 { rst := i.rst, enq := false, msg := i.msg, deq := i.deq }).2.enqRdy
  let aIn : In α := { rst := false, enq := i.enq, msg := i.msg, deq := probe }
  let a := c2rStep s.1 aIn
  let bIn : In α := { rst := i.rst, enq := a.2.deqRdy, msg := a.2.ret.getD i.msg, deq := i.deq }
  let b := inner s.2 bIn
  ((a.1, b.1), ⟨aIn, a.2, bIn, b.2⟩)

def composeRun {σ α} (inner : σ → In α → σ × Out α) : C2R α × σ → List (In α) → List (Obs α)
  | _, [] => []
  | s, i :: is => (composeStep inner s i).2 :: composeRun inner (composeStep inner s i).1 is

def composeState {σ α} (inner : σ → In α → σ × Out α) : C2R α × σ → List (In α) → C2R α × σ
  | s, [] => s
  | s, i :: is => composeState inner (composeStep inner s i).1 is

/-- the ledger of the composition: accepted at the adapter's `recv`, delivered at the queue's dequeue side -/
def outerLedgerFrom {α} (st : Style) : Ledger α → List (Obs α) → Ledger α
  | L, [] => L
  | L, o :: os =>
    outerLedgerFrom st
      ⟨ if accepted o.aIn o.aOut then L.acc ++ [o.aIn.msg] else L.acc,
        if delivered st o.bIn o.bOut then L.del ++ o.bOut.ret.toList else L.del ⟩ os

/-- the composition with a queue class of `Model/Queue.lean` (the dispatch of `runCls`) -/
def composeCls {α} (c : Cls) (n : Nat) (d : α) (is : List (In α)) : List (Obs α) :=
  match c with
  | .qNormal | .qPipe | .qBypass =>
    if n = 1 then composeRun (q1Step c.kind) (C2R.init, One.init d) is
    else composeRun (ringStep true c.kind n) (C2R.init, Ring.init d) is
  | .sNormal | .sPipe | .sBypass =>
    if n = 1 then composeRun (s1Step c.kind) (C2R.init, One.init d) is
    else composeRun (ringStep false c.kind n) (C2R.init, Ring.init d) is
  | .erNormal1 | .erPipe1 | .erBypass1 => composeRun (er1Step c.kind) (C2R.init, One.init d) is
  | .erBypass2 => composeRun er2Step (C2R.init, (One.init d, One.init d)) is
  | .vrNormal1 | .vrPipe1 | .vrBypass1 => composeRun (v1Step c.kind) (C2R.init, One.init d) is
  | .vrNormalN => composeRun (vrStep n) (C2R.init, VRing.init d) is
  | .clNormal | .clPipe | .clBypass => composeRun (clStep c.kind n) (C2R.init, []) is

/-! ## chains of places (ledger level) -/

/-- the ledger of one place of a pipeline: what it accepted, what it delivered, what is inside, its capacity -/
structure PlaceLedger (α : Type) where
  acc    : List α
  del    : List α
  inside : List α
  cap    : Nat

/-- the place is a FIFO: accepted = delivered ++ inside, and it holds at most `cap` -/
def PlaceLedger.ok {α} (p : PlaceLedger α) : Prop := p.acc = p.del ++ p.inside ∧ p.inside.length ≤ p.cap

/-- consecutive places are joined by hand-overs: what one delivers is what the next accepts -/
def Linked {α} : List (PlaceLedger α) → Prop
  | p :: q :: rest => p.del = q.acc ∧ Linked (q :: rest)
  | _ => True

/-- everything inside the pipeline, oldest first: the last place's content first -/
def chainInside {α} : List (PlaceLedger α) → List α
  | [] => []
  | p :: rest => chainInside rest ++ p.inside

def chainCap {α} : List (PlaceLedger α) → Nat
  | [] => 0
  | p :: rest => p.cap + chainCap rest

def chainDel {α} : PlaceLedger α → List (PlaceLedger α) → List α
  | p, [] => p.del
  | _, q :: rest => chainDel q rest

end PV.QAdapter
