/-!
# Model of the read / write / call extraction from update-block source

`pymtl3/dsl/AstHelper.py` — `DetectVarNames._get_full_name_starting_py39` (the variant the interpreter in use selects),
`DetectReadsWritesCalls` (`enter`, `visit_Assign`, `visit_AugAssign`, `visit_Attribute`, `visit_Subscript`, `visit_Call`,
`visit_For`, everything else through `ast.NodeVisitor.generic_visit`), `extract_reads_writes_calls` — and
`pymtl3/dsl/ComponentLevel2.py` — `_elaborate_read_write_func.extract_obj_from_names` (`lookup_variable`,
`expand_array_index`): how the name tuples become sets of objects.

## The AST (`Node`)

One type for expressions, statements and their parts, as `ast.NodeVisitor` sees them:

* the node classes the visitor or `_get_full_name` distinguishes have their own constructor: `Name`, `Constant` holding a
  number (`ast.Num`: `num`) or a string (`ast.Str`: `str`), `Attribute`, `Subscript`, `Slice`, `Call`, `Assign`, `AugAssign`,
  `For`;
* every other node is `node k cs`: `cs` are its child nodes in field order, which is all `generic_visit` (and `ast.walk`)
  looks at; `k` keeps the classes `_get_full_name` tests an index expression for (`BinOp`, `UnaryOp`, `IfExp`) and the
  ones the statements of `Props/C02a.lean` name (`If`, `While`, `BoolOp`, `Compare`, `Tuple`, `Expr`); a list-valued field
  of a compound statement (`If.body`, `If.orelse`, ...) is grouped as one pseudo node `node .block stmts`, which neither
  changes the order of the visit nor what `ast.walk` finds;
* `nil` is an absent optional child (`Slice.lower` ...), a leaf constant that is neither number nor string is `node .gen []`.

## The extraction

The visitor appends to three lists; here one visit returns the appended records in order, tagged `rd` / `wr` / `fc`
(`Ev`), or the exception that aborts the elaboration (`Err`).  `self.current_op` is `None` whenever a statement is
visited (a statement never occurs inside an assignment target in a Python AST), so its set / reset around the target of
an `AugAssign` / `For` is the parameter `op`.  `_get_full_name` walks from the outermost subscript inwards with two
`while` loops and reverses at the end; `chain` is the same walk as a recursion that builds the name on the way back
(same records in the same order, same exception): `strip = true` is the first loop ("First strip off all slices"), and
the name is the flat list of steps `fld a` / `sel i` instead of `[(a, [i, ...]), ...]` (the driver groups it back).
The `nodelist` (used for line numbers in messages) is not modelled.

The code modelled is the repaired visitor: `visit_Call` visits keyword arguments; `visit_Attribute` / `visit_Subscript` /
`visit_Call` fall back to `generic_visit` when `_get_full_name` finds no name (a call result as base); `enter` removes
every `Name` the statement stores to from the module-level names; a stripped slice whose bounds are not both constant is
recorded as `"*"`; every index expression that is not a number or a name is visited; parameters and other names bound
without a `Name` node are local.
-/
namespace PV.AstRW

inductive Ctx where
  | load | store | del
deriving DecidableEq, Repr, Inhabited

inductive Kind where
  | binOp | unaryOp | ifExp | boolOp | compare | tuple | ifS | whileS | exprS | block | gen
deriving DecidableEq, Repr, Inhabited

inductive Node where
  | nil
  | name (id : String) (ctx : Ctx)
  | num (n : Int)
  | str
  | attr (v : Node) (a : String) (ctx : Ctx)
  | sub (v : Node) (i : Node) (ctx : Ctx)
  | slice (lo up st : Node)
  | call (f : Node) (args kws : List Node)
  | assign (ts : List Node) (v : Node)
  | aug (t : Node) (op : String) (v : Node)
  | for_ (t it : Node) (body orelse : List Node)
  | node (k : Kind) (cs : List Node)
deriving Repr, Inhabited

/-- a slice bound the analysis keeps: a literal or `(is_closure, name)` -/
inductive Bound where
  | num (n : Int)
  | var (closure : Bool) (x : String)
deriving DecidableEq, Repr, Inhabited

/-- one index marker of a name tuple: `"*"`, a literal, `(is_closure, name)`, `slice(low, up)` -/
inductive Idx where
  | star
  | num (n : Int)
  | var (closure : Bool) (x : String)
  | slice (lo up : Bound)
deriving DecidableEq, Repr, Inhabited

inductive NStep where
  | fld (a : String)
  | sel (i : Idx)
deriving DecidableEq, Repr, Inhabited

/-- `[('s', []), ('x', [1, '*']), ('y', [])]` is `[fld s, fld x, sel 1, sel *, fld y]` -/
abbrev ObjName := List NStep

/-- the third component of a record: `None`, `'for'`, or the operator node of the `AugAssign` (its class name) -/
inductive Op where
  | none
  | for_
  | aug (op : String)
deriving DecidableEq, Repr, Inhabited

inductive K where
  | rd | wr | fc
deriving DecidableEq, Repr, Inhabited

structure Ev where
  kind : K
  name : ObjName
  op   : Op
deriving DecidableEq, Repr, Inhabited

inductive Err where
  | sliceInMiddle   -- TypeError "Having slice in the middle ..."
  | badBase         -- `assert isinstance( node, ast.Str )` fails
  | multiSlice      -- `assert len(slices) == 1` fails (its message expression raises first on this interpreter)
  | badCtx          -- TypeError "Wrong ast node context" (`del s.x`)
deriving DecidableEq, Repr, Inhabited

/-- `self.closure` (`co_freevars`) and `self.globals` (the keys of `__globals__`, minus the local names so far) -/
structure Env where
  closure : List String
  globals : List String
deriving Repr, Inhabited

/-- `x in self.closure` → `(True, x)`, `x in self.globals` → `(False, x)`, else `"*"` -/
def nameIdx (env : Env) (x : String) : Idx :=
  if x ∈ env.closure then .var true x else if x ∈ env.globals then .var false x else .star

/-- `low` / `up` of the slice loop; `none` is Python's `None` -/
def bound? (env : Env) : Node → Option Bound
  | .num n => some (.num n)
  | .name x _ => if x ∈ env.closure then some (.var true x) else if x ∈ env.globals then some (.var false x) else none
  | _ => none

/-- `if low is not None and up is not None: slices.append( slice(low, up) )` / `else: slices.append( "*" )` (a slice with
a bound that is not a literal or a closure / module-level name is some part of the signal, like a variable index) -/
def knownSlice (env : Env) (lo up : Node) : List Idx :=
  match bound? env lo, bound? env up with
  | some a, some b => [.slice a b]
  | _, _ => [.star]

/-- the index expressions `_get_full_name` visits (`self.visit( v )`: every one that is not a number or a name; a `Slice`
is rejected before), and the marker it notes -/
def idxStep (env : Env) (i : Node) (whole : Unit → Except Err (List Ev)) : Except Err (List Ev × Idx) :=
  match i with
  | .num n => pure ([], .num n)
  | .name x _ => pure ([], nameIdx env x)
  | _ => do let e ← whole (); pure (e, .star)

/-- the end of `_get_full_name`: `assert len(slices) == 1`, `obj_name[0][1].append( slices[0] )` -/
def attachSlices (r : Option ObjName) (sl : List Idx) : Except Err (Option ObjName) :=
  match r with
  | none => pure none
  | some nm =>
    match sl with
    | [] => pure (some nm)
    | [s] => pure (some (nm ++ [.sel s]))
    | _ => throw .multiSlice

/-- `self.read.append` / `self.write.append` by the context of the node -/
def record (c : Ctx) (op : Op) (nm : ObjName) : Except Err (List Ev) :=
  match c with
  | .load => pure [⟨.rd, nm, op⟩]
  | .store => pure [⟨.wr, nm, op⟩]
  | .del => throw .badCtx

mutual
/-- `_get_full_name( n )` without the final slice handling: records appended by the visits of index expressions, the
name (`none`: `return None, None`), the markers of the stripped slices -/
def chain (env : Env) (op : Op) (strip : Bool) : Node → Except Err (List Ev × Option ObjName × List Idx)
  | .sub v (.slice lo up _) _ =>
    if strip then do
      let (e, r, sl) ← chain env op true v
      pure (e, r, knownSlice env lo up ++ sl)
    else throw .sliceInMiddle
  | .sub v i _ => do
    let (e1, idx) ← idxStep env i (fun _ => visit env op i)
    let (e2, r, _) ← chain env op false v
    pure (e1 ++ e2, r.map (· ++ [.sel idx]), [])
  | .attr v a _ => do
    let (e, r, _) ← chain env op false v
    pure (e, r.map (· ++ [.fld a]), [])
  | .name x _ => pure ([], some [.fld x], [])
  | .call .. => pure ([], none, [])
  | .str => pure ([], none, [])
  | _ => throw .badBase

/-- `DetectReadsWritesCalls.visit( n )` with `self.current_op = op` -/
def visit (env : Env) (op : Op) : Node → Except Err (List Ev)
  | .nil => pure []
  | .name .. => pure []
  | .num _ => pure []
  | .str => pure []
  | .attr v a c => do                                  -- visit_Attribute
    let (e, r, _) ← chain env op false v
    match r with
    | none => do                                       -- `return self.generic_visit( node )`
      let g ← visit env op v
      pure (e ++ g)
    | some nm => do
      let p ← record c op (nm ++ [.fld a])
      pure (e ++ p)
  | .sub v (.slice lo up st) c => do                   -- visit_Subscript, the outermost subscript is a slice
    let (e, r, sl) ← chain env op true v
    let r ← attachSlices r (knownSlice env lo up ++ sl)
    match r with
    | none => do
      let g ← visit env op v
      let g' ← visit env op (.slice lo up st)
      pure (e ++ g ++ g')
    | some nm => do
      let p ← record c op nm
      let e' ← visit env op (.slice lo up st)          -- self.visit( node.slice )
      pure (e ++ p ++ e')
  | .sub v i c => do                                   -- visit_Subscript
    let (e1, idx) ← idxStep env i (fun _ => visit env op i)
    let (e2, r, _) ← chain env op false v
    match r with
    | none => do
      let g ← visit env op v
      let g' ← visit env op i
      pure (e1 ++ e2 ++ g ++ g')
    | some nm => do
      let p ← record c op (nm ++ [.sel idx])
      let e' ← visit env op i
      pure (e1 ++ e2 ++ p ++ e')
  | .slice lo up st => do
    let a ← visit env op lo
    let b ← visit env op up
    let c ← visit env op st
    pure (a ++ b ++ c)
  | .call f args kws => do                             -- visit_Call
    let (e, r, sl) ← chain env op true f
    let r ← attachSlices r sl
    let g ← (match r with
      | none => visit env op f                         -- generic_visit: func, args, keywords
      | some nm => pure [⟨.fc, nm, .none⟩] : Except Err (List Ev))
    let a ← visitList env op args
    let k ← visitList env op kws
    pure (e ++ g ++ a ++ k)
  | .assign ts v => do                                 -- visit_Assign
    let a ← visitList env op ts
    let b ← visit env op v
    pure (a ++ b)
  | .aug t o v => do                                   -- visit_AugAssign
    let a ← visit env (.aug o) t
    let b ← visit env .none v
    pure (a ++ b)
  | .for_ t it body orelse => do                       -- visit_For
    let a ← visit env .for_ t
    let b ← visit env .none it
    let c ← visitList env .none body
    let d ← visitList env .none orelse
    pure (a ++ b ++ c ++ d)
  | .node _ cs => visitList env op cs                  -- generic_visit

def visitList (env : Env) (op : Op) : List Node → Except Err (List Ev)
  | [] => pure []
  | n :: ns => do
    let a ← visit env op n
    let b ← visitList env op ns
    pure (a ++ b)
end

/-- `_get_full_name( n )` as a whole (for reference; `visit` inlines it for `Attribute` / `Subscript` / `Call.func`) -/
def fullName (env : Env) (op : Op) (n : Node) : Except Err (List Ev × Option ObjName) := do
  let (e, r, sl) ← chain env op true n
  let r ← attachSlices r sl
  pure (e, r)

/-! ### `enter`: names bound inside the statement shadow module-level names -/

mutual
/-- the `local` set of `enter`: every `Name` with `Store` context anywhere in the statement (`ast.walk`); the names bound
without a `Name` node that `enter` adds (`ast.arg`, `ExceptHandler.name`, `ast.alias`) are rendered by the harness as a
`Name` child in `Store` context of their node, which `visit` does nothing with -/
def localsOf : Node → List String
  | .nil => []
  | .name x c => if c = .store then [x] else []
  | .num _ => []
  | .str => []
  | .attr v _ _ => localsOf v
  | .sub v i _ => localsOf v ++ localsOf i
  | .slice lo up st => localsOf lo ++ localsOf up ++ localsOf st
  | .call f args kws => localsOf f ++ localsOfList args ++ localsOfList kws
  | .assign ts v => localsOfList ts ++ localsOf v
  | .aug t _ v => localsOf t ++ localsOf v
  | .for_ t it body orelse => localsOf t ++ localsOf it ++ localsOfList body ++ localsOfList orelse
  | .node _ cs => localsOfList cs
def localsOfList : List Node → List String
  | [] => []
  | n :: ns => localsOf n ++ localsOfList ns
end

/-- `if local: self.globals = { k for k in self.globals if k not in local }` -/
def enterEnv (env : Env) (stmt : Node) : Env :=
  { env with globals := env.globals.filter (fun g => !(localsOf stmt).contains g) }

/-- `extract_reads_writes_calls`: one visitor, `enter` per statement of the function body (the shrunk `self.globals`
stays for the statements that follow) -/
def extractBody (env : Env) : List Node → Except Err (List Ev)
  | [] => pure []
  | s :: ss => do
    let env' := enterEnv env s
    let a ← visit env' .none s
    let b ← extractBody env' ss
    pure (a ++ b)

/-- `extract_reads_writes_calls` of a function with parameters: `visitor.globals` loses the parameter names first -/
def extractFn (env : Env) (params : List String) (body : List Node) : Except Err (List Ev) :=
  extractBody { env with globals := env.globals.filter (fun g => !params.contains g) } body

def Ev.isKind (k : K) (e : Ev) : Bool := e.kind = k

/-- the three lists `read`, `write`, `calls` -/
def split (evs : List Ev) : List Ev × List Ev × List Ev :=
  (evs.filter (Ev.isKind .rd), evs.filter (Ev.isKind .wr), evs.filter (Ev.isKind .fc))

/-! ## From names to objects: `extract_obj_from_names`

The component is a tree of objects (`Obj`), read off the elaborated design by the harness: a signal (`sig`; of a Bits
type: `nbits` wide and sliceable, of a bitstruct type: with its field signals), another `NamedObject` (`named`: component,
interface, method port), a Python list, `None`, or anything else (`other`; what indexing it gives is outside the model:
`LErr.opaque`).  Only the attributes that occur as identifiers in the analysed source are recorded in `fields`; an
attribute that is not listed raises `AttributeError`.  Bit slices of a signal are created on demand by
`Signal.__getitem__`; a slice of a slice is a slice of the same signal (`Val.slc`). -/

inductive Obj where
  | sig (id : Nat) (struct : Bool) (nbits : Nat) (fields : List (String × Obj))
  | named (id : Nat) (fields : List (String × Obj))
  | lst (elems : List Obj)
  | other (fields : List (String × Obj))
  | none
deriving Repr, Inhabited

/-- what an access chain evaluates to -/
inductive Val where
  | obj (o : Obj)
  | slc (id : Nat) (lo hi : Nat)        -- bits [lo, hi) of the Bits-typed signal `id`
  | func (name : String)                -- an `@s.func` function (`s._dsl.name_func[ name ]`)
deriving Repr, Inhabited

inductive LErr where
  | varNotDeclared      -- VarNotDeclaredError (AttributeError of getattr, TypeError of obj[idx])
  | invalidIndex        -- InvalidIndexError (assertion of Signal.__getitem__)
  | invalidConnection   -- InvalidConnectionError "We don't allow slicing on non-Bits signals." (not caught)
  | opaque              -- the model does not know (indexing / iterating an `other` object, a non-integer index value)
deriving DecidableEq, Repr, Inhabited

def assoc? {α : Type} (fs : List (String × α)) (a : String) : Option α :=
  match fs with
  | [] => Option.none
  | (k, v) :: rest => if k = a then some v else assoc? rest a

/-- attributes every Python list has (`s.got.append( x )`): the result is not a NamedObject -/
def listAttrs : List String :=
  ["append", "extend", "pop", "insert", "remove", "index", "count", "clear", "copy", "reverse", "sort"]

/-- `getattr( obj, field )` -/
def getattr (v : Val) (a : String) : Except LErr Val :=
  match v with
  | .obj (.sig _ _ _ fs) => match assoc? fs a with | some o => pure (.obj o) | Option.none => throw .varNotDeclared
  | .obj (.named _ fs) => match assoc? fs a with | some o => pure (.obj o) | Option.none => throw .varNotDeclared
  | .obj (.other fs) => match assoc? fs a with | some o => pure (.obj o) | Option.none => throw .varNotDeclared
  | .obj (.lst _) => if a ∈ listAttrs then pure (.obj (.other [])) else throw .varNotDeclared
  | .obj .none => throw .varNotDeclared
  | .slc .. => throw .varNotDeclared
  | .func _ => throw .varNotDeclared

/-- Python's `xs[k]` on a list: `none` is IndexError -/
def listIdx {α : Type} (xs : List α) (k : Int) : Option α :=
  if 0 ≤ k then xs[k.toNat]? else if -k ≤ xs.length then xs[(xs.length - (-k).toNat)]? else Option.none

/-- Python's `xs[a:b]` (step 1) -/
def listSlice {α : Type} (xs : List α) (a b : Int) : List α :=
  let n : Int := xs.length
  let norm (k : Int) : Nat := if k < 0 then (if k + n < 0 then 0 else (k + n).toNat) else (if k > n then xs.length else k.toNat)
  let lo := norm a; let hi := norm b
  (xs.drop lo).take (hi - lo)

/-- a resolved index: `obj[ k ]` or `obj[ a : b ]` -/
inductive CSel where
  | idx (k : Int)
  | slc (a b : Int)
deriving DecidableEq, Repr, Inhabited

/-- `Signal.__getitem__` on bits `[lo, lo + width)` of signal `id` -/
def sigIndex (id lo width : Nat) (c : CSel) : Except LErr Val :=
  let (start, stop) := match c with | .idx k => (k, k + 1) | .slc a b => (a, b)
  if 0 ≤ start ∧ start < stop ∧ stop ≤ width then pure (.slc id (lo + start.toNat) (lo + stop.toNat))
  else throw .invalidIndex

/-- `child = obj[ current_idx ]`; `none`: IndexError (`return`) -/
def getitem (v : Val) (c : CSel) : Except LErr (Option Val) :=
  match v with
  | .obj (.lst xs) =>
    match c with
    | .idx k => pure ((listIdx xs k).map Val.obj)
    | .slc a b => pure (some (.obj (.lst (listSlice xs a b))))
  | .obj (.sig id struct nbits _) =>
    if struct then throw .invalidConnection else do let r ← sigIndex id 0 nbits c; pure (some r)
  | .slc id lo hi => do let r ← sigIndex id lo (hi - lo) c; pure (some r)
  | .obj (.named ..) => throw .varNotDeclared
  | .obj (.other _) => throw .opaque
  | .obj .none => throw .varNotDeclared
  | .func _ => throw .varNotDeclared

def Val.isNone : Val → Bool
  | .obj .none => true
  | _ => false

/-- `isinstance( obj, NamedObject )` -/
def Val.isNamed : Val → Bool
  | .obj (.sig ..) => true
  | .obj (.named ..) => true
  | .slc .. => true
  | _ => false

mutual
/-- the `Q` loop of `lookup_variable` at the end of a name: every NamedObject of a (nested) list -/
def flattenObj : Obj → List Val
  | .sig id st nb fs => [.obj (.sig id st nb fs)]
  | .named id fs => [.obj (.named id fs)]
  | .lst xs => flattenList xs
  | .other _ => []
  | .none => []
def flattenList : List Obj → List Val
  | [] => []
  | x :: xs => flattenObj x ++ flattenList xs
end

/-- `lookup_variable` with the name exhausted -/
def lookEnd (v : Val) : List Val :=
  match v with
  | .obj o => flattenObj o
  | .slc id lo hi => [.slc id lo hi]
  | .func _ => []

/-- the values of closure / module-level names used as indices (`_closure[ name ]`, `_globals[ name ]`); `none`: not an
integer (outside the model) -/
abbrev Valuation := Bool → String → Option Int

def boundVal (σ : Valuation) : Bound → Except LErr Int
  | .num n => pure n
  | .var c x => match σ c x with | some k => pure k | Option.none => throw .opaque

/-- the elements `for i, child in enumerate( obj )` visits -/
def children (v : Val) : Except LErr (List Val) :=
  match v with
  | .obj (.lst xs) => pure (xs.map Val.obj)
  | _ => throw .opaque

mutual
/-- `lookup_variable` / `expand_array_index` over the flat name; the result is the list of objects added to `objs` -/
def look (σ : Valuation) : List NStep → Val → Except LErr (List Val)
  | [], v => if v.isNone then pure [] else pure (lookEnd v)
  | .fld a :: rest, v =>
    if v.isNone then pure [] else do
      let c ← getattr v a
      look σ rest c
  | .sel .star :: rest, v =>
    if v.isNone then pure [] else
    if v.isNamed then pure [v] else do            -- Signal[*] is the signal itself
      let cs ← children v
      lookAll σ rest cs
  | .sel (.num n) :: rest, v =>
    if v.isNone then pure [] else do
      match (← getitem v (.idx n)) with
      | Option.none => pure []
      | some c => look σ rest c
  | .sel (.var cl x) :: rest, v =>
    if v.isNone then pure [] else do
      let k ← boundVal σ (.var cl x)
      match (← getitem v (.idx k)) with
      | Option.none => pure []
      | some c => look σ rest c
  | .sel (.slice lo up) :: rest, v =>
    if v.isNone then pure [] else do
      let a ← boundVal σ lo
      let b ← boundVal σ up
      match (← getitem v (.slc a b)) with
      | Option.none => pure []
      | some c => look σ rest c
def lookAll (σ : Valuation) : List NStep → List Val → Except LErr (List Val)
  | _, [] => pure []
  | steps, v :: vs => do
    let a ← look σ steps v
    let b ← lookAll σ steps vs
    pure (a ++ b)
end

def isSel : NStep → Bool
  | .sel _ => true
  | .fld _ => false

/-- one record of `names`: a name that starts with `s` is looked up in the component (the indices of the first element
are ignored: `lookup_variable( s, 1, 1 )`), another one is kept if it is the name of an `@s.func` function -/
def lookName (σ : Valuation) (root : Obj) (funcs : List String) (nm : ObjName) : Except LErr (List Val) :=
  match nm with
  | .fld a :: rest =>
    if a = "s" then look σ (rest.dropWhile isSel) (.obj root)
    else if a ∈ funcs then pure [.func a] else pure []
  | _ => pure []

/-! ## The fragment the completeness theorem of `Props/C02a.lean` is stated for

`supported n` only excludes what the visitor itself rejects: a slice that is not the last subscript of a chain that starts
at a name (`sliceInMiddle`) and a slice of a slice (`multiSlice`). -/

def isSliceSub : Node → Bool
  | .sub _ (.slice ..) _ => true
  | _ => false

/-- the access chain starts at a name (`_get_full_name` returns a name, not `None`) -/
def rooted : Node → Bool
  | .name .. => true
  | .attr v _ _ => rooted v
  | .sub v _ _ => rooted v
  | _ => false

mutual
/-- a node `visit` is called on -/
def supported : Node → Bool
  | .nil => true
  | .name .. => true
  | .num _ => true
  | .str => true
  | .attr v _ _ => if rooted v then supChain v else supported v
  | .sub v (.slice lo up st) _ =>
    (if rooted v then !isSliceSub v && supChain v else supported v)
      && supported lo && supported up && supported st
  | .sub v i _ => (if rooted v then supChain v else supported v) && supported i
  | .slice a b c => supported a && supported b && supported c
  | .call f args kws => (if rooted f then supChain f else supported f) && supportedList args && supportedList kws
  | .assign ts v => supportedList ts && supported v
  | .aug t _ v => supported t && supported v
  | .for_ t it body orelse => supported t && supported it && supportedList body && supportedList orelse
  | .node _ cs => supportedList cs
/-- the inner part of an access chain that starts at a name (`_get_full_name` only) -/
def supChain : Node → Bool
  | .name .. => true
  | .attr v _ _ => supChain v
  | .sub _ (.slice ..) _ => false
  | .sub v i _ => supported i && supChain v
  | _ => false
def supportedList : List Node → Bool
  | [] => true
  | n :: ns => supported n && supportedList ns
end

def supportedBody (body : List Node) : Bool := supportedList body

end PV.AstRW
