import PymtlVerif.Model.ProcEnv
/-!
# ProcCL in an asynchronous environment (property C20) — used only by the UNFINISHED, unregistered `Props/C20cRef.lean`

The three GENERATED blocks of ProcCL (`Gen/ProcCLGen.lean`: `F`, `DXM`, `W`) are put into a world `AW` in which

* the two pipeline queues (`PipeQueueCL(1)`) are lists of capacity 1;
* every input queue (`DelayPipeDeqCL(d)`: `imemresp_q`, `dmemresp_q`, `xcelresp_q`, `mngr2proc_q`) is a list whose head the
  processor can see only when the environment says so (`vis` flags) — this over-approximates every delay `d`;
* every request port answers `rdy()` with a flag the environment sets arbitrarily; an accepted request joins the port's list of
  unserved requests; serving it (reading / writing the ONE data memory, the NullXcel register; the instruction port reads the
  program IMAGE, as in the environment assumption of `Props/C20p.lean`) appends the response to the input queue;
* the manager's source delivers its messages in order, the sink's readiness is a flag.

A run is ANY sequence of the atomic actions `Act`: the three blocks and the environment's moves, in any order, any number of
times.  The simulator's real cycle (the static schedule `… W < DXM < F …` the method constraints induce, the memory's and the
adapters' own blocks, stalls, latencies) is one such sequence, so a statement about all sequences covers every timing.
`disp` counts the instructions DXM has executed.  Mathlib-free.
-/
namespace PV.ProcCLSys
open PV.TinyRV0 PV.ProcFLGen PV.ProcCLGen PV.ProcEnv

/-- what the environment answers at the moment (set by `Act.flags`) -/
structure Flags where
  irdy : Bool := false      -- imem.req.rdy()
  drdy : Bool := false      -- dmem.req.rdy()
  xrdy : Bool := false      -- xcel.req.rdy()
  prdy : Bool := false      -- proc2mngr.rdy()
  ivis : Bool := false      -- the head of imemresp_q has come through its delay pipe
  dvis : Bool := false
  xvis : Bool := false
  mvis : Bool := false
deriving Inhabited

structure AW where
  fdq : List Nat                              -- F_DXM_queue
  dwq : List (Option (Nat × Nat × Nat))       -- DXM_W_queue
  ireq : List MemReqMsg                       -- instruction fetches accepted, not served
  iresp : List MemRespMsg                     -- served, not yet consumed by DXM (in flight or in imemresp_q)
  dreq : List MemReqMsg
  dresp : List MemRespMsg
  xreq : List XcelReqMsg
  xresp : List XcelRespMsg
  src : List Nat                              -- manager messages not yet in mngr2proc_q
  mq : List Nat                               -- mngr2proc_q
  image : Mem                                 -- what the instruction port serves
  mem : Mem                                   -- the data memory
  xr0 : Nat
  out : List Nat
  fl : Flags

def asyncEnv : Env AW where
  imem_req_rdy w := w.fl.irdy
  F_DXM_queue_enq_rdy w := decide (w.fdq.length < 1)
  imem_req w m := { w with ireq := w.ireq ++ [m] }
  F_DXM_queue_enq w x := { w with fdq := w.fdq ++ [x] }
  F_DXM_queue_deq_rdy w := !w.fdq.isEmpty
  imemresp_q_deq_rdy w := w.fl.ivis && !w.iresp.isEmpty
  DXM_W_queue_enq_rdy w := decide (w.dwq.length < 1)
  F_DXM_queue_peek w := w.fdq.headD 0
  imemresp_q_peek w := w.iresp.headD default
  DXM_W_queue_enq w e := { w with dwq := w.dwq ++ [e] }
  dmem_req_rdy w := w.fl.drdy
  dmem_req w m := { w with dreq := w.dreq ++ [m] }
  xcel_req_rdy w := w.fl.xrdy
  xcel_req w m := { w with xreq := w.xreq ++ [m] }
  mngr2proc_q_deq_rdy w := w.fl.mvis && !w.mq.isEmpty
  mngr2proc_q_deq w := (w.mq.headD 0, { w with mq := w.mq.tail })
  F_DXM_queue_deq w := (w.fdq.headD 0, { w with fdq := w.fdq.tail })
  imemresp_q_deq w := (w.iresp.headD default, { w with iresp := w.iresp.tail })
  DXM_W_queue_deq_rdy w := !w.dwq.isEmpty
  DXM_W_queue_peek w := w.dwq.headD none
  dmemresp_q_deq_rdy w := w.fl.dvis && !w.dresp.isEmpty
  dmemresp_q_deq w := (w.dresp.headD default, { w with dresp := w.dresp.tail })
  DXM_W_queue_deq w := (w.dwq.headD none, { w with dwq := w.dwq.tail })
  xcelresp_q_deq_rdy w := w.fl.xvis && !w.xresp.isEmpty
  xcelresp_q_deq w := (w.xresp.headD default, { w with xresp := w.xresp.tail })
  proc2mngr_rdy w := w.fl.prdy
  proc2mngr_call w x := { w with out := w.out ++ [x] }

/-- the atomic actions: the processor's three blocks and the environment's moves -/
inductive Act where
  | W | DXM | F
  | flags (f : Flags)      -- any change of the rdy answers / of what has come through the delay pipes
  | iserve                 -- the instruction port serves its oldest request
  | dserve                 -- the data port serves its oldest request (a store changes the memory now)
  | xserve                 -- the accelerator serves its oldest request
  | mdeliver               -- the manager's next message reaches mngr2proc_q

/-- the environment's moves (a move that is not possible leaves the world as it is) -/
def envMove (a : Act) (w : AW) : AW :=
  match a with
  | .flags f => { w with fl := f }
  | .iserve =>
    match w.ireq with
    | [] => w
    | m :: r => { w with ireq := r, iresp := w.iresp ++ [memResp 0 (loadWord w.image m.addr)] }
  | .dserve =>
    match w.dreq with
    | [] => w
    | m :: r =>
      if m.type_ = 0 then { w with dreq := r, dresp := w.dresp ++ [memResp 0 (loadWord w.mem m.addr)] }
      else { w with dreq := r, mem := storeWord w.mem m.addr m.data, dresp := w.dresp ++ [memResp 1 0] }
  | .xserve =>
    match w.xreq with
    | [] => w
    | m :: r =>
      if m.type_ = 0 then { w with xreq := r, xresp := w.xresp ++ [{ type_ := 0, data := w.xr0 }] }
      else { w with xreq := r, xr0 := m.data, xresp := w.xresp ++ [{ type_ := 1, data := 0 }] }
  | .mdeliver =>
    match w.src with
    | [] => w
    | x :: r => { w with src := r, mq := w.mq ++ [x] }
  | _ => w

/-- the system state: ProcCL's attributes, the world, the number of instructions DXM has executed -/
structure Sys where
  s : St
  w : AW
  disp : Nat

/-- one action (`reset` is low) -/
def act (a : Act) (y : Sys) : Res Sys :=
  match a with
  | .W => match W asyncEnv false y.s y.w with
    | .ok (s', w') => .ok { y with s := s', w := w' }
    | .raised e => .raised e
    | .blocked => .blocked
  | .DXM => match DXM asyncEnv false y.s y.w with
    | .ok (s', w') => .ok { s := s', w := w', disp := if s'.DXM_status = PipelineStatus_work then y.disp + 1 else y.disp }
    | .raised e => .raised e
    | .blocked => .blocked
  | .F => match F asyncEnv false y.s y.w with
    | .ok (s', w') => .ok { y with s := s', w := w' }
    | .raised e => .raised e
    | .blocked => .blocked
  | e => .ok { y with w := envMove e y.w }

/-- a run: the actions one after the other; it ends where a block raises -/
def runActs : List Act → Sys → Res Sys
  | [], y => .ok y
  | a :: rest, y =>
    match act a y with
    | .ok y' => runActs rest y'
    | .raised e => .raised e
    | .blocked => .blocked

/-- power-on: the attributes after `construct`, empty queues, the program image in both memories, the manager's messages -/
def Sys.init (m0 : Mem) (inp : List Nat) : Sys :=
  { s := PV.ProcCLGen.init, disp := 0,
    w := { fdq := [], dwq := [], ireq := [], iresp := [], dreq := [], dresp := [], xreq := [], xresp := [], src := inp, mq := [],
           image := m0, mem := m0, xr0 := 0, out := [], fl := {} } }

end PV.ProcCLSys
