/-!
# Model of value nets, writer resolution and the structural checks of elaboration (C08, C09)

Written from the code as it is (after the `fix:` commits 87007f6, be47852, cb61d3c) in

* `pymtl3/dsl/ComponentLevel3.py`
  - `_connect_signal_signal` / `_connect_signal_const` / `_collect_vars`: the adjacency is a dict of
    *sets*, so connecting the same pair twice (either orientation) is merged — `simple`;
  - `_floodfill_nets`: nets = connected components with at least two members (`nets`), and the
    `pred`-based loop test (`ffRun`/`ffRoots`/`ffLoop`, the code's stack machine; `cyc` is an
    incremental test; `Proofs/NetsDfs.lean` proves `ffLoop E = some (hasLoop E)` for every order in
    which the sets are iterated; the driver reports both);
  - `_resolve_value_connections`: `resolve` — marks (`writer_prop`), rounds over the headless nets,
    `MultiWriterError` when a net has two driven members, exit when a round resolves nothing;
  - `_check_port_in_nets`: `NoWriterError`, then the walk from each writer over the adjacency with
    the port-direction table Types 5–9 and the loop-back rule (`edgeErr`, `walk`);
* `pymtl3/dsl/ComponentLevel2.py`
  - `extract_obj_from_names` (operator rules `=`/`@=`/`<<=`/`for` target, only top-level signals on the
    LHS of `<<=`; every write statement is checked, also a second write to an object the block
    already wrote): `opErr`;
  - `_check_upblk_writes` (more than one block per object, parent chain, overlapping sibling
    slices — the repaired version compares the blocks in the sibling branch too): `upblkErrs`;
  - `_check_port_in_upblk` (Types 1–4): `readErr`, `writeErr`;
  - `elaborate` / `ComponentLevel3._elaborate_collect_all_vars`: the order of the stages (`stages`);
* `pymtl3/dsl/Connectable.py`: `_overlap` (`overlap`), `Signal.__getitem__` (a slice of a slice is a
  slice of the parent: an object has at most one, final, slice), `Signal.__getattr__` (fields),
  `get_sibling_slices`, `Const` (its parent object is the component that executed the connect).

Objects are numbered by the harness (`Design.objs`, index = object id): every signal object (top
level signal, struct field, slice) that occurs in a connect statement or in an update block, and
one object per constant of a connect statement. The graph algorithms work on these numbers; the
relation between objects ("ancestor or self either way, or overlapping sibling slices") is computed
from the structural description of the two objects.

Not modelled: interfaces and method ports, `Placeholder` output ports, lists of fields inside a
struct, other augmented operators (`+=` …) on the LHS, the "Please contact pymtl3 developers"
assertions of the loop-back rule, `add_connection` after elaboration.
-/
namespace PV.Nets

/-! ## 1. undirected graph on numbered nodes -/

abbrev Edge := Nat × Nat

def adj (E : List Edge) (a : Nat) : List Nat :=
  E.filterMap (fun e => if e.1 = a then some e.2 else if e.2 = a then some e.1 else none)

def dedup {α : Type} [DecidableEq α] : List α → List α
  | [] => []
  | a :: l => if a ∈ dedup l then dedup l else a :: dedup l

/-- one round of frontier expansion: add every neighbour of a member that is not yet a member -/
def expand (E : List Edge) (S : List Nat) : List Nat :=
  S ++ dedup ((S.flatMap (adj E)).filter (fun b => decide (b ∉ S)))

def closed (E : List Edge) (S : List Nat) : Bool :=
  (S.flatMap (adj E)).all (fun b => decide (b ∈ S))

def closure (E : List Edge) : Nat → List Nat → List Nat
  | 0, S => S
  | f+1, S => if closed E S then S else closure E f (expand E S)

/-- insertion into a strictly increasing list (no duplicates) -/
def insertU (a : Nat) : List Nat → List Nat
  | [] => [a]
  | b :: l => if a < b then a :: b :: l else if a = b then b :: l else b :: insertU a l

def sortDedup (l : List Nat) : List Nat := l.foldr insertU []

/-- the nodes that occur in some connection, increasing -/
def nodesOf (E : List Edge) : List Nat := sortDedup (E.flatMap (fun e => [e.1, e.2]))

/-- connected component of `a`: frontier expansion from `[a]`; `|nodes|` rounds always suffice
(`Proofs/Nets.lean: component_closed`) -/
def component (E : List Edge) (a : Nat) : List Nat := closure E (nodesOf E).length [a]

def netOf (E : List Edge) (a : Nat) : List Nat := sortDedup (component E a)

/-- canonical list of nets: members increasing, nets ordered by their least member, components with
a single member dropped (`if len(net) == 1: continue`) -/
def nets (E : List Edge) : List (List Nat) :=
  (((nodesOf E).filter (fun a => (netOf E a).head? == some a)).map (netOf E)).filter
    (fun N => decide (2 ≤ N.length))

/-- a net is identified by its least member -/
def rep (N : List Nat) : Nat := N.headD 0

def normEdge (e : Edge) : Edge := if e.1 ≤ e.2 then e else (e.2, e.1)

/-- what the adjacency sets keep of the connect statements: each unordered pair once -/
def simple (E : List Edge) : List Edge := dedup (E.map normEdge)

/-- incremental loop test: some edge joins two nodes that the edges after it already connect
(for a self connection `(a,a)` this is immediate) -/
def cyc : List Edge → Bool
  | [] => false
  | e :: E => cyc E || decide (e.2 ∈ component E e.1)

def hasLoop (E : List Edge) : Bool := cyc (simple E)

/-! ### the code's `pred`-based test, as the stack machine it is

`for obj in signal_list: if obj in adjacency and obj not in visited: Q=[obj]; while Q: u=Q.pop();
visited.add(u); for v in adjacency[u]: if v not in visited: pred[v]=u; Q.append(v) elif v is not
pred.get(u): raise`. The roots and the neighbours are taken in increasing order here (the code
iterates sets). -/

def lookupPred (P : List (Nat × Nat)) (u : Nat) : Option Nat :=
  (P.find? (fun p => p.1 == u)).map (·.2)

/-- `none` = fuel exhausted (never happens with the fuel of `ffLoop`), `some (fired, visited)` -/
def ffRun (adjf : Nat → List Nat) : Nat → List Nat → List Nat → List (Nat × Nat) → Option (Bool × List Nat)
  | 0, _, _, _ => none
  | _+1, [], V, _ => some (false, V)
  | f+1, u :: Q, V, P =>
    let V' := if u ∈ V then V else u :: V
    let ns := adjf u
    if ns.any (fun v => decide (v ∈ V') && (lookupPred P u != some v)) then some (true, V')
    else
      let new := ns.filter (fun v => decide (v ∉ V'))
      ffRun adjf f (new.reverse ++ Q) V' (new.map (fun v => (v, u)) ++ P)

def ffRoots (adjf : Nat → List Nat) (fuel : Nat) : List Nat → List Nat → Option Bool
  | [], _ => some false
  | r :: rs, V =>
    if r ∈ V then ffRoots adjf fuel rs V
    else match ffRun adjf fuel [r] V [] with
      | none => none
      | some (true, _) => some true
      | some (false, V') => ffRoots adjf fuel rs V'

def ffLoop (E : List Edge) : Option Bool :=
  let S := simple E
  let adjf := fun u => sortDedup (adj S u)
  ffRoots adjf (2 * S.length + (nodesOf S).length + 2) (nodesOf S) []

/-! ## 2. objects -/

inductive Kind where
  | inp | outp | wire | const
deriving DecidableEq, Repr

/-- a signal object below the top-level signal `sid`: the struct fields followed from it (field
positions), and possibly a final slice `[lo:hi)`; or a constant (then `sid` is unique to it).
`host` = the component the signal is declared in (for a constant: the component that executed the
connect statement). -/
structure Obj where
  sid : Nat
  kind : Kind
  host : Nat
  fields : List Nat
  slice : Option (Nat × Nat)
deriving DecidableEq, Repr

instance : Inhabited Obj := ⟨⟨0, .wire, 0, [], none⟩⟩

/-- `Connectable._overlap` on two slices -/
def overlap (x y : Nat × Nat) : Bool :=
  if x.1 ≤ y.1 then decide (y.1 < x.2) else decide (x.1 < y.2)

def isPrefix : List Nat → List Nat → Bool
  | [], _ => true
  | _ :: _, [] => false
  | a :: p, b :: q => a == b && isPrefix p q

/-- the relation every parent-chain / sibling-slice walk of the code computes: `a` is `b` or an
ancestor of `b`, or the other way round, or they are overlapping slices of the same signal -/
def related (a b : Obj) : Bool :=
  a.kind != .const && b.kind != .const && a.sid == b.sid &&
  match a.slice, b.slice with
  | none, none => isPrefix a.fields b.fields || isPrefix b.fields a.fields
  | none, some _ => isPrefix a.fields b.fields
  | some _, none => isPrefix b.fields a.fields
  | some x, some y => a.fields == b.fields && overlap x y

def Obj.isTop (o : Obj) : Bool := o.fields.isEmpty && o.slice.isNone

/-! ## 3. designs -/

inductive Op where
  | assign   -- `=`
  | at       -- `@=`
  | ff       -- `<<=`
  | forT     -- target of a `for` loop (`for s.x in …`)
deriving DecidableEq, Repr

structure Blk where
  host : Nat
  ff : Bool
  writes : List (Nat × Op)
  reads : List Nat
deriving Repr

structure Design where
  objs : List Obj
  /-- parent component of each component; component 0 is the top (`none`) -/
  par : List (Option Nat)
  /-- connect statements: the two objects and the component that executed the statement -/
  conns : List (Nat × Nat × Nat)
  blks : List Blk
deriving Repr

def Design.obj (D : Design) (i : Nat) : Obj := D.objs.getD i default
def Design.parent (D : Design) (c : Nat) : Option Nat := (D.par.getD c none)
def Design.edges (D : Design) : List Edge := D.conns.map (fun c => (c.1, c.2.1))
def Design.isConst (D : Design) (i : Nat) : Bool := (D.obj i).kind == .const
/-- `isinstance(member, InPort) and host == s` -/
def Design.topIn (D : Design) (i : Nat) : Bool := (D.obj i).kind == .inp && (D.obj i).host == 0
def Design.rel (D : Design) (i j : Nat) : Bool := related (D.obj i) (D.obj j)

/-- `(block id, object)` for every write of every block -/
def Design.writes (D : Design) : List (Nat × Nat) :=
  (List.range D.blks.length).flatMap (fun b => ((D.blks.getD b ⟨0, false, [], []⟩).writes.map (fun w => (b, w.1))))

def Design.nets (D : Design) : List (List Nat) := PV.Nets.nets D.edges

/-! ## 4. writer resolution (`_resolve_value_connections`) -/

/-- where a propagatable writer mark comes from -/
inductive Origin where
  | blk (b : Nat)      -- written in update block `b`
  | ext                -- top-level input port
  | net (r : Nat)      -- reader of the resolved net whose least member is `r`
deriving DecidableEq, Repr

abbrev Marks := List (Nat × Origin)

/-- the marks before the first round: every object written by a block, every top-level input port
that is a member of a net -/
def initMarks (D : Design) : Marks :=
  D.writes.map (fun w => (w.2, Origin.blk w.1)) ++
  ((D.nets.flatMap id).filter D.topIn).map (fun t => (t, Origin.ext))

/-- the test the code makes for a member `v` of a net: `v in writer_prop` (also as an ancestor of
a marked object) or a constant, or an ancestor is a propagatable writer, or an overlapping sibling
slice is one -/
def drivenBy (D : Design) (T : Marks) (v : Nat) : Bool :=
  D.isConst v || T.any (fun m => D.rel v m.1)

inductive Err where
  | updateBlockWrite | updateFFBlockWrite | updateFFNonTop
  | invalidConnection | multiWriter | noWriter
  | signalType (k : Nat)
  | invalidFuncCall
deriving DecidableEq, Repr

def Err.pyClass : Err → String
  | .updateBlockWrite => "UpdateBlockWriteError"
  | .updateFFBlockWrite => "UpdateFFBlockWriteError"
  | .updateFFNonTop => "UpdateFFNonTopLevelSignalError"
  | .invalidConnection => "InvalidConnectionError"
  | .multiWriter => "MultiWriterError"
  | .noWriter => "NoWriterError"
  | .signalType k => s!"SignalTypeError:{k}"
  | .invalidFuncCall => "InvalidFuncCallError"

/-- state of a round: marks, resolved nets `(writer, net)`, nets still without a writer -/
structure RState where
  marks : Marks
  headed : List (Nat × List Nat)
  headless : List (List Nat)
deriving Repr

/-- one net of one round -/
def stepNet (D : Design) (st : RState) (N : List Nat) : Except Err RState :=
  match N.filter (drivenBy D st.marks) with
  | [] => .ok { st with headless := st.headless ++ [N] }
  | [w] => .ok { marks := st.marks ++ (N.filter (fun v => decide (v ≠ w))).map (fun v => (v, Origin.net (rep N))),
                 headed := st.headed ++ [(w, N)],
                 headless := st.headless }
  | _ => .error .multiWriter

def pass (D : Design) : List (List Nat) → RState → Except Err RState
  | [], st => .ok st
  | N :: rest, st => match stepNet D st N with
    | .error e => .error e
    | .ok st' => pass D rest st'

/-- the `while headless:` loop: a round over the headless nets; stop when the round resolved
nothing (`wcount == len(writer_prop)`) or nothing is left -/
def rounds (D : Design) : Nat → RState → Except Err RState
  | 0, st => .ok st
  | f+1, st =>
    if st.headless.isEmpty then .ok st
    else match pass D st.headless { st with headless := [] } with
      | .error e => .error e
      | .ok st' => if st'.headless.length = st.headless.length then .ok st' else rounds D f st'

/-- resolved nets and the nets left without a writer -/
def resolve (D : Design) : Except Err RState :=
  rounds D (D.nets.length + 1) { marks := initMarks D, headed := [], headless := D.nets }

/-- the same rounds started from any order of the nets and of the initial marks: the code obtains
both by iterating Python sets (`all_signals`, `all_upblk_writes`), so their order is not determined
by the design; `resolve D = resolveFrom D (initMarks D) D.nets` -/
def resolveFrom (D : Design) (T0 : Marks) (ns : List (List Nat)) : Except Err RState :=
  rounds D (ns.length + 1) { marks := T0, headed := [], headless := ns }

/-! ## 5. the checks of `_check_valid_dsl_code` and of `_elaborate_read_write_func` -/

/-- operator rules of `extract_obj_from_names` for one written object -/
def opErr (ff : Bool) (op : Op) (isTop : Bool) : Option Err :=
  if ff then
    match op with
    | .assign => some .updateFFBlockWrite
    | .forT => some .updateFFBlockWrite
    | .at => some .updateFFBlockWrite
    | .ff => if isTop then none else some .updateFFNonTop
  else
    match op with
    | .assign => some .updateBlockWrite
    | .forT => some .updateBlockWrite
    | .ff => some .updateBlockWrite
    | .at => none

def opErrs (D : Design) : List Err :=
  D.blks.flatMap (fun b => b.writes.filterMap (fun w => opErr b.ff w.2 (D.obj w.1).isTop))

/-- blocks writing object `o`, in block order, without duplicates -/
def writersOf (D : Design) (o : Nat) : List Nat :=
  dedup ((D.writes.filter (fun w => w.2 == o)).map (·.1))

def writtenObjs (D : Design) : List Nat := dedup (D.writes.map (·.2))

def properAnc (a b : Obj) : Bool :=
  a.sid == b.sid && a.slice.isNone && isPrefix a.fields b.fields &&
  (decide (a.fields.length < b.fields.length) || b.slice.isSome)

def sibOverlap (a b : Obj) : Bool :=
  a.sid == b.sid && a.fields == b.fields &&
  match a.slice, b.slice with
  | some x, some y => overlap x y
  | _, _ => false

/-- `_check_upblk_writes` for one written object: more than one block; a written proper ancestor
whose (first) block differs; a written overlapping sibling slice whose (first) block differs -/
def upblkErrObj (D : Design) (o : Nat) : Bool :=
  let ws := writersOf D o
  decide (1 < ws.length) ||
  (writtenObjs D).any (fun x =>
    x != o && (properAnc (D.obj x) (D.obj o) || sibOverlap (D.obj x) (D.obj o)) &&
    ((writersOf D x).head? != ws.head?))

def upblkErrs (D : Design) : List Err :=
  if (writtenObjs D).any (upblkErrObj D) then [.multiWriter] else []

/-- `_check_port_in_upblk`, reads: `[Type 1]` -/
def readErr (D : Design) (bhost : Nat) (o : Nat) : Option Err :=
  let x := D.obj o
  if x.kind == .wire && x.host != bhost then some (.signalType 1) else none

/-- `_check_port_in_upblk`, writes: `[Type 2]`, `[Type 3]`, `[Type 4]` -/
def writeErr (D : Design) (bhost : Nat) (o : Nat) : Option Err :=
  let x := D.obj o
  match x.kind with
  | .inp => if D.parent x.host != some bhost then some (.signalType 2) else none
  | .outp => if x.host != bhost then some (.signalType 3) else none
  | .wire => if x.host != bhost then some (.signalType 4) else none
  | .const => none

def portUpblkErrs (D : Design) : List Err :=
  D.blks.flatMap (fun b => b.reads.filterMap (readErr D b.host)) ++
  D.blks.flatMap (fun b => b.writes.filterMap (fun w => writeErr D b.host w.1))

def connectedIn (D : Design) (c : Nat) (u v : Nat) : Bool :=
  D.conns.any (fun e => e.2.2 == c && ((e.1 == u && e.2.1 == v) || (e.1 == v && e.2.1 == u)))

/-- `_check_port_in_nets`, one step of the walk: `u` (nearer to the writer) drives `v` -/
def edgeErr (D : Design) (u v : Nat) : Option Err :=
  let ou := D.obj u
  let ov := D.obj v
  let wh := ou.host
  let rh := ov.host
  if wh == rh then
    if ov.kind == .outp || ov.kind == .wire then none
    else if ou.kind == .outp && ov.kind == .inp then
      match D.parent wh with
      | some p => if connectedIn D p u v then none else some .invalidConnection
      | none => some .invalidConnection
    else some (.signalType 5)
  else if D.parent wh == some rh then
    if ou.kind == .outp && (ov.kind == .outp || ov.kind == .wire) then none else some (.signalType 6)
  else if D.parent rh == some wh then
    if ov.kind == .inp then none else some (.signalType 7)
  else if D.parent wh == D.parent rh then
    if ou.kind == .outp && ov.kind == .inp then none else some (.signalType 8)
  else some (.signalType 9)

/-- the walk `S=[writer]; visited={writer}; while S: u=S.pop(); for v in adjacency[u]: if v not in
visited: visited.add(v); S.append(v); check(u,v)`: the pairs `(u,v)` in the order they are checked -/
def walk (adjf : Nat → List Nat) : Nat → List Nat → List Nat → List (Nat × Nat)
  | 0, _, _ => []
  | _+1, [], _ => []
  | f+1, u :: S, V =>
    let new := (adjf u).filter (fun v => decide (v ∉ V))
    new.map (fun v => (u, v)) ++ walk adjf f (new.reverse ++ S) (new ++ V)

def portNetErrs (D : Design) (headed : List (Nat × List Nat)) : List Err :=
  let S := simple D.edges
  let adjf := fun u => sortDedup (adj S u)
  headed.flatMap (fun wn =>
    (walk adjf (wn.2.length + 1) [wn.1] [wn.1]).filterMap (fun p => edgeErr D p.1 p.2))

/-! ## 6. elaboration verdict -/

structure Outcome where
  /-- index of the first stage that found something (0 = none) and everything that stage found -/
  stage : Nat
  errs : List Err
  /-- resolved nets (when stage 2 and 3 passed) -/
  headed : List (Nat × List Nat)
  headless : List (List Nat)
deriving Repr

/-- the stages in the order `elaborate` runs them:
1 operators (`_elaborate_read_write_func`), 2 connection loop (`_floodfill_nets`), 3 two writers in
a net (`_resolve_value_connections`), 4 `_check_upblk_writes`, 5 `_check_port_in_upblk`,
6 `NoWriterError`, 7 port directions over the nets -/
def elaborate (D : Design) : Outcome :=
  let e1 := opErrs D
  if !e1.isEmpty then ⟨1, e1, [], []⟩ else
  if hasLoop D.edges then ⟨2, [.invalidConnection], [], []⟩ else
  match resolve D with
  | .error e => ⟨3, [e], [], []⟩
  | .ok st =>
    let e4 := upblkErrs D
    if !e4.isEmpty then ⟨4, e4, st.headed, st.headless⟩ else
    let e5 := portUpblkErrs D
    if !e5.isEmpty then ⟨5, e5, st.headed, st.headless⟩ else
    if !st.headless.isEmpty then ⟨6, [.noWriter], st.headed, st.headless⟩ else
    let e7 := portNetErrs D st.headed
    if !e7.isEmpty then ⟨7, e7, st.headed, st.headless⟩ else
    ⟨0, [], st.headed, st.headless⟩

def Outcome.verdict (o : Outcome) : Option Err := o.errs.head?

/-- identity of a signal object: top-level signal, field path, slice -/
def Obj.key (o : Obj) : Nat × List Nat × Option (Nat × Nat) := (o.sid, o.fields, o.slice)

/-- objects must be pairwise different (two numbers for one object would make the model treat one
Python object as two nodes), slices non-empty (`Signal.__getitem__` asserts it), written objects
are signals, all indices in range: checked by the driver, `bad-op` otherwise -/
def Design.wf (D : Design) : Bool :=
  decide (dedup (D.objs.map Obj.key) = D.objs.map Obj.key) &&
  D.objs.all (fun o => match o.slice with
    | some s => decide (s.1 < s.2)
    | none => true) &&
  D.conns.all (fun c => decide (c.1 < D.objs.length) && decide (c.2.1 < D.objs.length) && decide (c.2.2 < D.par.length)) &&
  D.blks.all (fun b => decide (b.host < D.par.length) &&
    b.writes.all (fun w => decide (w.1 < D.objs.length) && ((D.obj w.1).kind != .const)) &&
    b.reads.all (fun r => decide (r < D.objs.length))) &&
  D.objs.all (fun o => decide (o.host < D.par.length))

/-! ## 7. `@s.func` helper functions (`ComponentLevel2._collect_vars`)

An update block also reads and writes whatever the helper functions it calls, directly or through
other helpers, read and write: `_collect_vars` walks the calls depth first and adds
`func_reads[u]` / `func_writes[u]` of every function it reaches to the block, and raises
`InvalidFuncCallError` when a function on the current call path is called again. The operator rules
are not applied to the statements of helper functions (`extract_obj_from_names` is called without
`is_write` for them); the flattened block gets them with the block's own legal operator. -/

structure Func where
  writes : List Nat
  reads : List Nat
  calls : List Nat
deriving Repr

instance : Inhabited Func := ⟨⟨[], [], []⟩⟩

/-- a design whose update blocks call helper functions: `bcalls[i]` = functions called directly by
block `i` of `base` (whose own `writes`/`reads` are the statements of the block itself) -/
structure HDesign where
  base : Design
  funcs : List Func
  bcalls : List (List Nat)
deriving Repr

def HDesign.callees (H : HDesign) (f : Nat) : List Nat := (H.funcs.getD f default).calls

/-- one round: add the callees of everything collected so far -/
def dstep (succ : Nat → List Nat) (S : List Nat) : List Nat :=
  S ++ dedup ((S.flatMap succ).filter (fun b => decide (b ∉ S)))

def dclosed (succ : Nat → List Nat) (S : List Nat) : Bool :=
  (S.flatMap succ).all (fun b => decide (b ∈ S))

def dclosure (succ : Nat → List Nat) : Nat → List Nat → List Nat
  | 0, S => S
  | f+1, S => if dclosed succ S then S else dclosure succ f (dstep succ S)

/-- the functions a block reaches: closure of its direct calls under "calls" -/
def HDesign.reached (H : HDesign) (roots : List Nat) : List Nat :=
  dclosure H.callees H.funcs.length (dedup roots)

/-- a function on some call path from an update block that can reach itself again -/
def HDesign.callCycle (H : HDesign) : Bool :=
  H.bcalls.any (fun roots => (H.reached roots).any (fun f => decide (f ∈ H.reached (H.callees f))))

/-- the design the later stages see: every block with the reads and writes of the functions it reaches -/
def HDesign.flatten (H : HDesign) : Design :=
  { H.base with blks := H.base.blks.mapIdx (fun i b =>
      let fs := H.reached (H.bcalls.getD i [])
      { b with writes := b.writes ++ fs.flatMap (fun f => (H.funcs.getD f default).writes.map (fun o => (o, if b.ff then Op.ff else Op.at))),
               reads := b.reads ++ fs.flatMap (fun f => (H.funcs.getD f default).reads) }) }

/-- operator rules on the blocks' own statements, call cycles, then everything else on the flattened design -/
def elaborateH (H : HDesign) : Outcome :=
  let e1 := opErrs H.base
  if !e1.isEmpty then ⟨1, e1, [], []⟩ else
  if H.callCycle then ⟨8, [.invalidFuncCall], [], []⟩ else
  elaborate H.flatten

def HDesign.wf (H : HDesign) : Bool :=
  H.flatten.wf && decide (H.bcalls.length = H.base.blks.length) &&
  H.bcalls.all (fun cs => cs.all (fun f => decide (f < H.funcs.length))) &&
  H.funcs.all (fun fn => fn.calls.all (fun f => decide (f < H.funcs.length)))

end PV.Nets
