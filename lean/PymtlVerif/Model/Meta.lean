/-!
# Whole-design metadata of a PyMTL hierarchy and component replacement (C15)

By-name model of what `pymtl3/dsl/Component.py` keeps at the elaborated top (`top._dsl.all_*`) and of
`replace_component` / `replace_component_with_obj` = `_delete_component` followed by `_add_component`.

* A hierarchy `Hier` is a family of component descriptors indexed by their path from the top (the
  flattened tree: one `(path, Comp)` per component). A `Comp` holds only what the component's own
  `construct` declared, by *relative* name: value signals, method ports, update blocks with their
  read / write / call sets (`_dsl.upblk_reads/_writes/_calls`, function reads folded into the calling
  block as `ComponentLevel2._collect_vars` does), `U<U`, `RD(x)<U`, `WR(x)<U` and `M` constraints
  (`_dsl.U_U_constraints`, `RD_U_constraints`, `WR_U_constraints`, `M_constraints`), the
  `update_ff` / `update_once` marks, the connections (`_dsl.connect_order`, `_dsl.adjacency`) and the
  constants connected to signals (`_dsl.consts`).
* `Meta` = the top-level containers as one list of tagged entries (read as a set):
  `all_components`, `all_signals`, `all_method_ports`, `all_upblks` + `all_upblk_hostobj`,
  `all_update_ff`, `all_update_once`, `all_upblk_reads/_writes/_calls`, `all_U_U_constraints`,
  `all_RD_U_constraints`, `all_WR_U_constraints`, `all_M_constraints`, `all_adjacency`.
  `elaborate` mirrors `_elaborate_collect_all_vars`: every component contributes its local containers with
  its path prefixed (`_collect_vars` of `ComponentLevel1..4`).
* `delete` mirrors `Component._delete_component`: `_uncollect_vars` of every component under the path,
  removal of every component / signal / method port under the path from the `all_*` sets, removal of
  every adjacency edge that touches a removed signal (or a constant of a removed component), and
  saving *by name* what crosses the boundary: the connections between a removed signal and a surviving
  one (`saved_connections`) and the references of surviving update blocks to removed signals
  (`saved_upblk_reads/_writes/_calls`).
* `add` mirrors `Component._add_component`: elaborate the new subtree at the same path, `_collect_vars`
  it, re-evaluate the saved names (fails — `none` — if the new subtree does not declare one of them,
  as Python's `eval` of the saved name raises) and re-connect both directions.

Where the code as it is deviates from this (all demonstrated on /repo by `harness/checks/c15.py`,
see its header): no `_uncollect_vars` in `ComponentLevel4` (`all_update_once`, `all_M_constraints` of
the removed subtree stay), constants of removed components stay as keys of `all_adjacency`, explicit
constraints of a *surviving* component on a removed signal / method keep the removed object, only the
*parent's* blocks are searched for references to removed signals (complete on disciplined hierarchies:
`Proofs/Meta.lean: saved_from_parent`), removed signals stay as keys with an empty set in
`all_RD_U/WR_U_constraints` (invisible by name: a dict key with an empty set is no entry here), a
connection made by the parent between two ports of the removed child is dropped (hypothesis
`NoLoopAt` of the theorems). The model is the intended behaviour: every entry that is owned by, or
mentions, something under the path is removed; those owned by a surviving component are saved by name
and restored.
-/
namespace PV.Meta

/-- path of a component from the top (`[]` = top `s`; a list element `d[1]` is one token) -/
abbrev Name := List String
/-- a signal / method port / function: host component and own name -/
abbrev Sig := Name × String
/-- an update block: host component and function name -/
abbrev BlkId := Name × String

/-- vertex of the adjacency dict: a signal (or method port), or the `Const` object created by the
    component `owner` when it connected the value `val` to signal `s` -/
inductive Node where
  | sig (s : Sig)
  | const (owner : Name) (s : Sig) (val : String)
deriving DecidableEq, Repr

/-- operand of an `M` constraint: `U(blk)` or `M(method)` -/
inductive MRef where
  | blk (b : BlkId)
  | meth (s : Sig)
deriving DecidableEq, Repr

/-- one element of one of the top-level containers. The `owner` of a constraint is the component whose
    local `_dsl.*_constraints` set holds it (that is what `_uncollect_vars` subtracts). -/
inductive Entry where
  /-- `ph`: the component is a `Placeholder` (its output ports count as net writers) -/
  | comp (n : Name) (ph : Bool)
  | sig (s : Sig) (kind : String)
  | mport (s : Sig) (kind : String)
  | blk (b : BlkId)
  | ff (b : BlkId)
  | once (b : BlkId)
  | read (b : BlkId) (s : Sig)
  | write (b : BlkId) (s : Sig)
  | call (b : BlkId) (s : Sig)
  | uu (owner : Name) (a b : BlkId)
  | rdu (owner : Name) (v : Sig) (lt : Bool) (b : BlkId)
  | wru (owner : Name) (v : Sig) (lt : Bool) (b : BlkId)
  | mc (owner : Name) (x y : MRef) (eq : Bool)
  | edge (a b : Node)
deriving DecidableEq, Repr

abbrev Meta := List Entry

/-! ## local descriptors -/

/-- relative reference: `([], "x")` = `s.x`, `(["c"], "out")` = `s.c.out` -/
abbrev Ref := List String × String

structure Blk where
  name : String
  /-- 0 = `@update`, 1 = `@update_ff`, 2 = `@update_once` -/
  kind : Nat
  reads : List Ref
  writes : List Ref
  calls : List Ref
deriving Repr

inductive LMRef where
  | blk (r : Ref)
  | meth (r : Ref)
deriving Repr

structure Comp where
  ph : Bool := false
  sigs : List (String × String) := []
  mports : List (String × String) := []
  blks : List Blk := []
  /-- `U(x) < U(y)`: own blocks (`([], "b")`) or blocks of descendants (`s.c.get_update_block("b")` = `(["c"], "b")`) -/
  uu : List (Ref × Ref) := []
  /-- `RD(x) < U(b)` / `WR(x) < U(b)`: the block `b` is an own one (`([], "b")`) or one of a descendant -/
  rdu : List (Ref × Bool × Ref) := []
  wru : List (Ref × Bool × Ref) := []
  mcs : List (LMRef × LMRef × Bool) := []
  conns : List (Ref × Ref) := []
  consts : List (Ref × String) := []
deriving Repr

abbrev Hier := List (Name × Comp)

/-! ## elaboration -/

def absr (q : Name) (r : Ref) : Sig := (q ++ r.1, r.2)

def absm (q : Name) : LMRef → MRef
  | .blk r => .blk (absr q r)
  | .meth r => .meth (absr q r)

def blkEntries (q : Name) (b : Blk) : List Entry :=
  [Entry.blk (q, b.name)]
  ++ (if b.kind = 1 then [Entry.ff (q, b.name)] else [])
  ++ (if b.kind = 2 then [Entry.once (q, b.name)] else [])
  ++ b.reads.map (fun r => Entry.read (q, b.name) (absr q r))
  ++ b.writes.map (fun r => Entry.write (q, b.name) (absr q r))
  ++ b.calls.map (fun r => Entry.call (q, b.name) (absr q r))

/-- what `top._collect_vars(m)` (levels 1–4) plus the `all_components/_signals/_method_ports` updates add
    for one component `m` at path `q` -/
def contrib (q : Name) (c : Comp) : List Entry :=
  [Entry.comp q c.ph]
  ++ c.sigs.map (fun x => Entry.sig (q, x.1) x.2)
  ++ c.mports.map (fun x => Entry.mport (q, x.1) x.2)
  ++ c.blks.flatMap (blkEntries q)
  ++ c.uu.map (fun x => Entry.uu q (absr q x.1) (absr q x.2))
  ++ c.rdu.map (fun x => Entry.rdu q (absr q x.1) x.2.1 (absr q x.2.2))
  ++ c.wru.map (fun x => Entry.wru q (absr q x.1) x.2.1 (absr q x.2.2))
  ++ c.mcs.map (fun x => Entry.mc q (absm q x.1) (absm q x.2.1) x.2.2)
  ++ c.conns.flatMap (fun x =>
      [Entry.edge (.sig (absr q x.1)) (.sig (absr q x.2)), Entry.edge (.sig (absr q x.2)) (.sig (absr q x.1))])
  ++ c.consts.flatMap (fun x =>
      [Entry.edge (.const q (absr q x.1) x.2) (.sig (absr q x.1)),
       Entry.edge (.sig (absr q x.1)) (.const q (absr q x.1) x.2)])

/-- the hierarchy `N` mounted at path `p` -/
def pre (p : Name) (N : Hier) : Hier := N.map (fun x => (p ++ x.1, x.2))

def elaborate (H : Hier) : Meta := H.flatMap (fun x => contrib x.1 x.2)

/-- elaboration of the subtree `N` placed at `p` -/
def elabAt (p : Name) (N : Hier) : Meta := elaborate (pre p N)

/-! ## hierarchy surgery (the from-scratch side) -/

def under (p n : Name) : Bool := p.isPrefixOf n

/-- the hierarchy with the subtree at `p` replaced by `N` -/
def set (H : Hier) (p : Name) (N : Hier) : Hier :=
  H.filter (fun x => !under p x.1) ++ pre p N

/-- the subtree at `p`, paths relative to `p` -/
def sub (H : Hier) (p : Name) : Hier :=
  (H.filter (fun x => under p x.1)).map (fun x => (x.1.drop p.length, x.2))

/-! ## `_delete_component` -/

def Node.gone (p : Name) : Node → Bool
  | .sig s => under p s.1
  | .const o _ _ => under p o

def MRef.gone (p : Name) : MRef → Bool
  | .blk b => under p b.1
  | .meth s => under p s.1

/-- the entry lives in a container of a component under `p` (its key / owner is removed) -/
def owned (p : Name) : Entry → Bool
  | .comp n _ => under p n
  | .sig s _ => under p s.1
  | .mport s _ => under p s.1
  | .blk b => under p b.1
  | .ff b => under p b.1
  | .once b => under p b.1
  | .read b _ => under p b.1
  | .write b _ => under p b.1
  | .call b _ => under p b.1
  | .uu o _ _ => under p o
  | .rdu o _ _ _ => under p o
  | .wru o _ _ _ => under p o
  | .mc o _ _ _ => under p o
  | .edge a _ => a.gone p

/-- the entry mentions a component / signal / block / constant under `p` -/
def touches (p : Name) : Entry → Bool
  | .read b s => under p b.1 || under p s.1
  | .write b s => under p b.1 || under p s.1
  | .call b s => under p b.1 || under p s.1
  | .uu o a b => under p o || under p a.1 || under p b.1
  | .rdu o v _ b => under p o || under p v.1 || under p b.1
  | .wru o v _ b => under p o || under p v.1 || under p b.1
  | .mc o x y _ => under p o || x.gone p || y.gone p
  | .edge a b => a.gone p || b.gone p
  | e => owned p e

/-- removed from the top-level containers and remembered by name: owned by a surviving component,
    mentions something removed. For an adjacency edge: the far end survives, the near end is a removed
    signal (`saved_connections.append( (other, "top"+repr(x)[1:]) )`). -/
def saved (p : Name) (e : Entry) : Bool :=
  touches p e && !owned p e &&
    (match e with
     | .edge _ (.const _ _ _) => false
     | _ => true)

/-- `_delete_component(top, obj)` for `obj` at path `p`: what is left at the top, and what was saved -/
def delete (M : Meta) (p : Name) : Meta × List Entry :=
  (M.filter (fun e => !touches p e), M.filter (saved p))

/-! ## `_add_component` -/

def Entry.swap : Entry → Entry
  | .edge a b => .edge b a
  | e => e

/-- `parent.add_connections(x, eval(y))` fills the adjacency in both directions; the saved block
    references are added back as they were -/
def restore (S : List Entry) : List Entry := S ++ S.map Entry.swap

def declSig (E : Meta) (s : Sig) : Bool :=
  E.any (fun e => match e with
    | .sig s' _ => s' == s
    | .mport s' _ => s' == s
    | _ => false)

def declBlk (E : Meta) (b : BlkId) : Bool := E.contains (.blk b)

def Node.ok (p : Name) (E : Meta) : Node → Bool
  | .sig s => !under p s.1 || declSig E s
  | .const _ _ _ => true

def MRef.ok (p : Name) (E : Meta) : MRef → Bool
  | .blk b => !under p b.1 || declBlk E b
  | .meth s => !under p s.1 || declSig E s

/-- every name under `p` that the saved entry mentions is declared by the new subtree `E`
    (Python: `eval(name)` succeeds) -/
def resolvable (p : Name) (E : Meta) : Entry → Bool
  | .read _ s => !under p s.1 || declSig E s
  | .write _ s => !under p s.1 || declSig E s
  | .call _ s => !under p s.1 || declSig E s
  | .uu _ a b => (!under p a.1 || declBlk E a) && (!under p b.1 || declBlk E b)
  | .rdu _ v _ b => (!under p v.1 || declSig E v) && (!under p b.1 || declBlk E b)
  | .wru _ v _ b => (!under p v.1 || declSig E v) && (!under p b.1 || declBlk E b)
  | .mc _ x y _ => x.ok p E && y.ok p E
  | .edge a b => a.ok p E && b.ok p E
  | _ => true

def addRaw (K : Meta) (p : Name) (N : Hier) (S : List Entry) : Meta :=
  K ++ restore S ++ elabAt p N

/-- `_add_component(parent, name, indices, obj, saved…)` with `obj` elaborating to `N`, mounted at `p` -/
def add (K : Meta) (p : Name) (N : Hier) (S : List Entry) : Option Meta :=
  if S.all (resolvable p (elabAt p N)) then some (addRaw K p N S) else none

/-- `replace_component(top, top.<p>, cls)` / `replace_component_with_obj` -/
def replace (M : Meta) (r : Name × Hier) : Option Meta :=
  add (delete M r.1).1 r.1 r.2 (delete M r.1).2

def replaceAll (M : Meta) : List (Name × Hier) → Option Meta
  | [] => some M
  | r :: rs => (replace M r).bind (fun M' => replaceAll M' rs)

def setAll (H : Hier) (rs : List (Name × Hier)) : Hier :=
  rs.foldl (fun H r => set H r.1 r.2) H

end PV.Meta
