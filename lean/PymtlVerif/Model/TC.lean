import PymtlVerif.Model.Bits
/-!
Model of the behavioural RTLIR type checker of pymtl3, as the code is NOW (quirks included; after the
`fix:` commits 1ca9de9 literal widths, 4d9c041 literal wider than the LHS, c1db525 if-expression width,
075f6b8 constant folding of explicitly sized constants, and the `Bool`-branch repair of `visit_IfExp`):

* `pymtl3/passes/rtlir/behavioral/BehavioralRTLIRTypeCheckL1Pass.py`
  (`BehavioralRTLIRTypeCheckVisitorL1`: `visit_Number`, `visit_Attribute` (signals), `visit_SizeCast`,
  `visit_ZeroExt/SignExt/Truncate`, `visit_Reduce`, `visit_Concat`, `visit_Index`, `visit_Slice`,
  `_handle_index_extension`, `_visit_Assign_single_target`, `_get_nbits_from_value`;
  `BehavioralRTLIRTypeEnforcerL1`: `mutate_datatype`, `visit_Number/FreeVar/Attribute/Index`)
* `.../BehavioralRTLIRTypeCheckL2Pass.py` (`visit_BinOp`, `visit_Compare`, `visit_IfExp`, `visit_UnaryOp`,
  `visit_For`, `visit_If`, `visit_LoopVar`, `visit_TmpVar`, tmpvar part of `_visit_Assign_single_target`,
  `eval_const_binop`; `BehavioralRTLIRTypeEnforcerL2`: `visit_TmpVar`, `visit_LoopVar`, `visit_IfExp`)
* `pymtl3/passes/rtlir/rtype/RTLIRDataType.py` (`_get_nbits_from_value`, `Vector.get_index_width`,
  `Vector.__eq__` — `Bool` and `Vector(1)` are the same width-1 type everywhere in this fragment)
* `.../BehavioralRTLIRGenL1Pass.py` / `GenL2Pass.py` decide which Python forms reach the checker
  (`scopeS` below mirrors the name resolution of `BehavioralRTLIRGeneratorL2.visit_Name/visit_For`).

Two phases, as in the code: the visitor computes `(width, _is_explicit, _value)` bottom-up
(`checkE`); whenever an implicitly sized term meets a context, the *enforcer* walks the already
annotated subtree and re-sizes every implicit leaf in it (`enforce`).  The result of a successful
check is the annotated tree (`AT`, `AS`) whose nodes carry the final `(width, _is_explicit)` the real
checker leaves in `node.Type` / `node._is_explicit`.

Mathlib-free on purpose: this file is linked into the native driver.
-/
namespace PV.TC
open PV.Bits (CmpOp)

/-! ## core language -/

inductive UOp where | inv | neg
deriving DecidableEq, Repr, Inhabited

/-- `+ - * & | ^ %` are the "max width" operators of `visit_BinOp`, `<< >>` the "left width" ones.
    (`/` and `**` are accepted by the checker too but have no `Bits` method; `//` is a syntax error.) -/
inductive Op where | add | sub | mul | band | bor | bxor | mod | shl | shr
deriving DecidableEq, Repr, Inhabited

def Op.isShift : Op → Bool
  | .shl | .shr => true
  | _ => false

inductive ROp where | rand | ror | rxor
deriving DecidableEq, Repr, Inhabited

inductive ExtK where | zext | sext | trunc
deriving DecidableEq, Repr, Inhabited

/-- expressions of an update block.  `sig x w` is `s.<x>` declared `InPort/OutPort/Wire( Bits<w> )`;
    `num` is an integer literal or an `int` free variable; `lv`/`tmp` are loop / temporary variables;
    `cast n e` is `Bits<n>( e )` (also what a `Bits`-valued constant becomes); `ext k ty e n` is
    `zext/sext/trunc( e, n )` (`ty`: the width was written as the type `Bits<n>`);
    `cat l r` is `concat( l, r )` (an n-ary concat is the right-nested chain);
    `idx x w i` is `s.<x>[ i ]`, `slc x w lo hi` is `s.<x>[ lo : hi ]` -/
inductive Expr where
  | sig (x w : Nat)
  | num (v : Nat)
  | lv (i : Nat)
  | tmp (t : Nat)
  | un (op : UOp) (e : Expr)
  | bin (op : Op) (l r : Expr)
  | cmp (op : CmpOp) (l r : Expr)
  | ite (c t f : Expr)
  | cast (n : Nat) (e : Expr)
  | ext (k : ExtK) (ty : Bool) (e : Expr) (n : Nat)
  | red (op : ROp) (e : Expr)
  | cat (l r : Expr)
  | idx (x w : Nat) (i : Expr)
  | slc (x w : Nat) (lo hi : Expr)
deriving DecidableEq, Repr, Inhabited

/-- statements.  `asg tgt e` is `tgt @= e` with `tgt` one of `sig / idx / slc`; `tasg t e` is `t = e` -/
inductive Stmt where
  | skip
  | seq (a b : Stmt)
  | asg (tgt e : Expr)
  | tasg (t : Nat) (e : Expr)
  | ifs (c : Expr) (body orelse : Stmt)
  | for_ (i : Nat) (start stop step : Int) (body : Stmt)
deriving DecidableEq, Repr, Inhabited

/-! ## annotations -/

/-- what the checker stores on a node: `Type.get_dtype().get_length()`, `_is_explicit`, `_value` -/
structure Ann where
  w : Nat
  ex : Bool
  val : Option Int
deriving DecidableEq, Repr, Inhabited

/-- annotated expression tree (shape only; `idx` = an Index node, whose sub-tree the enforcer does not
    enter; `ite` = an IfExp node, which the enforcer re-sizes itself; `n1/n2` = every other node with
    one / two expression children; the `Attribute(Base)` below an Index/Slice is not a node here) -/
inductive AT where
  | leaf (a : Ann)
  | idx (a : Ann) (k : AT)
  | n1 (a : Ann) (k : AT)
  | n2 (a : Ann) (k1 k2 : AT)
  | ite (a : Ann) (c t f : AT)
deriving DecidableEq, Repr, Inhabited

def AT.ann : AT → Ann
  | .leaf a => a
  | .idx a _ => a
  | .n1 a _ => a
  | .n2 a _ _ => a
  | .ite a _ _ _ => a

/-- `BehavioralRTLIRTypeEnforcerL1.mutate_datatype`: only a node that is not explicit is re-sized, and it
    stays implicit afterwards (`# node._is_explicit = True` is commented out in the code) -/
def resize (w : Nat) (a : Ann) : Ann := if a.ex then a else { a with w := w }

/-- the enforcer walk (`enter` + `generic_visit`): leaves (Number, FreeVar, LoopVar, TmpVar, signal
    Attribute) are mutated; an Index node is mutated but not entered; an IfExp node enters body and
    orelse (not the condition) and is then mutated; a BinOp that was folded to a constant (`_value` set; only an
    implicitly sized BinOp is folded) is entered and then mutated like a literal (fix 0e3882f); every other node is
    entered and left as it is -/
def enforce (w : Nat) : AT → AT
  | .leaf a => .leaf (resize w a)
  | .idx a k => .idx (resize w a) k
  | .n1 a k => .n1 a (enforce w k)
  | .n2 a k1 k2 => .n2 (if a.val.isSome then resize w a else a) (enforce w k1) (enforce w k2)
  | .ite a c t f => .ite (resize w a) c (enforce w t) (enforce w f)

inductive TErr where
  | type      -- PyMTLTypeError
  | syntax    -- PyMTLSyntaxError (raised by the RTLIR generation pass)
  | crash     -- any other exception escaping the checker (ZeroDivisionError, AssertionError, ...)
deriving DecidableEq, Repr, Inhabited

/-! ## literal widths -/

/-- `int.bit_length()` of a natural number -/
def bitLen (v : Nat) : Nat := if v = 0 then 0 else Nat.log2 v + 1

/-- `_get_nbits_from_value` on a non-negative integer (both copies, as repaired) -/
def nbitsOf (v : Nat) : Nat := if v ≤ 1 then 1 else bitLen v

/-- `_get_nbits_from_value` on any integer -/
def nbitsInt (v : Int) : Nat :=
  if -1 ≤ v ∧ v ≤ 1 then 1
  else if v < 0 then bitLen (v.natAbs - 1) else bitLen v.toNat

/-- `Vector.get_index_width`: `1 if nbits <= 1 else ceil(log2(nbits))` -/
def idxW (w : Nat) : Nat := if w ≤ 1 then 1 else bitLen (w - 1)

/-! ## Python integer arithmetic (used by constant folding here and by `PyEval`) -/

/-- `a & b` on Python ints (two's complement, unbounded) -/
def iand : Int → Int → Int
  | .ofNat a, .ofNat b => Int.ofNat (a &&& b)
  | .ofNat a, .negSucc b => Int.ofNat (a ^^^ (a &&& b))
  | .negSucc a, .ofNat b => Int.ofNat (b ^^^ (b &&& a))
  | .negSucc a, .negSucc b => Int.negSucc (a ||| b)

def ior : Int → Int → Int
  | .ofNat a, .ofNat b => Int.ofNat (a ||| b)
  | .ofNat a, .negSucc b => Int.negSucc (b ^^^ (b &&& a))
  | .negSucc a, .ofNat b => Int.negSucc (a ^^^ (a &&& b))
  | .negSucc a, .negSucc b => Int.negSucc (a &&& b)

def ixor : Int → Int → Int
  | .ofNat a, .ofNat b => Int.ofNat (a ^^^ b)
  | .ofNat a, .negSucc b => Int.negSucc (a ^^^ b)
  | .negSucc a, .ofNat b => Int.negSucc (a ^^^ b)
  | .negSucc a, .negSucc b => Int.ofNat (a ^^^ b)

inductive IErr where | zerodiv | negshift
deriving DecidableEq, Repr, Inhabited

/-- `l op r` on two Python ints -/
def intBin (op : Op) (l r : Int) : Except IErr Int :=
  match op with
  | .add => .ok (l + r)
  | .sub => .ok (l - r)
  | .mul => .ok (l * r)
  | .band => .ok (iand l r)
  | .bor => .ok (ior l r)
  | .bxor => .ok (ixor l r)
  | .mod => if r = 0 then .error .zerodiv else .ok (Int.fmod l r)
  | .shl => if r < 0 then .error .negshift else .ok (l * 2 ^ r.toNat)
  | .shr => if r < 0 then .error .negshift else .ok (l >>> r.toNat)

/-- `~k`, `-k` on a Python int -/
def intUn (op : UOp) (k : Int) : Int :=
  match op with
  | .inv => -k - 1
  | .neg => -k

/-! ## environments of the checker -/

/-- `loopvar_nbits` (all loop variables of this fragment come from constant ranges, hence implicit) and
    `tmpvars` / `tmpvars_is_explicit` -/
structure Env where
  lvs : List (Nat × Nat)
  tmps : List (Nat × (Nat × Bool))
deriving Repr, Inhabited

def Env.empty : Env := ⟨[], []⟩

def Env.setTmp (Γ : Env) (t : Nat) (e : Nat × Bool) : Env := { Γ with tmps := (t, e) :: Γ.tmps }

/-! ## node rules (non-recursive; the children have been checked already) -/

/-- operand re-sizing shared by `visit_BinOp` (max-width operators) and `visit_Compare` -/
def unify (tl tr : AT) : Except TErr (AT × AT) :=
  let la := tl.ann; let ra := tr.ann
  if la.ex && ra.ex then
    if la.w = ra.w then .ok (tl, tr) else .error .type
  else if !la.ex && !ra.ex then
    if la.w ≥ ra.w then .ok (tl, enforce la.w tr) else .ok (enforce ra.w tl, tr)
  else if la.ex then
    if la.w < ra.w then .error .type else .ok (tl, enforce la.w tr)
  else
    if ra.w < la.w then .error .type else .ok (enforce ra.w tl, tr)

/-- the last part of `visit_BinOp`: constant folding re-types the node to the minimal width of the value;
    only an implicitly sized result is folded (as repaired: `Bits8(3) + 1` stays an 8-bit term) -/
def foldBin (op : Op) (la ra : Ann) (res : Nat) (ex : Bool) : Except TErr Ann :=
  if ex then .ok ⟨res, ex, none⟩ else
  match la.val, ra.val with
  | some l, some r =>
    match intBin op l r with
    | .ok v => .ok ⟨nbitsInt v, ex, some v⟩
    | .error _ => .error .crash          -- ZeroDivisionError / ValueError escapes `eval_const_binop`
  | _, _ => .ok ⟨res, ex, none⟩

def binRule (op : Op) (tl tr : AT) : Except TErr AT :=
  let la := tl.ann; let ra := tr.ann
  if op.isShift then
    match foldBin op la ra la.w la.ex with
    | .ok a => .ok (.n2 a tl tr)
    | .error e => .error e
  else
    match unify tl tr with
    | .error e => .error e
    | .ok (tl', tr') =>
      match foldBin op la ra (max la.w ra.w) (la.ex || ra.ex) with
      | .ok a => .ok (.n2 a tl' tr')
      | .error e => .error e

def cmpRule (tl tr : AT) : Except TErr AT :=
  match unify tl tr with
  | .error e => .error e
  | .ok (tl', tr') => .ok (.n2 ⟨1, true, none⟩ tl' tr')

/-- `visit_IfExp` (as repaired): two explicit branches must have the same width; an implicit branch is
    re-sized to the other one (the narrower of two implicit branches to the wider); the node is as wide
    as its wider branch after that.  (`rdt.Bool`, the type of a comparison, counts as a 1-bit vector.) -/
def iteRule (tc tt tf : AT) : Except TErr AT :=
  let ta := tt.ann; let fa := tf.ann
  let ex := ta.ex || fa.ex
  let mk (tt' tf' : AT) : AT :=
    .ite ⟨if tf'.ann.w > tt'.ann.w then tf'.ann.w else tt'.ann.w, ex, none⟩ tc tt' tf'
  if ta.w = fa.w then .ok (mk tt tf)
  else if ta.ex && fa.ex then .error .type
  else if !ta.ex && !fa.ex then
    if ta.w ≥ fa.w then .ok (mk tt (enforce ta.w tf)) else .ok (mk (enforce fa.w tt) tf)
  else if !ta.ex then
    if fa.w < ta.w then .error .type else .ok (mk (enforce fa.w tt) tf)
  else
    if ta.w < fa.w then .error .type else .ok (mk tt (enforce ta.w tf))

def unRule (op : UOp) (te : AT) : AT :=
  .n1 ⟨te.ann.w, te.ann.ex, te.ann.val.map (intUn op)⟩ te

def castRule (n : Nat) (te : AT) : AT := .n1 ⟨n, true, te.ann.val⟩ te

def extRule (k : ExtK) (te : AT) (n : Nat) : Except TErr AT :=
  match k with
  | .trunc =>
    if n > te.ann.w then .error .type
    else if n = 0 then .error .crash       -- `rdt.Vector( 0 )` asserts
    else .ok (.n1 ⟨n, true, none⟩ te)
  | _ =>
    if n < te.ann.w then .error .type else .ok (.n1 ⟨n, true, none⟩ te)

/-- `_handle_index_extension` -/
def handleIdx (expected : Nat) (t : AT) (inclusive : Bool) : Except TErr AT :=
  let n0 := t.ann.w
  let n := match inclusive, t.ann.val with
    | false, some v => nbitsInt (v - 1)
    | _, _ => n0
  if n > expected then .error .type
  else if n < expected then
    if !t.ann.ex then .ok (enforce expected t) else .error .type
  else if n ≠ n0 then .ok (enforce n t) else .ok t

def idxRule (w : Nat) (ti : AT) : Except TErr AT :=
  match handleIdx (idxW w) ti true with
  | .error e => .error e
  | .ok ti' =>
    match ti.ann.val with
    | some k => if 0 ≤ k ∧ k < w then .ok (.idx ⟨1, true, none⟩ ti') else .error .type
    | none => .ok (.idx ⟨1, true, none⟩ ti')

/-- the size of a `lo : lo + N` part selection: `upper` is `BinOp(Add, X, N)` with `X == lower`
    (structural equality of the RTLIR nodes) and `N` has a `_value` -/
def plusSize (lo hi : Expr) (thi : AT) : Option Int :=
  match hi, thi with
  | .bin .add x _, .n2 _ _ tn => if lo = x then tn.ann.val else none
  | _, _ => none

def slcRule (w : Nat) (lo hi : Expr) (tlo thi : AT) : Except TErr AT :=
  match handleIdx (idxW w) tlo true with
  | .error e => .error e
  | .ok tlo' =>
  match handleIdx (idxW w) thi false with
  | .error e => .error e
  | .ok thi' =>
    match tlo.ann.val, thi.ann.val with
    | some l, some u =>
      if l ≥ u then .error .type
      else if 0 ≤ l ∧ u ≤ w then .ok (.n2 ⟨(u - l).toNat, true, none⟩ tlo' thi')
      else .error .type
    | _, _ =>
      match plusSize lo hi thi with
      | some sz => if sz ≥ 1 then .ok (.n2 ⟨sz.toNat, true, none⟩ tlo' thi') else .error .type
      | none => .error .type

/-! ## the visitor on expressions -/

def checkE (Γ : Env) : Expr → Except TErr AT
  | .sig _ w => .ok (.leaf ⟨w, true, none⟩)
  | .num v => .ok (.leaf ⟨nbitsOf v, false, some v⟩)
  | .lv i =>
    match Γ.lvs.lookup i with
    | some w => .ok (.leaf ⟨w, false, none⟩)
    | none => .error .syntax
  | .tmp t =>
    match Γ.tmps.lookup t with
    | some (w, ex) => .ok (.leaf ⟨w, ex, none⟩)
    | none => .error .syntax
  | .un op e =>
    match checkE Γ e with
    | .ok te => .ok (unRule op te)
    | .error er => .error er
  | .bin op l r =>
    match checkE Γ l with
    | .error er => .error er
    | .ok tl =>
    match checkE Γ r with
    | .error er => .error er
    | .ok tr => binRule op tl tr
  | .cmp _ l r =>
    match checkE Γ l with
    | .error er => .error er
    | .ok tl =>
    match checkE Γ r with
    | .error er => .error er
    | .ok tr => cmpRule tl tr
  | .ite c t f =>
    match checkE Γ c with
    | .error er => .error er
    | .ok tc =>
    match checkE Γ t with
    | .error er => .error er
    | .ok tt =>
    match checkE Γ f with
    | .error er => .error er
    | .ok tf => iteRule tc tt tf
  | .cast n e =>
    match checkE Γ e with
    | .ok te => .ok (castRule n te)
    | .error er => .error er
  | .ext k _ e n =>
    match checkE Γ e with
    | .ok te => extRule k te n
    | .error er => .error er
  | .red _ e =>
    match checkE Γ e with
    | .ok te => .ok (.n1 ⟨1, true, none⟩ te)
    | .error er => .error er
  | .cat l r =>
    match checkE Γ l with
    | .error er => .error er
    | .ok tl =>
    match checkE Γ r with
    | .error er => .error er
    | .ok tr => .ok (.n2 ⟨tl.ann.w + tr.ann.w, true, none⟩ tl tr)
  | .idx _ w i =>
    match checkE Γ i with
    | .ok ti => idxRule w ti
    | .error er => .error er
  | .slc _ w lo hi =>
    match checkE Γ lo with
    | .error er => .error er
    | .ok tlo =>
    match checkE Γ hi with
    | .error er => .error er
    | .ok thi => slcRule w lo hi tlo thi

/-! ## statements -/

/-- annotated statements: `asg` keeps the target and value trees, `tasg` the annotation of the TmpVar
    target node, `for_` the loop-variable width -/
inductive AS where
  | skip
  | seq (a b : AS)
  | asg (tt te : AT)
  | tasg (a : Ann) (te : AT)
  | ifs (tc : AT) (b o : AS)
  | for_ (w : Nat) (b : AS)
deriving DecidableEq, Repr, Inhabited

/-- `range( start, stop, step )` for `step ≠ 0` -/
def pyRangeAux (stop step : Int) : Nat → Int → List Int
  | 0, _ => []
  | fuel+1, x =>
    if (step > 0 ∧ x < stop) ∨ (step < 0 ∧ x > stop) then x :: pyRangeAux stop step fuel (x + step) else []

def pyRange (start stop step : Int) : List Int :=
  pyRangeAux stop step ((start - stop).natAbs + 1) start

def maxList : List Int → Int → Int
  | [], m => m
  | x :: xs, m => maxList xs (if x > m then x else m)

/-- `lvar_nbits` of `visit_For` for constant bounds -/
def loopWidth (start stop step : Int) : Nat :=
  match pyRange start stop step with
  | [] => nbitsInt (max start (max stop step))
  | x :: xs => nbitsInt (maxList xs x)

def isTarget : Expr → Bool
  | .sig _ _ | .idx _ _ _ | .slc _ _ _ _ => true
  | _ => false

/-- L1 `_visit_Assign_single_target` (as repaired): an implicit right-hand side of another width is
    rejected if it needs more bits than the target has, otherwise re-sized to the target; then both
    widths must be equal -/
def asgRule (tt te : AT) : Except TErr AS :=
  let lw := tt.ann.w
  if !te.ann.ex && te.ann.w ≠ lw then
    if te.ann.w > lw then .error .type
    else
      let te' := enforce lw te
      if te'.ann.w = lw then .ok (.asg tt te') else .error .type
  else if te.ann.w = lw then .ok (.asg tt te) else .error .type

def checkS (Γ : Env) : Stmt → Except TErr (Env × AS)
  | .skip => .ok (Γ, .skip)
  | .seq a b =>
    match checkS Γ a with
    | .error er => .error er
    | .ok (Γ1, sa) =>
    match checkS Γ1 b with
    | .error er => .error er
    | .ok (Γ2, sb) => .ok (Γ2, .seq sa sb)
  | .asg tgt e =>
    if !isTarget tgt then .error .type else
    match checkE Γ tgt with
    | .error er => .error er
    | .ok tt =>
    match checkE Γ e with
    | .error er => .error er
    | .ok te =>
    match asgRule tt te with
    | .ok s => .ok (Γ, s)
    | .error er => .error er
  | .tasg t e =>
    match checkE Γ e with
    | .error er => .error er
    | .ok te =>
      match Γ.tmps.lookup t with
      | some (w, ex) =>
        if w = te.ann.w then .ok (Γ.setTmp t (te.ann.w, te.ann.ex), .tasg ⟨te.ann.w, ex, none⟩ te)
        else .error .type
      | none => .ok (Γ.setTmp t (te.ann.w, te.ann.ex), .tasg ⟨te.ann.w, true, none⟩ te)
  | .ifs c b o =>
    match checkE Γ c with
    | .error er => .error er
    | .ok tc =>
    match checkS Γ b with
    | .error er => .error er
    | .ok (Γ1, sb) =>
    match checkS Γ1 o with
    | .error er => .error er
    | .ok (Γ2, so) => .ok (Γ2, .ifs tc sb so)
  | .for_ i start stop step body =>
    if start < 0 then .error .type
    else if stop < 0 then .error .type
    else if step = 0 then .error .type
    else
      let w := loopWidth start stop step
      match checkS { Γ with lvs := (i, w) :: Γ.lvs } body with
      | .error er => .error er
      | .ok (Γ1, sb) => .ok ({ Γ1 with lvs := Γ.lvs }, .for_ w sb)

/-! ## name resolution of the generation pass (`BehavioralRTLIRGeneratorL2.visit_Name`, `visit_For`)

The generation pass runs over the whole block before the checker: a temporary read before its first
(textual) assignment, a loop variable used outside its loop, or a nested loop re-using the index name
is a `PyMTLSyntaxError` whatever else is wrong in the block. -/

def scopeE (lvs tmps : List Nat) : Expr → Bool
  | .sig _ _ => true
  | .num _ => true
  | .lv i => lvs.contains i
  | .tmp t => tmps.contains t
  | .un _ e => scopeE lvs tmps e
  | .bin _ l r => scopeE lvs tmps l && scopeE lvs tmps r
  | .cmp _ l r => scopeE lvs tmps l && scopeE lvs tmps r
  | .ite c t f => scopeE lvs tmps c && scopeE lvs tmps t && scopeE lvs tmps f
  | .cast _ e => scopeE lvs tmps e
  | .ext _ _ e _ => scopeE lvs tmps e
  | .red _ e => scopeE lvs tmps e
  | .cat l r => scopeE lvs tmps l && scopeE lvs tmps r
  | .idx _ _ i => scopeE lvs tmps i
  | .slc _ _ lo hi => scopeE lvs tmps lo && scopeE lvs tmps hi

/-- returns the temporaries known after the statement, `none` = syntax error -/
def scopeS (lvs : List Nat) (tmps : List Nat) : Stmt → Option (List Nat)
  | .skip => some tmps
  | .seq a b =>
    match scopeS lvs tmps a with
    | some t1 => scopeS lvs t1 b
    | none => none
  | .asg tgt e => if scopeE lvs tmps e && scopeE lvs tmps tgt then some tmps else none
  | .tasg t e => if scopeE lvs tmps e then some (if tmps.contains t then tmps else t :: tmps) else none
  | .ifs c b o =>
    if !scopeE lvs tmps c then none else
    match scopeS lvs tmps b with
    | some t1 => scopeS lvs t1 o
    | none => none
  | .for_ i _ _ _ body => if lvs.contains i then none else scopeS (i :: lvs) tmps body

/-- generation + type check of one update block -/
def checkBlock (s : Stmt) : Except TErr (Env × AS) :=
  match scopeS [] [] s with
  | none => .error .syntax
  | some _ => checkS Env.empty s

end PV.TC
