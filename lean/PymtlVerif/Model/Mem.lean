/-
Model of the magic memories of pymtl3 (property C18).

  * byte store and the little-endian helpers      `pymtl3/extra/pypy/fast_bytearray_funcs.py`
      (`read_bytearray_bits` = `readLE`, `write_bytearray_bits` = `writeLE`)
  * `MagicMemoryFL.read / write / amo`, `AMO_FUNS`  `pymtl3/stdlib/mem/MagicMemoryFL.py`
  * the servicing of one request inside `up_mem`   `pymtl3/stdlib/mem/MagicMemoryCL.py`,
      (`service`; same body in both memories)      `pymtl3/stdlib/stream/magic_memory.py`
  * `DelayPipeDeqCL`, `DelayPipeSendCL`            `pymtl3/stdlib/delays/DelayPipeCL.py`
  * `StallCL` (a Bool per `rdy()` call)            `pymtl3/stdlib/delays/StallCL.py`
  * `MagicMemoryCL` as a cycle-level system        (`CL.*`)
  * `RandomStall`, `InelasticDelayPipe`, stream `MagicMemoryRTL` (after the `fix:` commit that makes
    `up_mem` process a request only when `val & rdy`)   (`RTL.*`)

What is outside the model (validated only through the correspondence check): request types other
than READ / WRITE / the nine AMOs (`INV`/`FLUSH` answer without touching the store, every other
type hits `assert False`), addresses beyond `mem_nbytes` (IndexError), the test sources / sinks (their behaviour enters
the system models as arbitrary per-cycle Bool streams `offer` / `srcVal` / `sinkRdy`), the random
number generator of the stall components (enters as an arbitrary per-cycle Bool stream `stall`).

Mathlib-free on purpose: this file is linked into the native driver `pv_mem`.
-/
namespace PV.Mem

/-! ## byte store -/

/-- the `bytearray`: address ↦ byte -/
abbrev Store := Nat → Nat

def upd (m : Store) (a v : Nat) : Store := fun b => if b = a then v else m b

/-- `read_bytearray_bits(arr, addr, nbytes)`: `ret = (ret << 8) + arr[addr]` from the top byte down -/
def readLE (m : Store) : Nat → Nat → Nat
  | _, 0 => 0
  | a, k+1 => m a + 256 * readLE m (a+1) k

/-- `write_bytearray_bits(arr, addr, nbytes, data)`: `arr[addr] = data & 255; data >>= 8; addr += 1` -/
def writeLE (m : Store) : Nat → Nat → Nat → Store
  | _, 0, _ => m
  | a, k+1, d => writeLE (upd m a (d % 256)) (a+1) k (d / 256)

/-! ## atomic memory operations (`AMO_FUNS`) -/

inductive AmoOp where
  | add | and | or | swap | min | minu | max | maxu | xor
deriving DecidableEq, Repr, Inhabited

/-- `MemMsgType` codes -/
def AmoOp.code : AmoOp → Nat
  | .add => 3 | .and => 4 | .or => 5 | .swap => 6 | .min => 7 | .minu => 8
  | .max => 9 | .maxu => 10 | .xor => 11

/-- `Bits.int()` of a `w`-bit value: two's complement reading -/
def sint (w x : Nat) : Int := if x / 2 ^ (w - 1) = 0 then (x : Int) else (x : Int) - (2 : Int) ^ w

/-- `AMO_FUNS[op](m, a)` on two `w`-bit `Bits` (`m` = value read from memory, `a` = `req.data`);
`min`/`max` of two `Bits` are Python's builtins (`a if a < m else m`, `a if a > m else m`). -/
def amoFun (w : Nat) (op : AmoOp) (m a : Nat) : Nat :=
  match op with
  | .add  => (m + a) % 2 ^ w
  | .and  => m &&& a
  | .or   => m ||| a
  | .swap => a
  | .min  => if sint w m < sint w a then m else a
  | .minu => if a < m then a else m
  | .max  => if sint w m > sint w a then m else a
  | .maxu => if a > m then a else m
  | .xor  => m ^^^ a

/-! ## messages and the servicing of one request -/

inductive Kind where
  | read | write | amo (op : AmoOp)
deriving DecidableEq, Repr, Inhabited

def Kind.code : Kind → Nat
  | .read => 0 | .write => 1 | .amo op => op.code

/-- `MemReqMsg` (field values as naturals) -/
structure Req where
  kind : Kind
  opq : Nat
  addr : Nat
  len : Nat
  data : Nat
  nb : Nat      -- bytes of the data field of the request's message class (`data_nbits >> 3`)
deriving DecidableEq, Repr, Inhabited

/-- `MemRespMsg` -/
structure Resp where
  type : Nat
  opq : Nat
  test : Nat
  len : Nat
  data : Nat
deriving DecidableEq, Repr, Inhabited

/-- `len_ = int(req.len); if len_ == 0: len_ = req_classes[i].data_nbits >> 3`. `nb` is the byte width of the
data field of the message class of the port being serviced; the model reads it from the request (`Req.nb`): the
requests of port `i` are messages of `req_classes[i]` (the memories' ports may carry different message types). -/
def nbytes (nb len : Nat) : Nat := if len = 0 then nb else len

/-- body of `up_mem` for one dequeued request: the response and the new store -/
def service (r : Req) (m : Store) : Resp × Store :=
  let k := nbytes r.nb r.len
  match r.kind with
  | .read =>      -- resp(type, opaque, 0, req.len, zext(mem.read(addr, len_)))
    (⟨Kind.read.code, r.opq, 0, r.len, readLE m r.addr k⟩, m)
  | .write =>     -- mem.write(addr, len_, req.data[0:len_<<3]);  resp(type, opaque, 0, 0, 0)
    (⟨Kind.write.code, r.opq, 0, 0, 0⟩, writeLE m r.addr k (r.data % 2 ^ (8 * k)))
  | .amo op =>    -- resp(type, opaque, 0, req.len, zext(mem.amo(type, addr, len_, req.data[0:len_<<3]), data_nbits)) with
                  -- amo: ret = read(addr, len_); write(addr, len_, AMO_FUNS[op](ret, data)); return ret
                  -- a sub-word AMO (`len_` < `nb`) works on the low `len_` bytes of the data field, at width `8*len_`
                  -- (signed min / max at that width), and answers the old `len_` bytes zero-extended; the full-width
                  -- AMO is the case `len = 0` (`r.data % 2^(8*nb) = r.data` for a well-formed message)
    let old := readLE m r.addr k
    (⟨op.code, r.opq, 0, r.len, old⟩, writeLE m r.addr k (amoFun (8 * k) op old (r.data % 2 ^ (8 * k))))

/-- the sequential specification: one memory, requests applied one after another -/
def seqSpec : List Req → Store → List Resp × Store
  | [], m => ([], m)
  | r :: rs, m =>
    let x := service r m
    let y := seqSpec rs x.2
    (x.1 :: y.1, y.2)

/-- the same over a port-tagged log (what the system models record) -/
def runLog : List (Nat × Req) → Store → List (Nat × Resp) × Store
  | [], m => ([], m)
  | (i, r) :: rs, m =>
    let x := service r m
    let y := runLog rs x.2
    ((i, x.1) :: y.1, y.2)

/-- requests of port `i` in a log, in log order -/
def procs (i : Nat) (log : List (Nat × Req)) : List Req :=
  (log.filter (fun e => e.1 == i)).map (·.2)

/-- responses of port `i` in a tagged response log -/
def portResps (i : Nat) (rlog : List (Nat × Resp)) : List Resp :=
  (rlog.filter (fun e => e.1 == i)).map (·.2)

/-! ## the store effects of a log (for "the latest earlier write covering the byte") -/

/-- `k` bytes of `val` stored at `addr`, little endian -/
structure WEvent where
  addr : Nat
  k : Nat
  val : Nat
deriving Repr, Inhabited

def WEvent.covers (e : WEvent) (b : Nat) : Bool := decide (e.addr ≤ b) && decide (b < e.addr + e.k)
def WEvent.byte (e : WEvent) (b : Nat) : Nat := (e.val / 256 ^ (b - e.addr)) % 256

/-- what `service` stores (a read stores nothing) -/
def effect (r : Req) (m : Store) : Option WEvent :=
  let k := nbytes r.nb r.len
  match r.kind with
  | .read => none
  | .write => some ⟨r.addr, k, r.data % 2 ^ (8 * k)⟩
  | .amo op => some ⟨r.addr, k, amoFun (8 * k) op (readLE m r.addr k) (r.data % 2 ^ (8 * k))⟩

/-- store events of a run, oldest first -/
def effects : List Req → Store → List WEvent
  | [], _ => []
  | r :: rs, m => (effect r m).toList ++ effects rs (service r m).2

/-- the byte the *latest* event covering address `b` put there (none: no event covers `b`) -/
def latest : List WEvent → Nat → Option Nat
  | [], _ => none
  | e :: es, b =>
    match latest es b with
    | some v => some v
    | none => if e.covers b then some (e.byte b) else none

/-! ## pipelines of slots (`deque([None]*n)`), index 0 first -/

abbrev Slots (α : Type) := List (Option α)

namespace Slots
variable {α : Type}

/-- `deque.rotate()`: the last slot moves to the front -/
def rot (p : Slots α) : Slots α :=
  match p.getLast? with
  | none => p
  | some x => x :: p.dropLast

/-- `pipeline[0] = v` -/
def setHead (p : Slots α) (v : Option α) : Slots α :=
  match p with
  | [] => []
  | _ :: t => v :: t

/-- `pipeline[-1] = v` -/
def setLast (p : Slots α) (v : Option α) : Slots α :=
  match p.getLast? with
  | none => p
  | some _ => p.dropLast ++ [v]

/-- messages in the pipeline, oldest (closest to the exit) first -/
def contents (p : Slots α) : List α := p.reverse.filterMap id

def empty (n : Nat) : Slots α := List.replicate n none

/-- `pipeline[0] is None` -/
def headFree (p : Slots α) : Bool := match p with | none :: _ => true | _ => false

end Slots

/-! ### `DelayPipeDeqCL(delay)`: `delay+1` slots -/
namespace DeqPipe
variable {α : Type}

/-- `up_delay`: `if pipeline[-1] is None: pipeline.rotate()`. (For `delay = 0` the component has a
single slot and no `up_delay`; rotating a single empty slot is the identity, so the same function
serves.) -/
def tick (p : Slots α) : Slots α :=
  match p.getLast? with
  | some none => p.rot
  | _ => p

/-- `enq.rdy()`: `pipeline[0] is None` -/
def enqRdy (p : Slots α) : Bool := p.headFree
/-- `enq(msg)`: `pipeline[0] = msg` -/
def enq (p : Slots α) (x : α) : Slots α := p.setHead (some x)
/-- `deq.rdy()`: `pipeline[-1] is not None`; `deq()`: `ret = pipeline[-1]; pipeline[-1] = None` -/
def deq (p : Slots α) : Option (α × Slots α) :=
  match p.getLast? with
  | some (some x) => some (x, p.setLast none)
  | _ => none

end DeqPipe

/-! ### `DelayPipeSendCL(delay)`, `delay ≥ 1`: `delay` slots, pushes into `send` -/
namespace SendPipe
variable {α : Type}

/-- `up_delay`: a message in the last slot is sent if `send.rdy()` (then the slot is cleared and
the pipeline rotates), an empty last slot rotates. Returns the new pipeline and what was sent. -/
def tick (sinkRdy : Bool) (p : Slots α) : Slots α × Option α :=
  match p.getLast? with
  | some (some x) => if sinkRdy then ((p.setLast none).rot, some x) else (p, none)
  | some none => (p.rot, none)
  | none => (p, none)

def enqRdy (p : Slots α) : Bool := p.headFree
def enq (p : Slots α) (x : α) : Slots α := p.setHead (some x)

end SendPipe

/-! ### `InelasticDelayPipe(delay)` of the stream library: `delay+1` slots, registered val/rdy -/
structure IPipe (α : Type) where
  slots : Slots α
  sendVal : Bool            -- `send.val`
  sendMsg : Option α        -- `send.msg`
  recvRdy : Bool            -- `recv.rdy`

namespace IPipe
variable {α : Type}

def init (delay : Nat) : IPipe α := ⟨Slots.empty (delay + 1), false, none, false⟩

/-- `up_delay` (one clock edge). `recvVal`/`msg`: the upstream side; `sinkRdy`: `send.rdy`.
Returns the new state and the message handed to the consumer at this edge (`send.val & send.rdy`). -/
def edge (recvVal : Bool) (msg : α) (sinkRdy : Bool) (q : IPipe α) : IPipe α × Option α :=
  let p1 := if q.recvRdy && recvVal then q.slots.setHead (some msg) else q.slots
  let p2 := if q.sendVal then (if sinkRdy then (p1.setLast none).rot else p1) else p1.rot
  let out := if q.sendVal && sinkRdy then q.sendMsg else none
  let rdy := p2.headFree                                          -- `recv.rdy <<= pipe[0] is None`
  match p2.getLast? with
  | some (some x) => (⟨p2, true, some x, rdy⟩, out)              -- `send.val <<= 1; send.msg <<= pipe[-1]`
  | _ => (⟨p2, false, q.sendMsg, rdy⟩, out)                       -- `send.val <<= 0`

end IPipe

/-- `for i in range(n): s = f i s` -/
def forPorts {σ : Type} (f : Nat → σ → σ) : Nat → σ → σ
  | 0, s => s
  | k+1, s => f k (forPorts f k s)

def updPort {π : Type} (ps : Nat → π) (i : Nat) (p : π) : Nat → π := fun j => if j = i then p else ps j

/-! ## `MagicMemoryCL` with its test source / sink environment, cycle by cycle

One call of the update schedule is one cycle. Within a cycle the blocks of port `i` run in an
order compatible with the declared constraints: `resp_q.up_delay` (delivers to the sink),
`req_q.up_delay`, the source's send through `StallCL.recv` into `req_q.enq`, then `up_mem`, which
visits the ports in index order. Blocks of different ports touch disjoint state except `up_mem`.
-/
namespace CL

structure Port where
  pending : List Req          -- not yet sent by the source
  reqQ : Slots Req            -- DelayPipeDeqCL( min(1, latency) )
  respQ : Slots Resp          -- DelayPipeSendCL( latency - min(1, latency) ); `[]` when that delay is 0
  delivered : List Resp       -- received by the sink, oldest first

/-- what the environment decides for one port in one cycle -/
structure Env where
  offer : Bool      -- the source calls `send.rdy()` in this cycle (its counter is 0, not in reset)
  stall : Bool      -- `stall_rgen.random() > stall_prob` is False
  sinkRdy : Bool    -- the sink's `recv.rdy()` (its counter is 0)

structure Sys where
  ports : Nat → Port
  store : Store
  log : List (Nat × Req)      -- processed requests, oldest first, tagged with the port
  rlog : List (Nat × Resp)    -- the responses produced for them

/-- `resp_qs[i].up_delay` (absent when the response delay is 0: `enq` is wired to `send`) -/
def respTick (e : Env) (p : Port) : Port :=
  match SendPipe.tick e.sinkRdy p.respQ with
  | (q, some r) => { p with respQ := q, delivered := p.delivered ++ [r] }
  | (q, none) => { p with respQ := q }

/-- `req_qs[i].up_delay` -/
def reqTick (p : Port) : Port := { p with reqQ := DeqPipe.tick p.reqQ }

/-- `TestSrcCL.up_src_send` through `StallCL.recv`:
`if send.rdy() and msgs: send(msgs.popleft())` with `rdy = random() > prob and req_q.enq.rdy()` -/
def srcSend (e : Env) (p : Port) : Port :=
  if e.offer && !e.stall && DeqPipe.enqRdy p.reqQ then
    match p.pending with
    | r :: rest => { p with pending := rest, reqQ := DeqPipe.enq p.reqQ r }
    | [] => p
  else p

def portPre (e : Env) (p : Port) : Port := srcSend e (reqTick (respTick e p))

/-- iteration `i` of the loop in `up_mem` -/
def memPort (env : Nat → Env) (i : Nat) (s : Sys) : Sys :=
  let p := s.ports i
  match DeqPipe.deq p.reqQ with
  | none => s                                        -- `req_qs[i].deq.rdy()` is False
  | some (r, reqQ') =>
    match p.respQ with
    | [] =>                                          -- response delay 0: `enq` is the sink's `recv`
      if (env i).sinkRdy then
        let x := service r s.store
        { ports := updPort s.ports i { p with reqQ := reqQ', delivered := p.delivered ++ [x.1] },
          store := x.2, log := s.log ++ [(i, r)], rlog := s.rlog ++ [(i, x.1)] }
      else s
    | _ =>
      if SendPipe.enqRdy p.respQ then
        let x := service r s.store
        { ports := updPort s.ports i { p with reqQ := reqQ', respQ := SendPipe.enq p.respQ x.1 },
          store := x.2, log := s.log ++ [(i, r)], rlog := s.rlog ++ [(i, x.1)] }
      else s

def prePort (env : Nat → Env) (i : Nat) (s : Sys) : Sys :=
  { s with ports := updPort s.ports i (portPre (env i) (s.ports i)) }

/-- one cycle -/
def cycle (n : Nat) (env : Nat → Env) (s : Sys) : Sys :=
  forPorts (memPort env) n (forPorts (prePort env) n s)

/-- `MagicMemoryCL(nports, .., latency)` connected to sources holding `reqs i`, store image `m0` -/
def init (latency : Nat) (reqs : Nat → List Req) (m0 : Store) : Sys :=
  let rq := min 1 latency
  { ports := fun i => ⟨reqs i, Slots.empty (rq + 1), Slots.empty (latency - rq), []⟩,
    store := m0, log := [], rlog := [] }

/-- `T` cycles under the environment `env : cycle → port → Env` -/
def run (n : Nat) (env : Nat → Nat → Env) (T : Nat) (s : Sys) : Sys :=
  (List.range T).foldl (fun s t => cycle n (env t) s) s

end CL

/-! ## stream `MagicMemoryRTL` with `SourceRTL` / `SinkRTL`, cycle by cycle

Per port: the source presents its next message with `val` (an arbitrary stream here), `RandomStall`
masks `val` and `rdy` with its registered random decision, `up_mem` services the request in the
cycles where `val & rdy` and drives the response into `InelasticDelayPipe(extra_latency+1)`, which
takes it at the clock edge. `up_mem` visits the ports in index order; the clock-edge update of port
`i` touches only the state of port `i`, so the model performs it right after iteration `i`.
-/
namespace RTL

structure Port where
  pending : List Req
  pipe : IPipe Resp
  delivered : List Resp

structure Env where
  srcVal : Bool     -- `srcs[i].send.val`
  stall : Bool      -- `rand_value > stall_prob` is False
  sinkRdy : Bool    -- `sinks[i].recv.rdy`

structure Sys where
  ports : Nat → Port
  store : Store
  log : List (Nat × Req)
  rlog : List (Nat × Resp)

def deliver (p : Port) (q : IPipe Resp) (out : Option Resp) (pend : List Req) : Port :=
  match out with
  | some x => ⟨pend, q, p.delivered ++ [x]⟩
  | none => ⟨pend, q, p.delivered⟩

/-- the clock edge of a port in a cycle without request handshake -/
def idle (e : Env) (p : Port) : Port :=
  let y := p.pipe.edge false ⟨0, 0, 0, 0, 0⟩ e.sinkRdy
  deliver p y.1 y.2 p.pending

/-- iteration `i` of `up_mem` followed by the clock edge of port `i` -/
def portCycle (env : Nat → Env) (i : Nat) (s : Sys) : Sys :=
  let p := s.ports i
  let e := env i
  match p.pending with
  | r :: rest =>
    if e.srcVal && !e.stall && p.pipe.recvRdy then      -- `send.val & send.rdy` of the stall stage
      let x := service r s.store
      let y := p.pipe.edge true x.1 e.sinkRdy
      { ports := updPort s.ports i (deliver p y.1 y.2 rest),
        store := x.2, log := s.log ++ [(i, r)], rlog := s.rlog ++ [(i, x.1)] }
    else
      { s with ports := updPort s.ports i (idle e p) }
  | [] =>                                                -- the source has nothing left: `val` is 0
    { s with ports := updPort s.ports i (idle e p) }

def cycle (n : Nat) (env : Nat → Env) (s : Sys) : Sys := forPorts (portCycle env) n s

def init (extraLatency : Nat) (reqs : Nat → List Req) (m0 : Store) : Sys :=
  { ports := fun i => ⟨reqs i, IPipe.init (extraLatency + 1), []⟩, store := m0, log := [], rlog := [] }

def run (n : Nat) (env : Nat → Nat → Env) (T : Nat) (s : Sys) : Sys :=
  (List.range T).foldl (fun s t => cycle n (env t) s) s

end RTL

end PV.Mem
