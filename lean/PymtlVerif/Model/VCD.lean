import PymtlVerif.Model.Bits
/-!
Model of `pymtl3/passes/tracing/VcdGenerationPass.py` (`make_vcd_func`, `dump_vcd_inner`) and of an
independent VCD reader (`stateAt`, `replay`).

What the pass does, and how it is modelled:

* `trimmed_value_nets` / `net_symbol_mapping`: the design is a list of nets (`Design.widths`, net order =
  list order), net `i` has symbol `symbol i` (`_gen_vcd_symbol`: base-94 positional code over chr(33..126),
  the `while q > 0` loop is `symLoop`), one net is the clock net (`Design.clk` = `vcd_clock_net_idx`),
  every declared signal (`$var` line) is mapped to a net (`Design.sigs` = `signal_net_mapping`) and is
  declared with that net's symbol.
* header: for every net, in net order, `"{to_vcd_str(default)}{symbol}"`; `last_values[i]` := that string.
  Then `#0`, `1<clk>`.
* `net_details` = all nets except the clock net (`details`), and `dump_vcd_inner` walks it with
  `enumerate`: entry number `i` of `net_details` is compared with and stored into `last_values[i]` —
  **the index is the position in `net_details`, not the net index**, so for nets behind the clock net the
  first comparison is made against the header string of the *preceding* net (`stepNets` is written over
  the two lists exactly like that; the last entry of `last_values` is never used).
* per cycle: changed nets (string comparison of `to_vcd_str`), then `#100c+50`, `0<clk>`, `#100c+100`, `1<clk>`.
* `to_vcd_str` is `PV.Bits.toVcdStr` (Model/Bits.lean); `parseVcdStr` is the reader's inverse.

* the net table itself (which value nets are dumped, `vcd_clock_net_idx`, the symbol of every `$var` line) is computed by
  `trimLoop` / `declareAll` / `netTable` (section "the net table" below) from the enumerated value nets, as the trimming loop
  and `recurse_models` of `make_vcd_func` do it; `NetTab.design` hands the result to `dump` (theorems: `Props/C16n.lean`).

A reader (`replay`) knows only the declarations `(width, symbol)` and the event list; the value of a signal in
cycle `t` is what its symbol holds after every event stamped ≤ 100·t (value holds until changed).

Mathlib-free: linked into the native driver `pv_vcd`.
-/
namespace PV.VCD
open PV.Bits

/-! ### symbols (`_gen_vcd_symbol`) -/

/-- `while q > 0: q, r = divmod(q, 94); code = chars[r] + code` (fuel ≥ q is always enough) -/
def symLoop : Nat → Nat → List Nat → List Nat
  | 0, _, code => code
  | f+1, q, code => if q = 0 then code else symLoop f (q / 94) (q % 94 :: code)

/-- `q, r = divmod(n, 94); code = chars[r]; while ...` : digit list, most significant first -/
def symDigits (n : Nat) : List Nat := symLoop n (n / 94) [n % 94]

/-- `_codechars[r]` with `_codechars = ''.join(chr(i) for i in range(33, 127))` -/
def symChar (d : Nat) : Char := Char.ofNat (33 + d)

def symbol (n : Nat) : String := String.ofList ((symDigits n).map symChar)

/-- the same identifier code as the list of its character codes (what `Gen/VcdSymGen.lean`, generated from the
    Python source of `_gen_vcd_symbol`, computes; `Props/C16Gen.lean`) -/
def symCodes (n : Nat) : List Nat := (symDigits n).map (33 + ·)

/-! ### events -/

inductive Ev where
  | time (t : Nat)                     -- `#t`
  | chg (val : String) (sym : String)  -- `<to_vcd_str><symbol>`
deriving DecidableEq, Repr, Inhabited

structure Design where
  widths : List Nat      -- width of every net, in net order (`trimmed_value_nets`)
  clk : Nat              -- `vcd_clock_net_idx`
  sigs : List Nat        -- net index of every declared signal (`signal_net_mapping`), declaration order
deriving Repr, Inhabited

def str (w v : Nat) : String := toVcdStr ⟨w, v⟩

/-- header value lines and the initial `last_values` -/
def headerStrs (d : Design) (init : List Nat) : List String := List.zipWith str d.widths init

def headerEvs (strs : List String) : List Ev :=
  strs.zipIdx.map (fun p => Ev.chg p.1 (symbol p.2))

/-- `net_details`: (width, net index) of every net but the clock net, net order -/
def details (d : Design) : List (Nat × Nat) := d.widths.zipIdx.eraseIdx d.clk

/-- the `for i, (signal, symbol) in enumerate(net_details)` loop of `dump_vcd_inner`:
    returns the emitted lines and the new `last_values` -/
def stepNets : List (Nat × Nat) → List Nat → List String → List Ev × List String
  | (w, j) :: ds, v :: vs, l :: ls =>
    let s := str w v
    let r := stepNets ds vs ls
    if l ≠ s then (Ev.chg s (symbol j) :: r.1, s :: r.2) else (r.1, l :: r.2)
  | _, _, ls => ([], ls)

/-- the clock lines that end cycle `c` -/
def clockTail (c : Nat) (cs : String) : List Ev :=
  [.time (100 * c + 50), .chg "0" cs, .time (100 * c + 50 + 50), .chg "1" cs]

/-- successive calls of `dump_vcd_inner`, `c` = `vcd_sim_ncycles` -/
def cycles (ds : List (Nat × Nat)) (cs : String) : Nat → List String → List (List Nat) → List Ev
  | _, _, [] => []
  | c, last, vs :: rest =>
    let r := stepNets ds vs last
    r.1 ++ clockTail c cs ++ cycles ds cs (c + 1) r.2 rest

/-- the whole value-change section of the file: header values, `#0 1clk`, one block per simulated cycle.
    `init` = default value of every net (all nets, net order); `tr` = per cycle, the value of every
    non-clock net (order of `details`) at the moment the dump function runs -/
def dump (d : Design) (init : List Nat) (tr : List (List Nat)) : List Ev :=
  let strs := headerStrs d init
  headerEvs strs ++ [.time 0, .chg "1" (symbol d.clk)] ++ cycles (details d) (symbol d.clk) 0 strs tr

/-- `$var` lines: (width, symbol) of every declared signal -/
def decls (d : Design) : List (Nat × String) := d.sigs.map (fun j => (d.widths.getD j 0, symbol j))

/-- declarations of the non-clock nets themselves, in `details` order -/
def dataDecls (d : Design) : List (Nat × String) := (details d).map (fun p => (p.1, symbol p.2))

/-! ### the reader -/

abbrev St := List (String × String)   -- symbol ↦ current value string, newest first

def St.get : St → String → Option String
  | [], _ => none
  | (k, v) :: r, s => if k = s then some v else St.get r s

/-- state after every event stamped ≤ T (lines before the first `#` belong to the start of time) -/
def stateAt (T : Nat) : St → List Ev → St
  | st, [] => st
  | st, .time t :: es => if T < t then st else stateAt T st es
  | st, .chg v s :: es => stateAt T ((s, v) :: st) es

def parseBinAux (acc : Nat) : List Char → Option Nat
  | [] => some acc
  | c :: cs =>
    if c = '0' then parseBinAux (2 * acc) cs
    else if c = '1' then parseBinAux (2 * acc + 1) cs
    else none

/-- read a value line of a `w`-bit variable: `0`/`1` for scalars, `b<w binary digits><space>` for vectors -/
def parseVcdStr (w : Nat) (s : String) : Option Nat :=
  if w = 1 then (if s = "0" then some 0 else if s = "1" then some 1 else none)
  else match s.toList with
    | 'b' :: rest =>
      if rest.length = w + 1 ∧ rest.getLast? = some ' ' then parseBinAux 0 rest.dropLast else none
    | _ => none

def readSig (st : St) (p : Nat × String) : Option Nat := (st.get p.2).bind (parseVcdStr p.1)

/-- per cycle `t < n`, per declared signal: the value read back from the file -/
def replay (ds : List (Nat × String)) (evs : List Ev) (n : Nat) : List (List (Option Nat)) :=
  (List.range n).map (fun t => ds.map (readSig (stateAt (100 * t) [] evs)))

/-- timestamped lines of one symbol: (time, value string) -/
def edgesOf (cs : String) : Option Nat → List Ev → List (Nat × String)
  | _, [] => []
  | _, .time t :: es => edgesOf cs (some t) es
  | now, .chg v s :: es =>
    match now with
    | some t => if s = cs then (t, v) :: edgesOf cs now es else edgesOf cs now es
    | none => edgesOf cs now es

/-! ### text wave (`PrintTextWavePass._collect_sig_func`) -/

/-- `x.to_bits().bin()` : `"0b" + "{:b}".format(v).zfill(nbits)` — one such string is appended per signal per cycle -/
def wavStr (w v : Nat) : String := "0b" ++ String.ofList (binDigits w v)

/-- the record kept for one signal of width `w`: one string per cycle -/
def wavRecord (w : Nat) (vals : List Nat) : List String := vals.map (wavStr w)

def parseWav (w : Nat) (s : String) : Option Nat :=
  match s.toList with
  | '0' :: 'b' :: rest => if rest.length = w then parseBinAux 0 rest else none
  | _ => none

/-! ### the net table (`make_vcd_func`: the loop that trims `get_all_value_nets()`, then `recurse_models`)

The pass walks `top.get_all_value_nets()` in the order the DSL hands them out (set iteration order: it differs
from one elaborated instance to the next) and keeps, of every net, the members that are whole signals
(`not isinstance(x, Const) and x.is_top_level_signal()`); a net of which nothing is left (only bits / slices /
struct fields / constants) is skipped and gets **no** position in `trimmed_value_nets`. The clock net is
recognised by `repr(x) == "s.clk"` and its index is `len(trimmed_value_nets)` *at that moment* — the number of
nets kept so far, not the position of the net in the input list. Afterwards `recurse_models` walks the component
tree and declares every top-level signal (`$var` line): a signal found in `signal_net_mapping` gets its net's
symbol, any other one is appended as a net of its own (that is how `s.clk` of a design without child components
becomes the clock net). `net_symbol_mapping` grows in lockstep with `trimmed_value_nets` and entry `i` is the
`i`-th code of the generator, so the symbol of net `i` is `symbol i` throughout (not stored here).

Modelled as the code has it, including the slip `signal_net_mapping[signal] = len(signal_net_mapping)` for an
appended signal (the number of keys, not the index of the new net): the stored value is never read again
because every signal is declared once (`declare` would read it for a signal declared twice). -/

/-- a member of a value net, as the trimming loop sees it -/
inductive Member where
  | whole (id : Nat)    -- a whole signal (`is_top_level_signal()`), `repr` other than `"s.clk"`
  | clk                 -- the whole signal with `repr(x) == "s.clk"`
  | slice (id : Nat)    -- a bit / slice / struct field (of signal `id`): `is_top_level_signal()` is false
  | const               -- a `Const` object
deriving DecidableEq, Repr, Inhabited

/-- `not isinstance(x, Const) and x.is_top_level_signal()` -/
def Member.top : Member → Bool
  | .whole _ => true
  | .clk => true
  | _ => false

/-- the inner `for x in net:` of the trimming loop: `(new_net, vcd_clock_net_idx)`; `nk` is
    `len(trimmed_value_nets)` while this net is scanned; `none` = `assert vcd_clock_net_idx is None` failed -/
def trimNet (nk : Nat) : List Member → Option Nat → Option (List Member × Option Nat)
  | [], c => some ([], c)
  | x :: xs, c =>
    if x.top then
      if x = .clk then
        match c with
        | some _ => none
        | none => (trimNet nk xs (some nk)).map fun r => (x :: r.1, r.2)
      else (trimNet nk xs c).map fun r => (x :: r.1, r.2)
    else trimNet nk xs c

/-- `for writer, net in top.get_all_value_nets(): … if new_net: trimmed_value_nets.append( new_net )` -/
def trimLoop : List (List Member) → List (List Member) → Option Nat → Option (List (List Member) × Option Nat)
  | [], kept, c => some (kept, c)
  | net :: rest, kept, c =>
    match trimNet kept.length net c with
    | none => none
    | some (nn, c') => trimLoop rest (if nn = [] then kept else kept ++ [nn]) c'

/-- a Python dict with `Member` keys (insertion order, assignment to an existing key replaces in place) -/
abbrev Dict := List (Member × Nat)

def dictSet : Dict → Member → Nat → Dict
  | [], k, v => [(k, v)]
  | (k', v') :: r, k, v => if k' = k then (k, v) :: r else (k', v') :: dictSet r k v

def dictGet : Dict → Member → Option Nat
  | [], _ => none
  | (k', v') :: r, k => if k' = k then some v' else dictGet r k

/-- `for x in trimmed_value_nets[i]: signal_net_mapping[x] = i` -/
def mapNet (i : Nat) : List Member → Dict → Dict
  | [], d => d
  | x :: xs, d => mapNet i xs (dictSet d x i)

/-- `for i in range(len(trimmed_value_nets)): …` (from index `i` on) -/
def mapNets : Nat → List (List Member) → Dict → Dict
  | _, [], d => d
  | i, n :: ns, d => mapNets (i + 1) ns (mapNet i n d)

structure NetTab where
  nets : List (List Member)     -- `trimmed_value_nets`; net `i` has symbol `symbol i`
  clk : Option Nat              -- `vcd_clock_net_idx`
  smap : Dict                   -- `signal_net_mapping`
  vars : List (Member × Nat)    -- the `$var` lines in file order: signal, `n` with symbol text `symbol n`
deriving DecidableEq, Repr, Inhabited

/-- the body of `for signal in component_signals[m]:` in `recurse_models`; `none` = the pass raises
    (`assert vcd_clock_net_idx is None`, or `net_symbol_mapping[net_id]` out of range) -/
def declare (t : NetTab) (x : Member) : Option NetTab :=
  match dictGet t.smap x with
  | some j => if j < t.nets.length then some { t with vars := t.vars ++ [(x, j)] } else none
  | none =>
    let c : Option (Option Nat) :=
      if x = .clk then (match t.clk with | some _ => none | none => some (some t.nets.length)) else some t.clk
    match c with
    | none => none
    | some c => some { nets := t.nets ++ [[x]], clk := c,
                       smap := dictSet t.smap x t.smap.length,     -- sic: `len(signal_net_mapping)`
                       vars := t.vars ++ [(x, t.nets.length)] }

/-- `recurse_models( top, '' )`, the component tree flattened into the order of the `$var` lines -/
def declareAll : NetTab → List Member → Option NetTab
  | t, [] => some t
  | t, x :: xs => (declare t x).bind (declareAll · xs)

/-- `make_vcd_func` from the trimming loop up to `$enddefinitions`: `nets` = `get_all_value_nets()` (members
    tagged), `decl` = every top-level signal of every component in declaration order -/
def netTable (nets : List (List Member)) (decl : List Member) : Option NetTab :=
  match trimLoop nets [] none with
  | none => none
  | some (kept, c) => declareAll { nets := kept, clk := c, smap := mapNets 0 kept [], vars := [] } decl

/-- the `Design` the dump functions work on: width of net `i` = width of its first member
    (`trimmed_value_nets[i][0]`); `none` = `net_symbol_mapping[ None ]` raises (no `s.clk` anywhere) -/
def NetTab.design (w : Member → Nat) (t : NetTab) : Option Design :=
  t.clk.map fun c => { widths := t.nets.map (fun n => w (n.headD .const)), clk := c, sigs := t.vars.map (·.2) }

/-! ### rendering (driver only) -/

def Ev.text : Ev → String
  | .time t => s!"#{t}"
  | .chg v s => v ++ s

end PV.VCD
