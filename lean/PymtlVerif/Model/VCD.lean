import PymtlVerif.Model.Bits
/-!
Model of `pymtl3/passes/tracing/VcdGenerationPass.py` (`make_vcd_func`, `dump_vcd_inner`) and of an
independent VCD reader (`stateAt`, `replay`).

What the pass does, and how it is modelled:

* `trimmed_value_nets` / `net_symbol_mapping`: the design is a list of nets (`Design.widths`, net order =
  list order), net `i` has symbol `symbol i` (`_gen_vcd_symbol`: base-94 positional code over chr(33..126),
  the `while q > 0` loop is `symLoop`), one net is the clock net (`Design.clk` = `vcd_clock_net_idx`),
  every declared signal (`$var` line) is mapped to a net (`Design.sigs` = `signal_net_mapping`) and is
  declared with that net's symbol.
* header: for every net, in net order, `"{to_vcd_str(default)}{symbol}"`; `last_values[i]` := that string.
  Then `#0`, `1<clk>`.
* `net_details` = all nets except the clock net (`details`), and `dump_vcd_inner` walks it with
  `enumerate`: entry number `i` of `net_details` is compared with and stored into `last_values[i]` —
  **the index is the position in `net_details`, not the net index**, so for nets behind the clock net the
  first comparison is made against the header string of the *preceding* net (`stepNets` is written over
  the two lists exactly like that; the last entry of `last_values` is never used).
* per cycle: changed nets (string comparison of `to_vcd_str`), then `#100c+50`, `0<clk>`, `#100c+100`, `1<clk>`.
* `to_vcd_str` is `PV.Bits.toVcdStr` (Model/Bits.lean); `parseVcdStr` is the reader's inverse.

A reader (`replay`) knows only the declarations `(width, symbol)` and the event list; the value of a signal in
cycle `t` is what its symbol holds after every event stamped ≤ 100·t (value holds until changed).

Mathlib-free: linked into the native driver `pv_vcd`.
-/
namespace PV.VCD
open PV.Bits

/-! ### symbols (`_gen_vcd_symbol`) -/

/-- `while q > 0: q, r = divmod(q, 94); code = chars[r] + code` (fuel ≥ q is always enough) -/
def symLoop : Nat → Nat → List Nat → List Nat
  | 0, _, code => code
  | f+1, q, code => if q = 0 then code else symLoop f (q / 94) (q % 94 :: code)

/-- `q, r = divmod(n, 94); code = chars[r]; while ...` : digit list, most significant first -/
def symDigits (n : Nat) : List Nat := symLoop n (n / 94) [n % 94]

/-- `_codechars[r]` with `_codechars = ''.join(chr(i) for i in range(33, 127))` -/
def symChar (d : Nat) : Char := Char.ofNat (33 + d)

def symbol (n : Nat) : String := String.ofList ((symDigits n).map symChar)

/-- the same identifier code as the list of its character codes (what `Gen/VcdSymGen.lean`, generated from the
    Python source of `_gen_vcd_symbol`, computes; `Props/C16Gen.lean`) -/
def symCodes (n : Nat) : List Nat := (symDigits n).map (33 + ·)

/-! ### events -/

inductive Ev where
  | time (t : Nat)                     -- `#t`
  | chg (val : String) (sym : String)  -- `<to_vcd_str><symbol>`
deriving DecidableEq, Repr, Inhabited

structure Design where
  widths : List Nat      -- width of every net, in net order (`trimmed_value_nets`)
  clk : Nat              -- `vcd_clock_net_idx`
  sigs : List Nat        -- net index of every declared signal (`signal_net_mapping`), declaration order
deriving Repr, Inhabited

def str (w v : Nat) : String := toVcdStr ⟨w, v⟩

/-- header value lines and the initial `last_values` -/
def headerStrs (d : Design) (init : List Nat) : List String := List.zipWith str d.widths init

def headerEvs (strs : List String) : List Ev :=
  strs.zipIdx.map (fun p => Ev.chg p.1 (symbol p.2))

/-- `net_details`: (width, net index) of every net but the clock net, net order -/
def details (d : Design) : List (Nat × Nat) := d.widths.zipIdx.eraseIdx d.clk

/-- the `for i, (signal, symbol) in enumerate(net_details)` loop of `dump_vcd_inner`:
    returns the emitted lines and the new `last_values` -/
def stepNets : List (Nat × Nat) → List Nat → List String → List Ev × List String
  | (w, j) :: ds, v :: vs, l :: ls =>
    let s := str w v
    let r := stepNets ds vs ls
    if l ≠ s then (Ev.chg s (symbol j) :: r.1, s :: r.2) else (r.1, l :: r.2)
  | _, _, ls => ([], ls)

/-- the clock lines that end cycle `c` -/
def clockTail (c : Nat) (cs : String) : List Ev :=
  [.time (100 * c + 50), .chg "0" cs, .time (100 * c + 50 + 50), .chg "1" cs]

/-- successive calls of `dump_vcd_inner`, `c` = `vcd_sim_ncycles` -/
def cycles (ds : List (Nat × Nat)) (cs : String) : Nat → List String → List (List Nat) → List Ev
  | _, _, [] => []
  | c, last, vs :: rest =>
    let r := stepNets ds vs last
    r.1 ++ clockTail c cs ++ cycles ds cs (c + 1) r.2 rest

/-- the whole value-change section of the file: header values, `#0 1clk`, one block per simulated cycle.
    `init` = default value of every net (all nets, net order); `tr` = per cycle, the value of every
    non-clock net (order of `details`) at the moment the dump function runs -/
def dump (d : Design) (init : List Nat) (tr : List (List Nat)) : List Ev :=
  let strs := headerStrs d init
  headerEvs strs ++ [.time 0, .chg "1" (symbol d.clk)] ++ cycles (details d) (symbol d.clk) 0 strs tr

/-- `$var` lines: (width, symbol) of every declared signal -/
def decls (d : Design) : List (Nat × String) := d.sigs.map (fun j => (d.widths.getD j 0, symbol j))

/-- declarations of the non-clock nets themselves, in `details` order -/
def dataDecls (d : Design) : List (Nat × String) := (details d).map (fun p => (p.1, symbol p.2))

/-! ### the reader -/

abbrev St := List (String × String)   -- symbol ↦ current value string, newest first

def St.get : St → String → Option String
  | [], _ => none
  | (k, v) :: r, s => if k = s then some v else St.get r s

/-- state after every event stamped ≤ T (lines before the first `#` belong to the start of time) -/
def stateAt (T : Nat) : St → List Ev → St
  | st, [] => st
  | st, .time t :: es => if T < t then st else stateAt T st es
  | st, .chg v s :: es => stateAt T ((s, v) :: st) es

def parseBinAux (acc : Nat) : List Char → Option Nat
  | [] => some acc
  | c :: cs =>
    if c = '0' then parseBinAux (2 * acc) cs
    else if c = '1' then parseBinAux (2 * acc + 1) cs
    else none

/-- read a value line of a `w`-bit variable: `0`/`1` for scalars, `b<w binary digits><space>` for vectors -/
def parseVcdStr (w : Nat) (s : String) : Option Nat :=
  if w = 1 then (if s = "0" then some 0 else if s = "1" then some 1 else none)
  else match s.toList with
    | 'b' :: rest =>
      if rest.length = w + 1 ∧ rest.getLast? = some ' ' then parseBinAux 0 rest.dropLast else none
    | _ => none

def readSig (st : St) (p : Nat × String) : Option Nat := (st.get p.2).bind (parseVcdStr p.1)

/-- per cycle `t < n`, per declared signal: the value read back from the file -/
def replay (ds : List (Nat × String)) (evs : List Ev) (n : Nat) : List (List (Option Nat)) :=
  (List.range n).map (fun t => ds.map (readSig (stateAt (100 * t) [] evs)))

/-- timestamped lines of one symbol: (time, value string) -/
def edgesOf (cs : String) : Option Nat → List Ev → List (Nat × String)
  | _, [] => []
  | _, .time t :: es => edgesOf cs (some t) es
  | now, .chg v s :: es =>
    match now with
    | some t => if s = cs then (t, v) :: edgesOf cs now es else edgesOf cs now es
    | none => edgesOf cs now es

/-! ### text wave (`PrintTextWavePass._collect_sig_func`) -/

/-- `x.to_bits().bin()` : `"0b" + "{:b}".format(v).zfill(nbits)` — one such string is appended per signal per cycle -/
def wavStr (w v : Nat) : String := "0b" ++ String.ofList (binDigits w v)

/-- the record kept for one signal of width `w`: one string per cycle -/
def wavRecord (w : Nat) (vals : List Nat) : List String := vals.map (wavStr w)

def parseWav (w : Nat) (s : String) : Option Nat :=
  match s.toList with
  | '0' :: 'b' :: rest => if rest.length = w then parseBinAux 0 rest else none
  | _ => none

/-! ### rendering (driver only) -/

def Ev.text : Ev → String
  | .time t => s!"#{t}"
  | .chg v s => v ++ s

end PV.VCD
