/-
SystemVerilog / Verilog subset emitted by the PyMTL3 translation passes
(`passes/backends/verilog/translation/**` and `passes/backends/yosys/translation/**`):
abstract syntax and an executable *two-state* semantics (signed and unsigned expression types) following IEEE 1800-2017.

Expression sizing (IEEE 1800-2017 §11.6, Table 11-21, §11.8):
* `selfWidth` is the self-determined bit length of an expression;
* `eval ctx e` evaluates `e` in a context of `ctx` bits: the context width is propagated into the
  context-determined operands (`+ - * / % & | ^ ~^`, unary `~ - +`, both branches of `?:`, the left
  operand of shifts and `**`) and every operation is performed modulo `2^ctx`; self-determined
  operands (shift amounts, indices, members of concatenations/replications, operands of reduction
  and logical operators, the condition of `?:`) are evaluated at their own width; relational and
  equality operands are evaluated at the maximum of the two operand widths;
* a size cast `N'(e)` is given both readings the standard's wording admits (operand self-determined /
  operand sized as the right-hand side of an assignment to an `N`-bit variable, §6.24.1): parameter
  `castB`; every theorem is proved for both values and the driver evaluates both.
* signedness (IEEE 1800-2017 §11.8.1, §11.8.2): `signedOf` is the self-determined type of an expression —
  sized literals `N'dV`, variables of type `logic`, selects, concatenations, comparison / reduction / logical
  results are unsigned; an unsized decimal number, `$signed(e)` (`sgn`; a reference to a variable of a signed
  type such as the `integer` loop variables of the Yosys backend is the `$signed` view of its vector,
  `Expr.elabS` in Model/SVMod.lean) are signed; a size cast `N'(e)` keeps the signedness of its operand (§6.24.1);
  unary `~ - +` keep it; a binary arithmetic / bitwise operator and `?:` are signed iff both (branch) operands are;
  shifts take the type of their left operand.  `evalC W S e` evaluates in a context of `W` bits and type `S`
  (the type of the enclosing context-determined expression, propagated to the operands): an operand narrower
  than the context is sign-extended only if the context type is signed (`ext`); `/`, `%`, `>>>` and — on their
  own operand context, signed iff both operands are — the relational operators interpret their operands as
  two's-complement numbers when the type is signed.  `eval W e = evalC W (signedOf e) e` is the evaluation of an
  expression that is the root of its context (right-hand side, condition, index, concatenation member, …).
  An index / shift amount / replication member is the bit pattern of its self-determined operand read as an
  unsigned number (a negative signed index is out of range by the letter of the LRM; tools read the pattern:
  the upstream import tests of the Yosys backend address element 4 with `x[3'(i)]`, i = 4).
  `**` with signed operands is outside the subset (never emitted): evaluated as unsigned.
* two-state (a design whose PyMTL simulation raises no exception never divides by zero or selects out of
  range, see the correspondence check).

Variables have a packed data type (`PTy`: vector, packed array, packed struct — first member most
significant, element 0 of a packed dimension least significant, §7.2.1, §7.4.1) and unpacked
dimensions; the store keeps one natural number per unpacked element.

Statements: blocking / non-blocking assignment, if/else, begin-end sequences, `for` loops (fuel
bounded); processes: `always_comb`, `always_ff @(posedge clk)`, continuous `assign`, module
instances (flattened by `flatten`). The value of a design is the fixed point of its combinational
processes (`settle`, bounded sweeps); a clock edge executes every `always_ff` process on the settled
store, collects the non-blocking updates and commits them together (`tick`).

Mathlib-free: linked into the native driver `pv_sv`.
-/
namespace PV.SV

/-! ### data types -/

mutual
  /-- packed data types -/
  inductive PTy where
    | vec (w : Nat)                       -- logic [w-1:0]
    | arr (n : Nat) (e : PTy)             -- one packed dimension [n-1:0] in front of `e`
    | struct (name : String) (fs : Fields)
  /-- members of a packed struct, first member first -/
  inductive Fields where
    | nil
    | cons (f : String) (t : PTy) (rest : Fields)
end

mutual
  def PTy.width : PTy → Nat
    | .vec w => w
    | .arr n e => n * e.width
    | .struct _ fs => fs.width
  def Fields.width : Fields → Nat
    | .nil => 0
    | .cons _ t rest => t.width + rest.width
end

/-- member `f` of a struct: (offset of its least significant bit, type); first member at the top -/
def Fields.find (f : String) : Fields → Option (Nat × PTy)
  | .nil => none
  | .cons g t rest => if g = f then some (rest.width, t) else rest.find f

/-- a declared variable: packed type and unpacked dimensions `[0:d-1]…` -/
structure Decl where
  ty : PTy
  dims : List Nat

abbrev Env := String → Option Decl

def Env.extend (Γ : Env) (x : String) (d : Decl) : Env := fun y => if y = x then some d else Γ y

def dimsSize : List Nat → Nat
  | [] => 1
  | d :: ds => d * dimsSize ds

/-! ### store: one number per (variable, flattened unpacked element) -/

abbrev Key := String × Nat

structure Store where
  cells : List (Key × Nat)

namespace Store
def empty : Store := ⟨[]⟩

def getL (k : Key) : List (Key × Nat) → Nat
  | [] => 0
  | (k', v) :: rest => if k' = k then v else getL k rest

def setL (k : Key) (v : Nat) : List (Key × Nat) → List (Key × Nat)
  | [] => [(k, v)]
  | (k', v') :: rest => if k' = k then (k, v) :: rest else (k', v') :: setL k v rest

def get (s : Store) (k : Key) : Nat := getL k s.cells
def set (s : Store) (k : Key) (v : Nat) : Store := ⟨setL k v s.cells⟩
end Store

/-! ### expressions -/

inductive UnOp where
  | bnot | neg | plus | lnot | rand | ror | rxor | rnand | rnor | rxnor
deriving DecidableEq, Repr, Inhabited

inductive BinOp where
  | add | sub | mul | div | mod | pow | shl | shr | band | bor | bxor | bxnor
  | eq | ne | lt | le | gt | ge | land | lor
  | ashr                                  -- >>> (arithmetic when the expression type is signed)
deriving DecidableEq, Repr, Inhabited

inductive Expr where
  | lit (w v : Nat)                       -- N'dV, N'bV, N'hV
  | num (v : Nat)                         -- unsized decimal number (32 bits)
  | ident (x : String)
  | member (e : Expr) (f : String)        -- e.f
  | index (e i : Expr)                    -- e[i]
  | range (e hi lo : Expr)                -- e[hi:lo]
  | plusSel (e b w : Expr)                -- e[b +: w]
  | cat1 (e : Expr)                       -- { e }
  | concat (a b : Expr)                   -- { a, b… } (b is the rest of the list)
  | repl (n e : Expr)                     -- { n { e… } } (e is the inner list)
  | un (op : UnOp) (e : Expr)
  | bin (op : BinOp) (a b : Expr)
  | cond (c t f : Expr)
  | cast (w : Nat) (e : Expr)             -- w'( e )
  | sgn (e : Expr)                        -- $signed( e ); also the reference to a variable of a signed type
deriving Repr, Inhabited

/-- constant expressions in positions that must be elaboration-time constants (range bounds,
    replication counts, part-select widths) -/
def constVal : Expr → Option Nat
  | .lit w v => some (v % 2 ^ w)
  | .num v => some v
  | .bin .add a b => do some ((← constVal a) + (← constVal b))
  | .bin .sub a b => do some ((← constVal a) - (← constVal b))
  | .bin .mul a b => do some ((← constVal a) * (← constVal b))
  | .cast w e => do some ((← constVal e) % 2 ^ w)
  | _ => none

/-- type of a (partially) selected variable: packed type and remaining unpacked dimensions -/
def typeOf (Γ : Env) : Expr → Option Decl
  | .ident x => Γ x
  | .member e f =>
    match typeOf Γ e with
    | some ⟨.struct _ fs, []⟩ => (fs.find f).map fun p => ⟨p.2, []⟩
    | _ => none
  | .index e _ =>
    match typeOf Γ e with
    | some ⟨t, _ :: ds⟩ => some ⟨t, ds⟩
    | some ⟨.arr _ t, []⟩ => some ⟨t, []⟩
    | some ⟨.vec _, []⟩ => some ⟨.vec 1, []⟩
    | _ => none
  | .range e hi lo =>
    match typeOf Γ e, constVal hi, constVal lo with
    | some ⟨.vec _, []⟩, some h, some l => some ⟨.vec (h + 1 - l), []⟩
    | _, _, _ => none
  | .plusSel e _ w =>
    match typeOf Γ e, constVal w with
    | some ⟨.vec _, []⟩, some k => some ⟨.vec k, []⟩
    | _, _ => none
  | _ => none

/-- self-determined width (IEEE 1800-2017 Table 11-21) -/
def selfWidth (Γ : Env) : Expr → Nat
  | .lit w _ => w
  | .num _ => 32
  | .ident x => match Γ x with | some d => d.ty.width | none => 0
  | .member e f => match typeOf Γ (.member e f) with | some d => d.ty.width | none => 0
  | .index e i =>
    match typeOf Γ (.index e i) with
    | some d => d.ty.width
    | none => 1                           -- bit select of a concatenation
  | .range _ hi lo =>
    match constVal hi, constVal lo with
    | some h, some l => h + 1 - l
    | _, _ => 0
  | .plusSel _ _ w => (constVal w).getD 0
  | .cat1 e => selfWidth Γ e
  | .concat a b => selfWidth Γ a + selfWidth Γ b
  | .repl n e => (constVal n).getD 0 * selfWidth Γ e
  | .un op e =>
    match op with
    | .bnot | .neg | .plus => selfWidth Γ e
    | _ => 1
  | .bin op a b =>
    match op with
    | .add | .sub | .mul | .div | .mod | .band | .bor | .bxor | .bxnor => max (selfWidth Γ a) (selfWidth Γ b)
    | .shl | .shr | .ashr | .pow => selfWidth Γ a
    | _ => 1
  | .cond _ t f => max (selfWidth Γ t) (selfWidth Γ f)
  | .cast w _ => w
  | .sgn e => selfWidth Γ e

/-- self-determined type of an expression: `true` = signed (IEEE 1800-2017 §11.8.1; §5.7.1 for numbers;
    §6.24.1 for the size cast) -/
def signedOf : Expr → Bool
  | .num _ => true
  | .sgn _ => true
  | .un op e =>
    match op with
    | .bnot | .neg | .plus => signedOf e
    | _ => false
  | .bin op a b =>
    match op with
    | .add | .sub | .mul | .div | .mod | .band | .bor | .bxor | .bxnor => signedOf a && signedOf b
    | .shl | .shr | .ashr => signedOf a
    | _ => false
  | .cond _ t f => signedOf t && signedOf f
  | .cast _ e => signedOf e
  | _ => false

/-- a resolved select: variable, flattened unpacked element, bit offset and width inside the packed
    element, remaining type; `ok = false` when an index is out of range (reads 0, writes nothing) -/
structure Loc where
  x : String
  elem : Nat
  lo : Nat
  ty : PTy
  dims : List Nat
  ok : Bool

def Loc.width (l : Loc) : Nat := l.ty.width

def readLoc (σ : Store) (l : Loc) : Nat :=
  if l.ok && l.dims.isEmpty then (σ.get (l.x, l.elem) / 2 ^ l.lo) % 2 ^ l.ty.width else 0

/-- replace bits [lo, lo+w) of `old` by `v mod 2^w` -/
def poke (old lo w v : Nat) : Nat :=
  old % 2 ^ lo + (v % 2 ^ w) * 2 ^ lo + (old / 2 ^ (lo + w)) * 2 ^ (lo + w)

def writeLoc (σ : Store) (l : Loc) (v : Nat) : Store :=
  if l.ok && l.dims.isEmpty then σ.set (l.x, l.elem) (poke (σ.get (l.x, l.elem)) l.lo l.ty.width v) else σ

def parity : Nat → Nat → Nat
  | 0, _ => 0
  | fuel+1, v => if v = 0 then 0 else (v % 2 + parity fuel (v / 2)) % 2

def b2n (b : Bool) : Nat := if b then 1 else 0

/-- value of `{ n { v } }` for a `w`-bit `v` -/
def replVal (w v : Nat) : Nat → Nat
  | 0 => 0
  | n+1 => replVal w v n * 2 ^ w + v

/-- a `w`-bit pattern is negative as a two's-complement number -/
def isNeg (w v : Nat) : Bool := decide (0 < w) && decide (2 ^ (w - 1) ≤ v)

/-- two's-complement reading of a `w`-bit pattern -/
def toInt (w v : Nat) : Int := if isNeg w v then (v : Int) - ((2 ^ w : Nat) : Int) else (v : Int)

/-- the `w`-bit pattern of an integer -/
def ofInt (w : Nat) (i : Int) : Nat := (i % ((2 ^ w : Nat) : Int)).toNat

/-- an operand of `w` bits (value `v < 2^w`) in a context of `W` bits: extended with its sign bit only when the
    type `s` propagated from the context is signed (§11.8.2) -/
def ext (s : Bool) (w W v : Nat) : Nat :=
  if s && decide (w < W) && isNeg w v then v + (2 ^ W - 2 ^ w) else v

/-- binary operators on operands already evaluated in a context of `W` bits and type `s` (`true` = signed) -/
def binVal (op : BinOp) (W : Nat) (s : Bool) (a b : Nat) : Nat :=
  match op with
  | .add => (a + b) % 2 ^ W
  | .sub => (a + 2 ^ W - b % 2 ^ W) % 2 ^ W
  | .mul => (a * b) % 2 ^ W
  | .div => if b = 0 then 0 else if s then ofInt W (Int.tdiv (toInt W a) (toInt W b)) else a / b
  | .mod => if b = 0 then 0 else if s then ofInt W (Int.tmod (toInt W a) (toInt W b)) else a % b
  | .pow => (a ^ b) % 2 ^ W
  | .shl => if b ≥ W then 0 else (a * 2 ^ b) % 2 ^ W   -- = (a * 2^b) % 2^W; guarded so that huge shift amounts stay executable
  | .shr => a >>> b                                      -- = a / 2^b (Nat.shiftRight_eq_div_pow)
  | .ashr =>                                             -- the vacated bits take the sign bit when the type is signed
    if s && isNeg W a then (if b ≥ W then 2 ^ W - 1 else (a >>> b) + (2 ^ W - 2 ^ (W - b))) else a >>> b
  | .band => a &&& b
  | .bor => a ||| b
  | .bxor => a ^^^ b
  | .bxnor => 2 ^ W - 1 - (a ^^^ b) % 2 ^ W
  | .eq => b2n (a == b)
  | .ne => b2n (a != b)
  | .lt => b2n (if s then decide (toInt W a < toInt W b) else decide (a < b))
  | .le => b2n (if s then decide (toInt W a ≤ toInt W b) else decide (a ≤ b))
  | .gt => b2n (if s then decide (toInt W a > toInt W b) else decide (a > b))
  | .ge => b2n (if s then decide (toInt W a ≥ toInt W b) else decide (a ≥ b))
  | .land => b2n (a != 0 && b != 0)
  | .lor => b2n (a != 0 || b != 0)

def unVal (op : UnOp) (W a : Nat) : Nat :=
  match op with
  | .bnot => 2 ^ W - 1 - a % 2 ^ W
  | .neg => (2 ^ W - a % 2 ^ W) % 2 ^ W
  | .plus => a
  | .lnot => b2n (a == 0)
  | .rand => b2n (a == 2 ^ W - 1)
  | .ror => b2n (a != 0)
  | .rxor => parity W a
  | .rnand => b2n (a != 2 ^ W - 1)
  | .rnor => b2n (a == 0)
  | .rxnor => 1 - parity W a

/-- index into the leading dimension: element `i` of `d :: ds` starting from flattened `elem` -/
def stepDim (elem d i : Nat) : Nat := elem * d + i

mutual
/-- evaluation in a context of `W` bits whose expression type is `S` (`true` = signed) -/
def evalC (castB : Bool) (Γ : Env) (σ : Store) : Nat → Bool → Expr → Nat
  | _, _, .lit w v => v % 2 ^ w                       -- an oversized value is truncated (§5.7.1)
  | W, S, .num v => ext S 32 W v
  | _, _, .ident x => match loc castB Γ σ (.ident x) with | some l => readLoc σ l | none => 0
  | _, _, .member e f => match loc castB Γ σ (.member e f) with | some l => readLoc σ l | none => 0
  | _, _, .index e i =>
    match loc castB Γ σ (.index e i) with
    | some l => readLoc σ l
    | none => (evalC castB Γ σ (selfWidth Γ e) (signedOf e) e / 2 ^ (evalC castB Γ σ (selfWidth Γ i) (signedOf i) i)) % 2
  | _, _, .range e hi lo =>
    match loc castB Γ σ (.range e hi lo) with
    | some l => readLoc σ l
    | none =>
      match constVal hi, constVal lo with
      | some h, some l => (evalC castB Γ σ (selfWidth Γ e) (signedOf e) e / 2 ^ l) % 2 ^ (h + 1 - l)
      | _, _ => 0
  | _, _, .plusSel e b w => match loc castB Γ σ (.plusSel e b w) with | some l => readLoc σ l | none => 0
  | _, _, .cat1 e => evalC castB Γ σ (selfWidth Γ e) (signedOf e) e
  | _, _, .concat a b =>
    evalC castB Γ σ (selfWidth Γ a) (signedOf a) a * 2 ^ (selfWidth Γ b) + evalC castB Γ σ (selfWidth Γ b) (signedOf b) b
  | _, _, .repl n e => replVal (selfWidth Γ e) (evalC castB Γ σ (selfWidth Γ e) (signedOf e) e) ((constVal n).getD 0)
  | W, S, .un op e =>
    match op with
    | .bnot | .neg | .plus => unVal op W (evalC castB Γ σ W S e)
    | _ => unVal op (selfWidth Γ e) (evalC castB Γ σ (selfWidth Γ e) (signedOf e) e)
  | W, S, .bin op a b =>
    match op with
    | .add | .sub | .mul | .div | .mod | .band | .bor | .bxor | .bxnor =>
      binVal op W S (evalC castB Γ σ W S a) (evalC castB Γ σ W S b)
    | .shl | .shr | .ashr | .pow =>
      binVal op W S (evalC castB Γ σ W S a) (evalC castB Γ σ (selfWidth Γ b) (signedOf b) b)
    | .eq | .ne | .lt | .le | .gt | .ge =>
      -- the two operands form a context of their own: the larger width, signed iff both are signed
      let m := max (selfWidth Γ a) (selfWidth Γ b)
      let s := signedOf a && signedOf b
      binVal op m s (evalC castB Γ σ m s a) (evalC castB Γ σ m s b)
    | .land | .lor =>
      binVal op 1 false (evalC castB Γ σ (selfWidth Γ a) (signedOf a) a) (evalC castB Γ σ (selfWidth Γ b) (signedOf b) b)
  | W, S, .cond c t f =>
    if evalC castB Γ σ (selfWidth Γ c) (signedOf c) c ≠ 0 then evalC castB Γ σ W S t else evalC castB Γ σ W S f
  | W, S, .cast w e =>
    ext (S && signedOf e) w W
      (evalC castB Γ σ (if castB then max w (selfWidth Γ e) else selfWidth Γ e) (signedOf e) e % 2 ^ w)
  | W, S, .sgn e => ext S (selfWidth Γ e) W (evalC castB Γ σ (selfWidth Γ e) (signedOf e) e)

/-- resolution of a select chain rooted at a declared variable -/
def loc (castB : Bool) (Γ : Env) (σ : Store) : Expr → Option Loc
  | .ident x => match Γ x with | some d => some ⟨x, 0, 0, d.ty, d.dims, true⟩ | none => none
  | .member e f =>
    match loc castB Γ σ e with
    | some ⟨x, el, lo, .struct _ fs, [], ok⟩ =>
      match fs.find f with
      | some (off, t) => some ⟨x, el, lo + off, t, [], ok⟩
      | none => none
    | _ => none
  | .index e i =>
    match loc castB Γ σ e with
    | some ⟨x, el, lo, t, d :: ds, ok⟩ =>
      let iv := evalC castB Γ σ (selfWidth Γ i) (signedOf i) i
      some ⟨x, stepDim el d iv, lo, t, ds, ok && decide (iv < d)⟩
    | some ⟨x, el, lo, .arr n t, [], ok⟩ =>
      let iv := evalC castB Γ σ (selfWidth Γ i) (signedOf i) i
      some ⟨x, el, lo + iv * t.width, t, [], ok && decide (iv < n)⟩
    | some ⟨x, el, lo, .vec w, [], ok⟩ =>
      let iv := evalC castB Γ σ (selfWidth Γ i) (signedOf i) i
      some ⟨x, el, lo + iv, .vec 1, [], ok && decide (iv < w)⟩
    | _ => none
  | .range e hi lo' =>
    match loc castB Γ σ e, constVal hi, constVal lo' with
    | some ⟨x, el, lo, .vec w, [], ok⟩, some h, some l =>
      some ⟨x, el, lo + l, .vec (h + 1 - l), [], ok && decide (l ≤ h ∧ h < w)⟩
    | _, _, _ => none
  | .plusSel e b w' =>
    match loc castB Γ σ e, constVal w' with
    | some ⟨x, el, lo, .vec w, [], ok⟩, some k =>
      let bv := evalC castB Γ σ (selfWidth Γ b) (signedOf b) b
      some ⟨x, el, lo + bv, .vec k, [], ok && decide (bv + k ≤ w)⟩
    | _, _ => none
  | _ => none
end

/-- evaluation of an expression that is the root of its context, in `W` bits: its own type is the context type -/
def eval (castB : Bool) (Γ : Env) (σ : Store) (W : Nat) (e : Expr) : Nat := evalC castB Γ σ W (signedOf e) e

/-- value assigned to an `lw`-bit target: the right-hand side is evaluated in a context of
    `max lw (selfWidth rhs)` bits and truncated (§11.6, §10.7) -/
def evalRhs (castB : Bool) (Γ : Env) (σ : Store) (lw : Nat) (e : Expr) : Nat :=
  eval castB Γ σ (max lw (selfWidth Γ e)) e % 2 ^ lw

/-! ### statements -/

inductive Stmt where
  | skip
  | blocking (lhs rhs : Expr)
  | nonblocking (lhs rhs : Expr)
  | ite (c : Expr) (t e : Stmt)
  | seq (a b : Stmt)
  /-- `for ( [int unsigned] v = init; cond; v = step ) body` -/
  | for_ (decl : Bool) (v : String) (init cond step : Expr) (body : Stmt)
deriving Repr, Inhabited

/-- pending non-blocking updates, oldest first -/
abbrev NBA := List (Loc × Nat)

structure XS where
  σ : Store
  nba : NBA
  fuelOut : Bool := false      -- a loop ran out of fuel

def loopFuel : Nat := 4096

def intDecl : Decl := ⟨.vec 32, []⟩

/-- `while (cond) body` with fuel; `fuelOut` records exhaustion -/
def iter (cond : XS → Bool) (body : XS → XS) : Nat → XS → XS
  | 0, s => { s with fuelOut := true }
  | fuel+1, s => if cond s then iter cond body fuel (body s) else s

def exec (castB : Bool) (Γ : Env) : Stmt → XS → XS
  | .skip, s => s
  | .blocking l r, s =>
    match loc castB Γ s.σ l with
    | some lc => { s with σ := writeLoc s.σ lc (evalRhs castB Γ s.σ lc.width r) }
    | none => s
  | .nonblocking l r, s =>
    match loc castB Γ s.σ l with
    | some lc => { s with nba := s.nba ++ [(lc, evalRhs castB Γ s.σ lc.width r)] }
    | none => s
  | .ite c t e, s =>
    if eval castB Γ s.σ (selfWidth Γ c) c ≠ 0 then exec castB Γ t s else exec castB Γ e s
  | .seq a b, s => exec castB Γ b (exec castB Γ a s)
  | .for_ decl v init cond step body, s =>
    let Γ' := if decl then Γ.extend v intDecl else Γ
    let w := match Γ' v with | some d => d.ty.width | none => 0
    let s0 := { s with σ := s.σ.set (v, 0) (evalRhs castB Γ' s.σ w init) }
    iter (fun s => eval castB Γ' s.σ (selfWidth Γ' cond) cond != 0)
         (fun s => let s1 := exec castB Γ' body s
                   { s1 with σ := s1.σ.set (v, 0) (evalRhs castB Γ' s1.σ w step) })
         loopFuel s0

def commit (σ : Store) : NBA → Store
  | [] => σ
  | (l, v) :: rest => commit (writeLoc σ l v) rest

end PV.SV
