import PymtlVerif.Model.TinyRV0
/-!
# Cycle-level model of the five-stage `ProcRTL` (examples/ex03_proc)

A shallow, executable, total transcription of

* `ProcCtrlRTL.py`  (`ProcCtrl`: valid bits, control-signal table, bypass selects, hazard / stall / squash
                     equations, the X/M/W control pipeline registers)        → `decodeInstType`, `csTable`, every
                     definition named like the Python signal (`ostall_W`, `stall_F`, `osquash_X`, `squash_D`,
                     `op1_byp_sel_D`, `next_val_D`, `reg_en_F`, ...),
* `ProcDpathRTL.py` (`ProcDpath`: PC register / incrementer / PC mux, D-stage registers, register file with
                     `const_zero=True`, immediate generator, bypass and operand muxes, X/M/W data registers),
* `MiscRTL.py`      (`DropUnitRTL`, `ImmGenRTL`, `AluRTL`),
* `TinyRV0InstRTL.py` (`DecodeInstType`, field slices, instruction-type constants),
* `ProcRTL.py`      (the composition: `imemreq_q = BypassQueue2RTL(req,2)` = two chained
                     `enrdy_queues.BypassQueue1RTL`; `imemresp_q`, `dmemresp_q`, `mngr2proc_q`, `xcelresp_q` =
                     `queues.BypassQueueRTL(·,1)` = `BypassQueue1EntryRTL`; the drop unit between `imemresp_q.deq`
                     and the F stage),

written from the code AS IT IS.  `State` holds exactly the sequential elements (`update_ff` targets) of these
components; `step s i = (state after the clock edge, outputs presented during the cycle)` where `i : EnvIn` is
what the environment drives in that cycle.  Every combinational wire is a function of `(s, i)` named like the
Python signal; `EnvOut` / `digest` collect them.

Conventions
* 32-bit values are `Nat` with explicit `% 2^32` exactly where the hardware truncates (`Incrementer`, `Adder`,
  ALU add / shift-left), as in `Model/TinyRV0.lean`.  1-bit signals are `Bool`.
* en/rdy interfaces (pymtl3 `RecvIfcRTL` / `SendIfcRTL`): for `imem.req`, `dmem.req`, `proc2mngr`, `xcel.req` the
  processor drives `en` + `msg` and the environment drives `rdy`; for `imem.resp`, `dmem.resp`, `mngr2proc`,
  `xcel.resp` the environment drives `en` + `msg` and the processor drives `rdy`.
* Memory / accelerator response messages: only the `data` field is read by the processor, so the one-entry
  bypass queues store the data field only.  Request messages: `imem.req.msg` has only `addr` driven (all other
  fields constant 0 = READ, opaque 0, len 0 = four bytes); `dmem.req.msg` has `type_`, `addr`, `data` driven.
* The accelerator interface is LEFT AS ENVIRONMENT INPUTS/OUTPUTS (`xcel_req_rdy`, `xcel_resp_en`,
  `xcel_resp_data` in `EnvIn`; `xcel_req_*`, `xcel_resp_rdy` in `EnvOut`): the `NullXcelRTL` of the test
  harness is part of the recorded environment, not of this model.
* `osquash_D` is a declared `Wire()` that no block drives: constant 0 (there are no jumps in TinyRV0).
* The control-signal table is `concat`-ed into a `Bits20` and sliced apart again in the Python; here the row is
  a record (`CS`) with the same columns.
* Out-of-range mux selects (`op2_sel_D = 3`, `wb_result_sel_M = 3`) raise `IndexError` in the Python `Mux`; no
  row of the table produces them; the model returns 0 there.
* `RegisterFile` has no reset; the X/M/W control registers other than the valid bits, and the queue
  buffers, are not reset either.  `State.init` is the power-on state of the simulator (every signal 0).

Mathlib-free: linked into the native driver `pv_pipe`.
-/
namespace PV.Pipe
open PV.TinyRV0 (W32)

/-! ## TinyRV0InstRTL.py -/

def NOP : Nat := 0
def LW : Nat := 3
def SW : Nat := 8
def SLL : Nat := 9
def SRL : Nat := 11
def ADD : Nat := 15
def ADDI : Nat := 16
def AND : Nat := 24
def BNE : Nat := 31
def CSRR : Nat := 46
def CSRW : Nat := 47
def CSRRX : Nat := 36
def ZERO : Nat := 51

def CSR_PROC2MNGR : Nat := 0x7C0
def CSR_MNGR2PROC : Nat := 0xFC0

/-- `inst[OPCODE]`, `OPCODE = slice(0,7)` -/
def opcode (w : Nat) : Nat := w % 128
/-- `inst[FUNCT3]`, `slice(12,15)` -/
def funct3 (w : Nat) : Nat := w / 2^12 % 8
/-- `inst[FUNCT7]`, `slice(25,32)` -/
def funct7 (w : Nat) : Nat := w / 2^25 % 128
/-- `inst[RD]`, `slice(7,12)` -/
def rd (w : Nat) : Nat := w / 2^7 % 32
/-- `inst[RS1]`, `slice(15,20)` -/
def rs1 (w : Nat) : Nat := w / 2^15 % 32
/-- `inst[RS2]`, `slice(20,25)` -/
def rs2 (w : Nat) : Nat := w / 2^20 % 32
/-- `inst[CSRNUM]` = `inst[I_IMM]`, `slice(20,32)` -/
def csrnum (w : Nat) : Nat := w / 2^20 % 4096

/-- `DecodeInstType.comb_logic` -/
def decodeInstType (w : Nat) : Nat :=
  if w = 0b10011 then NOP
  else if opcode w = 0b0110011 then
    if funct3 w = 0b000 then ADD
    else if funct3 w = 0b001 then SLL
    else if funct3 w = 0b111 then AND
    else if funct3 w = 0b101 then SRL
    else ZERO
  else if opcode w = 0b0010011 then
    if funct3 w = 0b000 then ADDI else ZERO
  else if opcode w = 0b0100011 then
    if funct3 w = 0b010 then SW else ZERO
  else if opcode w = 0b0000011 then
    if funct3 w = 0b010 then LW else ZERO
  else if opcode w = 0b1100011 then
    if funct3 w = 0b001 then BNE else ZERO
  else if opcode w = 0b1110011 then
    if funct3 w = 0b001 then CSRW
    else if funct3 w = 0b010 then
      if funct7 w = 0b0111111 then CSRRX else CSRR
    else ZERO
  else ZERO

/-! ## MiscRTL.py: ImmGenRTL, AluRTL -/

/-- `sext(v, 32)` of an `n`-bit value -/
def sext32 (n v : Nat) : Nat := if v < 2^(n-1) then v else v + (W32 - 2^n)

/-- `ImmGenRTL.up_immgen` -/
def immgen (imm_type w : Nat) : Nat :=
  if imm_type = 0 then sext32 12 (w / 2^20 % 4096)                               -- I: sext(inst[20:32])
  else if imm_type = 2 then                                                      -- B
    (if w / 2^31 % 2 = 1 then 1048575 else 0) * 4096                             --   sext(inst[31], 20) at [12:32]
      + (w / 2^7 % 2) * 2048 + (w / 2^25 % 64) * 32 + (w / 2^8 % 16) * 2          --   inst[7], inst[25:31], inst[8:12], 0
  else if imm_type = 1 then                                                      -- S
    (let v := w / 2^25 % 128; if v < 64 then v else v + (134217728 - 128)) * 32  --   sext(inst[25:32], 27) at [5:32]
      + w / 2^7 % 32                                                             --   inst[7:12]
  else 0

/-- `AluRTL.comb_logic`: `out` -/
def alu (fn in0 in1 : Nat) : Nat :=
  if fn = 0 then in0
  else if fn = 1 then in1
  else if fn = 2 then (in0 + in1) % W32
  else if fn = 3 then (in0 <<< (in1 % 32)) % W32
  else if fn = 4 then in0 >>> (in1 % 32)
  else if fn = 5 then in0 &&& in1
  else 0

/-! ## the control-signal table of `ProcCtrl.comb_control_table_D` -/

structure CS where
  inst_val : Bool
  br_type : Bool
  rs1_en : Bool
  imm_type : Nat
  op2_sel : Nat
  rs2_en : Bool
  alu_fn : Nat
  dmemreq_type : Nat
  wb_result_sel : Nat
  rf_wen_pending : Bool
  csrr : Bool
  csrw : Bool
deriving DecidableEq, Repr

-- column constants, as in the Python
def n : Bool := false
def y : Bool := true
def br_x : Bool := false
def br_na : Bool := false
def br_ne : Bool := true
def bm_x : Nat := 0
def bm_rf : Nat := 0
def bm_imm : Nat := 1
def bm_csr : Nat := 2
def imm_x : Nat := 0
def imm_i : Nat := 0
def imm_s : Nat := 1
def imm_b : Nat := 2
def alu_x : Nat := 0
def alu_cp0 : Nat := 0
def alu_cp1 : Nat := 1
def alu_add : Nat := 2
def alu_sll : Nat := 3
def alu_srl : Nat := 4
def alu_and : Nat := 5
def nr : Nat := 0
def ld : Nat := 1
def st : Nat := 2
def wm_x : Nat := 0
def wm_a : Nat := 0
def wm_m : Nat := 1
def wm_c : Nat := 2

/-- one row per instruction type; the `else` row is all-`n` -/
def csTable (t : Nat) : CS :=
  --                              br     rs1 imm    op2    rs2 alu      dmm wbmux rf  cs cs
  --                          val type    en type   muxsel  en fn       typ sel   wen rr rw
  if      t = NOP   then ⟨y, br_na,  n, imm_x, bm_x,   n, alu_x,   nr, wm_a, n,  n, n⟩
  else if t = CSRRX then ⟨y, br_na,  n, imm_i, bm_imm, n, alu_cp1, nr, wm_c, y,  y, n⟩
  else if t = CSRR  then ⟨y, br_na,  n, imm_i, bm_csr, n, alu_cp1, nr, wm_a, y,  y, n⟩
  else if t = CSRW  then ⟨y, br_na,  y, imm_i, bm_imm, n, alu_cp0, nr, wm_a, n,  n, y⟩
  else if t = ADD   then ⟨y, br_na,  y, imm_x, bm_rf,  y, alu_add, nr, wm_a, y,  n, n⟩
  else if t = SLL   then ⟨y, br_na,  y, imm_x, bm_rf,  y, alu_sll, nr, wm_a, y,  n, n⟩
  else if t = SRL   then ⟨y, br_na,  y, imm_x, bm_rf,  y, alu_srl, nr, wm_a, y,  n, n⟩
  else if t = ADDI  then ⟨y, br_na,  y, imm_i, bm_imm, n, alu_add, nr, wm_a, y,  n, n⟩
  else if t = LW    then ⟨y, br_na,  y, imm_i, bm_imm, n, alu_add, ld, wm_m, y,  n, n⟩
  else if t = SW    then ⟨y, br_na,  y, imm_s, bm_imm, y, alu_add, st, wm_m, n,  n, n⟩
  else if t = BNE   then ⟨y, br_ne,  y, imm_b, bm_rf,  y, alu_x,   nr, wm_x, n,  n, n⟩
  else if t = AND   then ⟨y, br_na,  y, imm_x, bm_rf,  y, alu_and, nr, wm_a, y,  n, n⟩
  else                   ⟨n, br_x,   n, imm_x, bm_x,   n, alu_x,   nr, wm_x, n,  n, n⟩

/-! ## sequential state -/

/-- `reg_X` of `ProcCtrl` (without `val_X`) -/
structure CtlX where
  rf_wen_pending : Bool := false
  inst_type : Nat := 0
  alu_fn : Nat := 0
  rf_waddr : Nat := 0
  proc2mngr_en : Bool := false
  dmemreq_type : Nat := 0
  wb_result_sel : Nat := 0
  br_type : Bool := false
  xcelreq : Bool := false
  xcelreq_type : Bool := false
deriving DecidableEq, Repr, Inhabited

/-- `reg_M` (without `val_M`) -/
structure CtlM where
  rf_wen_pending : Bool := false
  inst_type : Nat := 0
  rf_waddr : Nat := 0
  proc2mngr_en : Bool := false
  dmemreq_type : Nat := 0
  wb_result_sel : Nat := 0
  xcelreq : Bool := false
deriving DecidableEq, Repr, Inhabited

/-- `reg_W` (without `val_W`) -/
structure CtlW where
  rf_wen_pending : Bool := false
  inst_type : Nat := 0
  rf_waddr : Nat := 0
  proc2mngr_en : Bool := false
deriving DecidableEq, Repr, Inhabited

/-- `queues.BypassQueue1EntryRTL` (data field of the entry only) -/
structure BypQ where
  full : Bool := false
  entry : Nat := 0
deriving DecidableEq, Repr, Inhabited

structure State where
  -- ProcCtrl
  val_F : Bool := false
  val_D : Bool := false
  val_X : Bool := false
  val_M : Bool := false
  val_W : Bool := false
  cx : CtlX := {}
  cm : CtlM := {}
  cw : CtlW := {}
  -- ProcDpath
  pc_F : Nat := 0              -- pc_reg_F (reset value c_reset_vector - 4)
  pc_D : Nat := 0              -- pc_reg_D
  inst_D : Nat := 0            -- inst_D_reg
  rf : List Nat := List.replicate 32 0
  br_target_X : Nat := 0
  op1_X : Nat := 0
  op2_X : Nat := 0
  store_X : Nat := 0
  ex_result_M : Nat := 0
  wb_result_W : Nat := 0
  -- DropUnitRTL: snoop_state (false = SNOOP, true = WAIT)
  drop_wait : Bool := false
  -- imemreq_q = BypassQueue2RTL: q1 (enq side), q2 (deq side); buffers hold the addr field
  q1_full : Bool := false
  q1_buf : Nat := 0
  q2_full : Bool := false
  q2_buf : Nat := 0
  -- one-entry bypass queues
  imemresp_q : BypQ := {}
  dmemresp_q : BypQ := {}
  mngr2proc_q : BypQ := {}
  xcelresp_q : BypQ := {}
deriving Repr, Inhabited

/-- power-on state of the simulator: every signal 0 -/
def State.init : State := {}

/-- what the environment drives during one cycle -/
structure EnvIn where
  reset : Bool := false
  imem_req_rdy : Bool := false
  imem_resp_en : Bool := false
  imem_resp_data : Nat := 0
  dmem_req_rdy : Bool := false
  dmem_resp_en : Bool := false
  dmem_resp_data : Nat := 0
  mngr2proc_en : Bool := false
  mngr2proc_msg : Nat := 0
  proc2mngr_rdy : Bool := false
  xcel_req_rdy : Bool := false
  xcel_resp_en : Bool := false
  xcel_resp_data : Nat := 0
deriving DecidableEq, Repr, Inhabited

/-- what the processor drives during one cycle -/
structure EnvOut where
  imem_req_en : Bool
  imem_req_addr : Nat
  imem_resp_rdy : Bool
  dmem_req_en : Bool
  dmem_req_type : Nat
  dmem_req_addr : Nat
  dmem_req_data : Nat
  dmem_resp_rdy : Bool
  mngr2proc_rdy : Bool
  proc2mngr_en : Bool
  proc2mngr_msg : Nat
  xcel_req_en : Bool
  xcel_req_type : Bool
  xcel_req_addr : Nat
  xcel_req_data : Nat
  xcel_resp_rdy : Bool
  commit_inst : Bool
deriving DecidableEq, Repr, Inhabited

/-! ## one-entry bypass queue (`queues.BypassQueue1EntryRTL`) -/

/-- `enq.rdy = ~reset & ~full` -/
def BypQ.enq_rdy (q : BypQ) (reset : Bool) : Bool := !reset && !q.full
/-- `deq.rdy = ~reset & (full | enq.en)` -/
def BypQ.deq_rdy (q : BypQ) (reset enq_en : Bool) : Bool := !reset && (q.full || enq_en)
/-- `deq.ret`: bypass mux, `sel = full` -/
def BypQ.deq_ret (q : BypQ) (enq_msg : Nat) : Nat := if q.full then q.entry else enq_msg
/-- `ff_bypass1` -/
def BypQ.next (q : BypQ) (reset enq_en : Bool) (enq_msg : Nat) (deq_en : Bool) : BypQ :=
  { full := !reset && (!deq_en && (enq_en || q.full))
    entry := if enq_en && !deq_en then enq_msg else q.entry }

section comb
variable (s : State) (i : EnvIn)

/-! ## combinational signals (named as in the Python) -/

/-! ### W stage (`comb_W`, `comb_reg_en_W`) -/

def rf_wen_W : Bool := s.val_W && s.cw.rf_wen_pending
def ostall_W : Bool := s.val_W && s.cw.proc2mngr_en && !i.proc2mngr_rdy
def stall_W : Bool := s.val_W && ostall_W s i
def proc2mngr_en : Bool := s.val_W && !stall_W s i && s.cw.proc2mngr_en
def commit_inst : Bool := s.val_W && !stall_W s i
def reg_en_W : Bool := !stall_W s i

/-! ### M stage (`comb_M`, `comb_reg_en_M`) -/

/-- `xcelresp_q.deq.rdy` -/
def xcelresp_rdy : Bool := s.xcelresp_q.deq_rdy i.reset i.xcel_resp_en
/-- `dmemresp_q.deq.rdy` -/
def dmemresp_rdy : Bool := s.dmemresp_q.deq_rdy i.reset i.dmem_resp_en
def ostall_xcel_M : Bool := s.cm.xcelreq && !xcelresp_rdy s i
def ostall_dmem_M : Bool := (s.cm.dmemreq_type != nr) && !dmemresp_rdy s i
def ostall_M : Bool := s.val_M && (ostall_dmem_M s i || ostall_xcel_M s i)
def stall_M : Bool := s.val_M && (ostall_M s i || ostall_W s i)
def dmemresp_en : Bool := s.val_M && !stall_M s i && (s.cm.dmemreq_type != nr)
def xcelresp_en : Bool := s.val_M && !stall_M s i && s.cm.xcelreq
def next_val_M : Bool := s.val_M && !stall_M s i
def reg_en_M : Bool := !stall_M s i

/-! ### X stage (`comb_br_X`, `comb_X`, `comb_reg_en_X`; ALU) -/

/-- `alu_X.ops_ne` -/
def ne_X : Bool := s.op1_X != s.op2_X
/-- `alu_X.out` = `bypass_X` = `dmemreq_addr` -/
def alu_out_X : Nat := alu s.cx.alu_fn s.op1_X s.op2_X
def pc_redirect_X : Bool := s.val_X && (s.cx.br_type == br_ne) && ne_X s
def ostall_dmem_X : Bool := (s.cx.dmemreq_type != nr) && !i.dmem_req_rdy
def ostall_xcel_X : Bool := s.cx.xcelreq && !i.xcel_req_rdy
def ostall_X : Bool := s.val_X && (ostall_dmem_X s i || ostall_xcel_X s i)
def stall_X : Bool := s.val_X && (ostall_X s i || ostall_M s i || ostall_W s i)
def osquash_X : Bool := s.val_X && !stall_X s i && pc_redirect_X s
def dmemreq_en : Bool := s.val_X && !stall_X s i && (s.cx.dmemreq_type != nr)
/-- `zext(dmemreq_type_X == st, 4)` -/
def dmemreq_type : Nat := if s.cx.dmemreq_type = st then 1 else 0
def xcelreq_en : Bool := s.val_X && !stall_X s i && s.cx.xcelreq
def next_val_X : Bool := s.val_X && !stall_X s i
def reg_en_X : Bool := !stall_X s i

/-! ### D stage (`comb_control_table_D`, `comb_bypass_D`, `comb_hazard_D`, `comb_D`) -/

def inst_type_D : Nat := decodeInstType s.inst_D
def cs : CS := csTable (inst_type_D s)
def rf_waddr_D : Nat := rd s.inst_D
def proc2mngr_en_D : Bool := (cs s).csrw && (csrnum s.inst_D == CSR_PROC2MNGR)
def mngr2proc_D : Bool := (cs s).csrr && (csrnum s.inst_D == CSR_MNGR2PROC)
def xcelreq_D : Bool :=
  if (cs s).csrr && (csrnum s.inst_D != CSR_MNGR2PROC) then true
  else if (cs s).csrw && (csrnum s.inst_D != CSR_PROC2MNGR) then true
  else false
/-- `XcelMsgType.READ = 0`, `WRITE = 1` -/
def xcelreq_type_D : Bool :=
  if (cs s).csrr && (csrnum s.inst_D != CSR_MNGR2PROC) then false
  else if (cs s).csrw && (csrnum s.inst_D != CSR_PROC2MNGR) then true
  else false

def byp_d : Nat := 0
def byp_x : Nat := 1
def byp_m : Nat := 2
def byp_w : Nat := 3

/-- the bypass select of one source register specifier `r` with enable `en` (the two copies in
`comb_bypass_D` differ only in `RS1`/`rs1_en` vs `RS2`/`rs2_en`) -/
def byp_sel (en : Bool) (r : Nat) : Nat :=
  if en then
    if s.val_X && (r == s.cx.rf_waddr) && (s.cx.rf_waddr != 0) && s.cx.rf_wen_pending then byp_x
    else if s.val_M && (r == s.cm.rf_waddr) && (s.cm.rf_waddr != 0) && s.cm.rf_wen_pending then byp_m
    else if s.val_W && (r == s.cw.rf_waddr) && (s.cw.rf_waddr != 0) && s.cw.rf_wen_pending then byp_w
    else byp_d
  else byp_d
def op1_byp_sel_D : Nat := byp_sel s (cs s).rs1_en (rs1 s.inst_D)
def op2_byp_sel_D : Nat := byp_sel s (cs s).rs2_en (rs2 s.inst_D)

def ostall_ld_X_rs1_D : Bool :=
  (cs s).rs1_en && s.val_X && s.cx.rf_wen_pending && (rs1 s.inst_D == s.cx.rf_waddr) && (s.cx.rf_waddr != 0)
    && (s.cx.dmemreq_type == ld)
def ostall_ld_X_rs2_D : Bool :=
  (cs s).rs2_en && s.val_X && s.cx.rf_wen_pending && (rs2 s.inst_D == s.cx.rf_waddr) && (s.cx.rf_waddr != 0)
    && (s.cx.dmemreq_type == ld)
def ostall_xcel_X_rs1_D : Bool :=
  (cs s).rs1_en && s.val_X && s.cx.rf_wen_pending && (rs1 s.inst_D == s.cx.rf_waddr) && (s.cx.rf_waddr != 0)
    && s.cx.xcelreq
def ostall_xcel_X_rs2_D : Bool :=
  (cs s).rs2_en && s.val_X && s.cx.rf_wen_pending && (rs2 s.inst_D == s.cx.rf_waddr) && (s.cx.rf_waddr != 0)
    && s.cx.xcelreq
def ostall_hazard_D : Bool :=
  ostall_ld_X_rs1_D s || ostall_ld_X_rs2_D s || ostall_xcel_X_rs1_D s || ostall_xcel_X_rs2_D s

/-- `mngr2proc_q.deq.rdy` -/
def mngr2proc_rdy : Bool := s.mngr2proc_q.deq_rdy i.reset i.mngr2proc_en
def ostall_mngr_D : Bool := mngr2proc_D s && !mngr2proc_rdy s i
def ostall_D : Bool := s.val_D && (ostall_mngr_D s i || ostall_hazard_D s)
def stall_D : Bool := s.val_D && (ostall_D s i || ostall_X s i || ostall_M s i || ostall_W s i)
def squash_D : Bool := s.val_D && osquash_X s i
def next_val_D : Bool := s.val_D && !stall_D s i && !squash_D s i
def mngr2proc_en : Bool := s.val_D && !stall_D s i && !squash_D s i && mngr2proc_D s
def reg_en_D : Bool := !stall_D s i || squash_D s i

/-! ### F stage (`comb_F_squash`, `comb_F`, `comb_PC_sel_F`, `comb_reg_en_F`) and the drop unit -/

/-- a declared wire that no update block drives -/
def osquash_D : Bool := false
def squash_F : Bool := s.val_F && (osquash_D || osquash_X s i)
def imemresp_drop : Bool := squash_F s i
/-- `imemresp_q.deq.rdy` = `imemresp_drop.in_.rdy` -/
def drop_in_rdy : Bool := s.imemresp_q.deq_rdy i.reset i.imem_resp_en
/-- `imemresp_drop.out.rdy` = ctrl's `imemresp_rdy` (`DropUnitRTL.set_outputs`) -/
def imemresp_rdy : Bool := if s.drop_wait then false else drop_in_rdy s i && !imemresp_drop s i
def ostall_F : Bool := s.val_F && !imemresp_rdy s i
def stall_F : Bool :=
  s.val_F && (ostall_F s i || ostall_D s i || ostall_X s i || ostall_M s i || ostall_W s i)
/-- `imemreq_q.enq.rdy` = `q1.enq.rdy = ~q1.full` -/
def imemreq_rdy : Bool := !s.q1_full
def imemreq_en : Bool := !i.reset && (!stall_F s i || squash_F s i) && imemreq_rdy s
/-- `imemresp_drop.out.en` -/
def imemresp_en : Bool := !stall_F s i || squash_F s i
def next_val_F : Bool := s.val_F && !stall_F s i && !squash_F s i
def reg_en_F : Bool := !stall_F s i || squash_F s i
def pc_sel_F : Bool := pc_redirect_X s
/-- `imemresp_drop.in_.en` = `imemresp_q.deq.en` -/
def drop_in_en : Bool := if s.drop_wait then drop_in_rdy s i else imemresp_en s i

/-! ### datapath wires -/

def pc_plus4_F : Nat := (s.pc_F + 4) % W32
/-- `pc_sel_mux_F.out` -/
def imemreq_addr : Nat := if pc_sel_F s then s.br_target_X else pc_plus4_F s
/-- `imemresp_drop.out.ret` = `imemresp_q.deq.ret.data` -/
def imemresp_data : Nat := s.imemresp_q.deq_ret i.imem_resp_data
def dmemresp_data : Nat := s.dmemresp_q.deq_ret i.dmem_resp_data
def mngr2proc_data : Nat := s.mngr2proc_q.deq_ret i.mngr2proc_msg
def xcelresp_data : Nat := s.xcelresp_q.deq_ret i.xcel_resp_data
/-- `RegisterFile.up_rf_read` -/
def rf_read (rf : List Nat) (a : Nat) : Nat := rf.getD a 0
def rf_rdata0_D : Nat := rf_read s.rf (rs1 s.inst_D)
def rf_rdata1_D : Nat := rf_read s.rf (rs2 s.inst_D)
def imm_D : Nat := immgen (cs s).imm_type s.inst_D
def bypass_X : Nat := alu_out_X s
/-- `wb_result_sel_mux_M.out` -/
def bypass_M : Nat :=
  if s.cm.wb_result_sel = 0 then s.ex_result_M
  else if s.cm.wb_result_sel = 1 then dmemresp_data s i
  else if s.cm.wb_result_sel = 2 then xcelresp_data s i
  else 0
def bypass_W : Nat := s.wb_result_W
def byp_mux (sel d : Nat) : Nat :=
  if sel = 0 then d else if sel = 1 then bypass_X s else if sel = 2 then bypass_M s i else bypass_W s
def op1_byp_D : Nat := byp_mux s i (op1_byp_sel_D s) (rf_rdata0_D s)
def op2_byp_D : Nat := byp_mux s i (op2_byp_sel_D s) (rf_rdata1_D s)
/-- `op2_sel_mux_D.out` -/
def op2_D : Nat :=
  if (cs s).op2_sel = 0 then op2_byp_D s i
  else if (cs s).op2_sel = 1 then imm_D s
  else if (cs s).op2_sel = 2 then mngr2proc_data s i
  else 0
def pc_plus_imm_D : Nat := (s.pc_D + imm_D s) % W32

/-! ### imemreq_q: two chained `enrdy_queues.BypassQueue1RTL` -/

def q1_deq_rdy : Bool := !s.q2_full                                  -- q2.enq.rdy
def q1_deq_en : Bool := (imemreq_en s i || s.q1_full) && q1_deq_rdy s
def q1_deq_msg : Nat := if s.q1_full then s.q1_buf else imemreq_addr s
def q2_deq_en : Bool := (q1_deq_en s i || s.q2_full) && i.imem_req_rdy   -- imem.req.en
def q2_deq_msg : Nat := if s.q2_full then s.q2_buf else q1_deq_msg s    -- imem.req.msg.addr

/-! ## outputs -/

def out : EnvOut where
  imem_req_en := q2_deq_en s i
  imem_req_addr := q2_deq_msg s
  imem_resp_rdy := s.imemresp_q.enq_rdy i.reset
  dmem_req_en := dmemreq_en s i
  dmem_req_type := dmemreq_type s
  dmem_req_addr := alu_out_X s
  dmem_req_data := s.store_X
  dmem_resp_rdy := s.dmemresp_q.enq_rdy i.reset
  mngr2proc_rdy := s.mngr2proc_q.enq_rdy i.reset
  proc2mngr_en := proc2mngr_en s i
  proc2mngr_msg := s.wb_result_W
  xcel_req_en := xcelreq_en s i
  xcel_req_type := s.cx.xcelreq_type
  xcel_req_addr := s.op2_X % 32
  xcel_req_data := s.op1_X
  xcel_resp_rdy := s.xcelresp_q.enq_rdy i.reset
  commit_inst := commit_inst s i

/-! ## next state (the `update_ff` blocks) -/

/-- `RegisterFile.up_rf_write_constzero` -/
def rf_write (rf : List Nat) (wen : Bool) (waddr wdata : Nat) : List Nat :=
  if wen && (waddr != 0) then rf.set waddr wdata else rf

/-- `reg_X` payload from the D-stage table -/
def ctlX_next : CtlX where
  rf_wen_pending := (cs s).rf_wen_pending
  inst_type := inst_type_D s
  alu_fn := (cs s).alu_fn
  rf_waddr := rf_waddr_D s
  proc2mngr_en := proc2mngr_en_D s
  dmemreq_type := (cs s).dmemreq_type
  wb_result_sel := (cs s).wb_result_sel
  br_type := (cs s).br_type
  xcelreq := xcelreq_D s
  xcelreq_type := xcelreq_type_D s

def ctlM_next : CtlM where
  rf_wen_pending := s.cx.rf_wen_pending
  inst_type := s.cx.inst_type
  rf_waddr := s.cx.rf_waddr
  proc2mngr_en := s.cx.proc2mngr_en
  dmemreq_type := s.cx.dmemreq_type
  wb_result_sel := s.cx.wb_result_sel
  xcelreq := s.cx.xcelreq

def ctlW_next : CtlW where
  rf_wen_pending := s.cm.rf_wen_pending
  inst_type := s.cm.inst_type
  rf_waddr := s.cm.rf_waddr
  proc2mngr_en := s.cm.proc2mngr_en

def next : State :=
  let r := i.reset
  let enF := reg_en_F s i
  let enD := reg_en_D s i
  let enX := reg_en_X s i
  let enM := reg_en_M s i
  let enW := reg_en_W s i
  { -- ProcCtrl: reg_F, reg_D, reg_X, reg_M, reg_W
    val_F := if r then false else if enF then true else s.val_F
    val_D := if r then false else if enD then next_val_F s i else s.val_D
    val_X := if r then false else if enX then next_val_D s i else s.val_X
    cx := if r then s.cx else if enX then ctlX_next s else s.cx
    val_M := if r then false else if enM then next_val_X s i else s.val_M
    cm := if r then s.cm else if enM then ctlM_next s else s.cm
    val_W := if r then false else if enW then next_val_M s i else s.val_W
    cw := if r then s.cw else if enW then ctlW_next s else s.cw
    -- ProcDpath: RegEnRst registers and the register file
    pc_F := if r then 0x200 - 4 else if enF then imemreq_addr s else s.pc_F
    pc_D := if r then 0 else if enD then s.pc_F else s.pc_D
    inst_D := if r then 0 else if enD then imemresp_data s i else s.inst_D
    rf := rf_write s.rf (rf_wen_W s) s.cw.rf_waddr s.wb_result_W
    br_target_X := if r then 0 else if enX then pc_plus_imm_D s else s.br_target_X
    op1_X := if r then 0 else if enX then op1_byp_D s i else s.op1_X
    op2_X := if r then 0 else if enX then op2_D s i else s.op2_X
    store_X := if r then 0 else if enX then op2_byp_D s i else s.store_X
    ex_result_M := if r then 0 else if enM then alu_out_X s else s.ex_result_M
    wb_result_W := if r then 0 else if enW then bypass_M s i else s.wb_result_W
    -- DropUnitRTL.state_transitions
    drop_wait :=
      if r then false
      else if !s.drop_wait then (if imemresp_drop s i && !drop_in_rdy s i then true else false)
      else (if drop_in_rdy s i then false else true)
    -- imemreq_q.q1 / q2 (enrdy_queues.BypassQueue1RTL): full = RegRst, buffer = RegEn
    q1_full := if r then false else (imemreq_en s i || s.q1_full) && !q1_deq_en s i
    q1_buf := if imemreq_en s i && !q1_deq_en s i then imemreq_addr s else s.q1_buf
    q2_full := if r then false else (q1_deq_en s i || s.q2_full) && !q2_deq_en s i
    q2_buf := if q1_deq_en s i && !q2_deq_en s i then q1_deq_msg s else s.q2_buf
    -- one-entry bypass queues
    imemresp_q := s.imemresp_q.next r i.imem_resp_en i.imem_resp_data (drop_in_en s i)
    dmemresp_q := s.dmemresp_q.next r i.dmem_resp_en i.dmem_resp_data (dmemresp_en s i)
    mngr2proc_q := s.mngr2proc_q.next r i.mngr2proc_en i.mngr2proc_msg (mngr2proc_en s i)
    xcelresp_q := s.xcelresp_q.next r i.xcel_resp_en i.xcel_resp_data (xcelresp_en s i) }

end comb

/-- one clock cycle -/
def step (s : State) (i : EnvIn) : State × EnvOut := (next s i, out s i)

/-- the states visited: `run s [i0, i1, ...] = [(s, out s i0), (next s i0, out .. i1), ...]` -/
def run : State → List EnvIn → List (State × EnvIn × EnvOut)
  | _, [] => []
  | s, i :: is => (s, i, out s i) :: run (next s i) is

/-- the state after a whole input list -/
def runS : State → List EnvIn → State
  | s, [] => s
  | s, i :: is => runS (next s i) is

end PV.Pipe
