/-
Executable model of the RTL core of PyMTL3 simulation, used by C01, C02, C07 and C11.

What is modelled (and from which code):
* signals are bit vectors; a struct field or a slice is a bit range of its top-level signal
  (`Connectable.py: Signal.__getattr__/__getitem__`, layout of `bitstructs.py: to_bits`);
  the state is bit-level: `St = (signal id, bit index) → Bool`;
* an update block is a list of assignments `sig[lo : lo+w] @= expr` executed in order
  (`@=` semantics of `PythonBits.__imatmul__/__setitem__`); a net block is an update block
  `reader @= writer` (`GenDAGPass._generate_net_blocks`);
* the read/write footprints are the syntactic bit ranges, the dependency relation is
  "writes a bit that the other reads" (`GenDAGPass._process_value_constraints`, where the same
  relation is computed by the parent-chain and sibling-slice walk);
* `update_ff` blocks assign whole top-level signals with `<<=` (writes `_next`, reads current
  values); the flip copies `_next` for exactly the written registers
  (`SimpleSchedulePass.schedule_posedge_flip`, `PrepareSimPass.lock_in_simulation`: `value <<= value`);
* `sim_tick` = comb schedule, ff blocks, flip, comb schedule (`PrepareSimPass.create_sim_tick`);
  `sim_eval_combinational` = comb schedule;
* an SCC super-block repeats its blocks until the watched signals are unchanged, at most 100 times
  (`DynamicSchedulePass.schedule_intra_cycle` template, `Mamba2020Pass.compile_scc`).

Conditional statements of the generated PyMTL blocks are if/else statements that assign the same
targets on both paths; the harness presents them to this model as `mux` expressions.

Mathlib-free: linked into the native driver `pv_rtl`.
-/
namespace PV.Rtl

abbrev Var := Nat × Nat
abbrev St := Var → Bool

/-- a bit range `sig[lo : lo+w]` -/
structure Rng where
  sig : Nat
  lo : Nat
  w : Nat
deriving DecidableEq, Repr, Inhabited

def Rng.has (r : Rng) (v : Var) : Prop := v.1 = r.sig ∧ r.lo ≤ v.2 ∧ v.2 < r.lo + r.w
instance (r : Rng) (v : Var) : Decidable (r.has v) := by unfold Rng.has; infer_instance

/-- the two ranges share a bit -/
def Rng.overlap (a b : Rng) : Bool :=
  a.sig == b.sig && decide (a.lo < b.lo + b.w) && decide (b.lo < a.lo + a.w)

/-- value of bits 0..w-1 of `f` -/
def bitsToNat (f : Nat → Bool) : Nat → Nat
  | 0 => 0
  | w+1 => bitsToNat f w + (if f w then 2 ^ w else 0)

inductive BOp where
  | add | sub | mul | and | or | xor | shl | shr | eq | ne | lt | le | gt | ge
deriving DecidableEq, Repr, Inhabited

/-- operators on values already reduced to width `w` (PythonBits semantics, same-width operands) -/
def binEval (op : BOp) (w a b : Nat) : Nat :=
  match op with
  | .add => (a + b) % 2 ^ w
  | .sub => (a + 2 ^ w - b % 2 ^ w) % 2 ^ w
  | .mul => (a * b) % 2 ^ w
  | .and => a &&& b
  | .or => a ||| b
  | .xor => a ^^^ b
  | .shl => if b ≥ w then 0 else (a * 2 ^ b) % 2 ^ w
  | .shr => if b ≥ w then 0 else a / 2 ^ b   -- operands of a well-typed expression are < 2^w, so this is a >> b
  | .eq => if a = b then 1 else 0
  | .ne => if a = b then 0 else 1
  | .lt => if a < b then 1 else 0
  | .le => if a ≤ b then 1 else 0
  | .gt => if a > b then 1 else 0
  | .ge => if a ≥ b then 1 else 0

inductive Expr where
  | const (w v : Nat)
  | rd (r : Rng)
  | not (w : Nat) (e : Expr)
  | bin (op : BOp) (w : Nat) (a b : Expr)
  | mux (c a b : Expr)
  | cat (a : Expr) (wb : Nat) (b : Expr)
deriving Repr, Inhabited

def Expr.eval (s : St) : Expr → Nat
  | .const w v => v % 2 ^ w
  | .rd r => bitsToNat (fun i => s (r.sig, r.lo + i)) r.w
  | .not w e => 2 ^ w - 1 - (e.eval s) % 2 ^ w
  | .bin op w a b => binEval op w (a.eval s) (b.eval s)
  | .mux c a b => if c.eval s ≠ 0 then a.eval s else b.eval s
  | .cat a wb b => a.eval s * 2 ^ wb + (b.eval s) % 2 ^ wb

def Expr.reads : Expr → List Rng
  | .const _ _ => []
  | .rd r => [r]
  | .not _ e => e.reads
  | .bin _ _ a b => a.reads ++ b.reads
  | .mux c a b => c.reads ++ a.reads ++ b.reads
  | .cat a _ b => a.reads ++ b.reads

/-- `tgt @= e` -/
structure Asg where
  tgt : Rng
  e : Expr
deriving Repr, Inhabited

def Asg.run (a : Asg) (s : St) : St :=
  fun v => if a.tgt.has v then (a.e.eval s).testBit (v.2 - a.tgt.lo) else s v

structure Blk where
  id : Nat
  asgs : List Asg
deriving Repr, Inhabited

def Blk.run (b : Blk) (s : St) : St := b.asgs.foldl (fun s a => a.run s) s
def Blk.writes (b : Blk) : List Rng := b.asgs.map (·.tgt)
def Blk.reads (b : Blk) : List Rng := b.asgs.flatMap (·.e.reads)

def rngsOverlap (xs ys : List Rng) : Bool := xs.any (fun x => ys.any (fun y => x.overlap y))

/-- a block never reads a bit it writes (GenDAGPass ignores such self-dependence; the theorems exclude it) -/
def Blk.noSelf (b : Blk) : Bool := !rngsOverlap b.reads b.writes

def runBlocks (bs : List Blk) (s : St) : St := bs.foldl (fun s b => b.run s) s

/-- pairwise over a list, as a Bool: `p earlier later` for every ordered pair -/
def pairwiseB {α : Type} (p : α → α → Bool) : List α → Bool
  | [] => true
  | x :: xs => xs.all (p x) && pairwiseB p xs

/-- legal schedule: no later block writes a bit that an earlier block reads -/
def topoB (bs : List Blk) : Bool := pairwiseB (fun a c => !rngsOverlap a.reads c.writes) bs
/-- no bit has two writers -/
def singleWriterB (bs : List Blk) : Bool :=
  pairwiseB (fun a c => !rngsOverlap a.writes c.writes) bs

/-- dependency edges of a block list: (A.id, B.id) when A writes a bit B reads, A ≠ B -/
def deps (bs : List Blk) : List (Nat × Nat) :=
  bs.flatMap (fun a => (bs.filter (fun b => a.id != b.id && rngsOverlap a.writes b.reads)).map (fun b => (a.id, b.id)))

def posOf (o : List Nat) (x : Nat) : Nat := o.findIdx (· == x)

/-- all dependency edges point forward in the order `o` (a list of block ids) -/
def depsForward (bs : List Blk) (o : List Nat) : Bool :=
  (deps bs).all (fun e => decide (posOf o e.1 < posOf o e.2))

def lookupBlk (bs : List Blk) (i : Nat) : Option Blk := bs.find? (·.id == i)

/-- the blocks named by the id list `o` (none if an id is unknown) -/
def orderBlocks (bs : List Blk) (o : List Nat) : Option (List Blk) := o.mapM (lookupBlk bs)

/-! ### registers and the tick -/

structure Design where
  widths : List Nat          -- signal i has width widths[i]
  comb : List Blk            -- update blocks and net blocks
  ff : List Blk              -- update_ff blocks: every assignment targets a whole signal
deriving Repr, Inhabited

/-- a double-buffered state: current values and the `_next` shadow -/
structure FState where
  cur : St
  next : St

/-- `<<=` : evaluate on the current values, write the shadow -/
def Asg.runFF (a : Asg) (cur : St) (nx : St) : St :=
  fun v => if a.tgt.has v then (a.e.eval cur).testBit (v.2 - a.tgt.lo) else nx v

def Blk.runFF (b : Blk) (cur : St) (nx : St) : St := b.asgs.foldl (fun nx a => a.runFF cur nx) nx

def runFFs (ffs : List Blk) (cur : St) (nx : St) : St := ffs.foldl (fun nx b => b.runFF cur nx) nx

/-- is signal `g` written by some ff block (needs_double_buffer) -/
def isReg (ffs : List Blk) (g : Nat) : Bool := ffs.any (fun b => b.writes.any (fun r => r.sig == g))

def flip (ffs : List Blk) (st : FState) : FState :=
  { cur := fun v => if isReg ffs v.1 then st.next v else st.cur v, next := st.next }

def evalComb (comb : List Blk) (st : FState) : FState := { st with cur := runBlocks comb st.cur }

/-- `sim_tick` with the comb blocks in order `comb` and the ff blocks in order `ffs` -/
def tick (comb ffs : List Blk) (st : FState) : FState :=
  let st1 := evalComb comb st
  let st2 : FState := { st1 with next := runFFs ffs st1.cur st1.next }
  evalComb comb (flip ffs st2)

/-! ### SCC super-block -/

/-- repeat the group until the watched ranges are unchanged over one sweep; `none` after `fuel` sweeps
(the code raises UpblkCyclicError when N > 100) -/
def iterate (fuel : Nat) (watch : List Rng) (scc : List Blk) (s : St) : Option St :=
  match fuel with
  | 0 => none
  | f+1 =>
    let s' := runBlocks scc s
    if watch.all (fun r => (List.range r.w).all (fun i => s (r.sig, r.lo + i) == s' (r.sig, r.lo + i)))
    then some s' else iterate f watch scc s'

/-- a schedule entry: a single block or an SCC group with its watch list -/
inductive Entry where
  | blk (b : Blk)
  | scc (bs : List Blk) (watch : List Rng)
deriving Repr, Inhabited

def runEntries (fuel : Nat) : List Entry → St → Option St
  | [], s => some s
  | .blk b :: es, s => runEntries fuel es (b.run s)
  | .scc bs w :: es, s =>
    match iterate fuel w bs s with
    | some s' => runEntries fuel es s'
    | none => none

/-- every bit written inside the group and read inside the group is watched -/
def watchOKB (scc : List Blk) (watch : List Rng) : Bool :=
  scc.all (fun a => a.writes.all (fun wr => scc.all (fun b => b.reads.all (fun rd =>
    !wr.overlap rd ||
      -- every common bit of wr and rd lies in some watched range
      (List.range (min (wr.lo + wr.w) (rd.lo + rd.w) - max wr.lo rd.lo)).all (fun i =>
        watch.any (fun r => r.sig == wr.sig && decide (r.lo ≤ max wr.lo rd.lo + i) && decide (max wr.lo rd.lo + i < r.lo + r.w)))))))

/-! ### whole schedules (single blocks and SCC groups) -/

def Entry.blocks : Entry → List Blk
  | .blk b => [b]
  | .scc bs _ => bs

def allBlocks (es : List Entry) : List Blk := es.flatMap Entry.blocks

def Entry.reads (e : Entry) : List Rng := e.blocks.flatMap Blk.reads
def Entry.writes (e : Entry) : List Rng := e.blocks.flatMap Blk.writes

/-- entries are in topological order: no later entry writes a bit an earlier entry reads -/
def entriesTopoB (es : List Entry) : Bool :=
  pairwiseB (fun e e' => !rngsOverlap e.reads e'.writes) es

/-- every SCC entry carries a watch list that covers its intra-group variables -/
def watchesOKB (es : List Entry) : Bool :=
  es.all (fun e => match e with
    | .blk _ => true
    | .scc bs w => watchOKB bs w)


end PV.Rtl
