import PymtlVerif.Model.TC
/-!
Python evaluation of the core language of `Model/TC.lean`, i.e. what the simulator does when it runs
the update block as the Python function it is: signals are `Bits` objects (`Model/Bits.lean`, the model
of `pymtl3/datatypes/PythonBits.py` and `helpers.py`), literals / loop variables are Python ints,
temporaries hold whatever was assigned to them.  Every operator dispatches exactly as Python does
(`Bits.__op__`, reflected `Bits.__rop__` when the left operand is an int, plain int arithmetic
when both are ints), so width mismatches and out-of-range ints raise where `PythonBits` raises.

Mathlib-free on purpose: this file is linked into the native driver.
-/
namespace PV.TC
open PV.Bits

/-- a Python value of this fragment: a `Bits` object or an `int` (a `bool` is the int 0/1) -/
inductive Val where
  | bits (b : B)
  | int (k : Int)
deriving DecidableEq, Repr, Inhabited

/-- canonical image of the exceptions.  `width`/`range` are the two kinds of `ValueError` of
    `PythonBits` (operand widths differ / integer does not fit) — the "width errors" of C10 -/
inductive PyErr where
  | width | range | index | zerodiv | type | assert
  | name        -- UnboundLocalError / NameError: temporary or loop variable not bound
  | attr        -- AttributeError (`int` has no `.nbits`)
  | negshift    -- ValueError: negative shift count (int << negative int)
deriving DecidableEq, Repr, Inhabited

def PyErr.ofBits : Bits.Err → PyErr
  | .width => .width | .range => .range | .index => .index
  | .zerodiv => .zerodiv | .type => .type | .assert => .assert

def PyErr.pyClass : PyErr → String
  | .width => "ValueError:width" | .range => "ValueError:range" | .index => "IndexError"
  | .zerodiv => "ZeroDivisionError" | .type => "TypeError" | .assert => "AssertionError"
  | .name => "NameError" | .attr => "AttributeError" | .negshift => "ValueError:negshift"

/-- the errors the property is about -/
def PyErr.isWidth : PyErr → Bool
  | .width | .range => true
  | _ => false

abbrev PR := Except PyErr Val

def liftR : Bits.R → PR
  | .ok b => .ok (.bits b)
  | .error e => .error (PyErr.ofBits e)

def liftB : Bits.R → Except PyErr B
  | .ok b => .ok b
  | .error e => .error (PyErr.ofBits e)

def Val.opnd : Val → Opnd
  | .bits b => .bits b
  | .int k => .int k

def Op.toBits : Op → Bits.BinOp
  | .add => .add | .sub => .sub | .mul => .mul | .band => .and | .bor => .or | .bxor => .xor
  | .mod => .mod | .shl => .lshift | .shr => .rshift

def liftI : Except IErr Int → PR
  | .ok v => .ok (.int v)
  | .error .zerodiv => .error .zerodiv
  | .error .negshift => .error .negshift

/-- `x op y` -/
def pyBin (op : Op) (x y : Val) : PR :=
  match x, y with
  | .bits a, y => liftR (binop op.toBits a y.opnd)
  | .int k, .bits b => liftR (rbinop op.toBits (.int k) b)
  | .int k, .int j => liftI (intBin op k j)

def cmpInt (op : CmpOp) (a b : Int) : Bool :=
  match op with
  | .eq => a == b | .ne => a != b | .lt => a < b | .le => a ≤ b | .gt => a > b | .ge => a ≥ b

/-- `x cmp y` (two ints give a Python `bool`, the int 0/1) -/
def pyCmp (op : CmpOp) (x y : Val) : PR :=
  match x, y with
  | .bits a, y => liftR (cmpop op a y.opnd)
  | .int k, .bits b => liftR (rcmpop op (.int k) b)
  | .int k, .int j => .ok (.int (if cmpInt op k j then 1 else 0))

/-- `~x`, `-x` (`Bits` has no `__neg__`) -/
def pyUn (op : UOp) (x : Val) : PR :=
  match op, x with
  | .inv, .bits b => .ok (.bits (invert b))
  | .neg, .bits _ => .error .type
  | op, .int k => .ok (.int (intUn op k))

def truthy : Val → Bool
  | .bits b => b.v != 0
  | .int k => k != 0

/-- `Bits<n>( x )` -/
def pyCast (n : Nat) (x : Val) : PR := liftR (ctor n x.opnd false)

/-- `zext/sext/trunc( x, n )` and `( x, Bits<n> )` -/
def pyExt (k : ExtK) (ty : Bool) (x : Val) (n : Nat) : PR :=
  match x with
  | .int _ => .error .attr
  | .bits b =>
    match k, ty with
    | .zext, false => liftR (zext b n)
    | .zext, true => liftR (zextT b n)
    | .sext, false => liftR (sext b n)
    | .sext, true => liftR (sextT b n)
    | .trunc, false => liftR (trunc b n)
    | .trunc, true => liftR (truncT b n)

/-- `reduce_and/or/xor( x )`; on an int: `reduce_and` reads `.nbits` (TypeError), the other two work
    on `int(value)` (a negative int makes `reduce_xor` loop for ever: modelled as TypeError, never driven) -/
def pyRed (op : ROp) (x : Val) : PR :=
  match op, x with
  | .rand, .bits b => .ok (.bits (reduceAnd b))
  | .ror, .bits b => .ok (.bits (reduceOr b))
  | .rxor, .bits b => .ok (.bits (reduceXor b))
  | .rand, .int _ => .error .type
  | .ror, .int k => .ok (.bits (b1 (k != 0)))
  | .rxor, .int k => if k < 0 then .error .type else .ok (.bits (b1 (popcount k.toNat k.toNat % 2 == 1)))

/-- `concat( x, y )` -/
def pyCat (x y : Val) : PR :=
  match x, y with
  | .bits a, .bits b => liftR (concat [a, b])
  | _, _ => .error .attr

/-- `int( idx )` -/
def toIndex : Val → Int
  | .bits b => b.v
  | .int k => k

/-- the simulator state: signal values, loop variables, temporaries -/
structure Rho where
  sigs : List (Nat × Nat)
  lvs : List (Nat × Int)
  tmps : List (Nat × Val)
deriving Repr, Inhabited

/-- the `Bits` object of signal `x` (declared width `w`); the mask is the identity on every state the
    simulator can reach (a signal's value always fits its width, C04) -/
def Rho.sig (ρ : Rho) (x w : Nat) : B := ⟨w, ((ρ.sigs.lookup x).getD 0) % 2 ^ w⟩

def Rho.setSig (ρ : Rho) (x v : Nat) : Rho := { ρ with sigs := (x, v) :: ρ.sigs }
def Rho.setTmp (ρ : Rho) (t : Nat) (v : Val) : Rho := { ρ with tmps := (t, v) :: ρ.tmps }

def evalPy (ρ : Rho) : Expr → PR
  | .sig x w => .ok (.bits (ρ.sig x w))
  | .num v => .ok (.int v)
  | .lv i =>
    match ρ.lvs.lookup i with
    | some k => .ok (.int k)
    | none => .error .name
  | .tmp t =>
    match ρ.tmps.lookup t with
    | some v => .ok v
    | none => .error .name
  | .un op e =>
    match evalPy ρ e with
    | .ok x => pyUn op x
    | .error er => .error er
  | .bin op l r =>
    match evalPy ρ l with
    | .error er => .error er
    | .ok x =>
    match evalPy ρ r with
    | .error er => .error er
    | .ok y => pyBin op x y
  | .cmp op l r =>
    match evalPy ρ l with
    | .error er => .error er
    | .ok x =>
    match evalPy ρ r with
    | .error er => .error er
    | .ok y => pyCmp op x y
  | .ite c t f =>
    match evalPy ρ c with
    | .error er => .error er
    | .ok vc => if truthy vc then evalPy ρ t else evalPy ρ f
  | .cast n e =>
    match evalPy ρ e with
    | .ok x => pyCast n x
    | .error er => .error er
  | .ext k ty e n =>
    match evalPy ρ e with
    | .ok x => pyExt k ty x n
    | .error er => .error er
  | .red op e =>
    match evalPy ρ e with
    | .ok x => pyRed op x
    | .error er => .error er
  | .cat l r =>
    match evalPy ρ l with
    | .error er => .error er
    | .ok x =>
    match evalPy ρ r with
    | .error er => .error er
    | .ok y => pyCat x y
  | .idx x w i =>
    match evalPy ρ i with
    | .error er => .error er
    | .ok vi => liftR (getBit (ρ.sig x w) (toIndex vi))
  | .slc x w lo hi =>
    match evalPy ρ lo with
    | .error er => .error er
    | .ok vlo =>
    match evalPy ρ hi with
    | .error er => .error er
    | .ok vhi => liftR (getSlice (ρ.sig x w) (some (toIndex vlo)) (some (toIndex vhi)) none)

/-! ## statements

`tgt @= e` is an augmented assignment: Python loads the target (`__getitem__` for a bit / slice), then
evaluates `e`, calls `__imatmul__` on the loaded object and stores the result back (`__setitem__`). -/

def execAsg (ρ : Rho) (tgt e : Expr) : Except PyErr Rho :=
  match tgt with
  | .sig x w =>
    match evalPy ρ e with
    | .error er => .error er
    | .ok v =>
      match liftB (imatmul (ρ.sig x w) v.opnd) with
      | .error er => .error er
      | .ok r => .ok (ρ.setSig x r.v)
  | .idx x w i =>
    match evalPy ρ i with
    | .error er => .error er
    | .ok vi =>
    match liftB (getBit (ρ.sig x w) (toIndex vi)) with
    | .error er => .error er
    | .ok cur =>
    match evalPy ρ e with
    | .error er => .error er
    | .ok v =>
    match liftB (imatmul cur v.opnd) with
    | .error er => .error er
    | .ok nb =>
    match liftB (setBit (ρ.sig x w) (toIndex vi) (.bits nb)) with
    | .error er => .error er
    | .ok r => .ok (ρ.setSig x r.v)
  | .slc x w lo hi =>
    match evalPy ρ lo with
    | .error er => .error er
    | .ok vlo =>
    match evalPy ρ hi with
    | .error er => .error er
    | .ok vhi =>
    match liftB (getSlice (ρ.sig x w) (some (toIndex vlo)) (some (toIndex vhi)) none) with
    | .error er => .error er
    | .ok cur =>
    match evalPy ρ e with
    | .error er => .error er
    | .ok v =>
    match liftB (imatmul cur v.opnd) with
    | .error er => .error er
    | .ok nb =>
    match liftB (setSlice (ρ.sig x w) (some (toIndex vlo)) (some (toIndex vhi)) none (.bits nb)) with
    | .error er => .error er
    | .ok r => .ok (ρ.setSig x r.v)
  | _ => .error .type

/-- run `f` for every value of the loop variable, in order -/
def runLoop (f : Rho → Except PyErr Rho) (i : Nat) : List Int → Rho → Except PyErr Rho
  | [], ρ => .ok ρ
  | k :: ks, ρ =>
    match f { ρ with lvs := (i, k) :: ρ.lvs } with
    | .error er => .error er
    | .ok ρ1 => runLoop f i ks { ρ1 with lvs := ρ.lvs }

def execS : Stmt → Rho → Except PyErr Rho
  | .skip, ρ => .ok ρ
  | .seq a b, ρ =>
    match execS a ρ with
    | .error er => .error er
    | .ok ρ1 => execS b ρ1
  | .asg tgt e, ρ => execAsg ρ tgt e
  | .tasg t e, ρ =>
    match evalPy ρ e with
    | .error er => .error er
    | .ok v => .ok (ρ.setTmp t v)
  | .ifs c b o, ρ =>
    match evalPy ρ c with
    | .error er => .error er
    | .ok vc => if truthy vc then execS b ρ else execS o ρ
  | .for_ i start stop step body, ρ => runLoop (execS body) i (pyRange start stop step) ρ

end PV.TC
