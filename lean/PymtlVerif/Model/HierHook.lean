import PymtlVerif.Model.Hier
/-!
# The naming hook as an operation on a naming state (property C14, second half)

`Model/Hier.lean` describes the hierarchy a *finished* construction description gives.  This file
models the mechanism itself: `pymtl3/dsl/NamedObject.py` — `NamedObject.__setattr_for_elaborate__`,
the `__setattr__` every `NamedObject` has while `elaborate()` runs — as an operation `assign` on a
state that holds, per Python object, its `__dict__`, its `_dsl.NamedObject_fields` and the naming
metadata the hook stores in `_dsl`, and the things construct code can do to a list *without* passing
the hook (`list.append / extend / insert / __setitem__ / pop`: `HSt.mutate`).

* objects and lists have an identity (`HVal.obj o`, `HVal.lst id …`); the hook compares identities
  (`getattr( s, name ) is obj`);
* a Python list is mutable and may be reachable through several attributes (`s.k = s.l`): the state
  stores list *contents* inside the values (`HVal.lst id xs`, finite trees, so the walk terminates) and a
  mutation of the list `id` rewrites every occurrence of `id` in the state (`HSt.mutate`), which is what
  sharing one list object means for every observation made here;
* `s.x += extra` is Python's `tmp = s.x; tmp = tmp.__iadd__( extra ); s.x = tmp`: the in-place extension
  of the list followed by an assignment of the *same* list through the hook (`iadd`).  Since fix 0c15daa
  the hook then names exactly the elements that have no `_dsl.full_name` yet.
* `_collect_all_single` (what the design consists of) is `HReach`: public `__dict__` entries and list
  elements, transitively.

Not modelled here: the parameter tree, `_construct()` of a newly named object (its `construct` is a
sequence of further `assign`s with the new object as owner; the driver runs them), lazily created
field / slice signals (`Model/Hier.lean`).
-/
namespace PV.Hier

/-- a Python value as the hook sees it: a `NamedObject`, a `list`, or anything else (None, int, …) -/
inductive HVal where
  | obj (o : Nat)
  | other
  | lst (id : Nat) (xs : List HVal)
deriving Repr, Inhabited

/-- `x is y` for the two kinds of values that have an identity here -/
def HVal.same : HVal → HVal → Bool
  | .obj a, .obj b => a == b
  | .lst i _, .lst j _ => i == j
  | _, _ => false

/-- `isinstance( x, (NamedObject, list) )` -/
def HVal.isHw : HVal → Bool
  | .other => false
  | _ => true

/-- does the value take the object branch or the list branch of the hook?
`isinstance( obj, NamedObject )`, or `isinstance( obj, list ) and any( isinstance( x, (NamedObject, list) ) for x in obj )` -/
def HVal.takesHook : HVal → Bool
  | .obj _ => true
  | .lst _ xs => xs.any HVal.isHw
  | .other => false

def HVal.isLst : HVal → Bool
  | .lst _ _ => true
  | _ => false

/-- the naming metadata `__setattr_for_elaborate__` stores in `u._dsl` -/
structure Dsl where
  full : Name                -- `full_name` (= `repr`)
  parent : Option Nat        -- `parent_obj` (`none`: the top)
  level : Nat                -- `level`
  myName : String            -- `_my_name`
  indices : List Nat         -- `_my_indices` (`[]` = `None`: bound directly, not through a list)
deriving DecidableEq, Repr

/-- `my_name` = `_my_name` followed by `[i]` per index -/
def Dsl.my (d : Dsl) : List Tok := suffixOf d.myName d.indices

structure HSt where
  /-- `__dict__` of every object (newest binding first; `lookup` = `getattr`) -/
  attrs : Nat → List (String × HVal)
  /-- `_dsl.NamedObject_fields` -/
  fields : Nat → List String
  /-- `none`: the object has never passed the hook (`_dsl` has no `full_name`; `repr` is the default) -/
  dsl : Nat → Option Dsl

def upd {β} (f : Nat → β) (k : Nat) (v : β) : Nat → β := fun x => if x = k then v else f x

/-- the state `_elaborate_construct` starts from: the top is `s`, level 0, nothing else is named -/
def HSt.init (root : Nat) : HSt :=
  { attrs := fun _ => [], fields := fun _ => [],
    dsl := fun o => if o = root then some ⟨[.root], none, 0, "s", []⟩ else none }

/-! ## the breadth-first walk (`Q = deque(…)`; `Q.popleft()`; `Q.extend(…)`) -/

mutual
def HVal.size : HVal → Nat
  | .obj _ => 1
  | .other => 1
  | .lst _ xs => HVal.sizeL xs + 1
def HVal.sizeL : List HVal → Nat
  | [] => 0
  | x :: r => x.size + HVal.sizeL r
end

def hqSize : List (HVal × List Nat) → Nat
  | [] => 0
  | p :: r => p.1.size + hqSize r

/-- `(v, indices+(i,)) for i, v in enumerate(u)` -/
def henum (ix : List Nat) : Nat → List HVal → List (HVal × List Nat)
  | _, [] => []
  | k, v :: r => (v, ix ++ [k]) :: henum ix (k + 1) r

/-- the queue loop with a step bound (every iteration removes one node of the queue's total size) -/
def hbfsF : Nat → List (HVal × List Nat) → List (Nat × List Nat)
  | 0, _ => []
  | _, [] => []
  | n + 1, (.obj o, ix) :: q => (o, ix) :: hbfsF n q
  | n + 1, (.other, _) :: q => hbfsF n q
  | n + 1, (.lst _ xs, ix) :: q => hbfsF n (q ++ henum ix 0 xs)

/-- the `NamedObject`s the loop visits, in order, with their index tuples -/
def hbfs (q : List (HVal × List Nat)) : List (Nat × List Nat) := hbfsF (hqSize q) q

/-- Python indexing `v[i0][i1]…` -/
def hgetPath (v : HVal) : List Nat → Option HVal
  | [] => some v
  | i :: r =>
    match v with
    | .lst _ xs => match xs[i]? with
      | some w => hgetPath w r
      | none => none
    | _ => none

/-! ## the hook -/

inductive HErr where
  | fieldReassign      -- `FieldReassignError`
  | attributeError     -- the owner has no `_dsl.NamedObject_fields` / `full_name`, `getattr` fails, `+=` on a non-list
deriving DecidableEq, Repr

/-- the block that names one object `u` as `s.<a>[ix…]`: parent, level, names, indices, a fresh
`NamedObject_fields`; `sd.full_name` and `sd.level` are read at that moment.  (The owner is always
named when this runs: `assign` has checked it and names are never removed.) -/
def mkDsl (sd : Dsl) (s : Nat) (a : String) (ix : List Nat) : Dsl :=
  ⟨sd.full ++ suffixOf a ix, some s, sd.level + 1, a, ix⟩

def nameOne (st : HSt) (s : Nat) (a : String) (ix : List Nat) (u : Nat) : HSt :=
  match st.dsl s with
  | none => st
  | some sd => { st with dsl := upd st.dsl u (some (mkDsl sd s a ix)), fields := upd st.fields u [] }

/-- the loop body over the visited objects; `extended`: the same list object is assigned again
(`s.x += [ … ]`), objects that already have a `full_name` are skipped -/
def nameWalk (s : Nat) (a : String) (extended : Bool) : HSt → List (Nat × List Nat) → HSt
  | st, [] => st
  | st, (u, ix) :: r =>
    if extended && (st.dsl u).isSome then nameWalk s a extended st r
    else nameWalk s a extended (nameOne st s a ix u) r

/-- `super().__setattr__( name, obj )` -/
def setAttr (st : HSt) (s : Nat) (a : String) (v : HVal) : HSt :=
  { st with attrs := upd st.attrs s ((a, v) :: st.attrs s) }

def addField (st : HSt) (s : Nat) (a : String) : HSt :=
  if (st.fields s).contains a then st else { st with fields := upd st.fields s (a :: st.fields s) }

/-- the visited objects of `s.<a> = v` for a value that takes the object or the list branch -/
def visited : HVal → List (Nat × List Nat)
  | .obj u => [(u, [])]
  | .lst _ xs => hbfs (henum [] 0 xs)
  | .other => []

/-- **`NamedObject.__setattr_for_elaborate__( s, a, v )`**: the three cases.
* private name: plain `setattr`;
* a `NamedObject`: a field that exists already is an error unless it holds this very object (then
  nothing happens); otherwise the object is named `s.a` and stored;
* a list with at least one `NamedObject` / list element: a field that exists already is an error
  unless it holds this very list — then (`extended`) only the elements without a name are named —;
  the list is walked breadth first and stored;
* anything else (also `[]`, `[None]`): plain `setattr`, no check at all. -/
def assign (st : HSt) (s : Nat) (a : String) (v : HVal) : Except HErr HSt :=
  if !isPublic a then .ok (setAttr st s a v) else
  if !v.takesHook then .ok (setAttr st s a v) else
  if (st.dsl s).isNone then .error .attributeError else
  if (st.fields s).contains a then
    match (st.attrs s).lookup a with
    | none => .error .attributeError
    | some w =>
      if w.same v then
        if v.isLst then .ok (setAttr (nameWalk s a true st (visited v)) s a v)
        else .ok st                       -- `return` before `super().__setattr__`
      else .error .fieldReassign
  else .ok (setAttr (nameWalk s a false (addField st s a) (visited v)) s a v)

/-! ## what construct code can do to a list behind the hook's back -/

mutual
/-- rewrite the contents of the list object `id` wherever it occurs in a value -/
def HVal.mut (id : Nat) (f : List HVal → List HVal) : HVal → HVal
  | .obj o => .obj o
  | .other => .other
  | .lst i xs => .lst i (if i = id then f (HVal.mutL id f xs) else HVal.mutL id f xs)
def HVal.mutL (id : Nat) (f : List HVal → List HVal) : List HVal → List HVal
  | [] => []
  | x :: r => x.mut id f :: HVal.mutL id f r
end

/-- a method of the list object `id` changes its contents (`append`, `extend`, `insert`,
`__setitem__`, `pop`, `__iadd__`): every reference to that list sees the change; the hook is not
involved, no metadata changes -/
def HSt.mutate (st : HSt) (id : Nat) (f : List HVal → List HVal) : HSt :=
  { st with attrs := fun o => (st.attrs o).map fun p => (p.1, p.2.mut id f) }

/-- `list.insert( k, v )` (an index beyond the end appends) -/
def pyInsert (k : Nat) (v : HVal) (l : List HVal) : List HVal := l.take k ++ v :: l.drop k

/-- **`s.a += extra`**: `tmp = s.a; tmp = tmp.__iadd__( extra ); s.a = tmp` -/
def iadd (st : HSt) (s : Nat) (a : String) (extra : List HVal) : Except HErr HSt :=
  match (st.attrs s).lookup a with
  | some (.lst id _) =>
    let st1 := st.mutate id (· ++ extra)
    match (st1.attrs s).lookup a with
    | some v => assign st1 s a v
    | none => .error .attributeError
  | _ => .error .attributeError

/-! ## evaluation of names and collection -/

/-- one step of `eval`: `getattr` on an object, indexing on a list -/
def hstep (st : HSt) : HVal → Tok → Option HVal
  | .obj o, .attr a => (st.attrs o).lookup a
  | .lst _ xs, .idx i => xs[i]?
  | _, _ => none

def hrun (st : HSt) (v : HVal) : List Tok → Option HVal
  | [] => some v
  | t :: ts => match hstep st v t with
    | some w => hrun st w ts
    | none => none

/-- `eval( name, {'s': top} )` -/
def hresolve (st : HSt) (root : Nat) : Name → Option HVal
  | .root :: tl => hrun st (.obj root) tl
  | _ => none

/-- `_collect_all_single`: what is part of the design — the top, the values of public `__dict__`
entries of collected objects, the elements of collected lists -/
inductive HReach (st : HSt) (root : Nat) : HVal → Prop where
  | root : HReach st root (.obj root)
  | attr {o a v} : HReach st root (.obj o) → isPublic a = true → (st.attrs o).lookup a = some v → HReach st root v
  | elem {id xs x} : HReach st root (.lst id xs) → x ∈ xs → HReach st root x

/-! ## executable collection (driver side): every access path with the value it leads to -/

mutual
def HVal.depth : HVal → Nat
  | .lst _ xs => HVal.depthL xs + 1
  | _ => 1
def HVal.depthL : List HVal → Nat
  | [] => 0
  | x :: r => max x.depth (HVal.depthL r)
end

/-- keys of a `__dict__` in first-binding order without repetitions (newest binding first in `attrs`) -/
def dictKeys (d : List (String × HVal)) : List String := (d.map (·.1)).reverse.eraseDups

/-- all `(path, value)` pairs below `v` following public attributes and list indices, bounded depth -/
def walkPaths (st : HSt) : Nat → List Tok → HVal → List (List Tok × HVal)
  | 0, _, _ => []
  | n + 1, p, v =>
    (p, v) :: match v with
      | .obj o => ((dictKeys (st.attrs o)).filter isPublic).flatMap fun a =>
          match (st.attrs o).lookup a with
          | some w => walkPaths st n (p ++ [.attr a]) w
          | none => []
      | .lst _ xs => (henum [] 0 xs).flatMap fun q => walkPaths st n (p ++ q.2.map .idx) q.1
      | .other => []

end PV.Hier
