/-
Model of the checksum unit of `/repo/examples/ex02_cksum`.

* `cksumSpec`  : the specification in the header of `ChecksumFL.py` (simplified Fletcher with
                 modulus 65536): two running sums modulo 2^16, result `(sum2 << 16) | sum1`.
* `cksumFL`    : `ChecksumFL.checksum` as written — `sum1`, `sum2` are `Bits16`; `+` on Bits16
                 wraps at 2^16, then `& 0xffff`; result `concat( sum2, sum1 )`.
* `cksumCL`    : `ChecksumCL` computes `checksum( b128_to_words( bits ) )`, i.e. the FL function
                 on the unpacked message.
* `cksumRTL`   : `ChecksumRTL` — eight chained `StepUnit`s on Bits32 values
                 (`temp1 = zext(word,32) + sum1_in; sum1_out = temp1 & 0xffff;
                   temp2 = sum1_out + sum2_in;      sum2_out = temp2 & 0xffff`),
                 result `( sum2 << 16 ) | sum1` on 32 bits; the words are the 16-bit slices
                 `msg[16i : 16(i+1)]` of the 128-bit message.
* `packWords` / `unpackWords` : `utils.words_to_b128` / `utils.b128_to_words` (word 0 in the low bits).

The definitions take a word list of any length; the hardware has 8.
Mathlib-free on purpose: this file is linked into the native driver `pv_rv`.
-/
namespace PV.Cksum

/-- specification: two running sums modulo 2^16 -/
def specStep (s : Nat × Nat) (w : Nat) : Nat × Nat :=
  let s1 := (s.1 + w) % 65536
  (s1, (s.2 + s1) % 65536)

def cksumSpec (ws : List Nat) : Nat :=
  let s := ws.foldl specStep (0, 0)
  s.2 * 65536 + s.1

/-- ChecksumFL: 16-bit Bits additions (wrap at 2^16) followed by `& 0xffff` -/
def flStep (s : Nat × Nat) (w : Nat) : Nat × Nat :=
  let s1 := ((s.1 + w) % 2^16) &&& 0xffff
  (s1, ((s.2 + s1) % 2^16) &&& 0xffff)

def cksumFL (ws : List Nat) : Nat :=
  let s := ws.foldl flStep (0, 0)
  s.2 * 2^16 + s.1            -- concat( sum2, sum1 )

/-- ChecksumRTL StepUnit: 32-bit additions, `& 0xffff` -/
def rtlStep (s : Nat × Nat) (w : Nat) : Nat × Nat :=
  let s1 := ((w + s.1) % 2^32) &&& 0xffff
  (s1, ((s1 + s.2) % 2^32) &&& 0xffff)

def cksumRTL (ws : List Nat) : Nat :=
  let s := ws.foldl rtlStep (0, 0)
  ((s.2 <<< 16) % 2^32) ||| s.1

/-- `words_to_b128`: `reduce( lambda x, y: concat( y, x ), words )` — word 0 ends up in bits 0..15 -/
def packWords : List Nat → Nat
  | [] => 0
  | w :: ws => w + 65536 * packWords ws

/-- `b128_to_words`: `[ bits[i*16:(i+1)*16] for i in range(n) ]` -/
def unpackWords : Nat → Nat → List Nat
  | 0, _ => []
  | n + 1, b => b % 65536 :: unpackWords n (b / 65536)

/-- ChecksumCL / ChecksumRTL as functions of the 128-bit message -/
def cksumCLmsg (b : Nat) : Nat := cksumFL (unpackWords 8 b)
def cksumRTLmsg (b : Nat) : Nat := cksumRTL (unpackWords 8 b)

end PV.Cksum
