/-!
# Model of the `@s.func` call expansion in `ComponentLevel2._collect_vars`

`pymtl3/dsl/ComponentLevel2.py`, `_collect_vars( s, m )`: for every update block `blk` of component `m` and every
`call` in `m._dsl.upblk_calls[blk]` the nested `dfs( u, stk )` merges the reads / writes of every function reachable
from the call into `s._dsl.all_upblk_reads[blk]` / `all_upblk_writes[blk]` (`|=` on the entry that
`all_upblk_reads.update( m._dsl.upblk_reads )` has just created); the dict `caller` is the current DFS path
(`caller = { call: ... }` before the first `dfs`, `caller[v] = ...` before / `del caller[v]` after the recursive call);
a callee that is on the path raises `InvalidFuncCallError`; when `blk in m._dsl.update_ff` every object written by a
visited function marks its top-level signal `needs_double_buffer`.  There is no `visited` memo: a function reached
along two paths is visited twice (harmless for sets).

* functions of one component are numbered `0 .. F-1` (`F = T.funcs.length`); `reads f`, `writes f` are object ids,
  `calls f` function ids; an id `≥ F` stands for a callee that is not a function of the component
  (`if u not in m._dsl.func_reads: return` — e.g. a method of a child), it has no reads / writes / calls;
* `top x` is `x.get_top_level_signal()` (identity where the table has no entry);
* Python sets are lists here: `|=` appends, the driver sorts and removes duplicates before printing;
* the recursion of `dfs` is bounded by fuel; `expand` uses `F + 1`, which is never exhausted
  (`PV.C02c.fuel_suffices`).

The input tables (`func_reads / func_writes / func_calls / upblk_reads / upblk_writes / upblk_calls`, produced by
`_elaborate_read_write_func` from the names `AstHelper.extract_reads_writes_calls` cached per class in
`_cache_func_meta`) are data here; the correspondence check reads them off the real components.
-/
namespace PV.CallGraph

/-- one `@s.func` function: `func_reads[f]`, `func_writes[f]`, `func_calls[f]` -/
structure Func where
  reads  : List Nat
  writes : List Nat
  calls  : List Nat
deriving Repr, DecidableEq, Inhabited

/-- the function table of one component and the object → top-level signal map -/
structure Table where
  funcs : List Func
  tops  : List Nat := []
deriving Repr

/-- one update block: `blk in update_ff`, `upblk_reads[blk]`, `upblk_writes[blk]`, `upblk_calls[blk]` -/
structure Blk where
  isff   : Bool
  reads  : List Nat
  writes : List Nat
  calls  : List Nat
deriving Repr, DecidableEq, Inhabited

inductive Err where
  | cycle   -- InvalidFuncCallError
  | fuel    -- never happens with fuel F + 1
deriving Repr, DecidableEq

namespace Table

def F (T : Table) : Nat := T.funcs.length

def reads (T : Table) (f : Nat) : List Nat := (T.funcs[f]?.map (·.reads)).getD []
def writes (T : Table) (f : Nat) : List Nat := (T.funcs[f]?.map (·.writes)).getD []
def calls (T : Table) (f : Nat) : List Nat := (T.funcs[f]?.map (·.calls)).getD []

/-- `x.get_top_level_signal()` -/
def top (T : Table) (x : Nat) : Nat := T.tops[x]?.getD x

end Table

/-- `for v in m._dsl.func_calls[u]:` — `anc` is `caller` (the path, current function included), `rec` the recursive
call.  The visited functions are concatenated in visiting order. -/
def callsLoop (rec : List Nat → Nat → Except Err (List Nat)) (anc : List Nat) : List Nat → Except Err (List Nat)
  | [] => .ok []
  | v :: vs =>
    if v ∈ anc then .error .cycle                       -- `if v in caller: raise InvalidFuncCallError`
    else match rec (v :: anc) v with                    -- `caller[v] = ...; dfs( v, stk ); del caller[v]`
      | .error e => .error e
      | .ok r => match callsLoop rec anc vs with
        | .error e => .error e
        | .ok rs => .ok (r ++ rs)

/-- `dfs( u, stk )`: the functions whose reads / writes are merged into the block, in visiting order -/
def dfs (T : Table) : Nat → List Nat → Nat → Except Err (List Nat)
  | 0, _, _ => .error .fuel
  | fuel + 1, anc, u =>
    if u < T.F then                                     -- `if u not in m._dsl.func_reads: return`
      match callsLoop (dfs T fuel) anc (T.calls u) with
      | .error e => .error e
      | .ok r => .ok (u :: r)
    else .ok []

/-- `for call in calls: caller = { call: ( blk, 0 ) }; dfs( call, stk )` — all visits of one block -/
def visit (T : Table) (roots : List Nat) : Except Err (List Nat) :=
  callsLoop (dfs T (T.F + 1)) [] roots

/-- what one block ends with -/
structure Expanded where
  reads  : List Nat
  writes : List Nat
  marks  : List Nat        -- top-level signals marked `needs_double_buffer` through functions
deriving Repr, DecidableEq

def expandWith (T : Table) (b : Blk) (vis : List Nat) : Expanded :=
  { reads  := b.reads ++ vis.flatMap T.reads
    writes := b.writes ++ vis.flatMap T.writes
    marks  := if b.isff then (vis.flatMap T.writes).map T.top else [] }

/-- the expansion of one block as a function of the block and the function table only -/
def expand (T : Table) (b : Blk) : Except Err Expanded :=
  match visit T b.calls with
  | .error e => .error e
  | .ok vis => .ok (expandWith T b vis)

/-! ### the loop over `m._dsl.upblk_calls.items()` accumulating into the dicts of `top` -/

/-- an insertion-ordered dict -/
abbrev Dict := List (Nat × List Nat)

def Dict.get (d : Dict) (k : Nat) : List Nat :=
  match d with
  | [] => []
  | (k', v) :: rest => if k' = k then v else Dict.get rest k

/-- `d[k] = v` -/
def Dict.set (d : Dict) (k : Nat) (v : List Nat) : Dict :=
  match d with
  | [] => [(k, v)]
  | (k', v') :: rest => if k' = k then (k, v) :: rest else (k', v') :: Dict.set rest k v

/-- `d[k] |= v` -/
def Dict.orInto (d : Dict) (k : Nat) (v : List Nat) : Dict :=
  match d with
  | [] => [(k, v)]
  | (k', v') :: rest => if k' = k then (k, v' ++ v) :: rest else (k', v') :: Dict.orInto rest k v

structure State where
  reads  : Dict := []        -- all_upblk_reads
  writes : Dict := []        -- all_upblk_writes
  marks  : List Nat := []    -- signals whose needs_double_buffer was set by `dfs`
deriving Repr

/-- the three statements at the head of `dfs` for one visited function -/
def State.merge (T : Table) (k : Nat) (isff : Bool) (st : State) (f : Nat) : State :=
  { reads  := st.reads.orInto k (T.reads f)
    writes := st.writes.orInto k (T.writes f)
    marks  := if isff then st.marks ++ (T.writes f).map T.top else st.marks }

/-- `s._dsl.all_upblk_reads.update( m._dsl.upblk_reads )` / `...writes.update(...)`: the block's own sets are entered -/
def State.enter (st : State) (kb : Nat × Blk) : State :=
  { st with reads := st.reads.set kb.1 kb.2.reads, writes := st.writes.set kb.1 kb.2.writes }

/-- the body of `for blk, calls in m._dsl.upblk_calls.items()` for one block (key `kb.1`): every visited function is
merged into the block's entry -/
def State.block (T : Table) (st : State) (kb : Nat × Blk) : Except Err State :=
  match visit T kb.2.calls with
  | .error e => .error e
  | .ok vis => .ok (vis.foldl (State.merge T kb.1 kb.2.isff) st)

/-- `for blk, calls in m._dsl.upblk_calls.items(): ...` -/
def loop (T : Table) : State → List (Nat × Blk) → Except Err State
  | st, [] => .ok st
  | st, kb :: rest =>
    match State.block T st kb with
    | .error e => .error e
    | .ok st' => loop T st' rest

/-- one component: both `update`s first, then the loop over the blocks in dict order -/
def collect (T : Table) (st : State) (blocks : List (Nat × Blk)) : Except Err State :=
  loop T (blocks.foldl State.enter st) blocks

/-- `_elaborate_collect_all_vars`: `s._collect_vars( c )` for every component `c` of the design, each with its own
function table ("every func is local to the component"), all accumulating into the dicts of `top` -/
def collectAll : State → List (Table × List (Nat × Blk)) → Except Err State
  | st, [] => .ok st
  | st, (T, blocks) :: rest =>
    match collect T st blocks with
    | .error e => .error e
    | .ok st' => collectAll st' rest

end PV.CallGraph
