import PymtlVerif.Driver.Loop
import PymtlVerif.Driver.Pipe

def main : IO Unit := PV.runDriver "pipe" PV.Driver.Pipe.handle
