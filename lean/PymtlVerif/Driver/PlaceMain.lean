import PymtlVerif.Driver.Loop
import PymtlVerif.Driver.Place

def main : IO Unit := PV.runDriver "place" PV.Driver.Place.handle
