import PymtlVerif.Driver.Loop
import PymtlVerif.Driver.Tc

def main : IO Unit := PV.runDriver "tc" PV.Driver.Tc.handle
