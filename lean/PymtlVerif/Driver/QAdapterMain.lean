import PymtlVerif.Driver.Loop
import PymtlVerif.Driver.QAdapter

def main : IO Unit := PV.runDriver "qadapter" PV.Driver.QAdapter.handle
