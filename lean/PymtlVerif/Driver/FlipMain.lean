import PymtlVerif.Driver.Loop
import PymtlVerif.Driver.Flip

def main : IO Unit := PV.runDriver "flip" PV.Driver.Flip.handle
