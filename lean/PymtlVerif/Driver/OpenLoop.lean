import PymtlVerif.Driver.Sexp
import PymtlVerif.Model.OpenLoop
/-!
Handler `openloop`: executable face of `Model/OpenLoop.lean` (OpenLoopCLPass.schedule_with_top_level_callee and the
method wrappers it installs).

Request (every object is a natural number; blocks, CalleePort vertices and ACTUAL method objects share one id space):

`openloop run (blocks b…) (ports (v raw)…) (ifcs (meth rdy rawM rawR)…) (cons (a b)…) (tlc (a b)…) (order v…)
              (ff <printTrace> (ffblocks b…) <vcd> <textwave> (flips k…) <clearCl>) (intra (v…)…) (ops <v|reset>…)`

* `order` = `vertices` after `random.shuffle`; `cons` / `tlc` in the iteration order of the two sets;
* `intra`: the `tmp_schedule` lists of the non-trivial SCCs as observed (a group that is not listed keeps its creation
  order); the int sets `G_new[i]` are iterated in ascending order (CPython: small ints that do not collide in the
  table, which the harness checks before it compares exactly);
* `ops`: top-level calls, each the vertex of a CalleePort that is an entry of the schedule, or `reset` (`sim_reset`).

Reply: `err mapAssert` | `err schedAssert (sccs (v…)…) (gnew (j…)…) (sccsched i…) (portinscc b)` |
`ok (sccs (v…)…) (gnew (j…)…) (sccsched i…) (portinscc b) (badops b) (pred (i p|none)…) (sched <slot>…) (wraps (v orig new)…) (cycles c…)
    (done (e…)…) (cur e…) (state i j cycles)` where a slot is `(port v)` `(blk v)` `(scc id v…)` `(ff name)`, an event
is `r<k>` (`schedule_no_method[k]()`) or `m<p>` (method of the port at `schedule[p]`), and `cycles` lists
`simulated_cycles` after each op; `portinscc` = a CalleePort lies in a non-trivial SCC (the pass then crashes or leaves that
port unwrapped: outside the model).

`(badops 1)`: an op names a vertex that is not a wrapped port of the model's schedule (then no trace is reported).
`bad-op`: malformed request, `order` not a duplicate-free list of exactly the vertices.
-/
namespace PV.Driver.OpenLoop
open PV PV.Scc PV.OpenLoop

def tagged (tag : String) : Sexp → Option (List Sexp)
  | .list (.atom t :: xs) => if t == tag then some xs else none
  | _ => none

def pair? : Sexp → Option (Nat × Nat)
  | .list [a, b] => do some (← a.nat?, ← b.nat?)
  | _ => none

def ifc? : Sexp → Option Ifc
  | .list [a, b, c, d] => do some ⟨← a.nat?, ← b.nat?, ← c.nat?, ← d.nat?⟩
  | _ => none

def ff? : Sexp → Option FfCfg
  | .list [.atom "ff", p, fb, v, t, fl, c] => do
    some ⟨← p.bool?, ← (← tagged "ffblocks" fb).mapM Sexp.nat?, ← v.bool?, ← t.bool?, ← (← tagged "flips" fl).mapM Sexp.nat?, ← c.bool?⟩
  | _ => none

def sameMembers (a b : List Nat) : Bool := a.all (fun x => decide (x ∈ b)) && b.all (fun x => decide (x ∈ a))

/-- CPython iterates a set by table slot; a small int `x` sits in slot `x % 8` while the set has fewer than 5 members (8 slots) and in
slot `x % 32` = `x` afterwards (32 slots, group indices below 32), provided no two members collide -/
def slotLe (m : Nat) (a b : Nat) : Bool := a % m ≤ b % m

def envOf (intras : List (List Nat)) : Env :=
  ⟨fun r => r.mergeSort (slotLe (if r.length < 5 then 8 else 32)), fun g => (intras.find? (sameMembers g)).getD g⟩

def nats (xs : List Nat) : String := " ".intercalate (xs.map toString)
def lists (xs : List (List Nat)) : String := " ".intercalate (xs.map natsToString)

def ffName : FfFn → String
  | .constFalse => "const"
  | .printLineTrace => "print"
  | .ffBlk b => s!"ffblk{b}"
  | .vcd => "vcd"
  | .textwave => "textwave"
  | .flip k => s!"flip{k}"
  | .clearCl => "clearcl"

def slotStr : Slot → String
  | .port v => s!"(port {v})"
  | .blk v => s!"(blk {v})"
  | .scc id ms => s!"(scc {id} {nats ms})"
  | .ff f => s!"(ff {ffName f})"

def evStr : Ev → String
  | .run k => s!"r{k}"
  | .meth p => s!"m{p}"

def evs (l : List Ev) : String := " ".intercalate (l.map evStr)

def predStr (n : Nat) (pred : List (Nat × Option Nat)) : String :=
  " ".intercalate ((List.range n).map (fun i =>
    match pred.lookup i with
    | some (some p) => s!"({i} {p})"
    | some none => s!"({i} none)"
    | none => s!"({i} unset)"))

inductive Op where
  | call (v : Nat)
  | reset

def op? : Sexp → Option Op
  | .atom "reset" => some .reset
  | x => x.nat?.map Op.call

/-- runs the ops; returns the final state and `simulated_cycles` after each op -/
def runOps (S : List Slot) : St → List Op → List Nat → Option (St × List Nat)
  | s, [], acc => some (s, acc.reverse)
  | s, .reset :: r, acc => let s' := resetAt S s; runOps S s' r (s'.cycles :: acc)
  | s, .call v :: r, acc => do
    let p := S.idxOf (Slot.port v)
    let s' ← callAt S s p
    runOps S s' r (s'.cycles :: acc)

def handle (args : List Sexp) : Option String :=
  match args with
  | [.atom "run", b, p, i, c, t, o, f, it, ops] => do
    let blocks ← (← tagged "blocks" b).mapM Sexp.nat?
    let ports ← (← tagged "ports" p).mapM pair?
    let ifcs ← (← tagged "ifcs" i).mapM ifc?
    let cons ← (← tagged "cons" c).mapM pair?
    let tlc ← (← tagged "tlc" t).mapM pair?
    let order ← (← tagged "order" o).mapM Sexp.nat?
    let ff ← ff? f
    let intras ← (← tagged "intra" it).mapM Sexp.nats?
    let ops ← (← tagged "ops" ops).mapM op?
    let inp : Input := ⟨blocks, ports, ifcs, cons, tlc, order, ff⟩
    if !(decide order.Nodup && sameMembers order (verts inp) && decide (verts inp).Nodup) then none
    let env := envOf intras
    match calleeMap inp with
    | none => pure "err mapAssert"
    | some cm =>
      let ge := gEdges inp cm
      let k := kosaraju (adjOf ge) (adjTOf ge) inp.order
      let rows := gnewE k.vmap (eEdges inp cm)
      let n := k.sccs.length
      let gn := (List.range n).map (gnOf env rows)
      let t := topo pickFirst (gnOf env rows) n
      let pis := k.sccs.any (fun g => decide (1 < g.length) && g.any (fun v => decide (v ∈ portVerts inp)))
      let head := s!"(sccs {lists k.sccs}) (gnew {lists gn}) (sccsched {nats t.out}) (portinscc {b2s pis})"
      match static inp env with
      | .error .mapAssert => pure "err mapAssert"
      | .error .schedAssert => pure s!"err schedAssert {head}"
      | .ok st =>
        let S := st.schedule
        let wraps := (List.range S.length).filterMap (fun q =>
          match (S[q]? : Option Slot), wrapAt S q with
          | some (Slot.port v), some w => some s!"({v} {w.orig} {w.new})"
          | _, _ => none)
        let (s, cyc, bad) := match runOps S St.init ops [] with
          | some (s, cyc) => (s, cyc, false)
          | none => (St.init, [], true)
        pure s!"ok {head} (badops {b2s bad}) (pred {predStr n t.pred}) (sched {" ".intercalate (S.map slotStr)}) (wraps {" ".intercalate wraps}) (cycles {nats cyc}) (done {" ".intercalate (s.done.map (fun c => "(" ++ evs c ++ ")"))}) (cur {evs s.cur}) (state {s.i} {s.j} {s.cycles})"
  | _ => none

end PV.Driver.OpenLoop
