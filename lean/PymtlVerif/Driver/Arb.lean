import PymtlVerif.Driver.Sexp
import PymtlVerif.Model.Arb
/-!
Handler `arb`: executable face of `Model/Arb.lean` for the C19 correspondence check.

* `arb run <hasEn> <n> <s0> ((<reset> <en> <reqs>) ...)` — a whole input history starting with register value
  `s0`; reply: one `(prio grants priority_en next)` group per cycle (`PV.Arb.trace`).
* `arb comb <n> <reqs> <prio>` — the combinational network alone; reply: `grants reg_in kills grants_int`
  where `kills` (2n+1 bits) and `grants_int` (2n bits) are the internal wires packed into integers.
-/
namespace PV.Driver.Arb
open PV PV.Arb

def in? : Sexp → Option In
  | .list [r, e, q] => do some ⟨← r.bool?, ← e.bool?, ← q.nat?⟩
  | _ => none

def showCycle (c : Cycle) : String :=
  s!"({c.prio} {c.grants} {b2s c.prioEn} {c.next})"

def handle (args : List Sexp) : Option String :=
  match args with
  | [.atom "run", hasEn, n, s0, .list hist] => do
      let hasEn ← hasEn.bool?
      let n ← n.nat?
      let s0 ← s0.nat?
      let h ← hist.mapM in?
      some (" ".intercalate ((trace hasEn n s0 h).map showCycle))
  | [.atom "comb", n, reqs, prio] => do
      let n ← n.nat?
      let reqs ← reqs.nat?
      let prio ← prio.nat?
      let g := grants n reqs prio
      let k := pack (2 * n + 1) (kills (prioInt n prio) (reqsInt n reqs))
      let gi := pack (2 * n) (grantsInt (prioInt n prio) (reqsInt n reqs))
      some s!"{g} {regIn n g} {k} {gi}"
  | _ => none

end PV.Driver.Arb
