import PymtlVerif.Driver.Sexp
/-! Handler `arb` (stub: not built yet). -/
namespace PV.Driver.Arb
open PV

def handle (_args : List Sexp) : Option String := none

end PV.Driver.Arb
