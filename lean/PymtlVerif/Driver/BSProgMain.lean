import PymtlVerif.Driver.Loop
import PymtlVerif.Driver.BSProg

def main : IO Unit := PV.runDriver "bsprog" PV.Driver.BSProg.handle
