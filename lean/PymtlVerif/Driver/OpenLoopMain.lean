import PymtlVerif.Driver.Loop
import PymtlVerif.Driver.OpenLoop

def main : IO Unit := PV.runDriver "openloop" PV.Driver.OpenLoop.handle
