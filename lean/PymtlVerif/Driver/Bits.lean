import PymtlVerif.Driver.Sexp
import PymtlVerif.Model.Bits
/-! Handler `bits`: executable face of `Model/Bits.lean` for the C04/C05 correspondence checks. -/
namespace PV.Driver.Bits
open PV PV.Bits

def showR : R → String
  | .ok b => s!"ok {b.n} {b.v}"
  | .error e => s!"err {e.pyClass}"

def b? : Sexp → Option B
  | .list [.atom "b", n, v] => do some ⟨← n.nat?, ← v.nat?⟩
  | _ => none

def opnd? : Sexp → Option Opnd
  | .list [.atom "b", n, v] => do some (.bits ⟨← n.nat?, ← v.nat?⟩)
  | .list [.atom "i", k] => do some (.int (← k.int?))
  | .list [.atom "o"] => some .other
  | _ => none

def bound? : Sexp → Option Bound
  | .atom "none" => some none
  | x => do some (some (← x.int?))

def binop? : String → Option BinOp
  | "add" => some .add | "sub" => some .sub | "mul" => some .mul | "and" => some .and
  | "or" => some .or | "xor" => some .xor | "floordiv" => some .floordiv | "mod" => some .mod
  | "lshift" => some .lshift | "rshift" => some .rshift | _ => none

def cmpop? : String → Option CmpOp
  | "eq" => some .eq | "ne" => some .ne | "lt" => some .lt | "le" => some .le
  | "gt" => some .gt | "ge" => some .ge | _ => none

def handle (args : List Sexp) : Option String :=
  match args with
  | [.atom "ctor", n, v, t] => do some (showR (ctor (← n.int?) (← opnd? v) (← t.bool?)))
  | [.atom "bin", .atom op, x, y] => do some (showR (binop (← binop? op) (← b? x) (← opnd? y)))
  | [.atom "rbin", .atom op, k, x] => do some (showR (rbinop (← binop? op) (← opnd? k) (← b? x)))
  | [.atom "cmp", .atom op, x, y] => do some (showR (cmpop (← cmpop? op) (← b? x) (← opnd? y)))
  | [.atom "rcmp", .atom op, k, x] => do some (showR (rcmpop (← cmpop? op) (← opnd? k) (← b? x)))
  | [.atom "inv", x] => do some (showR (.ok (invert (← b? x))))
  | [.atom "imatmul", x, v] => do some (showR (imatmul (← b? x) (← opnd? v)))
  | [.atom "ilshift", x, v] => do
      -- reports (value before flip, value after flip)
      let x ← b? x
      match ilshift ⟨x, none⟩ (← opnd? v) with
      | .error e => some s!"err {e.pyClass}"
      | .ok r => match flip r with
        | some r' => some s!"ok {r.cur.n} {r.cur.v} {r'.cur.v}"
        | none => some "err AttributeError"
  | [.atom "flipfresh", x] => do
      let x ← b? x
      match flip ⟨x, none⟩ with
      | some r => some s!"ok {r.cur.n} {r.cur.v}"
      | none => some "err AttributeError"
  | [.atom "int", x] => do some s!"int {toInt (← b? x)}"
  | [.atom "uint", x] => do some s!"int {toUInt (← b? x)}"
  | [.atom "bool", x] => do some s!"int {if toBool (← b? x) then 1 else 0}"
  | [.atom "getslice", x, lo, hi, st] => do
      some (showR (getSlice (← b? x) (← bound? lo) (← bound? hi) (← bound? st)))
  | [.atom "getbit", x, i] => do some (showR (getBit (← b? x) (← i.int?)))
  | [.atom "setslice", x, lo, hi, st, v] => do
      some (showR (setSlice (← b? x) (← bound? lo) (← bound? hi) (← bound? st) (← opnd? v)))
  | [.atom "setbit", x, i, v] => do some (showR (setBit (← b? x) (← i.int?) (← opnd? v)))
  | [.atom "concat", .list xs] => do some (showR (concat (← xs.mapM b?)))
  | [.atom "trunc", x, w] => do some (showR (trunc (← b? x) (← w.int?)))
  | [.atom "zext", x, w] => do some (showR (zext (← b? x) (← w.int?)))
  | [.atom "sext", x, w] => do some (showR (sext (← b? x) (← w.int?)))
  | [.atom "truncT", x, w] => do some (showR (truncT (← b? x) (← w.nat?)))
  | [.atom "zextT", x, w] => do some (showR (zextT (← b? x) (← w.nat?)))
  | [.atom "sextT", x, w] => do some (showR (sextT (← b? x) (← w.nat?)))
  | [.atom "reduce_and", x] => do some (showR (.ok (reduceAnd (← b? x))))
  | [.atom "reduce_or", x] => do some (showR (.ok (reduceOr (← b? x))))
  | [.atom "reduce_xor", x] => do some (showR (.ok (reduceXor (← b? x))))
  | [.atom "clog2", n] => do
      match clog2 (← n.int?) with
      | some k => some s!"int {k}"
      | none => some "err AssertionError"
  | [.atom "vcd", x] => do some s!"str {(toVcdStr (← b? x)).replace " " "_"}"
  | _ => none

end PV.Driver.Bits
