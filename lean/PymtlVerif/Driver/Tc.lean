import PymtlVerif.Driver.Sexp
/-! Handler `tc` (stub: not built yet). -/
namespace PV.Driver.Tc
open PV

def handle (_args : List Sexp) : Option String := none

end PV.Driver.Tc
