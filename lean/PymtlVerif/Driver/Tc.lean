import PymtlVerif.Driver.Sexp
import PymtlVerif.Model.TC
import PymtlVerif.Model.PyEval
import PymtlVerif.Model.TCSpec
/-! Handler `tc`: executable face of `Model/TC.lean`, `Model/PyEval.lean`, `Model/TCSpec.lean` (C10). -/
namespace PV.Driver.Tc
open PV PV.TC PV.Bits

def uop? : String → Option UOp
  | "inv" => some .inv | "neg" => some .neg | _ => none

def op? : String → Option Op
  | "add" => some .add | "sub" => some .sub | "mul" => some .mul | "band" => some .band
  | "bor" => some .bor | "bxor" => some .bxor | "mod" => some .mod | "shl" => some .shl
  | "shr" => some .shr | _ => none

def cmpop? : String → Option CmpOp
  | "eq" => some .eq | "ne" => some .ne | "lt" => some .lt | "le" => some .le
  | "gt" => some .gt | "ge" => some .ge | _ => none

def rop? : String → Option ROp
  | "and" => some .rand | "or" => some .ror | "xor" => some .rxor | _ => none

def extk? : String → Option ExtK
  | "zext" => some .zext | "sext" => some .sext | "trunc" => some .trunc | _ => none

partial def expr? : Sexp → Option Expr
  | .list [.atom "sig", x, w] => do some (.sig (← x.nat?) (← w.nat?))
  | .list [.atom "num", v] => do some (.num (← v.nat?))
  | .list [.atom "lv", i] => do some (.lv (← i.nat?))
  | .list [.atom "tmp", t] => do some (.tmp (← t.nat?))
  | .list [.atom "un", .atom op, e] => do some (.un (← uop? op) (← expr? e))
  | .list [.atom "bin", .atom op, l, r] => do some (.bin (← op? op) (← expr? l) (← expr? r))
  | .list [.atom "cmp", .atom op, l, r] => do some (.cmp (← cmpop? op) (← expr? l) (← expr? r))
  | .list [.atom "ite", c, t, f] => do some (.ite (← expr? c) (← expr? t) (← expr? f))
  | .list [.atom "cast", n, e] => do some (.cast (← n.nat?) (← expr? e))
  | .list [.atom "ext", .atom k, ty, e, n] => do some (.ext (← extk? k) (← ty.bool?) (← expr? e) (← n.nat?))
  | .list [.atom "red", .atom op, e] => do some (.red (← rop? op) (← expr? e))
  | .list [.atom "cat", l, r] => do some (.cat (← expr? l) (← expr? r))
  | .list [.atom "idx", x, w, i] => do some (.idx (← x.nat?) (← w.nat?) (← expr? i))
  | .list [.atom "slc", x, w, lo, hi] => do some (.slc (← x.nat?) (← w.nat?) (← expr? lo) (← expr? hi))
  | _ => none

partial def stmt? : Sexp → Option Stmt
  | .list [.atom "skip"] => some .skip
  | .list [.atom "seq", a, b] => do some (.seq (← stmt? a) (← stmt? b))
  | .list [.atom "asg", t, e] => do some (.asg (← expr? t) (← expr? e))
  | .list [.atom "tasg", t, e] => do some (.tasg (← t.nat?) (← expr? e))
  | .list [.atom "ifs", c, b, o] => do some (.ifs (← expr? c) (← stmt? b) (← stmt? o))
  | .list [.atom "for", i, a, b, c, body] => do
      some (.for_ (← i.nat?) (← a.int?) (← b.int?) (← c.int?) (← stmt? body))
  | _ => none

def val? : Sexp → Option Val
  | .list [.atom "b", n, v] => do some (.bits ⟨← n.nat?, ← v.nat?⟩)
  | .list [.atom "i", k] => do some (.int (← k.int?))
  | _ => none

def pair? {α β : Type} (f : Sexp → Option α) (g : Sexp → Option β) : Sexp → Option (α × β)
  | .list [a, b] => do some (← f a, ← g b)
  | _ => none

def rho? : Sexp → Option Rho
  | .list [.list sigs, .list lvs, .list tmps] => do
      some ⟨← sigs.mapM (pair? Sexp.nat? Sexp.nat?), ← lvs.mapM (pair? Sexp.nat? Sexp.int?),
            ← tmps.mapM (pair? Sexp.nat? val?)⟩
  | _ => none

def showAnn (a : Ann) : String :=
  s!"{a.w} {b2s a.ex} " ++ (match a.val with | some v => toString v | none => "n")

def showAT : AT → String
  | .leaf a => s!"(L {showAnn a})"
  | .idx a k => s!"(I {showAnn a} {showAT k})"
  | .n1 a k => s!"(U {showAnn a} {showAT k})"
  | .n2 a k1 k2 => s!"(B {showAnn a} {showAT k1} {showAT k2})"
  | .ite a c t f => s!"(T {showAnn a} {showAT c} {showAT t} {showAT f})"

def showAS : AS → String
  | .skip => "(skip)"
  | .seq a b => s!"(seq {showAS a} {showAS b})"
  | .asg tt te => s!"(asg {showAT tt} {showAT te})"
  | .tasg a te => s!"(tasg ({showAnn a}) {showAT te})"
  | .ifs tc b o => s!"(ifs {showAT tc} {showAS b} {showAS o})"
  | .for_ w b => s!"(for {w} {showAS b})"

def showTErr : TErr → String
  | .type => "type" | .syntax => "syntax" | .crash => "crash"

def showVal : Val → String
  | .bits b => s!"(b {b.n} {b.v})"
  | .int k => s!"(i {k})"

def showPR : PR → String
  | .ok v => showVal v
  | .error e => s!"(err {e.pyClass})"

def dedupSigs (xs : List (Nat × Nat)) : List (Nat × Nat) :=
  let keys := (xs.map (·.1)).eraseDups
  let ks := keys.toArray.qsort (· < ·) |>.toList
  ks.filterMap (fun k => (xs.lookup k).map (fun v => (k, v)))

def handle (args : List Sexp) : Option String :=
  match args with
  | [.atom "check", s] => do
      let s ← stmt? s
      match checkBlock s with
      | .error e => some s!"reject {showTErr e}"
      | .ok (_, a) =>
        let iss := (issuesS Env.empty s).eraseDups.map Issue.name
        some s!"ok {showAS a} ({" ".intercalate iss})"
  | [.atom "evalx", r, e] => do
      let ρ ← rho? r
      let e ← expr? e
      some ("(" ++ " ".intercalate ((subs e).map (fun x => showPR (evalPy ρ x))) ++ ")")
  | [.atom "exec", r, s] => do
      let ρ ← rho? r
      let s ← stmt? s
      match execS s ρ with
      | .error e => some s!"(err {e.pyClass})"
      | .ok ρ' =>
        some ("(ok " ++ " ".intercalate ((dedupSigs ρ'.sigs).map (fun p => s!"({p.1} {p.2})")) ++ ")")
  | [.atom "nbits", v] => do some s!"int {nbitsInt (← v.int?)}"
  | [.atom "idxw", w] => do some s!"int {idxW (← w.nat?)}"
  | [.atom "range", a, b, c] => do
      let a ← a.int?; let b ← b.int?; let c ← c.int?
      some s!"({" ".intercalate ((pyRange a b c).map toString)}) {loopWidth a b c}"
  | [.atom "iop", .atom op, l, r] => do
      match intBin (← op? op) (← l.int?) (← r.int?) with
      | .ok v => some s!"int {v}"
      | .error .zerodiv => some "err ZeroDivisionError"
      | .error .negshift => some "err ValueError:negshift"
  | _ => none

end PV.Driver.Tc
