import PymtlVerif.Driver.Sexp
/-! Handler `meta` (stub: not built yet). -/
namespace PV.Driver.Meta
open PV

def handle (_args : List Sexp) : Option String := none

end PV.Driver.Meta
