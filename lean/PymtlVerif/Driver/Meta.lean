import PymtlVerif.Driver.Sexp
import PymtlVerif.Model.Meta
/-!
Handler `meta`: executable face of `Model/Meta.lean` for the C15 correspondence check.

Requests
* `meta elab <hier>` — reply `ok <dump>`: the elaborated whole-design metadata.
* `meta replace <hier> ((<path> <hier>)*)` — `replaceAll (elaborate H) rs`: reply `ok <dump>`, or
  `err unresolved` when a saved name is not declared by the new subtree.
* `meta build <hier> ((<path> <hier>)*)` — `elaborate (setAll H rs)`: reply `ok <dump>`.
* `meta delete <hier> <path>` — reply `ok <dump of what is left> <dump of the saved entries>`.

`<hier>` = `(<node>*)`, `<node>` = `(<path> <comp>)`, `<path>` = `(tok*)` (component names from the top,
a list element `d[1]` is one token);
`<comp>` = `ph ((name kind)*) ((mport kind)*) (<blk>*) ((<ref> <ref>)*) (<vc>*) (<vc>*) ((<mref> <mref> eq)*)
            ((<ref> <ref>)*) ((<ref> val)*)` = placeholder flag, sigs, mports, blks, uu, rdu, wru, mcs, conns, consts;
`<blk>` = `(name kind (<ref>*) (<ref>*) (<ref>*))` kind 0 update / 1 update_ff / 2 update_once, reads writes calls;
`<ref>` = `(<path> name)` relative to the component; `<vc>` = `(<ref> lt <ref>)` (variable, `<`?, block); `<mref>` = `(u <ref>)` | `(m <ref>)`.

`<dump>` = `(<entry>*)`, rendered entries sorted, duplicates removed (the containers are sets; the
owner tag of a constraint is not part of the observable), followed by the derived value nets and
method nets: `(net <writer> (<member>*))`, `(mnet <writer> (<member>*))` — connected components (size ≥ 2)
of the adjacency over value signals (+ constants) resp. method ports; writer of a value net = its
constant, a member written by an update block, a top-level input port or an output port of a placeholder (`_resolve_value_connections`
for plain signals); writer of a method net = its callee port. `none` / `multi` if absent / ambiguous.
Nets are computed here from the sorted dump (derived observable, not part of the theorems); so is
`(dbuf <sig>)`: the signal is written by an `update_ff` block (`_dsl.needs_double_buffer`), and
`(lvl <name> <level> <parent> <host>)` for every component, signal and method port (`get_component_level()` /
`_dsl.level`, `get_parent_object()`, `get_host_component()`).
-/
namespace PV.Driver.Meta
open PV PV.Meta

def path? (x : Sexp) : Option Name := do (← x.list?).mapM Sexp.sym?

def ref? : Sexp → Option Ref
  | .list [p, .atom n] => do some (← path? p, n)
  | _ => none

def refs? (x : Sexp) : Option (List Ref) := do (← x.list?).mapM ref?

def blk? : Sexp → Option Blk
  | .list [.atom n, k, r, w, c] => do
      some { name := n, kind := ← k.nat?, reads := ← refs? r, writes := ← refs? w, calls := ← refs? c }
  | _ => none

def pair? : Sexp → Option (String × String)
  | .list [.atom a, .atom b] => some (a, b)
  | _ => none

def vc? : Sexp → Option (Ref × Bool × Ref)
  | .list [r, lt, b] => do some (← ref? r, ← lt.bool?, ← ref? b)
  | _ => none

def mref? : Sexp → Option LMRef
  | .list [.atom "u", b] => do some (.blk (← ref? b))
  | .list [.atom "m", r] => do some (.meth (← ref? r))
  | _ => none

def mc? : Sexp → Option (LMRef × LMRef × Bool)
  | .list [x, y, eq] => do some (← mref? x, ← mref? y, ← eq.bool?)
  | _ => none

def conn? : Sexp → Option (Ref × Ref)
  | .list [a, b] => do some (← ref? a, ← ref? b)
  | _ => none

def const? : Sexp → Option (Ref × String)
  | .list [a, .atom v] => do some (← ref? a, v)
  | _ => none

def comp? : Sexp → Option Comp
  | .list [ph, sg, mp, bl, uu, rd, wr, mc, cn, cs] => do
      some { ph := ← ph.bool?, sigs := ← (← sg.list?).mapM pair?, mports := ← (← mp.list?).mapM pair?,
             blks := ← (← bl.list?).mapM blk?, uu := ← (← uu.list?).mapM conn?,
             rdu := ← (← rd.list?).mapM vc?, wru := ← (← wr.list?).mapM vc?,
             mcs := ← (← mc.list?).mapM mc?, conns := ← (← cn.list?).mapM conn?,
             consts := ← (← cs.list?).mapM const? }
  | _ => none

def hier? (x : Sexp) : Option Hier := do
  (← x.list?).mapM fun n => match n with
    | .list [p, c] => do some (← path? p, ← comp? c)
    | _ => none

def reps? (x : Sexp) : Option (List (Name × Hier)) := do
  (← x.list?).mapM fun n => match n with
    | .list [p, h] => do some (← path? p, ← hier? h)
    | _ => none

/-! rendering -/

def showName (n : Name) : String := n.foldl (fun acc t => acc ++ "." ++ t) "s"
def showSig (s : Sig) : String := showName s.1 ++ "." ++ s.2
def showBlk (b : BlkId) : String := showName b.1 ++ " " ++ b.2
def showNode : Node → String
  | .sig s => showSig s
  | .const o s v => s!"(const {showName o} {showSig s} {v})"
def showMRef : MRef → String
  | .blk b => s!"(u {showBlk b})"
  | .meth s => s!"(m {showSig s})"

def showEntry : Entry → String
  | .comp n ph => s!"(comp {showName n} {b2s ph})"
  | .sig s k => s!"(sig {showSig s} {k})"
  | .mport s k => s!"(mport {showSig s} {k})"
  | .blk b => s!"(blk {showBlk b})"
  | .ff b => s!"(ff {showBlk b})"
  | .once b => s!"(once {showBlk b})"
  | .read b s => s!"(read {showBlk b} {showSig s})"
  | .write b s => s!"(write {showBlk b} {showSig s})"
  | .call b s => s!"(call {showBlk b} {showSig s})"
  | .uu _ a b => s!"(uu {showBlk a} {showBlk b})"
  | .rdu _ v lt b => s!"(rdu {showSig v} {b2s lt} {showBlk b})"
  | .wru _ v lt b => s!"(wru {showSig v} {b2s lt} {showBlk b})"
  | .mc _ x y eq => s!"(mc {showMRef x} {showMRef y} {b2s eq})"
  | .edge a b => s!"(edge {showNode a} {showNode b})"

def sortDedup (xs : List String) : List String :=
  ((xs.toArray.qsort (· < ·)).toList).eraseDups

/-! derived nets -/

/-- connected component of `start` (rendered vertex names) over the undirected edge list -/
partial def floodfill (edges : List (String × String)) (todo : List String) (seen : List String) :
    List String :=
  match todo with
  | [] => seen
  | u :: rest =>
    if seen.contains u then floodfill edges rest seen
    else
      let nb := edges.filterMap fun (a, b) => if a == u then some b else none
      floodfill edges (nb ++ rest) (u :: seen)

def netsOf (M : Meta) : List String := Id.run do
  let sigs := sortDedup (M.filterMap fun e => match e with | .sig s _ => some (showSig s) | _ => none)
  let mports := sortDedup (M.filterMap fun e => match e with | .mport s _ => some (showSig s) | _ => none)
  let edges := M.filterMap fun e => match e with
    | .edge a b => some (showNode a, showNode b) | _ => none
  let written := M.filterMap fun e => match e with | .write _ s => some (showSig s) | _ => none
  let topIn := M.filterMap fun e => match e with
    | .sig s k => if s.1.isEmpty && k == "in" then some (showSig s) else none | _ => none
  let phs := M.filterMap fun e => match e with | .comp n true => some n | _ => none
  let phOut := M.filterMap fun e => match e with
    | .sig s k => if k == "out" && phs.contains s.1 then some (showSig s) else none | _ => none
  let callees := M.filterMap fun e => match e with
    | .mport s k => if k == "callee" then some (showSig s) else none | _ => none
  let mut out : List String := []
  let mut seen : List String := []
  for (tag, verts) in [("net", sigs), ("mnet", mports)] do
    for v in verts do
      if !seen.contains v then
        let net := sortDedup (floodfill edges [v] [])
        seen := net ++ seen
        if net.length ≥ 2 then
          let ws := net.filter fun m =>
            if tag == "net" then m.startsWith "(const" || written.contains m || topIn.contains m || phOut.contains m
            else callees.contains m
          let w := match ws with
            | [] => "none"
            | [w] => w
            | _ => "multi"
          out := s!"({tag} {w} ({" ".intercalate net}))" :: out
  return sortDedup out

/-- signals written by an `update_ff` block (`needs_double_buffer`, set by `_elaborate_read_write_func`) -/
def dbufOf (M : Meta) : List String :=
  let ffs := M.filterMap fun e => match e with | .ff b => some b | _ => none
  sortDedup (M.filterMap fun e => match e with
    | .write b s => if ffs.contains b then some s!"(dbuf {showSig s})" else none
    | _ => none)

/-- per-object hierarchy metadata `(lvl <name> <level> <parent> <host>)`: by name, the level of a component is the
    number of segments of its path, a signal / method port sits one below its host component, which is also its parent -/
def lvlOf (M : Meta) : List String :=
  sortDedup (M.filterMap fun e => match e with
    | .comp n _ =>
      some s!"(lvl {showName n} {n.length} {if n.isEmpty then "none" else showName n.dropLast} {showName n})"
    | .sig s _ => some s!"(lvl {showSig s} {s.1.length + 1} {showName s.1} {showName s.1})"
    | .mport s _ => some s!"(lvl {showSig s} {s.1.length + 1} {showName s.1} {showName s.1})"
    | _ => none)

def dump (M : Meta) : String :=
  "(" ++ " ".intercalate (sortDedup (M.map showEntry) ++ netsOf M ++ dbufOf M ++ lvlOf M) ++ ")"

def handle (args : List Sexp) : Option String :=
  match args with
  | [.atom "elab", h] => do
      let H ← hier? h
      some ("ok " ++ dump (elaborate H))
  | [.atom "replace", h, rs] => do
      let H ← hier? h
      let rs ← reps? rs
      match replaceAll (elaborate H) rs with
      | some M => some ("ok " ++ dump M)
      | none => some "err unresolved"
  | [.atom "build", h, rs] => do
      let H ← hier? h
      let rs ← reps? rs
      some ("ok " ++ dump (elaborate (setAll H rs)))
  | [.atom "delete", h, p] => do
      let H ← hier? h
      let p ← path? p
      let (K, S) := delete (elaborate H) p
      some ("ok " ++ dump K ++ " (" ++ " ".intercalate (sortDedup (S.map showEntry)) ++ ")")
  | _ => none

end PV.Driver.Meta
