import PymtlVerif.Driver.Sexp
import PymtlVerif.Driver.Bits
/-!
`pvdriver`: reads one request per line on stdin (`<handler> <sexp>*`), writes one reply line.
A malformed request yields `bad-op` (never a default value): the harness treats it as an
infrastructure error, not as a verdict.
-/
open PV

def dispatch (line : String) : String :=
  match Sexp.parseLine line with
  | some (.atom h :: args) =>
    let r : Option String :=
      match h with
      | "bits" => Driver.Bits.handle args
      | "ping" => some "pong"
      | _ => none
    r.getD "bad-op"
  | _ => "bad-op"

partial def loop (hin : IO.FS.Stream) (hout : IO.FS.Stream) : IO Unit := do
  let line ← hin.getLine
  if line.isEmpty then return ()
  hout.putStrLn (dispatch line)
  loop hin hout

def main : IO Unit := do
  let hin ← IO.getStdin
  let hout ← IO.getStdout
  loop hin hout
  hout.flush
