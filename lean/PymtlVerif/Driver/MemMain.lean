import PymtlVerif.Driver.Loop
import PymtlVerif.Driver.Mem

def main : IO Unit := PV.runDriver "mem" PV.Driver.Mem.handle
