import PymtlVerif.Driver.Sexp
/-! Handler `rtl` (stub: not built yet). -/
namespace PV.Driver.Rtl
open PV

def handle (_args : List Sexp) : Option String := none

end PV.Driver.Rtl
