import PymtlVerif.Driver.Sexp
import PymtlVerif.Model.Rtl
import PymtlVerif.Model.Kahn
import PymtlVerif.Model.Methods
/-!
Handler `rtl`: executable face of `Model/Rtl.lean` (C01, C02, C07, C11).

The proven definitions work on bit-level states `St = Var → Bool`. The driver keeps a table of naturals
per signal between block executions (`ofTab`/`commit` below are driver glue, not part of the theorems): a block
is run with the *proven* `Blk.run` / `Blk.runFF` on the function read off the table and the written signals
are read back into the table.

Requests
  rtl check   <design>                     → `wf <noSelf> <singleWriter> deps ((a b) ...)`
  rtl topo    <design> (ids...)            → `topo <perm?> <topoB>`
  rtl watchok <design> (ids...) (watch...) → `watchok <0|1>`
  rtl sim     <design> (entries...) (ff ids...) (cycles ((sig val)...) ...) [fuel]
                                           → `ok ((vals after eval_comb) (vals after tick)) ...` | `cyclic <cycle>`
  rtl entries <design> (entries...)        → `entries <perm> <wfBlocks> <entriesTopoB> <watchesOKB>`
  rtl kahn    (V...) ((a b)...) (picks...) → `order (ids...)`
  rtl methods (calls (b m)...) (mcons (x y eq)...) (blocks ids...)
                                           → `edges ((a b)...)` (sorted, duplicates removed; Model/Methods.lean `process`, C02m)
design  := (design (widths w...) (comb blk...) (ff blk...))
blk     := (blk id asg...)         asg := (asg sig lo w expr)
expr    := (c w v) | (r sig lo w) | (n w e) | (b op w e1 e2) | (m c a b) | (cat a wb b)
entry   := (b id) | (scc (ids...) ((sig lo w)...))
-/
namespace PV.Driver.Rtl
open PV PV.Rtl

def bop? : String → Option BOp
  | "add" => some .add | "sub" => some .sub | "mul" => some .mul | "and" => some .and | "or" => some .or
  | "xor" => some .xor | "shl" => some .shl | "shr" => some .shr | "eq" => some .eq | "ne" => some .ne
  | "lt" => some .lt | "le" => some .le | "gt" => some .gt | "ge" => some .ge | _ => none

partial def expr? : Sexp → Option Expr
  | .list [.atom "c", w, v] => do some (.const (← w.nat?) (← v.nat?))
  | .list [.atom "r", g, lo, w] => do some (.rd ⟨← g.nat?, ← lo.nat?, ← w.nat?⟩)
  | .list [.atom "n", w, e] => do some (.not (← w.nat?) (← expr? e))
  | .list [.atom "b", .atom op, w, a, b] => do some (.bin (← bop? op) (← w.nat?) (← expr? a) (← expr? b))
  | .list [.atom "m", c, a, b] => do some (.mux (← expr? c) (← expr? a) (← expr? b))
  | .list [.atom "cat", a, wb, b] => do some (.cat (← expr? a) (← wb.nat?) (← expr? b))
  | _ => none

def rng? : Sexp → Option Rng
  | .list [g, lo, w] => do some ⟨← g.nat?, ← lo.nat?, ← w.nat?⟩
  | _ => none

def asg? : Sexp → Option Asg
  | .list [.atom "asg", g, lo, w, e] => do some ⟨⟨← g.nat?, ← lo.nat?, ← w.nat?⟩, ← expr? e⟩
  | _ => none

def blk? : Sexp → Option Blk
  | .list (.atom "blk" :: id :: asgs) => do some ⟨← id.nat?, ← asgs.mapM asg?⟩
  | _ => none

def design? : Sexp → Option Design
  | .list [.atom "design", .list (.atom "widths" :: ws), .list (.atom "comb" :: cs), .list (.atom "ff" :: fs)] => do
    some ⟨← ws.mapM Sexp.nat?, ← cs.mapM blk?, ← fs.mapM blk?⟩
  | _ => none

inductive EntryId where
  | b (id : Nat)
  | scc (ids : List Nat) (watch : List Rng)

def entryId? : Sexp → Option EntryId
  | .list [.atom "b", id] => do some (.b (← id.nat?))
  | .list [.atom "scc", ids, .list ws] => do some (.scc (← ids.nats?) (← ws.mapM rng?))
  | _ => none

/-! driver glue: table ↔ bit-level state -/
def ofTab (t : Array Nat) : St := fun v => (t.getD v.1 0).testBit v.2

def commit (widths : Array Nat) (t : Array Nat) (sigs : List Nat) (s' : St) : Array Nat :=
  sigs.foldl (fun t g => if g < t.size then t.set! g (bitsToNat (fun i => s' (g, i)) (widths.getD g 0)) else t) t

def writtenSigs (b : Blk) : List Nat := (b.writes.map (·.sig)).eraseDups

def runBlkTab (widths : Array Nat) (t : Array Nat) (b : Blk) : Array Nat :=
  commit widths t (writtenSigs b) (b.run (ofTab t))

def stableTab (t t' : Array Nat) (watch : List Rng) : Bool :=
  watch.all (fun r => (List.range r.w).all (fun i => (ofTab t) (r.sig, r.lo + i) == (ofTab t') (r.sig, r.lo + i)))

/-- table version of `iterate` (same loop; each sweep uses the proven `Blk.run`) -/
def iterateTab (widths : Array Nat) (fuel : Nat) (watch : List Rng) (scc : List Blk) (t : Array Nat) : Option (Array Nat) :=
  match fuel with
  | 0 => none
  | f+1 =>
    let t' := scc.foldl (runBlkTab widths) t
    if stableTab t t' watch then some t' else iterateTab widths f watch scc t'

inductive EntryB where
  | b (b : Blk)
  | scc (bs : List Blk) (watch : List Rng)

def resolveEntries (comb : List Blk) (es : List EntryId) : Option (List EntryB) :=
  es.mapM (fun e => match e with
    | .b id => do some (.b (← lookupBlk comb id))
    | .scc ids w => do some (.scc (← ids.mapM (lookupBlk comb)) w))

def runEntriesTab (widths : Array Nat) (fuel : Nat) : List EntryB → Array Nat → Option (Array Nat)
  | [], t => some t
  | .b b :: es, t => runEntriesTab widths fuel es (runBlkTab widths t b)
  | .scc bs w :: es, t =>
    match iterateTab widths fuel w bs t with
    | some t' => runEntriesTab widths fuel es t'
    | none => none

/-- ff phase + flip on tables, with the proven `Blk.runFF` -/
def ffPhase (widths : Array Nat) (ffs : List Blk) (cur next : Array Nat) : Array Nat × Array Nat :=
  let next' := ffs.foldl (fun nx b => commit widths nx (writtenSigs b) (b.runFF (ofTab cur) (ofTab nx))) next
  let regs := (ffs.flatMap writtenSigs).eraseDups
  let cur' := regs.foldl (fun c g => if g < c.size then c.set! g (next'.getD g 0) else c) cur
  (cur', next')

def showVals (t : Array Nat) : String := "(" ++ " ".intercalate (t.toList.map toString) ++ ")"

def simulate (D : Design) (es : List EntryB) (ffs : List Blk) (cycles : List (List (Nat × Nat))) (fuel : Nat) : String := Id.run do
  let widths := D.widths.toArray
  let mut cur : Array Nat := Array.replicate widths.size 0
  let mut next : Array Nat := Array.replicate widths.size 0
  let mut out : Array String := #[]
  let mut k := 0
  for ins in cycles do
    for (g, v) in ins do
      if g < cur.size then cur := cur.set! g (v % 2 ^ (widths.getD g 0))
    match runEntriesTab widths fuel es cur with
    | none => return s!"cyclic {k}"
    | some c1 =>
      let a := showVals c1
      -- tick: comb, ff, flip, comb
      let (c2, n2) := ffPhase widths ffs c1 next
      match runEntriesTab widths fuel es c2 with
      | none => return s!"cyclic {k}"
      | some c3 =>
        cur := c3; next := n2
        out := out.push s!"({a} {showVals c3})"
    k := k + 1
  return "ok " ++ " ".intercalate out.toList

def pairs? (x : Sexp) : Option (List (Nat × Nat)) := do
  let xs ← x.list?
  xs.mapM (fun p => match p with
    | .list [a, b] => do some (← a.nat?, ← b.nat?)
    | _ => none)

def showPairs (ps : List (Nat × Nat)) : String :=
  "(" ++ " ".intercalate (ps.map (fun p => s!"({p.1} {p.2})")) ++ ")"

def handle (args : List Sexp) : Option String :=
  match args with
  | [.atom "check", d] => do
    let D ← design? d
    let all := D.comb
    let ns := all.all (·.noSelf) && D.ff.all (fun _ => true)
    let sw := singleWriterB (D.comb ++ D.ff)
    let ds := (deps (D.comb ++ D.ff)).eraseDups
    some s!"wf {b2s ns} {b2s sw} deps {showPairs ds}"
  | [.atom "topo", d, o] => do
    let D ← design? d
    let ids ← o.nats?
    match orderBlocks D.comb ids with
    | none => some "topo 0 0"
    | some bs =>
      let perm := ids.length == D.comb.length && ids.eraseDups.length == ids.length
      some s!"topo {b2s perm} {b2s (topoB bs)}"
  | [.atom "watchok", d, ids, .list ws] => do
    let D ← design? d
    let bs ← (← ids.nats?).mapM (lookupBlk D.comb)
    some s!"watchok {b2s (watchOKB bs (← ws.mapM rng?))}"
  | .atom "sim" :: d :: .list es :: ffo :: .list cyc :: rest => do
    let D ← design? d
    let entries ← resolveEntries D.comb (← es.mapM entryId?)
    let ffs ← (← ffo.nats?).mapM (lookupBlk D.ff)
    let cycles ← cyc.mapM pairs?
    let fuel ← match rest with
      | [] => some 100
      | [f] => f.nat?
      | _ => none
    some (simulate D entries ffs cycles fuel)
  | [.atom "entries", d, .list es] => do
    -- hypotheses of C11.whole_schedule evaluated on a real schedule: wfBlocks, entriesTopoB, watchesOKB
    let D ← design? d
    let ids ← es.mapM entryId?
    let ents ← ids.mapM (fun e => match e with
      | .b id => do some (Entry.blk (← lookupBlk D.comb id))
      | .scc is w => do some (Entry.scc (← is.mapM (lookupBlk D.comb)) w))
    let bs := allBlocks ents
    let wf := bs.all (·.noSelf) && singleWriterB bs
    let perm := bs.length == D.comb.length && (bs.map (·.id)).eraseDups.length == bs.length
    some s!"entries {b2s perm} {b2s wf} {b2s (entriesTopoB ents)} {b2s (watchesOKB ents)}"
  | [.atom "kahn", vs, es, ps] => do
    let V ← vs.nats?
    let E ← pairs? es
    let picks ← ps.nats?
    -- the tie-break oracle replays the recorded choices: the k-th call returns picks[k]; since `kahn` calls
    -- `pick` once per emitted vertex with the ready list, we index by the length of what is already done,
    -- which the ready list does not reveal — so the recorded choice is given as the chosen *vertex*:
    -- pick returns the index of picks[#emitted] in the ready list. We thread #emitted through fuel:
    let rec go (fuel : Nat) (done : List Nat) (picks : List Nat) : List Nat :=
      match fuel with
      | 0 => done.reverse
      | f+1 =>
        let r := Kahn.ready V E done
        match r, picks with
        | [], _ => done.reverse
        | _, [] => done.reverse
        | _, p :: ps => if r.contains p then go f (p :: done) ps else done.reverse
    some s!"order {natsToString (go V.length [] picks)} ref {natsToString (Kahn.kahn (fun _ => 0) V E V.length [])}"
  -- ---------------------------------------------------------------------------------------------------------
  -- C02m: block-level pairs added by GenDAGPass._process_methods (Model/Methods.lean)
  | [.atom "methods", .list (.atom "calls" :: cs), .list (.atom "mcons" :: ms), .list (.atom "blocks" :: bs)] => do
    let calls ← cs.mapM (fun p => match p with
      | .list [b, m] => do some (← b.nat?, ← m.nat?)
      | _ => none)
    let mcons ← ms.mapM (fun p => match p with
      | .list [x, y, e] => do some (← x.nat?, ← y.nat?, ← e.bool?)
      | _ => none)
    let blocks ← bs.mapM Sexp.nat?
    let es := (PV.Methods.Input.process ⟨calls, mcons, blocks⟩).eraseDups
    let sorted := es.mergeSort (fun a b => a.1 < b.1 || (a.1 == b.1 && a.2 ≤ b.2))
    some s!"edges {showPairs sorted}"
  -- ---------------------------------------------------------------------------------------------------------
  | _ => none

end PV.Driver.Rtl
