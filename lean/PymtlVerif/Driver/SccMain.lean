import PymtlVerif.Driver.Loop
import PymtlVerif.Driver.Scc

def main : IO Unit := PV.runDriver "scc" PV.Driver.Scc.handle
