import PymtlVerif.Driver.Sexp
/-!
Handler `sconn`: executable face of `Model/SConn.lean` (hosting and orientation of structural connections:
`gen_connections` + `StructuralRTLIRGenL1Pass._gen_metadata`). Stub.
-/
namespace PV.Driver.SConn
open PV

def handle (_args : List Sexp) : Option String := none

end PV.Driver.SConn
