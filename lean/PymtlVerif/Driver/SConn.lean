import PymtlVerif.Driver.Sexp
import PymtlVerif.Model.SConn
/-!
Handler `sconn`: executable face of `Model/SConn.lean` (hosting and orientation of structural connections:
`gen_connections` + `StructuralRTLIRGenL1Pass._gen_metadata`).

`sconn emit (comps p0 p1 …) (sigs h0 h1 …) (stmts (c a b) …) (nets (w m…) …) (order (u v1 v2 …) …)`

* `comps`: parent of every component, index = component id, id 0 = Python's `None` (`p0 = 0`), id 1 = top;
* `sigs`: host component of every signal, index = signal id;
* `stmts`: the connect statements `(component that executed it, o1, o2)`, the statements of one component in source order;
* `nets`: `get_all_value_nets()` as `(writer member …)`;
* `order`: the order in which `adjs[u]` is iterated, for every `u` that has neighbours (a missing `u` gets the order of the
  statements).

Reply (one line):
`valid <0|1> nodup <0|1> netsok <0|1> cyclic <0|1> verdict <ok|TypeError|RTLIRConversionError> nets ((w (reached…)) …) tree ((u v) …)
 filed ((c ((u v) …)) …) emit ((c ok ((u v) …)) | (c err <class>) …) assigns ((c u v) …)`
— `reached` and `filed` sorted, `tree` in filing order, `emit` / `assigns` in emission order; components `1 … n-1`.
A request with ids out of range is `bad-op`.
-/
namespace PV.Driver.SConn
open PV PV.SConn

def tagged? (tag : String) : Sexp → Option (List Sexp)
  | .list (.atom t :: rest) => if t == tag then some rest else none
  | _ => none

def stmt? : Sexp → Option (Comp × Pair)
  | .list [c, a, b] => do
    let c ← c.nat?
    let a ← a.nat?
    let b ← b.nat?
    some (c, (a, b))
  | _ => none

def headed? (x : Sexp) : Option (Nat × List Nat) := do
  let xs ← x.nats?
  match xs with
  | [] => none
  | w :: ms => some (w, ms)

def pairLt (a b : Pair) : Bool := a.1 < b.1 || (a.1 == b.1 && a.2 < b.2)

def insertP (a : Pair) : List Pair → List Pair
  | [] => [a]
  | b :: l => if pairLt b a then b :: insertP a l else a :: b :: l

def sortP (l : List Pair) : List Pair := l.foldr insertP []

def showPair (p : Pair) : String := s!"({p.1} {p.2})"
def showPairs (l : List Pair) : String := "(" ++ " ".intercalate (l.map showPair) ++ ")"
def showNats (xs : List Nat) : String := "(" ++ " ".intercalate (xs.map toString) ++ ")"
def b01 (b : Bool) : String := if b then "1" else "0"

def handle : List Sexp → Option String
  | [.atom "emit", comps, sigs, stmts, nets, order] => do
    let par ← (← tagged? "comps" comps).mapM Sexp.nat?
    let host ← (← tagged? "sigs" sigs).mapM Sexp.nat?
    let st ← (← tagged? "stmts" stmts).mapM stmt?
    let ns ← (← tagged? "nets" nets).mapM headed?
    let ord ← (← tagged? "order" order).mapM headed?
    let H : Hier := ⟨par, host, st, ns⟩
    if !H.wf then none
    else if !(ord.all (fun e => decide (e.1 < host.length) && e.2.all (fun v => decide (v < host.length)))) then none
    else
      let nb : Sig → List Sig := fun u =>
        match ord.find? (fun e => e.1 == u) with
        | some e => e.2
        | none => H.nbrs u
      let comps := (List.range par.length).tail
      let T := treeEdges H nb
      let v := match verdictOf H T with
        | none => "ok"
        | some e => e.pyClass
      let netsS := ns.map (fun n => s!"({n.1} {showNats (PV.Nets.sortDedup (n.1 :: (traverse H nb n.1).map (·.2)))})")
      let filedS := comps.map (fun c => s!"({c} {showPairs (sortP (filedOf H T c))})")
      let emitS := comps.map (fun c =>
        match emitOf H T c with
        | .ok l => s!"({c} ok {showPairs l})"
        | .error e => s!"({c} err {e.pyClass})")
      let asgS := (assignsOf H T).map (fun a => s!"({a.1} {a.2.1} {a.2.2})")
      some (s!"valid {b01 (validOrderB H nb)} nodup {b01 (stmtsNodupB H)} netsok {b01 (netsOkB H)} cyclic {b01 (PV.Nets.cyc H.edges)} verdict {v} " ++
            s!"nets ({" ".intercalate netsS}) tree {showPairs T} " ++
            s!"filed ({" ".intercalate filedS}) emit ({" ".intercalate emitS}) assigns ({" ".intercalate asgS})")
  | _ => none

end PV.Driver.SConn
