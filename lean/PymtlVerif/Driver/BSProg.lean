import PymtlVerif.Driver.Sexp
import PymtlVerif.Driver.BitStruct
import PymtlVerif.Model.BStructProg
/-!
Handler `bsprog`: the generated-program tie of C06 (`Model/BStructProg.lean`).

Types / values as in handler `bstruct`: `(b n)` | `(s T…)` | `(a k T)`; `(b n v)` | `(s v…)` | `(a v…)`.
Paths: a list of steps `(f i)` (field i) / `(i k)` (element k).
Expressions: `(self step…)` `(other step…)` `(clone step…)` `(slice lo hi)` `(dflt T)` `(list e…)` `(tup e…)`
             `(rep e n)` `(new T e…)`
Programs:    `(tobits (step…)…)` `(frombits e…)` `(eq ((step…)…) ((step…)…))` `(hash e)` `(clone e…)`
             `(aug nb ((step…) (step…))…)` `(flip (step…)…)` `(init (set i (wrap n j))… (set i (or j e))…)` `(str i…)`
Methods:     to_bits from_bits eq hash clone deepcopy imatmul ilshift flip init str repr

Requests
* `check m T prog`        → `ok` | `mismatch <progOf m T>`
* `canon m T`             → `<progOf m T>`
* `evalv T prog v [w|n b]`→ the program evaluated on values: tobits `(ok n v)`/`(err C)`; frombits (with `n b`) `(ok key)`/`(err C)`;
                             eq (with `same w`) `0`/`1`; hash → key of the hashed tuple; `undef` when the evaluator is undefined
* `evalh T prog v`        → clone program on an instance built from `v` in an empty heap (its leaves are cells 0..n-1), or the
                             init program without arguments (`v` ignored): `(cell…) key` of the result, `undef`
-/
namespace PV.Driver.BSProg
open PV PV.BitStruct PV.BStructProg
open PV.Driver.BitStruct (ty? val? keyStr rStr)

def step? : Sexp → Option Step
  | .list [.atom "f", i] => do some (.fld (← i.nat?))
  | .list [.atom "i", i] => do some (.idx (← i.nat?))
  | _ => none

def path? (xs : List Sexp) : Option Path := xs.mapM step?

def pathOf? : Sexp → Option Path
  | .list xs => path? xs
  | _ => none

def chain (xs : List Expr) : Expr := xs.foldr Expr.cons Expr.nil

partial def expr? : Sexp → Option Expr
  | .list (.atom "self" :: p) => do some (.self (← path? p))
  | .list (.atom "other" :: p) => do some (.other (← path? p))
  | .list (.atom "clone" :: p) => do some (.clone (← path? p))
  | .list [.atom "slice", lo, hi] => do some (.slice (← lo.nat?) (← hi.nat?))
  | .list [.atom "dflt", t] => do some (.dflt (← ty? t))
  | .list (.atom "list" :: xs) => do some (chain (← xs.mapM expr?))
  | .list (.atom "tup" :: xs) => do some (.tup (chain (← xs.mapM expr?)))
  | .list [.atom "rep", x, n] => do some (.rep (← expr? x) (← n.nat?))
  | .list (.atom "new" :: t :: xs) => do some (.new (← ty? t) (chain (← xs.mapM expr?)))
  | _ => none

def stmt? : Sexp → Option (Path × Path)
  | .list [d, s] => do some (← pathOf? d, ← pathOf? s)
  | _ => none

def init? : Sexp → Option InitStmt
  | .list [.atom "set", i, .list [.atom "wrap", n, j]] => do some ⟨← i.nat?, .wrap (← n.nat?) (← j.nat?)⟩
  | .list [.atom "set", i, .list [.atom "or", j, e]] => do some ⟨← i.nat?, .orDflt (← j.nat?) (← expr? e)⟩
  | _ => none

def prog? : Sexp → Option Prog
  | .list (.atom "tobits" :: ps) => do some (.toBits (← ps.mapM pathOf?))
  | .list (.atom "frombits" :: xs) => do some (.fromBits (chain (← xs.mapM expr?)))
  | .list [.atom "eq", .list l, .list r] => do some (.eq (← l.mapM pathOf?) (← r.mapM pathOf?))
  | .list [.atom "hash", e] => do some (.hash (← expr? e))
  | .list (.atom "clone" :: xs) => do some (.clone (chain (← xs.mapM expr?)))
  | .list (.atom "aug" :: nb :: st) => do some (.aug (← nb.bool?) (← st.mapM stmt?))
  | .list (.atom "flip" :: ps) => do some (.flip (← ps.mapM pathOf?))
  | .list (.atom "init" :: st) => do some (.init (← st.mapM init?))
  | .list (.atom "str" :: xs) => do some (.str (← xs.mapM Sexp.nat?))
  | _ => none

def method? : Sexp → Option Method
  | .atom "to_bits" => some .toBits
  | .atom "from_bits" => some .fromBits
  | .atom "eq" => some .eq
  | .atom "hash" => some .hash
  | .atom "clone" => some .clone
  | .atom "deepcopy" => some .deepcopy
  | .atom "imatmul" => some .imatmul
  | .atom "ilshift" => some .ilshift
  | .atom "flip" => some .flip
  | .atom "init" => some .init
  | .atom "str" => some .str
  | .atom "repr" => some .repr
  | _ => none

/-! rendering (same syntax as the requests) -/

def stepStr : Step → String
  | .fld i => s!"(f {i})"
  | .idx i => s!"(i {i})"

def stepsStr (p : Path) : String := String.join (p.map fun s => " " ++ stepStr s)
def pathStr (p : Path) : String := "(" ++ " ".intercalate (p.map stepStr) ++ ")"

def tyStr : Ty → String
  | .bits n => s!"(b {n})"
  | .unit => "(s)"
  | .pair a r => "(s" ++ fields (.pair a r) ++ ")"
  | .arr k t => s!"(a {k} {tyStr t})"
where
  fields : Ty → String
  | .pair a r => " " ++ tyStr a ++ fields r
  | _ => ""

/-- elements of a `cons` chain; `none` when the expression is not a chain -/
def elems? : Expr → Option (List Expr)
  | .nil => some []
  | .cons h t => (elems? t).map (h :: ·)
  | _ => none

partial def exprStr : Expr → String
  | .self p => "(self" ++ stepsStr p ++ ")"
  | .other p => "(other" ++ stepsStr p ++ ")"
  | .clone p => "(clone" ++ stepsStr p ++ ")"
  | .slice lo hi => s!"(slice {lo} {hi})"
  | .dflt t => s!"(dflt {tyStr t})"
  | .nil => "(list)"
  | .cons h t =>
      match elems? (.cons h t) with
      | some xs => "(list" ++ String.join (xs.map fun e => " " ++ exprStr e) ++ ")"
      | none => s!"(cons {exprStr h} {exprStr t})"
  | .rep x n => s!"(rep {exprStr x} {n})"
  | .tup s =>
      match elems? s with
      | some xs => "(tup" ++ String.join (xs.map fun e => " " ++ exprStr e) ++ ")"
      | none => s!"(tup! {exprStr s})"
  | .new t a =>
      match elems? a with
      | some xs => s!"(new {tyStr t}" ++ String.join (xs.map fun e => " " ++ exprStr e) ++ ")"
      | none => s!"(new! {tyStr t} {exprStr a})"

def argsStr (a : Expr) : String :=
  match elems? a with
  | some xs => String.join (xs.map fun e => " " ++ exprStr e)
  | none => " " ++ exprStr a

def initStr (s : InitStmt) : String :=
  match s.rhs with
  | .wrap n j => s!"(set {s.field} (wrap {n} {j}))"
  | .orDflt j e => s!"(set {s.field} (or {j} {exprStr e}))"

def progStr : Prog → String
  | .toBits ps => "(tobits" ++ String.join (ps.map fun p => " " ++ pathStr p) ++ ")"
  | .fromBits a => "(frombits" ++ argsStr a ++ ")"
  | .eq l r => "(eq (" ++ " ".intercalate (l.map pathStr) ++ ") (" ++ " ".intercalate (r.map pathStr) ++ "))"
  | .hash e => s!"(hash {exprStr e})"
  | .clone a => "(clone" ++ argsStr a ++ ")"
  | .aug nb st => s!"(aug {b2s nb}" ++ String.join (st.map fun s => s!" ({pathStr s.1} {pathStr s.2})") ++ ")"
  | .flip ps => "(flip" ++ String.join (ps.map fun p => " " ++ pathStr p) ++ ")"
  | .init st => "(init" ++ String.join (st.map fun s => " " ++ initStr s) ++ ")"
  | .str fs => "(str" ++ String.join (fs.map fun i => s!" {i}") ++ ")"

/-- struct shapes only: a `.pair` chain ending in `.unit` with at least one field -/
def isStruct : Ty → Bool
  | .pair _ _ => true
  | _ => false

def cellsStr (i : Inst) : String := natsToString (cells i)

def handle (args : List Sexp) : Option String :=
  match args with
  | [.atom "check", m, t, p] => do
      let m ← method? m; let T ← ty? t; let p ← prog? p
      if !isStruct T then none
      let c := progOf m T
      some (if p = c then "ok" else "mismatch " ++ progStr c)
  | [.atom "canon", m, t] => do
      let m ← method? m; let T ← ty? t
      if !isStruct T then none
      some (progStr (progOf m T))
  | .atom "evalv" :: t :: p :: v :: rest => do
      let T ← ty? t; let p ← prog? p; let x ← val? v
      if !hasTy x T then none
      match p, rest with
      | .toBits ps, [] =>
          some (match evalToBits ps x with | some r => rStr r | none => "undef")
      | .fromBits a, [n, b] => do
          let n ← n.nat?; let b ← b.nat?
          if b ≥ 2 ^ n then none
          some (match evalFromBits T a ⟨n, b⟩ with
            | .ok r => s!"(ok {keyStr r})"
            | .error .shape => "undef"
            | .error e => s!"(err {e.pyClass})")
      | .eq l r, [same, w] => do
          let y ← val? w
          if !hasTy y T then none
          some (match evalEq l r (← same.bool?) x y with | some b => b2s b | none => "undef")
      | .hash e, [] =>
          some (match evalV ⟨x, x, default⟩ e with | some r => keyStr r | none => "undef")
      | _, _ => none
  | [.atom "evalh", t, p, v] => do
      let T ← ty? t; let p ← prog? p; let x ← val? v
      if !hasTy x T then none
      let b := build Heap.empty x
      match p with
      | .clone a =>
          some (match evalClone T a b.1 b.2 with
            | some r => s!"{cellsStr r.2} {keyStr (read r.1 r.2)}"
            | none => "undef")
      | .init st =>
          some (match evalInit (List.replicate (nFields T) none) b.1 0 st with
            | some r => s!"{cellsStr r.2} {keyStr (read r.1 r.2)}"
            | none => "undef")
      | _ => none
  | _ => none

end PV.Driver.BSProg
