import PymtlVerif.Driver.Sexp
/-!
Handler `callgraph`: executable face of `Model/CallGraph.lean` (expansion of `@s.func` helper calls in
`ComponentLevel2._collect_vars`). Stub.
-/
namespace PV.Driver.CallGraph
open PV

def handle (_args : List Sexp) : Option String := none

end PV.Driver.CallGraph
