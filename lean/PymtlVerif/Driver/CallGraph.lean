import PymtlVerif.Driver.Sexp
import PymtlVerif.Model.CallGraph
/-!
Handler `callgraph`: executable face of `Model/CallGraph.lean` (expansion of `@s.func` helper calls in
`ComponentLevel2._collect_vars`).

`callgraph expand (funcs ((reads) (writes) (calls)) ...) (blocks (isff (reads) (writes) (calls)) ...) [(tops t0 t1 ...)]`
— the function table of one component (function `i` = the `i`-th entry; a callee id `≥` the number of functions is a
callee that is not a function of the component), its update blocks (`isff` = `0|1` or `(0)|(1)`) and optionally the
object → top-level signal map (identity if absent) — answers

`blocks (<b> ...) marks (...) collect <c>`

with `<b>` = `cycle` or `((reads) (writes))` (sorted, duplicate-free) per block from the per-block function `expand`,
`marks` the signals marked through functions by the blocks that expand, and `<c>` = `cycle` or
`(((reads) (writes)) ...) (marks)` read from the dicts the fold `collect` (blocks keyed by their index) ends with.
-/
namespace PV.Driver.CallGraph
open PV PV.CallGraph

def isff? : Sexp → Option Bool
  | .list [x] => x.bool?
  | x => x.bool?

def func? : Sexp → Option Func
  | .list [r, w, c] => do
    let r ← r.nats?; let w ← w.nats?; let c ← c.nats?
    some ⟨r, w, c⟩
  | _ => none

def blk? : Sexp → Option Blk
  | .list [f, r, w, c] => do
    let f ← isff? f
    let r ← r.nats?; let w ← w.nats?; let c ← c.nats?
    some ⟨f, r, w, c⟩
  | _ => none

def canon (xs : List Nat) : List Nat := (xs.toArray.qsort (· < ·)).toList.eraseDups

def showSet (xs : List Nat) : String := natsToString (canon xs)

def showBlk : Except Err Expanded → String
  | .error _ => "cycle"
  | .ok e => s!"({showSet e.reads} {showSet e.writes})"

def run (T : Table) (blocks : List Blk) : String :=
  let res := blocks.map (expand T)
  let marks := res.flatMap (fun r => match r with | .ok e => e.marks | .error _ => [])
  let keyed := (List.range blocks.length).zip blocks
  let coll := match collect T {} keyed with
    | .error _ => "cycle"
    | .ok st =>
      let ents := keyed.map (fun kb => s!"({showSet (st.reads.get kb.1)} {showSet (st.writes.get kb.1)})")
      "(" ++ " ".intercalate ents ++ ") " ++ showSet st.marks
  "blocks (" ++ " ".intercalate (res.map showBlk) ++ ") marks " ++ showSet marks ++ " collect " ++ coll

def handle : List Sexp → Option String
  | .atom "expand" :: .list (.atom "funcs" :: fs) :: .list (.atom "blocks" :: bs) :: rest => do
    let funcs ← fs.mapM func?
    let blocks ← bs.mapM blk?
    let tops ← match rest with
      | [] => some []
      | [.list (.atom "tops" :: ts)] => ts.mapM Sexp.nat?
      | _ => none
    some (run { funcs := funcs, tops := tops } blocks)
  | _ => none

end PV.Driver.CallGraph
