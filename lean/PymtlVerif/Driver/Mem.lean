import PymtlVerif.Driver.Sexp
import PymtlVerif.Model.Mem
/-!
Handler `mem`: executable face of `Model/Mem.lean` for the C18 correspondence check.

  mem seq <image> <log> <dump>
      image = ((base b0 b1 ...) ...)            initial bytes (0 elsewhere)
      log   = ((port nb type opq addr len data) ...)   processed requests, oldest first; nb = bytes of the data
                                                field of the port's message class (ports may differ)
      dump  = (base size)
      reply: (<resp>*) (<byte>*)                 resp = (port type opq test len data), `seqSpec`
  mem cl  <nports> <latency> <image> <reqs> <env> <dump>
  mem rtl <nports> <extra_latency> <image> <reqs> <env> <dump>
      reqs = per port ((nb type opq addr len data) ...)
      env  = per cycle (code per port), code = offer/srcVal + 2*stall + 4*sinkRdy
      reply: ((cycle port) ...) (per port ((cycle type opq test len data) ...)) (<byte>*) (<left per port>*)
             = processing order with cycles, deliveries to each sink with cycles, final image,
               number of requests of each port not processed
  mem amo <w> <type> <m> <a>                     reply: AMO_FUNS value
A request (read, write or AMO) may have any len: 0 = the full data width nb, else that many bytes (sub-word AMOs included).
-/
namespace PV.Driver.Mem
open PV PV.Mem

def amoOp? : Nat → Option AmoOp
  | 3 => some .add | 4 => some .and | 5 => some .or | 6 => some .swap | 7 => some .min
  | 8 => some .minu | 9 => some .max | 10 => some .maxu | 11 => some .xor | _ => none

def kind? : Nat → Option Kind
  | 0 => some .read | 1 => some .write | n => (amoOp? n).map .amo

def req? : List Sexp → Option Req
  | [w, t, o, a, l, d] => do
    let nb ← w.nat?
    let k ← kind? (← t.nat?)
    let len ← l.nat?
    some ⟨k, ← o.nat?, ← a.nat?, len, ← d.nat?, nb⟩
  | _ => none

def tagged? : Sexp → Option (Nat × Req)
  | .list (p :: rest) => do some (← p.nat?, ← req? rest)
  | _ => none

def image? (x : Sexp) : Option (List (Nat × Array Nat)) := do
  let rs ← x.list?
  rs.mapM fun r => do
    let ns ← r.nats?
    match ns with
    | base :: bytes => some (base, bytes.toArray)
    | [] => none

def mkStore (img : List (Nat × Array Nat)) : Store := fun b =>
  img.foldl (fun acc (rg : Nat × Array Nat) =>
    if rg.1 ≤ b && b < rg.1 + rg.2.size then rg.2.getD (b - rg.1) 0 else acc) 0

def showResp (r : Resp) : String := s!"{r.type} {r.opq} {r.test} {r.len} {r.data}"

def dumpStr (m : Store) (base size : Nat) : String :=
  "(" ++ " ".intercalate ((List.range size).map fun j => toString (m (base + j))) ++ ")"

def dump? : Sexp → Option (Nat × Nat)
  | .list [b, s] => do some (← b.nat?, ← s.nat?)
  | _ => none

def reqs? (x : Sexp) : Option (Array (List Req)) := do
  let ps ← x.list?
  let ls ← ps.mapM fun p => do
    let rs ← p.list?
    rs.mapM fun r => do req? (← r.list?)
  some ls.toArray

def env? (x : Sexp) : Option (Array (Array Nat)) := do
  let cs ← x.list?
  let ls ← cs.mapM fun c => do some (← c.nats?).toArray
  some ls.toArray

def code (env : Array (Array Nat)) (t i : Nat) : Nat := ((env.getD t #[]).getD i 0)

structure Out where
  log : Array String := #[]
  deliv : Array (Array String)

def finish (n : Nat) (out : Out) (m : Store) (d : Nat × Nat) (left : List Nat) : String :=
  let ds := (List.range n).map fun i => "(" ++ " ".intercalate (out.deliv.getD i #[]).toList ++ ")"
  "(" ++ " ".intercalate out.log.toList ++ ") (" ++ " ".intercalate ds ++ ") " ++ dumpStr m d.1 d.2 ++
    " (" ++ " ".intercalate (left.map toString) ++ ")"

def record (n t : Nat) (out : Out) (newLog : List (Nat × Req))
    (newDeliv : Nat → List Resp) : Out := Id.run do
  let mut o := out
  for e in newLog do
    o := { o with log := o.log.push s!"({t} {e.1})" }
  for i in List.range n do
    for r in newDeliv i do
      o := { o with deliv := o.deliv.modify i (·.push s!"({t} {showResp r})") }
  return o

def runCL (n lat : Nat) (m0 : Store) (reqs : Array (List Req)) (env : Array (Array Nat))
    (d : Nat × Nat) : String := Id.run do
  let envf : Nat → Nat → CL.Env := fun t i =>
    let c := code env t i
    ⟨c % 2 == 1, (c / 2) % 2 == 1, (c / 4) % 2 == 1⟩
  let mut s := CL.init lat (fun i => reqs.getD i []) m0
  let mut out : Out := { deliv := Array.replicate n #[] }
  for t in List.range env.size do
    let s' := CL.cycle n (envf t) s
    let s0 := s
    out := record n t out (s'.log.drop s0.log.length)
      (fun i => (s'.ports i).delivered.drop (s0.ports i).delivered.length)
    s := s'
  let sf := s
  let left := (List.range n).map fun i => (reqs.getD i []).length - (procs i sf.log).length
  return finish n out sf.store d left

def runRTL (n extra : Nat) (m0 : Store) (reqs : Array (List Req)) (env : Array (Array Nat))
    (d : Nat × Nat) : String := Id.run do
  let envf : Nat → Nat → RTL.Env := fun t i =>
    let c := code env t i
    ⟨c % 2 == 1, (c / 2) % 2 == 1, (c / 4) % 2 == 1⟩
  let mut s := RTL.init extra (fun i => reqs.getD i []) m0
  let mut out : Out := { deliv := Array.replicate n #[] }
  for t in List.range env.size do
    let s' := RTL.cycle n (envf t) s
    let s0 := s
    out := record n t out (s'.log.drop s0.log.length)
      (fun i => (s'.ports i).delivered.drop (s0.ports i).delivered.length)
    s := s'
  let sf := s
  let left := (List.range n).map fun i => (reqs.getD i []).length - (procs i sf.log).length
  return finish n out sf.store d left

def handle (args : List Sexp) : Option String :=
  match args with
  | [.atom "seq", img, .list log, d] => do
    let lg ← log.mapM tagged?
    let d ← dump? d
    let r := runLog lg (mkStore (← image? img))
    some ("(" ++ " ".intercalate (r.1.map fun e => s!"({e.1} {showResp e.2})") ++ ") " ++ dumpStr r.2 d.1 d.2)
  | [.atom "cl", n, lat, img, reqs, env, d] => do
    some (runCL (← n.nat?) (← lat.nat?) (mkStore (← image? img)) (← reqs? reqs) (← env? env) (← dump? d))
  | [.atom "rtl", n, ex, img, reqs, env, d] => do
    some (runRTL (← n.nat?) (← ex.nat?) (mkStore (← image? img)) (← reqs? reqs) (← env? env) (← dump? d))
  | [.atom "amo", w, t, m, a] => do
    some (toString (amoFun (← w.nat?) (← amoOp? (← t.nat?)) (← m.nat?) (← a.nat?)))
  | _ => none

end PV.Driver.Mem
