import PymtlVerif.Driver.Sexp
/-! Handler `mem` (stub: not built yet). -/
namespace PV.Driver.Mem
open PV

def handle (_args : List Sexp) : Option String := none

end PV.Driver.Mem
