import PymtlVerif.Driver.Sexp
import PymtlVerif.Model.VCD
/-!
Handler `vcd`: executable face of `Model/VCD.lean` for the C16 correspondence check.

Wire format (VCD symbols may contain parentheses, so a symbol travels as the list of its character codes):
* `vcd dump (w…) clk (init…) ((v…)…)`      → the value-change section as text, lines separated by blanks
* `vcd decls (w…) clk (sig-net…)`          → `((w (codes…)) …)` one entry per declared signal
* `vcd replay ((w (codes…))…) (ev…) n`      → `((v|x …) …)` per cycle, per declaration
* `vcd edges (codes…) (ev…)`               → `((t v) …)` timestamped value lines of that symbol
* `vcd wav w (v…)`                          → `(0b… …)` the text-wave record of a w-bit signal
* `vcd symbol n` / `vcd symbols lo cnt`     → `(codes…)` / `((codes…) …)`: `symCodes` of net n / of nets lo … lo+cnt-1
* `vcd sym n`                              → `(codes…)`
* `vcd nettab ((m…)…) (m…)`                 → `ok ((m…)…) <clk|none> ((m n)…)` or `raise`: `netTable` of the value nets (members
  `m` = `(w id)` whole signal, `c` = `s.clk`, `(s id)` slice / bit / field of signal id, `k` constant; enumeration order)
  and the signals in `$var` order: final `trimmed_value_nets`, `vcd_clock_net_idx`, per `$var` line the symbol number
with `ev` = `(t <time>)` or `(c <value token> (codes…))`; the value token is `0`, `1` or `b<digits>` — a `b…`
token stands for the text `b<digits>` followed by the blank that separated it from the symbol in the file.
-/
namespace PV.Driver.Vcd
open PV PV.VCD

def sym? (x : Sexp) : Option String := do
  let cs ← x.nats?
  some (String.ofList (cs.map Char.ofNat))

def symOut (s : String) : String := natsToString (s.toList.map Char.toNat)

def valIn (tok : String) : String :=
  match tok.toList with
  | 'b' :: _ => tok ++ " "
  | _ => tok

def ev? : Sexp → Option Ev
  | .list [.atom "t", t] => do some (.time (← t.nat?))
  | .list [.atom "c", .atom v, s] => do some (.chg (valIn v) (← sym? s))
  | _ => none

def decl? : Sexp → Option (Nat × String)
  | .list [w, s] => do some (← w.nat?, ← sym? s)
  | _ => none

def rows? (x : Sexp) : Option (List (List Nat)) := do
  let xs ← x.list?
  xs.mapM Sexp.nats?

def member? : Sexp → Option Member
  | .atom "c" => some .clk
  | .atom "k" => some .const
  | .list [.atom "w", i] => do some (.whole (← i.nat?))
  | .list [.atom "s", i] => do some (.slice (← i.nat?))
  | _ => none

def memberOut : Member → String
  | .whole i => s!"w{i}"
  | .clk => "c"
  | .slice i => s!"s{i}"
  | .const => "k"

def showOpt : Option Nat → String
  | some v => toString v
  | none => "x"

def handle (args : List Sexp) : Option String :=
  match args with
  | [.atom "dump", ws, clk, init, tr] => do
      let d : Design := { widths := ← ws.nats?, clk := ← clk.nat?, sigs := [] }
      let evs := dump d (← init.nats?) (← rows? tr)
      some (" ".intercalate (evs.map Ev.text))
  | [.atom "decls", ws, clk, sigs] => do
      let d : Design := { widths := ← ws.nats?, clk := ← clk.nat?, sigs := ← sigs.nats? }
      some ("(" ++ " ".intercalate ((decls d).map (fun p => s!"({p.1} {symOut p.2})")) ++ ")")
  | [.atom "replay", .list ds, .list evs, n] => do
      let ds ← ds.mapM decl?
      let evs ← evs.mapM ev?
      let r := replay ds evs (← n.nat?)
      some ("(" ++ " ".intercalate (r.map (fun row => "(" ++ " ".intercalate (row.map showOpt) ++ ")")) ++ ")")
  | [.atom "edges", s, .list evs] => do
      let evs ← evs.mapM ev?
      let r := edgesOf (← sym? s) none evs
      some ("(" ++ " ".intercalate (r.map (fun p => s!"({p.1} {p.2})")) ++ ")")
  | [.atom "wav", w, vals] => do
      some ("(" ++ " ".intercalate (wavRecord (← w.nat?) (← vals.nats?)) ++ ")")
  | [.atom "symbol", n] => do some (natsToString (symCodes (← n.nat?)))
  | [.atom "symbols", lo, cnt] => do
      let lo ← lo.nat?
      let cnt ← cnt.nat?
      some ("(" ++ " ".intercalate ((List.range cnt).map (fun i => natsToString (symCodes (lo + i)))) ++ ")")
  | [.atom "sym", n] => do some (symOut (symbol (← n.nat?)))
  | [.atom "nettab", .list nets, .list decl] => do
      let nets ← nets.mapM (fun n => do (← n.list?).mapM member?)
      let decl ← decl.mapM member?
      match netTable nets decl with
      | none => some "raise"
      | some t =>
        let ns := "(" ++ " ".intercalate (t.nets.map (fun n => "(" ++ " ".intercalate (n.map memberOut) ++ ")")) ++ ")"
        let vs := "(" ++ " ".intercalate (t.vars.map (fun p => s!"({memberOut p.1} {p.2})")) ++ ")"
        some s!"ok {ns} {match t.clk with | some i => toString i | none => "none"} {vs}"
  | _ => none

end PV.Driver.Vcd
