import PymtlVerif.Driver.Sexp
/-! Handler `vcd` (stub: not built yet). -/
namespace PV.Driver.Vcd
open PV

def handle (_args : List Sexp) : Option String := none

end PV.Driver.Vcd
