import PymtlVerif.Driver.Loop
import PymtlVerif.Driver.Arb

def main : IO Unit := PV.runDriver "arb" PV.Driver.Arb.handle
