import PymtlVerif.Driver.Loop
import PymtlVerif.Driver.BitStruct

def main : IO Unit := PV.runDriver "bstruct" PV.Driver.BitStruct.handle
