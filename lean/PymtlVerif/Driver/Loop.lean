import PymtlVerif.Driver.Sexp
/-!
Shared read-eval-print loop of the drivers. Each handler family has its own executable
`pv_<name>` (so that they build and link independently); every request line is
`<name> <sexp>*` and gets exactly one reply line. A malformed request yields `bad-op`
(never a default value): the harness treats it as an infrastructure error, not as a verdict.
-/
namespace PV

def dispatchWith (name : String) (handle : List Sexp → Option String) (line : String) : String :=
  match Sexp.parseLine line with
  | some (.atom h :: args) =>
    if h == "ping" then "pong"
    else if h == name then (handle args).getD "bad-op"
    else "bad-op"
  | _ => "bad-op"

partial def loop (name : String) (handle : List Sexp → Option String)
    (hin hout : IO.FS.Stream) : IO Unit := do
  let line ← hin.getLine
  if line.isEmpty then return ()
  hout.putStrLn (dispatchWith name handle line)
  loop name handle hin hout

def runDriver (name : String) (handle : List Sexp → Option String) : IO Unit := do
  let hin ← IO.getStdin
  let hout ← IO.getStdout
  loop name handle hin hout
  hout.flush

end PV
