import PymtlVerif.Driver.Sexp
/-! Handler `gendag`: stub, filled by its builder. -/
namespace PV.Driver.GenDag
open PV

def handle (_args : List Sexp) : Option String := none

end PV.Driver.GenDag
