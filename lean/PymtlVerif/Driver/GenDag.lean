import PymtlVerif.Driver.Sexp
import PymtlVerif.Driver.Nets
import PymtlVerif.Model.GenDag
/-! Handler `gendag`: executable face of `Model/GenDag.lean` (C02, value constraints of GenDAGPass).

Request:  `gendag run (objs (sid kind host (f…) none|(lo hi))…) (blks (id ff (r…) (w…))…) (uu (a b)…)
                      (rdu (o lt blk)…) (wru (o lt blk)…)`
          objects are encoded as for the `nets` handler; blocks and constraints name objects by their
          index in `objs`; `lt` = 1 for `RD(x) < U`, 0 for `RD(x) > U`.
Reply (one line): `(final (a b)…) (impl (a b)…) (expl (a b)…) (cobjs (a b o)…)` — each list sorted,
          without repetitions; `cobjs` = `constraint_objs` flattened to (pair, object index).
          `gendag topo (pairs (a b)…) (order id…)` → `1`/`0`.
`bad-op` for a malformed request, an index out of range, two table entries for one object, repeated
block ids, a signal whose objects disagree on kind/host, an empty slice.
-/
namespace PV.Driver.GenDag
open PV PV.Nets PV.GenDag

def tagged := PV.Driver.Nets.tagged

def pairLe (x y : Nat × Nat) : Bool := x.1 < y.1 || (x.1 == y.1 && x.2 ≤ y.2)
def tripLe (x y : (Nat × Nat) × Nat) : Bool := (x.1 != y.1 && pairLe x.1 y.1) || (x.1 == y.1 && x.2 ≤ y.2)

def dedupAdj {α : Type} [BEq α] : List α → List α
  | [] => []
  | [a] => [a]
  | a :: b :: l => if a == b then dedupAdj (b :: l) else a :: dedupAdj (b :: l)

def canonPairs (l : List (Nat × Nat)) : List (Nat × Nat) := dedupAdj (l.mergeSort pairLe)

def showPairs (l : List (Nat × Nat)) : String :=
  " ".intercalate ((canonPairs l).map (fun p => s!"({p.1} {p.2})"))

def getObj (tbl : Array Obj) (x : Sexp) : Option Obj := do tbl[(← x.nat?)]?

def blk? (tbl : Array Obj) : Sexp → Option GenDag.Blk
  | .list [i, ff, .list rs, .list ws] => do
      some ⟨← i.nat?, ← ff.bool?, ← rs.mapM (getObj tbl), ← ws.mapM (getObj tbl)⟩
  | _ => none

def pair? : Sexp → Option (Nat × Nat)
  | .list [a, b] => do some (← a.nat?, ← b.nat?)
  | _ => none

def vc? (tbl : Array Obj) : Sexp → Option VC
  | .list [o, lt, b] => do some ⟨← getObj tbl o, ← lt.bool?, ← b.nat?⟩
  | _ => none

def input? (tbl : Array Obj) (b u r w : Sexp) : Option Input := do
  let bs ← (← tagged "blks" b).mapM (blk? tbl)
  let us ← (← tagged "uu" u).mapM pair?
  let rs ← (← tagged "rdu" r).mapM (vc? tbl)
  let ws ← (← tagged "wru" w).mapM (vc? tbl)
  some ⟨bs, us, rs, ws⟩

def showRun (tbl : List Obj) (I : Input) : String :=
  let co := (constraintObjs I).map (fun t => (t.1, tbl.findIdx (· == t.2)))
  let co := dedupAdj (co.mergeSort tripLe)
  let cos := " ".intercalate (co.map (fun t => s!"({t.1.1} {t.1.2} {t.2})"))
  s!"(final {showPairs (valueConstraints I)}) (impl {showPairs (implicitPairs I)}) " ++
  s!"(expl {showPairs (explicitPairs I)}) (cobjs {cos})"

def handle (args : List Sexp) : Option String :=
  match args with
  | [.atom "run", o, b, u, r, w] => do
      let os ← (← tagged "objs" o).mapM PV.Driver.Nets.obj?
      if dedup (os.map Obj.key) != os.map Obj.key then none else
      let I ← input? os.toArray b u r w
      if I.wf then some (showRun os I) else none
  | [.atom "topo", p, o] => do
      let ps ← (← tagged "pairs" p).mapM pair?
      let ord ← (← tagged "order" o).mapM Sexp.nat?
      some (b2s (topoFor ps ord))
  | _ => none

end PV.Driver.GenDag
