import PymtlVerif.Driver.Loop
import PymtlVerif.Driver.CallGraph

def main : IO Unit := PV.runDriver "callgraph" PV.Driver.CallGraph.handle
