import PymtlVerif.Driver.Sexp
import PymtlVerif.Model.HierHook
/-!
Op `hook` of handler `hier`: executable face of `Model/HierHook.lean` (the naming hook as a state
transformer) for the C14 correspondence check "list attributes mutated after assignment".

Request `hier hook (<cls>*)`: the classes of a design, class 0 is the top.
`<cls>`  = `(comp <stmt>*)` | `(ifc <stmt>*)` | `(leaf)`   — the statements of `construct( s )`
`<stmt>` = `(bind a <vexp>)`            `s.a = <vexp>`                         (through the hook: `assign`)
         | `(iadd a <vexp>*)`           `s.a += [ <vexp>* ]`                   (`iadd`)
         | `(ext a (i*) <vexp>*)`       `s.a[i]….extend( [ <vexp>* ] )`, `append`, `+=` on an inner list (`HSt.mutate`)
         | `(ins a (i*) k <vexp>)`      `s.a[i]….insert( k, <vexp> )`
         | `(set a (i*) k <vexp>)`      `s.a[i]…[k] = <vexp>`
         | `(pop a (i*) k)`             `s.a[i]….pop( k )`
`<vexp>` = `(new c)` (a new object of class `c`) | `(none)` | `(list <vexp>*)` (a new list) | `(get a i*)` (`s.a[i]…`)

The interpreter below is glue (trusted, tied by the differential check): it evaluates value expressions
left to right, numbers objects and lists in creation order, calls the model's `assign` / `iadd` /
`HSt.mutate`, and — as `__setattr_for_elaborate__` does by calling `u._construct()` — runs the
statements of the class of every visited object that has a name and is not constructed yet (a component
first gets `clk` and `reset` from `Component._construct`).

Reply `ok (<path> <oid>)* | (<oid> <full|-> <parent oid|-> <level|-> <_my_name|-> (<_my_indices>*))*`:
every access path (public attributes, list indices) from the top that leads to an object, and the `_dsl`
record of every object created; or `err FieldReassignError` / `err AttributeError` / `err fuel`.
-/
namespace PV.Driver.HierHook
open PV PV.Hier

inductive VExp where
  | new (c : Nat)
  | none
  | list (xs : List VExp)
  | get (a : String) (ix : List Nat)

inductive Stmt where
  | bind (a : String) (v : VExp)
  | iadd (a : String) (vs : List VExp)
  | ext (a : String) (ix : List Nat) (vs : List VExp)
  | ins (a : String) (ix : List Nat) (k : Nat) (v : VExp)
  | set (a : String) (ix : List Nat) (k : Nat) (v : VExp)
  | pop (a : String) (ix : List Nat) (k : Nat)

inductive CKind where | comp | ifc | leaf
deriving BEq

structure Cls where
  kind : CKind
  body : List Stmt

partial def vexp? : Sexp → Option VExp
  | .list [.atom "new", c] => do some (.new (← c.nat?))
  | .list [.atom "none"] => some .none
  | .list (.atom "list" :: xs) => do some (.list (← xs.mapM vexp?))
  | .list (.atom "get" :: .atom a :: ix) => do some (.get a (← ix.mapM Sexp.nat?))
  | _ => none

def stmt? : Sexp → Option Stmt
  | .list [.atom "bind", .atom a, v] => do some (.bind a (← vexp? v))
  | .list (.atom "iadd" :: .atom a :: vs) => do some (.iadd a (← vs.mapM vexp?))
  | .list (.atom "ext" :: .atom a :: ix :: vs) => do some (.ext a (← ix.nats?) (← vs.mapM vexp?))
  | .list [.atom "ins", .atom a, ix, k, v] => do some (.ins a (← ix.nats?) (← k.nat?) (← vexp? v))
  | .list [.atom "set", .atom a, ix, k, v] => do some (.set a (← ix.nats?) (← k.nat?) (← vexp? v))
  | .list [.atom "pop", .atom a, ix, k] => do some (.pop a (← ix.nats?) (← k.nat?))
  | _ => none

def cls? : Sexp → Option Cls
  | .list (.atom "comp" :: ss) => do some ⟨.comp, ← ss.mapM stmt?⟩
  | .list (.atom "ifc" :: ss) => do some ⟨.ifc, ← ss.mapM stmt?⟩
  | .list [.atom "leaf"] => some ⟨.leaf, []⟩
  | _ => none

structure Ctx where
  st : HSt
  nobj : Nat                      -- objects are numbered in creation order
  nlst : Nat
  cls : Array (Option Nat)        -- class of every object (`none`: clk / reset, nothing to construct)
  done : Array Bool               -- `_dsl.constructed`
  fuel : Nat

inductive Err where
  | model (e : HErr)
  | fuel
  | bad                           -- the request addresses something that does not exist (malformed)

abbrev M := ExceptT Err (StateM Ctx)

def liftModel (r : Except HErr HSt) : M Unit :=
  match r with
  | .ok st => modify fun c => { c with st := st }
  | .error e => throw (.model e)

def getVal (s : Nat) (a : String) (ix : List Nat) : M HVal := do
  let c ← get
  match (c.st.attrs s).lookup a with
  | some v => match hgetPath v ix with
    | some w => pure w
    | none => throw .bad
  | none => throw .bad

partial def evalV (s : Nat) : VExp → M HVal
  | .new k => do
      let c ← get
      set { c with nobj := c.nobj + 1, cls := c.cls.push (some k), done := c.done.push false }
      pure (.obj c.nobj)
  | .none => pure .other
  | .list xs => do
      let c ← get
      set { c with nlst := c.nlst + 1 }
      let vs ← xs.mapM (evalV s)
      pure (.lst c.nlst vs)
  | .get a ix => getVal s a ix

def listId (s : Nat) (a : String) (ix : List Nat) : M Nat := do
  match ← getVal s a ix with
  | .lst id _ => pure id
  | _ => throw .bad

def newPlain : M HVal := do
  let c ← get
  set { c with nobj := c.nobj + 1, cls := c.cls.push none, done := c.done.push true }
  pure (.obj c.nobj)

mutual
/-- `u._construct()` for every visited object that has a name and is not constructed yet -/
partial def constructVisited (classes : Array Cls) (v : HVal) : M Unit := do
  for (u, _) in visited v do
    let c ← get
    if (c.st.dsl u).isSome && !(c.done.getD u true) then
      set { c with done := c.done.setIfInBounds u true }
      match c.cls.getD u none with
      | some k => construct classes u k
      | none => pure ()

partial def construct (classes : Array Cls) (s : Nat) (k : Nat) : M Unit := do
  let c ← get
  if c.fuel == 0 then throw .fuel
  set { c with fuel := c.fuel - 1 }
  match classes[k]? with
  | none => throw .bad
  | some cl =>
    if cl.kind == .comp then
      for a in ["clk", "reset"] do
        let v ← newPlain
        liftModel (assign (← get).st s a v)
    for stmt in cl.body do exec classes s stmt

partial def exec (classes : Array Cls) (s : Nat) : Stmt → M Unit
  | .bind a ve => do
      let v ← evalV s ve
      liftModel (assign (← get).st s a v)
      constructVisited classes v
  | .iadd a ves => do
      let extra ← ves.mapM (evalV s)
      liftModel (iadd (← get).st s a extra)
      -- the hook walked the whole extended list
      constructVisited classes (← getVal s a [])
  | .ext a ix ves => do
      let id ← listId s a ix
      let extra ← ves.mapM (evalV s)
      modify fun c => { c with st := c.st.mutate id (· ++ extra) }
  | .ins a ix k ve => do
      let id ← listId s a ix
      let v ← evalV s ve
      modify fun c => { c with st := c.st.mutate id (pyInsert k v) }
  | .set a ix k ve => do
      let id ← listId s a ix
      let v ← evalV s ve
      modify fun c => { c with st := c.st.mutate id (·.set k v) }
  | .pop a ix k => do
      let id ← listId s a ix
      modify fun c => { c with st := c.st.mutate id (·.eraseIdx k) }
end

def showDsl (o : Nat) (d : Option Dsl) : String :=
  match d with
  | none => s!"({o} - - - - ())"
  | some d =>
    let par := match d.parent with | some p => toString p | none => "-"
    s!"({o} {render d.full} {par} {d.level} {d.myName} {natsToString d.indices})"

def handle (args : List Sexp) : Option String :=
  match args with
  | [.list cs] => do
      let classes ← cs.mapM cls?
      let classes := classes.toArray
      if classes.isEmpty then none
      let c0 : Ctx := { st := HSt.init 0, nobj := 1, nlst := 0, cls := #[some 0], done := #[true], fuel := 400 }
      let (r, c) := (construct classes 0 0).run.run c0
      match r with
      | .error (.model .fieldReassign) => some "err FieldReassignError"
      | .error (.model .attributeError) => some "err AttributeError"
      | .error .fuel => some "err fuel"
      | .error .bad => none
      | .ok () =>
        let paths := (walkPaths c.st 48 [] (.obj 0)).filterMap fun (p, v) =>
          match v with
          | .obj o => some s!"({render (.root :: p)} {o})"
          | _ => none
        let recs := (List.range c.nobj).map fun o => showDsl o (c.st.dsl o)
        some ("ok " ++ " ".intercalate paths ++ " | " ++ " ".intercalate recs)
  | _ => none

end PV.Driver.HierHook
