import PymtlVerif.Driver.Loop
import PymtlVerif.Driver.Sv

def main : IO Unit := PV.runDriver "sv" PV.Driver.Sv.handle
