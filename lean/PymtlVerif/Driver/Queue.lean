import PymtlVerif.Driver.Sexp
/-! Handler `queue` (stub: not built yet). -/
namespace PV.Driver.Queue
open PV

def handle (_args : List Sexp) : Option String := none

end PV.Driver.Queue
