import PymtlVerif.Driver.Sexp
import PymtlVerif.Model.Queue
/-! Handler `queue`: executable face of `Model/Queue.lean` for the C17 correspondence check.

Requests (one whole history per line; messages are naturals, registers start at 0):
* `queue run  <cls> <n> ((rst enq msg deq) ...)`   outputs of `runCls cls n 0` per cycle
* `queue spec <cls> <n> ((rst enq msg deq) ...)`   outputs of `runSpec (style cls) (kind cls) (cap cls n)`
Reply: one group per cycle separated by `|`: `enqRdy deqRdy ret count` (`ret` is `-` when absent). -/
namespace PV.Driver.Queue
open PV PV.Queue

def cls? : String → Option Cls
  | "qNormal" => some .qNormal | "qPipe" => some .qPipe | "qBypass" => some .qBypass
  | "sNormal" => some .sNormal | "sPipe" => some .sPipe | "sBypass" => some .sBypass
  | "erNormal1" => some .erNormal1 | "erPipe1" => some .erPipe1 | "erBypass1" => some .erBypass1
  | "erBypass2" => some .erBypass2
  | "vrNormal1" => some .vrNormal1 | "vrPipe1" => some .vrPipe1 | "vrBypass1" => some .vrBypass1
  | "vrNormalN" => some .vrNormalN
  | "clNormal" => some .clNormal | "clPipe" => some .clPipe | "clBypass" => some .clBypass
  | _ => none

def in? : Sexp → Option (In Nat)
  | .list [r, e, m, d] => do some ⟨← r.bool?, ← e.bool?, ← m.nat?, ← d.bool?⟩
  | _ => none

def showOut (o : Out Nat) : String :=
  let r := match o.ret with | some m => toString m | none => "-"
  s!"{b2s o.enqRdy} {b2s o.deqRdy} {r} {o.count}"

def showOuts (os : List (Out Nat)) : String :=
  if os.isEmpty then "." else "|".intercalate (os.map showOut)

def handle (args : List Sexp) : Option String :=
  match args with
  | [.atom "run", .atom c, n, .list is] => do
      let c ← cls? c
      let n ← n.nat?
      if n = 0 then none
      let is ← is.mapM in?
      some (showOuts (runCls c n 0 is))
  | [.atom "spec", .atom c, n, .list is] => do
      let c ← cls? c
      let n ← n.nat?
      if n = 0 then none
      let is ← is.mapM in?
      some (showOuts (runSpec c.style c.kind (c.cap n) is))
  | _ => none

end PV.Driver.Queue
