import PymtlVerif.Driver.Loop
import PymtlVerif.Driver.Rtl

def main : IO Unit := PV.runDriver "rtl" PV.Driver.Rtl.handle
