import PymtlVerif.Driver.Loop
import PymtlVerif.Driver.Hier

def main : IO Unit := PV.runDriver "hier" PV.Driver.Hier.handle
