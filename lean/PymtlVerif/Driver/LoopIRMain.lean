import PymtlVerif.Driver.Loop
import PymtlVerif.Driver.LoopIR

def main : IO Unit := PV.runDriver "loopir" PV.Driver.LoopIR.handle
