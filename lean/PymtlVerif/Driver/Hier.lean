import PymtlVerif.Driver.Sexp
/-! Handler `hier` (stub: not built yet). -/
namespace PV.Driver.Hier
open PV

def handle (_args : List Sexp) : Option String := none

end PV.Driver.Hier
