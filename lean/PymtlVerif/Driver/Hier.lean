import PymtlVerif.Driver.Sexp
import PymtlVerif.Model.Hier
import PymtlVerif.Driver.HierHook
/-!
Handler `hier`: executable face of `Model/Hier.lean` for the C14 correspondence check.

Requests
* `hier elab <desc> (<access>*)` — elaborate the description, evaluate the access expressions in
  order; reply `ok (<rec>*)` (sorted by rendered full name, duplicates removed) or
  `err FieldReassignError` / `err BadAccess`.
  `<rec>` = `(full my kind parent level host tls slice toks)`; names are rendered strings, absent = `-`.
* `hier resolve <desc> (<access>*) <toks>` — evaluate a (possibly non-canonical) expression; reply
  `ok <rendered canonical name> <isobj>` or `none`.
* `hier render <toks>` — reply `str <rendered>`.
* `hier hook (<cls>*)` — the naming hook as a state transformer: see `Driver/HierHook.lean`.

`<desc>` = `(comp (name sval)*)` | `(ifc (name sval)*)` | `(mport)` | `(sig wire|in|out ty)`;
`<sval>` = `(one desc)` | `(many sval*)`; `<ty>` = `(bits n)` | `(struct (name fval)*)`;
`<fval>` = `(one ty)` | `(many fval*)`; `<toks>` = `(tok*)` without the leading `s`,
`tok` = `(a name)` | `(i n)` | `(s lo hi)`.
-/
namespace PV.Driver.Hier
open PV PV.Hier

mutual
partial def ty? : Sexp → Option Ty
  | .list [.atom "bits", n] => do some (.mk (.bits (← n.nat?)) [])
  | .list (.atom "struct" :: fs) => do
      let fs ← fs.mapM fun f => match f with
        | .list [.atom name, v] => do some (name, ← fval? v)
        | _ => none
      some (.mk .struct fs)
  | _ => none
partial def fval? : Sexp → Option (SVal TTag)
  | .list [.atom "one", t] => do some (.one (← ty? t))
  | .list (.atom "many" :: xs) => do some (.many (← xs.mapM fval?))
  | _ => none
end

def sigKind? : Sexp → Option SigKind
  | .atom "wire" => some .wire
  | .atom "in" => some .inport
  | .atom "out" => some .outport
  | _ => none

mutual
partial def desc? : Sexp → Option Desc
  | .list (.atom "comp" :: ss) => do some (.mk .comp (← ss.mapM slot?))
  | .list (.atom "ifc" :: ss) => do some (.mk .ifc (← ss.mapM slot?))
  | .list [.atom "mport"] => some (.mk .mport [])
  | .list [.atom "sig", k, t] => do some (.mk (.sig (← sigKind? k) (← ty? t)) [])
  | _ => none
partial def slot? : Sexp → Option (String × SVal DTag)
  | .list [.atom name, v] => do some (name, ← sval? v)
  | _ => none
partial def sval? : Sexp → Option (SVal DTag)
  | .list [.atom "one", d] => do some (.one (← desc? d))
  | .list (.atom "many" :: xs) => do some (.many (← xs.mapM sval?))
  | _ => none
end

def tok? : Sexp → Option Tok
  | .list [.atom "a", .atom name] => some (.attr name)
  | .list [.atom "i", n] => do some (.idx (← n.nat?))
  | .list [.atom "s", lo, hi] => do some (.slice (← lo.nat?) (← hi.nat?))
  | _ => none

def toks? (x : Sexp) : Option (List Tok) := do (← x.list?).mapM tok?

def accs? (x : Sexp) : Option (List (List Tok)) := do (← x.list?).mapM toks?

def showTok : Tok → String
  | .root => "(r)"
  | .attr a => s!"(a {a})"
  | .idx i => s!"(i {i})"
  | .slice lo hi => s!"(s {lo} {hi})"

def showPos (p : Pos) : String := render (.root :: p)

def showKind : Kind → String
  | .comp => "comp" | .ifc => "ifc" | .mport => "mport"
  | .sig .wire => "wire" | .sig .inport => "in" | .sig .outport => "out"

/-- `my_name` has no leading dot: `name[i]…` -/
def showMy : Name → String
  | .attr a :: rest => a ++ String.ofList (renderChars rest)
  | n => render n

def showRec (r : Rec) : String :=
  let opt (o : Option String) := o.getD "-"
  "(" ++ " ".intercalate [render r.full, showMy r.my, showKind r.kind, opt (r.parent.map showPos),
    opt (r.level.map toString), showPos r.host, opt (r.tls.map showPos),
    opt (r.slice.map fun (lo, hi) => s!"{lo}:{hi}"),
    "(" ++ " ".intercalate (r.full.map showTok) ++ ")"] ++ ")"

def sortDedup (xs : List String) : List String :=
  let sorted := (xs.toArray.qsort (· < ·)).toList
  sorted.eraseDups

def handle (args : List Sexp) : Option String :=
  match args with
  | [.atom "elab", d, accs] => do
      let d ← desc? d
      let accs ← accs? accs
      match elabAll d accs with
      | .ok items => some ("ok (" ++ " ".intercalate (sortDedup (items.map fun x => showRec x.1)) ++ ")")
      | .fieldReassign => some "err FieldReassignError"
      | .badAccess => some "err BadAccess"
      | .fuel => none
  | [.atom "resolve", d, ts] => do
      let d ← desc? d
      let ts ← toks? ts
      match resolve d (.root :: ts) with
      | some (pos, v) => some s!"ok {showPos pos} {b2s v.isObj}"
      | none => some "none"
  | [.atom "render", ts] => do
      let ts ← toks? ts
      some ("str " ++ render (.root :: ts))
  | .atom "hook" :: rest => PV.Driver.HierHook.handle rest
  | _ => none

end PV.Driver.Hier
