/-
S-expression line protocol shared by every handler of `pvdriver`.
One request per input line: `<handler> <sexp>*`; one reply line per request.
Atoms are maximal runs of non-blank, non-parenthesis characters.
-/
namespace PV

inductive Sexp where
  | atom (s : String)
  | list (xs : List Sexp)
deriving Repr, Inhabited, BEq

namespace Sexp

partial def render : Sexp → String
  | .atom s => s
  | .list xs => "(" ++ " ".intercalate (xs.map render) ++ ")"

instance : ToString Sexp := ⟨render⟩

/-- tokeniser: "(" ")" and atoms -/
def tokens (s : String) : List String := Id.run do
  let mut out : Array String := #[]
  let mut cur : String := ""
  for c in s.toList do
    if c == '(' || c == ')' then
      if cur != "" then out := out.push cur; cur := ""
      out := out.push (String.singleton c)
    else if c == ' ' || c == '\t' || c == '\n' || c == '\r' then
      if cur != "" then out := out.push cur; cur := ""
    else
      cur := cur.push c
  if cur != "" then out := out.push cur
  return out.toList

/-- parse a token list into a sequence of S-expressions (stack machine, total) -/
def parseSeq (toks : List String) : Option (List Sexp) := Id.run do
  -- stack of partially built lists (innermost first); each is reversed
  let mut stack : List (List Sexp) := []
  let mut cur : List Sexp := []
  for t in toks do
    if t == "(" then
      stack := cur :: stack
      cur := []
    else if t == ")" then
      match stack with
      | [] => return none
      | parent :: rest =>
        cur := Sexp.list cur.reverse :: parent
        stack := rest
    else
      cur := Sexp.atom t :: cur
  if stack.isEmpty then return some cur.reverse else return none

def parseLine (s : String) : Option (List Sexp) := parseSeq (tokens s)

def nat? : Sexp → Option Nat
  | .atom s => s.toNat?
  | _ => none

def int? : Sexp → Option Int
  | .atom s => s.toInt?
  | _ => none

def sym? : Sexp → Option String
  | .atom s => some s
  | _ => none

def list? : Sexp → Option (List Sexp)
  | .list xs => some xs
  | _ => none

def nats? (x : Sexp) : Option (List Nat) := do
  let xs ← x.list?
  xs.mapM nat?

def ints? (x : Sexp) : Option (List Int) := do
  let xs ← x.list?
  xs.mapM int?

def bool? : Sexp → Option Bool
  | .atom "1" => some true
  | .atom "0" => some false
  | .atom "true" => some true
  | .atom "false" => some false
  | _ => none

end Sexp

def natsToString (xs : List Nat) : String :=
  "(" ++ " ".intercalate (xs.map toString) ++ ")"

def b2s (b : Bool) : String := if b then "1" else "0"

end PV
