import PymtlVerif.Driver.Sexp
import PymtlVerif.Model.BitStruct
/-!
Handler `bstruct`: executable face of `Model/BitStruct.lean` for the C06 correspondence check.

Type shapes:  `(b n)` | `(s T1 T2 …)` (struct, fields in declaration order) | `(a k T)` (`[T]*k`).
Values:       `(b n v)` | `(s v1 v2 …)` | `(a v0 v1 …)` (element 0 first).
Replies print values as hash keys: `(b n v)` for a leaf, `(t k1 k2 …)` for a struct or a list.

Requests
* `pack T v`      → `nbits (ok w p | err Class) ((n v)…) ((off w)…) ((off w)…)`
                     = cls.nbits, to_bits(), leaves, absolute leaf offsets, top-level field offsets
* `unpack T n b`  → `(ok key) (ok w p | err Class) ((n v)…)` | `(err Class)`   (from_bits, then to_bits of the result)
* `eq same T v w` → `e p`   (`==` result, packed values equal)
* `script ((cls T)…) (op…)` → one snapshot per op: `((slot v…)…)` visible leaf values of every slot, or `(err Class)` (stops)
    ops: `(new slot cls v)` `(clone slot src)` `(alias slot src)` `(imatmul dst src)` `(ilshift dst src)`
         `(flip slot)` `(wleaf slot k x)` (`leaf k @= x`) `(wslice slot k lo hi x)` (`leaf k[lo:hi] = x`)
         `(nbleaf slot k x)` (`leaf k <<= x`) `(flipleaves slot k n)` (`_flip()` of the sub-instance holding leaves k..k+n-1)
-/
namespace PV.Driver.BitStruct
open PV PV.BitStruct

partial def ty? : Sexp → Option Ty
  | .list [.atom "b", n] => do some (.bits (← n.nat?))
  | .list [.atom "a", k, t] => do some (.arr (← k.nat?) (← ty? t))
  | .list (.atom "s" :: fs) => do
      let ts ← fs.mapM ty?
      some (ts.foldr Ty.pair Ty.unit)
  | _ => none

partial def val? : Sexp → Option Val
  | .list [.atom "b", n, v] => do some (.bits (← n.nat?) (← v.nat?))
  | .list (.atom "s" :: fs) => do
      let vs ← fs.mapM val?
      some (vs.foldr Val.pair Val.unit)
  | .list (.atom "a" :: xs) => do
      let vs ← xs.mapM val?
      some (vs.foldr Val.acons Val.anil)
  | _ => none

def pairsStr (xs : List (Nat × Nat)) : String :=
  "(" ++ " ".intercalate (xs.map fun p => s!"({p.1} {p.2})") ++ ")"

def keyStr (v : Val) : String :=
  hashV (fun n x => s!"(b {n} {x})") (fun ks => "(t" ++ String.join (ks.map (" " ++ ·)) ++ ")") v

def rStr : PV.Bits.R → String
  | .ok b => s!"(ok {b.n} {b.v})"
  | .error e => s!"(err {e.pyClass})"

structure St where
  heap : Heap
  slots : List (Nat × Nat × Inst)      -- slot, class id, instance

def St.get (s : St) (k : Nat) : Option (Nat × Inst) :=
  (s.slots.find? (·.1 == k)).map (·.2)

def St.set (s : St) (k cls : Nat) (i : Inst) : St :=
  { s with slots := (k, cls, i) :: s.slots.filter (·.1 != k) }

def snapshot (s : St) : String :=
  let sorted := s.slots.mergeSort (fun a b => a.1 ≤ b.1)
  "(" ++ " ".intercalate (sorted.map fun (k, _, i) =>
    "(" ++ toString k ++ String.join ((leafVals (read s.heap i)).map fun p => " " ++ toString p.2) ++ ")") ++ ")"

def liftB : Except PV.Bits.Err α → Except Err α
  | .ok a => .ok a
  | .error e => .error (.bits e)

/-- one op; `none` = malformed request -/
def step (classes : List (Nat × Ty)) (s : St) : Sexp → Option (Except Err St)
  | .list [.atom "new", k, c, v] => do
      let k ← k.nat?; let c ← c.nat?; let v ← val? v
      let T ← classes.lookup c
      if !hasTy v T then none
      let r := build s.heap v
      some (.ok ({ s with heap := r.1 }.set k c r.2))
  | .list [.atom "clone", k, j] => do
      let k ← k.nat?; let (c, i) ← s.get (← j.nat?)
      let r := clone s.heap i
      some (.ok ({ s with heap := r.1 }.set k c r.2))
  | .list [.atom "alias", k, j] => do
      let k ← k.nat?; let (c, i) ← s.get (← j.nat?)
      some (.ok (s.set k c i))
  | .list [.atom "imatmul", d, j] => do
      let (cd, id) ← s.get (← d.nat?); let (cs, is) ← s.get (← j.nat?)
      let T ← classes.lookup cd
      some ((imatmul T (cd == cs) s.heap id is).map fun h => { s with heap := h })
  | .list [.atom "ilshift", d, j] => do
      let (cd, id) ← s.get (← d.nat?); let (cs, is) ← s.get (← j.nat?)
      let T ← classes.lookup cd
      some ((ilshift T (cd == cs) s.heap id is).map fun h => { s with heap := h })
  | .list [.atom "flip", d] => do
      let (_, id) ← s.get (← d.nat?)
      some ((flip s.heap id).map fun h => { s with heap := h })
  | .list [.atom "wleaf", d, k, x] => do
      let (_, id) ← s.get (← d.nat?)
      let c ← leafId id (← k.nat?)
      let x ← x.int?
      some ((liftB (PV.Bits.imatmul (s.heap.cell c).cur (.int x))).map fun b =>
        { s with heap := s.heap.upd c { (s.heap.cell c) with cur := b } })
  | .list [.atom "wslice", d, k, lo, hi, x] => do
      let (_, id) ← s.get (← d.nat?)
      let c ← leafId id (← k.nat?)
      let lo ← lo.int?; let hi ← hi.int?; let x ← x.int?
      some ((liftB (PV.Bits.setSlice (s.heap.cell c).cur (some lo) (some hi) none (.int x))).map fun b =>
        { s with heap := s.heap.upd c { (s.heap.cell c) with cur := b } })
  | .list [.atom "flipleaves", d, k, n] => do
      -- `_flip()` of a sub-instance (nested struct / list element): its leaves k .. k+n-1, in order
      let (_, id) ← s.get (← d.nat?)
      let k ← k.nat?; let n ← n.nat?
      let cs := ((cells id).drop k).take n
      if cs.length != n then none
      some ((cs.foldlM (fun h c => leafFlip h c) s.heap).map fun h => { s with heap := h })
  | .list [.atom "nbleaf", d, k, x] => do
      let (_, id) ← s.get (← d.nat?)
      let c ← leafId id (← k.nat?)
      let x ← x.int?
      some ((liftB (PV.Bits.ilshift (s.heap.cell c) (.int x))).map fun r =>
        { s with heap := s.heap.upd c r })
  | _ => none

def runScript (classes : List (Nat × Ty)) : St → List Sexp → List String → Option (List String)
  | _, [], acc => some acc.reverse
  | s, op :: ops, acc =>
    match step classes s op with
    | none => none
    | some (.error e) => some (s!"(err {e.pyClass})" :: acc).reverse
    | some (.ok s') => runScript classes s' ops (snapshot s' :: acc)

def cls? : Sexp → Option (Nat × Ty)
  | .list [c, t] => do some (← c.nat?, ← ty? t)
  | _ => none

def handle (args : List Sexp) : Option String :=
  match args with
  | [.atom "pack", t, v] => do
      let T ← ty? t; let x ← val? v
      if !hasTy x T then none
      let fields := (List.range (fieldTys T).length).map fun i =>
        (fieldOff T i, ((fieldTy T i).map Ty.width).getD 0)
      some s!"{nbitsPy T} {rStr (toBitsPy x)} {pairsStr (leafVals x)} {pairsStr (leafOffs T 0)} {pairsStr fields}"
  | [.atom "unpack", t, n, b] => do
      let T ← ty? t; let n ← n.nat?; let b ← b.nat?
      if b ≥ 2 ^ n then none
      match fromBitsPy T ⟨n, b⟩ with
      | .error e => some s!"(err {e.pyClass})"
      | .ok v => some s!"(ok {keyStr v}) {rStr (toBitsPy v)} {pairsStr (leafVals v)}"
  | [.atom "eq", same, t, v, w] => do
      let T ← ty? t; let x ← val? v; let y ← val? w
      if !(hasTy x T && hasTy y T) then none
      some s!"{b2s (eqCls (← same.bool?) x y)} {b2s ((toBits x).2 == (toBits y).2)}"
  | [.atom "key", t, v] => do
      let T ← ty? t; let x ← val? v
      if !hasTy x T then none
      some (keyStr x)
  | [.atom "script", .list cs, .list ops] => do
      let classes ← cs.mapM cls?
      let out ← runScript classes ⟨Heap.empty, []⟩ ops []
      some (" ".intercalate out)
  | _ => none

end PV.Driver.BitStruct
