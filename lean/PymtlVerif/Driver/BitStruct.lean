import PymtlVerif.Driver.Sexp
/-! Handler `bstruct` (stub: not built yet). -/
namespace PV.Driver.BitStruct
open PV

def handle (_args : List Sexp) : Option String := none

end PV.Driver.BitStruct
