import PymtlVerif.Driver.Loop
import PymtlVerif.Driver.Vcd

def main : IO Unit := PV.runDriver "vcd" PV.Driver.Vcd.handle
