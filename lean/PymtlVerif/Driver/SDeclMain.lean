import PymtlVerif.Driver.Loop
import PymtlVerif.Driver.SDecl

def main : IO Unit := PV.runDriver "sdecl" PV.Driver.SDecl.handle
