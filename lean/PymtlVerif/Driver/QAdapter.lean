import PymtlVerif.Driver.Sexp
import PymtlVerif.Driver.Queue
import PymtlVerif.Model.QAdapter
/-! Handler `qadapter`: executable face of `Model/QAdapter.lean` for the adapter stream of the C17 check.

Requests (one whole history per line; messages are naturals, registers / objects start at 0):
* `qadapter r2c <aliased> <early> <kind> <n> ((rst enq msg deq) ...)`
    RTL producer -> RecvRTL2SendCL -> CL queue of kind `normal|pipe|bypass`, capacity `n`;
    reply per cycle `enqRdy deqRdy ret count cells` with `cells` = the object ids in the queue after the cycle,
    newest first, joined by `,` (`-` when empty; 0 = the live signal object)
* `qadapter c2r <cls> <n> ((rst enq msg deq) ...)`
    CL producer -> RecvCL2SendRTL -> queue class `cls`; reply per cycle
    `recvRdy sendEn enqRdy deqRdy ret count` (the first two are the adapter's, the rest the queue's)
Cycles are separated by `|`. -/
namespace PV.Driver.QAdapter
open PV PV.Queue PV.QAdapter

def kind? : String → Option Kind
  | "normal" => some .normal | "pipe" => some .pipe | "bypass" => some .bypass | _ => none

def showCells (l : List Nat) : String :=
  if l.isEmpty then "-" else ",".intercalate (l.map toString)

def joinCycles (l : List String) : String := if l.isEmpty then "." else "|".intercalate l

def handle (args : List Sexp) : Option String :=
  match args with
  | [.atom "r2c", al, ea, .atom k, n, .list is] => do
      let al ← al.bool?
      let ea ← ea.bool?
      let k ← kind? k
      let n ← n.nat?
      if n = 0 then none
      let is ← is.mapM PV.Driver.Queue.in?
      let os := run (r2cStep al ea k n) (R2C.init 0) is
      let cs := r2cCells al ea k n (R2C.init 0) is
      some (joinCycles ((os.zip cs).map fun (o, c) => PV.Driver.Queue.showOut o ++ " " ++ showCells c))
  | [.atom "c2r", .atom c, n, .list is] => do
      let c ← PV.Driver.Queue.cls? c
      let n ← n.nat?
      if n = 0 then none
      let is ← is.mapM PV.Driver.Queue.in?
      let os := composeCls c n 0 is
      some (joinCycles (os.map fun o => s!"{b2s o.aOut.enqRdy} {b2s o.aOut.deqRdy} " ++ PV.Driver.Queue.showOut o.bOut))
  | _ => none

end PV.Driver.QAdapter
