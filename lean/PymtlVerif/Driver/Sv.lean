import PymtlVerif.Driver.Sexp
import PymtlVerif.Model.SVMod
import PymtlVerif.Model.VTr
import PymtlVerif.Model.Flat
import Std.Data.HashMap
/-!
Handler `sv`: executable face of `Model/SV.lean` (and `Model/VTr.lean`, `Model/Flat.lean`) for the
C03 / C12 correspondence checks.

Requests
* `sv sim <design> <top> <cycles> <obs>` — elaborate the parsed design, report elaboration errors,
  driver conflicts and undriven variables, simulate (`settle`, sample, `tick`, sample per cycle)
  under both readings of the size cast.  A module may carry `(signed x …)`: the variables declared with a signed
  type (`integer x;`); references to them are elaborated to their `$signed` view (`SV.Item.elabS`).
* `sv portmap <yosys?> <path> <dims> <type>` — `Flat.portLeaves`: how one PyMTL port appears in the
  emitted module (name, unpacked element, slice of the packed value).
* `sv blk <backend> <module> <rtlir-block> <parsed-block> <stores>` — semantic tie between the real
  translator and `VTr.trStmt`: execute the parsed always-block and the translation of the block's
  typed RTLIR by the model on every given store (both cast readings) and compare the results.
* `sv safe <backend> <rtlir-block>` — `VTr.signSafeS`: whether the block lies inside the hypothesis of the
  expression / statement theorems (no `< <= > >=` / `%` on two signed operands).
-/
namespace PV.Driver.Sv
open PV PV.SV

/-! ### S-expression → syntax -/

partial def pty? : Sexp → Option PTy
  | .list [.atom "vec", w] => do some (.vec (← w.nat?))
  | .list [.atom "arr", n, t] => do some (.arr (← n.nat?) (← pty? t))
  | .list (.atom "struct" :: .atom name :: fs) => do
      let fs ← fs.mapM fun f => match f with
        | .list [.atom g, t] => do some (g, ← pty? t)
        | _ => none
      some (.struct name (fs.foldr (fun (g, t) acc => .cons g t acc) .nil))
  | _ => none

def unop? : String → Option UnOp
  | "bnot" => some .bnot | "neg" => some .neg | "plus" => some .plus | "lnot" => some .lnot
  | "rand" => some .rand | "ror" => some .ror | "rxor" => some .rxor
  | "rnand" => some .rnand | "rnor" => some .rnor | "rxnor" => some .rxnor | _ => none

def binop? : String → Option BinOp
  | "add" => some .add | "sub" => some .sub | "mul" => some .mul | "div" => some .div | "mod" => some .mod
  | "pow" => some .pow | "shl" => some .shl | "shr" => some .shr | "band" => some .band | "bor" => some .bor
  | "bxor" => some .bxor | "bxnor" => some .bxnor | "eq" => some .eq | "ne" => some .ne | "lt" => some .lt
  | "le" => some .le | "gt" => some .gt | "ge" => some .ge | "land" => some .land | "lor" => some .lor
  | "ashr" => some .ashr
  | _ => none

/-- `{a, b, c}` → `concat a (concat b c)`; `{a}` → `cat1 a` -/
def catOf : List Expr → Option Expr
  | [] => none
  | [e] => some (.cat1 e)
  | [a, b] => some (.concat a b)
  | a :: rest => do some (.concat a (← catOf rest))

partial def expr? : Sexp → Option Expr
  | .list [.atom "lit", w, v] => do some (.lit (← w.nat?) (← v.nat?))
  | .list [.atom "num", v] => do some (.num (← v.nat?))
  | .list [.atom "id", .atom x] => some (.ident x)
  | .list [.atom "mem", e, .atom f] => do some (.member (← expr? e) f)
  | .list [.atom "idx", e, i] => do some (.index (← expr? e) (← expr? i))
  | .list [.atom "rng", e, h, l] => do some (.range (← expr? e) (← expr? h) (← expr? l))
  | .list [.atom "psel", e, b, w] => do some (.plusSel (← expr? e) (← expr? b) (← expr? w))
  | .list (.atom "cat" :: es) => do catOf (← es.mapM expr?)
  | .list (.atom "rep" :: n :: es) => do
      let inner ← catOf (← es.mapM expr?)
      some (.repl (← expr? n) inner)
  | .list [.atom "un", .atom op, e] => do some (.un (← unop? op) (← expr? e))
  | .list [.atom "bin", .atom op, a, b] => do some (.bin (← binop? op) (← expr? a) (← expr? b))
  | .list [.atom "cond", c, t, f] => do some (.cond (← expr? c) (← expr? t) (← expr? f))
  | .list [.atom "cast", w, e] => do some (.cast (← w.nat?) (← expr? e))
  | .list [.atom "sgn", e] => do some (.sgn (← expr? e))
  | _ => none

partial def stmt? : Sexp → Option Stmt
  | .list (.atom "block" :: ss) => do some (seqOf (← ss.mapM stmt?))
  | .list [.atom "if", c, t, e] => do some (.ite (← expr? c) (← stmt? t) (← stmt? e))
  | .list [.atom "for", d, .atom v, i, c, st, b] => do
      some (.for_ (← d.bool?) v (← expr? i) (← expr? c) (← expr? st) (← stmt? b))
  | .list [.atom "b", l, r] => do some (.blocking (← expr? l) (← expr? r))
  | .list [.atom "nb", l, r] => do some (.nonblocking (← expr? l) (← expr? r))
  | _ => none

def decl? (t dims : Sexp) : Option Decl := do some ⟨← pty? t, ← dims.nats?⟩

def item? : Sexp → Option Item
  | .list [.atom "comb", .atom n, b] => do some (.comb n (← stmt? b))
  | .list [.atom "ff", .atom n, .atom clk, b] => do some (.ff n clk (← stmt? b))
  | .list [.atom "assign", l, r] => do some (.assign (← expr? l) (← expr? r))
  | .list [.atom "inst", .atom m, .atom i, .list conns] => do
      let cs ← conns.mapM fun c => match c with
        | .list [.atom p, e] => do some (p, ← expr? e)
        | _ => none
      some (.inst m i cs)
  | _ => none

/-- the names a module declares with a signed type: `(signed x y …)`, the optional seventh member -/
def moduleSigned? : Sexp → Option (List String)
  | .list [.atom "module", _, _, _, _, _] => some []
  | .list [.atom "module", _, _, _, _, _, .list (.atom "signed" :: xs)] => xs.mapM Sexp.sym?
  | _ => none

def moduleCore? : Sexp → Option Module
  | .list [.atom "module", .atom name, .list (.atom "ports" :: ps), .list (.atom "decls" :: ds),
           .list (.atom "params" :: qs), .list (.atom "items" :: is)] => do
      let ports ← ps.mapM fun p => match p with
        | .list [.atom d, .atom x, t, dims] => do
            let dir ← (if d == "input" then some Dir.input else if d == "output" then some Dir.output else none)
            some (⟨dir, x, ← decl? t dims⟩ : Port)
        | _ => none
      let decls ← ds.mapM fun d => match d with
        | .list [.atom x, t, dims] => do some (x, ← decl? t dims)
        | _ => none
      let params ← qs.mapM fun q => match q with
        | .list [.atom x, t, dims, .list init] => do some (⟨x, ← decl? t dims, ← init.mapM expr?⟩ : Param)
        | _ => none
      some ⟨name, ports, decls, params, ← is.mapM item?⟩
  | _ => none

/-- a module; references to its variables of a signed type are elaborated (`SV.Item.elabS`) -/
def module? (x : Sexp) : Option Module := do
  let sg ← moduleSigned? x
  let core ← match x with
    | .list [a, b, c, d, e, f, _] => moduleCore? (.list [a, b, c, d, e, f])
    | _ => moduleCore? x
  some (if sg.isEmpty then core else { core with items := core.items.map (Item.elabS sg) })

def design? : Sexp → Option (List Module)
  | .list (.atom "design" :: ms) => ms.mapM module?
  | _ => none

/-! ### static well-formedness of the elaborated design -/

/-- every select chain resolves against the declarations (a select of a concatenation is a value select) -/
partial def illTyped (Γ : Env) : Expr → List String
  | .lit _ _ => [] | .num _ => []
  | .ident x => if (Γ x).isNone then ["undeclared:" ++ x] else []
  | .member e f =>
    illTyped Γ e ++ (if (typeOf Γ (.member e f)).isNone then ["no-member:" ++ f] else [])
  | .index e i =>
    let isCat := match e with | .concat _ _ => true | .cat1 _ => true | .repl _ _ => true | _ => false
    let oor : Bool := match constVal i, typeOf Γ e with          -- a constant index outside the declared range
      | some iv, some ⟨_, d :: _⟩ => decide (iv ≥ d)
      | some iv, some ⟨.arr n _, []⟩ => decide (iv ≥ n)
      | some iv, some ⟨.vec w, []⟩ => decide (iv ≥ w)
      | _, _ => false
    illTyped Γ e ++ illTyped Γ i ++ (if !isCat && (typeOf Γ (.index e i)).isNone then ["bad-index"] else [])
      ++ (if oor then ["index-out-of-range"] else [])
  | .range e h l =>
    let isCat := match e with | .concat _ _ => true | .cat1 _ => true | .repl _ _ => true | _ => false
    illTyped Γ e ++ (if (constVal h).isNone || (constVal l).isNone then ["non-constant-range"] else [])
      ++ (if !isCat && (typeOf Γ (.range e h l)).isNone then ["bad-range"] else [])
  | .plusSel e b w =>
    illTyped Γ e ++ illTyped Γ b ++ (if (typeOf Γ (.plusSel e b w)).isNone then ["bad-part-select"] else [])
  | .cat1 e => illTyped Γ e
  | .concat a b => illTyped Γ a ++ illTyped Γ b
  | .repl n e => (if (constVal n).isNone then ["non-constant-replication"] else []) ++ illTyped Γ e
  | .un _ e => illTyped Γ e
  | .bin _ a b => illTyped Γ a ++ illTyped Γ b
  | .cond c t f => illTyped Γ c ++ illTyped Γ t ++ illTyped Γ f
  | .cast _ e => illTyped Γ e
  | .sgn e => illTyped Γ e

partial def illTypedStmt (Γ : Env) : Stmt → List String
  | .skip => []
  | .blocking l r => illTyped Γ l ++ illTyped Γ r ++ (if (typeOf Γ l).isNone then ["bad-lvalue"] else [])
  | .nonblocking l r => illTyped Γ l ++ illTyped Γ r ++ (if (typeOf Γ l).isNone then ["bad-lvalue"] else [])
  | .ite c t e => illTyped Γ c ++ illTypedStmt Γ t ++ illTypedStmt Γ e
  | .seq a b => illTypedStmt Γ a ++ illTypedStmt Γ b
  | .for_ d v i c st b =>
    let Γ' := if d then Γ.extend v intDecl else Γ
    (if (Γ' v).isNone then ["undeclared:" ++ v] else []) ++ illTyped Γ' i ++ illTyped Γ' c ++ illTyped Γ' st ++ illTypedStmt Γ' b

def elabErrors (F : Flat) (Γ : Env) : List String :=
  (F.errors ++ F.procs.flatMap fun p => (illTypedStmt Γ p.body).map fun e => e ++ "@" ++ p.name).eraseDups

/-- the environment `envOf decls` (first declaration of a name wins), looked up through a hash map -/
def declMap (decls : List (String × Decl)) : Std.HashMap String Decl :=
  decls.foldl (fun m (x, d) => if m.contains x then m else m.insert x d) {}

@[noinline] def envOfMap (m : Std.HashMap String Decl) : Env := fun x => m[x]?

/-! ### simulation request -/

def showNats (xs : List Nat) : String := "(" ++ " ".intercalate (xs.map toString) ++ ")"
def showStrs (xs : List String) : String := "(" ++ " ".intercalate xs ++ ")"

/-- all identifiers of a process are declared and its targets resolve -/
def undeclared (Γ : Env) (F : Flat) : List String :=
  (F.procs.flatMap fun p => (rset p.body)).filter (fun x => (Γ x).isNone) |>.eraseDups

structure Cyc where
  sets : List (String × Nat × Nat)

def cycles? (x : Sexp) : Option (List Cyc) := do
  let cs ← x.list?
  cs.mapM fun c => do
    let ss ← c.list?
    let sets ← ss.mapM fun s => match s with
      | .list [.atom n, e, v] => do some (n, ← e.nat?, ← v.nat?)
      | _ => none
    some ⟨sets⟩

def sample (_F : Flat) (Γ : Env) (σ : Store) (obs : List String) : String :=
  "(" ++ " ".intercalate (obs.map fun x => match Γ x with
      | some d => showNats (readVar σ x d)
      | none => "()") ++ ")"

/-- trace of one run: per cycle "(after-settle after-tick)"; stops with a tag on instability -/
def runSim (castB : Bool) (F : Flat) (Γ : Env) (cycles : List Cyc) (obs : List String) : String := Id.run do
  let mut s : XS := ⟨initStore F.decls, [], false⟩
  let mut out : Array String := #[]
  let mut k := 0
  for c in cycles do
    for (n, e, v) in c.sets do
      s := { s with σ := s.σ.set (n, e) v }
    match settle castB F Γ s with
    | none => return "(unstable " ++ toString k ++ " " ++ " ".intercalate out.toList ++ ")"
    | some s1 =>
      let a := sample F Γ s1.σ obs
      match tick castB F Γ s1 with
      | none => return "(unstable " ++ toString k ++ " " ++ " ".intercalate out.toList ++ ")"
      | some s2 =>
        if s2.fuelOut then return "(fuel " ++ toString k ++ " " ++ " ".intercalate out.toList ++ ")"
        out := out.push ("(" ++ a ++ " " ++ sample F Γ s2.σ obs ++ ")")
        s := s2
    k := k + 1
  return "(trace " ++ " ".intercalate out.toList ++ ")"

def procLabel (F : Flat) (i : Nat) : String :=
  -- positions 0..inputs-1 are the environment drivers of the input ports
  if i < F.inputs.length then "input:" ++ (F.inputs.getD i "?")
  else match F.procs[i - F.inputs.length]? with
    | some p => (match p.kind with | .comb => "always_comb:" | .ff => "always_ff:" | .assign => "assign:" | .param => "localparam:") ++ p.name
    | none => "?"

/-- order the processes so that writers come before readers where possible (Kahn on variable names);
    the settled store does not depend on the order (`settle` sweeps until nothing changes), this only
    saves sweeps -/
instance : Inhabited Proc := ⟨⟨.comb, "", .skip⟩⟩

def topoProcs (Γ : Env) (ps : List Proc) : List Proc := Id.run do
  let arr := ps.toArray
  let n := arr.size
  let ws : Array (List String) := arr.map fun p => ((wset Γ p.body).map (·.x)).eraseDups
  let rs : Array (List String) := arr.map fun p => (rset p.body).eraseDups
  let mut writers : Std.HashMap String (List Nat) := {}
  for i in [0:n] do
    for x in ws[i]! do
      writers := writers.insert x (i :: (writers.getD x []))
  -- indegree = number of distinct other processes writing something this process reads
  let mut preds : Array (List Nat) := Array.replicate n []
  for i in [0:n] do
    let mut ps : List Nat := []
    for x in rs[i]! do
      for j in writers.getD x [] do
        if j != i && !ps.contains j then ps := j :: ps
    preds := preds.set! i ps
  let mut done : Array Bool := Array.replicate n false
  let mut out : Array Proc := #[]
  -- repeated passes: emit every process all of whose predecessors are emitted; break cycles by position
  for _ in [0:n] do
    let mut progress := false
    for i in [0:n] do
      if !done[i]! && (preds[i]!).all (fun j => done[j]!) then
        out := out.push arr[i]!; done := done.set! i true; progress := true
    if !progress then
      match (List.range n).find? (fun i => !done[i]!) with
      | some i => out := out.push arr[i]!; done := done.set! i true
      | none => break
  return out.toList

def simReply (mods : List Module) (top : String) (cycles : List Cyc) (obs : List String) : String :=
  let F := flatten mods top
  let dm := declMap F.decls
  let Γ := envOfMap dm
  let errs := elabErrors F Γ
  let ws := F.wsets
  let confl := driverConflicts ws
  let multi := confl.map fun (i, j, x) => "(" ++ x ++ " " ++ procLabel F i ++ " " ++ procLabel F j ++ ")"
  let und := undriven F ws
  let Fs := { F with procs := topoProcs Γ F.procs }
  let t0 := runSim false Fs Γ cycles obs
  let t1 := runSim true Fs Γ cycles obs
  "ok (errors " ++ " ".intercalate errs ++ ") (multi " ++ " ".intercalate multi ++ ") (undriven " ++
    " ".intercalate und ++ ") (castB " ++ (if t0 == t1 then "same" else "diff") ++ ") " ++ t0

/-! ### port map -/

def tok? : Sexp → Option Flat.Tok
  | .list [.atom "fld", .atom f] => some (.fld f)
  | .list [.atom "idx", i] => do some (.idx (← i.nat?))
  | _ => none

def portmapReply (yosys : Bool) (path : List Flat.Tok) (dims : List Nat) (ty : PTy) : String :=
  "ok " ++ " ".intercalate ((Flat.portLeaves yosys path dims ty).map fun l =>
    s!"({l.svName} {l.elem} {l.msb} {l.lsb})")

/-! ### typed RTLIR (Model/VTr.lean) -/
open PV.VTr in
def rbin? : String → Option RBin
  | "add" => some .add | "sub" => some .sub | "mul" => some .mul | "mod" => some .mod | "and" => some .and
  | "or" => some .or | "xor" => some .xor | "shl" => some .shl | "shr" => some .shr | _ => none
open PV.VTr in
def rcmp? : String → Option RCmp
  | "eq" => some .eq | "ne" => some .ne | "lt" => some .lt | "le" => some .le | "gt" => some .gt | "ge" => some .ge
  | _ => none
open PV.VTr in
def rop? : String → Option ROp
  | "and" => some .and | "or" => some .or | "xor" => some .xor | _ => none

open PV.VTr in
def rcatOf : List RExpr → Option RExpr
  | [] => none
  | [e] => some (.cat1 e)
  | [a, b] => some (.concat a b)
  | a :: rest => do some (.concat a (← rcatOf rest))

open PV.VTr in
partial def rexpr? : Sexp → Option RExpr
  | .list [.atom "num", w, v] => do some (.num (← w.nat?) (← v.nat?))
  | .list [.atom "castC", w, v] => do some (.castC (← w.nat?) (← v.nat?))
  | .list [.atom "cast", w, e] => do some (.cast (← w.nat?) (← rexpr? e))
  | .list [.atom "sig", .atom x, w] => do some (.sig x (← w.nat?))
  | .list [.atom "const", .atom x, w, v] => do some (.const x (← w.nat?) (← v.nat?))
  | .list [.atom "freevar", .atom x, w, v] => do some (.freevar x (← w.nat?) (← v.nat?))
  | .list [.atom "loopvar", .atom b, .atom x, w] => do some (.loopvar b x (← w.nat?))
  | .list [.atom "tmpvar", .atom x, w, ex] => do some (.tmpvar x (← w.nat?) (← ex.bool?))
  | .list [.atom "field", e, .atom f, w] => do some (.field (← rexpr? e) f (← w.nat?))
  | .list [.atom "index", e, i, w] => do some (.index (← rexpr? e) (← rexpr? i) (← w.nat?))
  | .list [.atom "slice", e, lo, hi, lw, uw] => do
      some (.slice (← rexpr? e) (← lo.nat?) (← hi.nat?) (← lw.nat?) (← uw.nat?))
  | .list [.atom "partsel", e, b, w] => do some (.partsel (← rexpr? e) (← rexpr? b) (← w.nat?))
  | .list (.atom "cat" :: es) => do rcatOf (← es.mapM rexpr?)
  | .list [.atom "zext", w, e] => do some (.zext (← w.nat?) (← rexpr? e))
  | .list [.atom "sext", w, e] => do some (.sext (← w.nat?) (← rexpr? e))
  | .list [.atom "trunc", w, e] => do some (.trunc (← w.nat?) (← rexpr? e))
  | .list [.atom "reduce", .atom op, e] => do some (.reduce (← rop? op) (← rexpr? e))
  | .list [.atom "inv", e] => do some (.inv (← rexpr? e))
  | .list [.atom "bin", .atom op, a, b] => do some (.bin (← rbin? op) (← rexpr? a) (← rexpr? b))
  | .list [.atom "cmp", .atom op, a, b] => do some (.cmp (← rcmp? op) (← rexpr? a) (← rexpr? b))
  | .list [.atom "ifexp", c, t, f] => do some (.ifexp (← rexpr? c) (← rexpr? t) (← rexpr? f))
  | _ => none

open PV.VTr in
def rseqOf : List RStmt → RStmt
  | [] => .skip
  | [s] => s
  | s :: rest => .seq s (rseqOf rest)

open PV.VTr in
partial def rstmt? : Sexp → Option RStmt
  | .list (.atom "seq" :: ss) => do some (rseqOf (← ss.mapM rstmt?))
  | .list [.atom "assign", b, l, r] => do some (.assign (← b.bool?) (← rexpr? l) (← rexpr? r))
  | .list [.atom "if", c, t, e] => do some (.ite (← rexpr? c) (← rstmt? t) (← rstmt? e))
  | .list [.atom "for", .atom blk, .atom x, a, b, st, neg, sw, ew, pw, body] => do
      some (.for_ blk x (← a.nat?) (← b.nat?) (← st.nat?) (← neg.bool?) (← sw.nat?) (← ew.nat?) (← pw.nat?) (← rstmt? body))
  | _ => none

def backend? : Sexp → Option VTr.Backend
  | .atom "verilog" => some .verilog
  | .atom "yosys" => some .yosys
  | _ => none

/-- declarations of one module: ports, variables, localparams -/
def moduleDecls (m : Module) : List (String × Decl) :=
  (m.ports.map fun q => (q.name, q.decl)) ++ m.decls ++ (m.params.map fun q => (q.name, q.decl))

def storeOf (decls : List (String × Decl)) (sets : List (String × Nat × Nat)) : Store :=
  sets.foldl (fun σ (n, e, v) => σ.set (n, e) v) (initStore decls)

def dumpStore (decls : List (String × Decl)) (σ : Store) : List (String × List Nat) :=
  decls.map fun (x, d) => (x, readVar σ x d)

/-- run both statements on one store; `none` = same final store (pending updates committed) -/
def blkDiff (cb : Bool) (decls : List (String × Decl)) (Γ : Env) (params : List Proc) (a b : Stmt)
    (sets : List (String × Nat × Nat)) : Option String :=
  let σ0 := (runProcs cb Γ params ⟨storeOf decls sets, [], false⟩).σ
  let ra := exec cb Γ a ⟨σ0, [], false⟩
  let rb := exec cb Γ b ⟨σ0, [], false⟩
  let da := dumpStore decls (commit ra.σ ra.nba)
  let db := dumpStore decls (commit rb.σ rb.nba)
  if ra.fuelOut != rb.fuelOut then some "fuel" else
  match (da.zip db).find? (fun (x, y) => x.2 != y.2) with
  | some (x, y) => some s!"({x.1} {showNats x.2} {showNats y.2})"
  | none => none

def blkReply (be : VTr.Backend) (m : Module) (r : VTr.RStmt) (parsed : Stmt) (stores : List (List (String × Nat × Nat))) : String :=
  let decls := moduleDecls m
  let dm := declMap decls
  let Γ := envOfMap dm
  let params := m.params.map (paramProc "")
  let model := VTr.trStmt be r
  let errs := (illTypedStmt Γ model).eraseDups
  if !errs.isEmpty then "model-ill-typed " ++ " ".intercalate errs else
  let rec go (k : Nat) : List (List (String × Nat × Nat)) → String
    | [] => "same"
    | s :: rest =>
      match blkDiff false decls Γ params parsed model s with
      | some d => s!"diff {k} castA {d}"
      | none =>
        match blkDiff true decls Γ params parsed model s with
        | some d => s!"diff {k} castB {d}"
        | none => go (k + 1) rest
  go 0 stores

def sets? (x : Sexp) : Option (List (String × Nat × Nat)) := do
  let ss ← x.list?
  ss.mapM fun s => match s with
    | .list [.atom n, e, v] => do some (n, ← e.nat?, ← v.nat?)
    | _ => none

def handle (args : List Sexp) : Option String :=
  match args with
  | [.atom "portmap", y, path, dims, ty] => do
      some (portmapReply (← y.bool?) (← (← path.list?).mapM tok?) (← dims.nats?) (← pty? ty))
  | [.atom "blk", be, m, r, parsed, stores] => do
      some (blkReply (← backend? be) (← module? m) (← rstmt? r) ((← stmt? parsed).elabS (← moduleSigned? m))
        (← (← stores.list?).mapM sets?))
  | [.atom "safe", be, r] => do
      some (if VTr.signSafeS (← backend? be) (← rstmt? r) then "safe" else "signed-operator")
  | [.atom "sim", d, .atom top, cyc, obs] => do
      let mods ← design? d
      let cycles ← cycles? cyc
      let obs ← (← obs.list?).mapM Sexp.sym?
      some (simReply mods top cycles obs)
  | _ => none

end PV.Driver.Sv
