import PymtlVerif.Driver.Sexp
/-! Handler `sv` (stub: not built yet). -/
namespace PV.Driver.Sv
open PV

def handle (_args : List Sexp) : Option String := none

end PV.Driver.Sv
