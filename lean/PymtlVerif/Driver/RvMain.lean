import PymtlVerif.Driver.Loop
import PymtlVerif.Driver.Rv

def main : IO Unit := PV.runDriver "rv" PV.Driver.Rv.handle
