import PymtlVerif.Driver.Loop
import PymtlVerif.Driver.Meta

def main : IO Unit := PV.runDriver "meta" PV.Driver.Meta.handle
