import PymtlVerif.Driver.Loop
import PymtlVerif.Driver.AstRW

def main : IO Unit := PV.runDriver "astrw" PV.Driver.AstRW.handle
