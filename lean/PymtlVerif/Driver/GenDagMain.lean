import PymtlVerif.Driver.Loop
import PymtlVerif.Driver.GenDag

def main : IO Unit := PV.runDriver "gendag" PV.Driver.GenDag.handle
