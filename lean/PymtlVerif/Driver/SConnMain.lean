import PymtlVerif.Driver.Loop
import PymtlVerif.Driver.SConn

def main : IO Unit := PV.runDriver "sconn" PV.Driver.SConn.handle
