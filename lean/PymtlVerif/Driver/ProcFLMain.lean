import PymtlVerif.Driver.Loop
import PymtlVerif.Driver.ProcFL

def main : IO Unit := PV.runDriver "procfl" PV.Driver.ProcFL.handle
