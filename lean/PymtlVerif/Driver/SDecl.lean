import PymtlVerif.Driver.Sexp
import PymtlVerif.Model.SDecl
import PymtlVerif.Model.SDeclPath
/-!
Handler `sdecl`: executable face of `Model/SDecl.lean` (declarations, instances and operand rendering of the structural
translators of the SystemVerilog and the Yosys backend).

`sdecl module <verilog|yosys> (ports <sig>…) (wires <sig>…) (ifcs <ifc>…) (subs <sub>…) (conns (<end> <end>)…)`

* `<sig>`  = `(name (dims…) <input|output|wire> <ty>)`, `<ty>` = `(vec w)` | `(arr n ty)` | `(struct name (f ty)…)`;
* `<ifc>`  = `(name (dims…) (<member>…))`, `<member>` = `(port name (dims…) dir ty)` | `(ifc name (dims…) (<member>…))`;
* `<sub>`  = `(name (dims…) (module-name…) (<sig>…) (<ifc>…))` — one module name per element, row-major;
* `<end>`  = `(sig <none|(lo hi)> (kind name idx…)…)` — the frames `_my_name` / `_my_indices` from the signal up to (excluding) the
             component, innermost first, `kind` = what the object is (c / i / p / w / f) — | `(const w v)` | `(other)`.

Reply (one line, every section in the order of the model):
verilog: `ports <none|((dir ident ty (dims))…)> wires (…) subwires (…) insts ((ident mod ((formal wire (idx…))…))…) conns (<c>…)`
yosys:   `ports ((dir ident msb)…) wires ((ident msb (dims))…) subports (…) insts (…) pconns ((dir pid wid (sel…))…) sconns (…) conns (<c>…)`
`<c>` = `(<e> <e>)`, `<e>` = `(sig <toks> <sexp|none> <ref|none> <q> <shape 0|1>)` | `(const w v)` | `(other)`;
`<ref>` = `(ident (sel…))`, `sel` = `(i n)` | `(f name)` | `(r msb lsb)`.
-/
namespace PV.Driver.SDecl
open PV PV.SV PV.SDecl PV.Names

partial def pty? : Sexp → Option PTy
  | .list [.atom "vec", w] => do some (.vec (← w.nat?))
  | .list [.atom "arr", n, t] => do some (.arr (← n.nat?) (← pty? t))
  | .list (.atom "struct" :: .atom name :: fs) => do
      let fs ← fs.mapM fun f => match f with
        | .list [.atom g, t] => do some (g, ← pty? t)
        | _ => none
      some (.struct name (fs.foldr (fun (g, t) acc => .cons g t acc) .nil))
  | _ => none

def dir? : Sexp → Option Dir
  | .atom "input" => some .input
  | .atom "output" => some .output
  | .atom "wire" => some .wire
  | _ => none

def sig? : Sexp → Option Sig
  | .list [.atom n, dims, d, t] => do some ⟨n, ← dims.nats?, ← dir? d, ← pty? t⟩
  | _ => none

partial def members? : List Sexp → Option Members
  | [] => some .nil
  | .list [.atom "port", .atom n, dims, d, t] :: rest => do
      some (.port n (← dims.nats?) (← dir? d) (← pty? t) (← members? rest))
  | .list [.atom "ifc", .atom n, dims, .list sub] :: rest => do
      some (.ifc n (← dims.nats?) (← members? sub) (← members? rest))
  | _ => none

def ifc? : Sexp → Option IfcE
  | .list [.atom n, dims, .list ms] => do some ⟨n, ← dims.nats?, ← members? ms⟩
  | _ => none

def sub? : Sexp → Option Sub
  | .list [.atom n, dims, .list mods, .list ps, .list is] => do
      some ⟨n, ← dims.nats?, ← mods.mapM Sexp.sym?, ← ps.mapM sig?, ← is.mapM ifc?⟩
  | _ => none

def tagged? (tag : String) : Sexp → Option (List Sexp)
  | .list (.atom t :: rest) => if t == tag then some rest else none
  | _ => none

inductive End where
  | sig (sl : Option (Nat × Nat)) (frames : List Frame) (kinds : List String)
  | const (w v : Nat)
  | other

def frame? : Sexp → Option (Frame × String)
  | .list (.atom k :: .atom n :: ix) => do some (⟨n, ← ix.mapM Sexp.nat?⟩, k)
  | _ => none

/-- the object path the harness classified (kinds: c = component, i = interface, p = port, w = wire, f = field of the signal's
struct), outermost first -/
def opathOf (sl : Option (Nat × Nat)) (frames : List (Frame × String)) : Option OPath :=
  let (comp, rest) : Option (String × List Nat) × List (Frame × String) := match frames with
    | (f, "c") :: r => (some (f.name, f.idxs), r)
    | r => (none, r)
  let ifcs := rest.takeWhile (fun x => x.2 == "i")
  match rest.dropWhile (fun x => x.2 == "i") with
  | (f, k) :: flds =>
    if (k == "p" || k == "w") && flds.all (fun x => x.2 == "f") then
      let packed := flds.flatMap (fun x => PStep.fld x.1.name :: x.1.idxs.map PStep.pidx)
      let slice := match sl with | some (a, b) => [PStep.slice a b] | none => []
      some ⟨comp, ifcs.map (fun x => (x.1.name, x.1.idxs)), f.name, f.idxs, k == "w", packed ++ slice⟩
    else none
  | [] => none

def end? : Sexp → Option End
  | .list (.atom "sig" :: sl :: frames) => do
      let sl ← match sl with
        | .atom "none" => some none
        | .list [a, b] => do some (some (← a.nat?, ← b.nat?))
        | _ => none
      let fs ← frames.mapM frame?
      some (.sig sl (fs.map (·.1)) (fs.map (·.2)))
  | .list [.atom "const", w, v] => do some (.const (← w.nat?) (← v.nat?))
  | .list [.atom "other"] => some .other
  | _ => none

def conn? : Sexp → Option (End × End)
  | .list [a, b] => do some (← end? a, ← end? b)
  | _ => none

/-! ### output -/

def showNats (xs : List Nat) : String := "(" ++ " ".intercalate (xs.map toString) ++ ")"
def par (xs : List String) : String := "(" ++ " ".intercalate xs ++ ")"

def showDir : Dir → String
  | .input => "input" | .output => "output" | .wire => "wire"

mutual
  partial def showTy : PTy → String
    | .vec w => s!"(vec {w})"
    | .arr n e => s!"(arr {n} {showTy e})"
    | .struct nm fs => s!"(struct {nm}{showFields fs})"
  partial def showFields : Fields → String
    | .nil => ""
    | .cons f t rest => s!" ({f} {showTy t})" ++ showFields rest
end

def showDecl (d : SDecl.Decl) : String := s!"({showDir d.dir} {d.ident} {showTy d.ty} {showNats d.dims})"

def showInst (i : Inst) : String :=
  s!"({flatId i.name} {i.mod} {par (i.conns.map fun c => s!"({c.formal} {flatId c.wire} {showNats c.idx})")})"

def showSel : Sel → String
  | .idx i => s!"(i {i})"
  | .fld f => s!"(f {f})"
  | .rng a b => s!"(r {a} {b})"

def showRef (r : Ref) : String := s!"({r.ident} {par (r.sels.map showSel)})"

def showTk : Tk → String
  | .attr a => s!"(a {a})"
  | .idx i => s!"(i {i})"
  | .slice a b => s!"(s {a} {b})"

def showSExp : SExp → String
  | .cur => "(CurComp)"
  | .curAttr b a => s!"(CurCompAttr {showSExp b} {a})"
  | .subAttr b a => s!"(SubCompAttr {showSExp b} {a})"
  | .ifcAttr b a => s!"(InterfaceAttr {showSExp b} {a})"
  | .structAttr b a => s!"(StructAttr {showSExp b} {a})"
  | .portIdx b i => s!"(PortIndex {showSExp b} {i})"
  | .wireIdx b i => s!"(WireIndex {showSExp b} {i})"
  | .ifcIdx b i => s!"(InterfaceViewIndex {showSExp b} {i})"
  | .compIdx b i => s!"(ComponentIndex {showSExp b} {i})"
  | .packedIdx b i => s!"(PackedIndex {showSExp b} {i})"
  | .bitSel b i => s!"(BitSelection {showSExp b} {i})"
  | .partSel b lo hi => s!"(PartSelection {showSExp b} {lo} {hi})"

def showEnd (yosys : Bool) (T : Table) : End → String
  | .const w v => s!"(const {w} {v})"
  | .other => "(other)"
  | .sig sl frames kinds =>
    let toks := par ((tokens sl frames).map showTk)
    match genSExp T sl frames with
    | none => s!"(sig {toks} none none () 0)"
    | some (e, _) =>
      -- hypothesis of `render_path` / `operand_denotes` / `yrender_path`: the expression is the one of an object path
      let shape := match opathOf sl (frames.zip kinds).reverse with
        | some p => if p.sexp == e && (!p.isWire || (p.comp.isNone && p.ifcs.isEmpty)) then "1" else "0"
        | none => "0"
      if yosys then s!"(sig {toks} {showSExp e} {showRef (yRender e)} () {shape})"
      else match render e with
        | none => s!"(sig {toks} {showSExp e} none () {shape})"
        | some st => s!"(sig {toks} {showSExp e} {showRef st.ref} {showNats st.q} {shape})"

def showYPort (p : YPort) : String := s!"({showDir p.dir} {flatId p.path} {p.msb})"
def showYWire (w : YWire) : String := s!"({flatId w.path} {w.msb} {showNats w.dims})"
def showYConn (c : YConn) : String := s!"({showDir c.dir} {flatId c.pid} {flatId c.wid} {par (c.idx.map showSel)})"

def handle : List Sexp → Option String
  | [.atom "module", .atom be, ports, wires, ifcs, subs, conns] => do
    let yosys ← if be == "yosys" then some true else if be == "verilog" then some false else none
    let T : Table := ⟨← (← tagged? "ports" ports).mapM sig?, ← (← tagged? "wires" wires).mapM sig?,
                      ← (← tagged? "ifcs" ifcs).mapM ifc?, ← (← tagged? "subs" subs).mapM sub?⟩
    -- one module name per element of every sub-component slot
    if !(T.subs.all fun k => (allIdx k.dims).length == k.mods.length) then none
    else
      let cs ← (← tagged? "conns" conns).mapM conn?
      let connS := par (cs.map fun c => s!"({showEnd yosys T c.1} {showEnd yosys T c.2})")
      if yosys then
        let M := yModule T
        some (s!"ports {par (M.ports.map showYPort)} wires {par (M.wires.map showYWire)} subports {par (M.subPorts.map showYPort)} " ++
              s!"insts {par (M.insts.map showInst)} pconns {par (M.portConns.map showYConn)} sconns {par (M.subConns.map showYConn)} conns {connS}")
      else
        let portsS := match vModulePorts T with
          | none => "none"
          | some ds => par (ds.map showDecl)
        some (s!"ports {portsS} wires {par ((vModuleWires T).map showDecl)} subwires {par ((T.subs.flatMap vSubWires).map showDecl)} " ++
              s!"insts {par ((T.subs.flatMap vSubInsts).map showInst)} conns {connS}")
  | _ => none

end PV.Driver.SDecl
