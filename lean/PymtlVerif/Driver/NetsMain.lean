import PymtlVerif.Driver.Loop
import PymtlVerif.Driver.Nets

def main : IO Unit := PV.runDriver "nets" PV.Driver.Nets.handle
