import PymtlVerif.Driver.Sexp
/-!
Handler `scc`: executable face of `Model/Scc.lean` (Kosaraju SCC partition + SCC-level topological sort of
DynamicSchedulePass / Mamba2020Pass / OpenLoopCLPass). Stub, filled by its builder.
-/
namespace PV.Driver.Scc
open PV

def handle (_args : List Sexp) : Option String := none

end PV.Driver.Scc
