import PymtlVerif.Driver.Sexp
import PymtlVerif.Model.Scc
/-!
Handler `scc`: executable face of `Model/Scc.lean` (Kosaraju SCC partition + SCC-level topological sort of
DynamicSchedulePass / Mamba2020Pass / OpenLoopCLPass).

Requests (vertices are natural numbers; `verts` is the iteration order of `G.keys()`, the adjacency lists are in
the order the edges are listed, as built by `G[u].append(v); G_T[v].append(u)`):

* `scc run (verts v…) (edges (u v)…)` →
  `run (po v…) (sccs (v…)…) (vscc (v i)…) (gnew (j…)…) (lifo i…) (fifo i…) (pred (i p|none)…)`
  — `PO`, the groups in creation order (members in insertion order), `v_SCC` by vertex order, `G_new[i]` in insertion
  order for `i = 0 … len(SCCs)-1`, `scc_schedule` with `Q.pop()` (DynamicSchedulePass) and with `Q.pop(0)`
  (OpenLoopCLPass), `scc_pred` of the `Q.pop()` run by group index;
* `scc topo <lifo|fifo> (adj (j…)…)` → `topo (sched i…) (pred (i p|none)…)` — the worklist sort on a given `G_new`
  whose sets are iterated in the given order (the real CPython set order is supplied by the harness);
* `scc check (verts v…) (edges (u v)…) (groups (v…)…) (order i…)` → `check <partition> <strong> <acyclic> <order>`
  — the executable checkers evaluated on a real result.

A vertex that is listed twice, or an edge with an end outside `verts`, is a malformed request (`bad-op`): the code
builds `G` from `V` and only keeps constraints with both ends in `V`.
-/
namespace PV.Driver.Scc
open PV PV.Scc

def edge? (x : Sexp) : Option (Nat × Nat) :=
  match x with
  | .list [a, b] => do let u ← a.nat?; let v ← b.nat?; pure (u, v)
  | _ => none

def tagged? (tag : String) (x : Sexp) : Option (List Sexp) :=
  match x with
  | .list (.atom t :: rest) => if t == tag then some rest else none
  | _ => none

def graph? (vs es : Sexp) : Option (List Nat × List (Nat × Nat)) := do
  let V ← (← tagged? "verts" vs).mapM Sexp.nat?
  let E ← (← tagged? "edges" es).mapM edge?
  if decide V.Nodup && E.all (fun e => decide (e.1 ∈ V) && decide (e.2 ∈ V)) then pure (V, E) else none

def lists (xs : List (List Nat)) : String := " ".intercalate (xs.map natsToString)
def nats (xs : List Nat) : String := " ".intercalate (xs.map toString)

def predStr (n : Nat) (pred : List (Nat × Option Nat)) : String :=
  " ".intercalate ((List.range n).map (fun i =>
    match pred.lookup i with
    | some (some p) => s!"({i} {p})"
    | some none => s!"({i} none)"
    | none => s!"({i} unset)"))

def pick? (s : Sexp) : Option (List Nat → List Nat → Nat) :=
  match s with
  | .atom "lifo" => some pickLast
  | .atom "fifo" => some pickFirst
  | _ => none

def handle (args : List Sexp) : Option String :=
  match args with
  | [.atom "run", vs, es] => do
    let (V, E) ← graph? vs es
    let k := kosaraju (adjOf E) (adjTOf E) V
    let n := k.sccs.length
    let t := topo pickLast k.gn n
    pure s!"run (po {nats k.po}) (sccs {lists k.sccs}) (vscc {" ".intercalate (V.map (fun v => s!"({v} {vscc k.vmap v})"))}) (gnew {lists ((List.range n).map k.gn)}) (lifo {nats t.out}) (fifo {nats (sccSchedule pickFirst k.gn n)}) (pred {predStr n t.pred})"
  | [.atom "topo", p, adj] => do
    let pick ← pick? p
    let rows ← (← tagged? "adj" adj).mapM Sexp.nats?
    let n := rows.length
    if !rows.all (fun r => r.all (fun j => decide (j < n))) then none
    let gn : Graph := fun i => rows.getD i []
    let t := topo pick gn n
    pure s!"topo (sched {nats t.out}) (pred {predStr n t.pred})"
  | [.atom "check", vs, es, gs, ord] => do
    let (V, E) ← graph? vs es
    let groups ← (← tagged? "groups" gs).mapM Sexp.nats?
    let order ← (← tagged? "order" ord).mapM Sexp.nat?
    let G := adjOf E
    let GT := adjTOf E
    let p := partitionB V groups
    let s := groups.all (stronglyB G GT)
    let a := acyclicB E groups
    let o := orderPermB groups order && orderTopoB E groups order
    pure s!"check {b2s p} {b2s s} {b2s a} {b2s o}"
  | _ => none

end PV.Driver.Scc
