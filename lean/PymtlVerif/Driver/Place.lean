import PymtlVerif.Driver.Sexp
import PymtlVerif.Model.Place
/-!
Handler `place`: executable face of `Model/Place.lean`.

`place v <ff> <helper> <op> (<closure (x v)…>) (<globals (x v)…>) (<tgt>…) (<dims>…) (<iexpr>…) <fields> <tail>`

* `op`: `assign` `for` `at` `ff` or an augmented operator `add sub mult div floordiv mod pow rshift bitand bitor bitxor`;
* `tgt`: `_` (binds nothing), `(n x)`, `(p a b)`, `(s t)`; `iexpr`: `(num n)`, `(name x)`, `(dyn k)`;
* `tail`: `none`, `(bit <iexpr>)`, `(slc lo hi)`, `slv`

answers `verdict <accept|exception class> strict <the same under the proposed helper rule> op <text> bound (<names>) objs (((path) fld sliced part)…) marked ((path)…)`.
-/
namespace PV.Driver.Place
open PV PV.Place

def aug? : String → Option Aug
  | "add" => some .add | "sub" => some .sub | "mult" => some .mult | "div" => some .div | "floordiv" => some .floorDiv
  | "mod" => some .mod | "pow" => some .pow | "rshift" => some .rshift | "bitand" => some .bitAnd | "bitor" => some .bitOr
  | "bitxor" => some .bitXor | _ => none

def op? : Sexp → Option AOp
  | .atom "assign" => some .assign
  | .atom "for" => some .forT
  | .atom "at" => some .at
  | .atom "ff" => some .ff
  | .atom a => (aug? a).map .aug
  | _ => none

def tgt? : Sexp → Option Tgt
  | .atom "_" => some .other
  | .list [.atom "n", .atom x] => some (.name x)
  | .list [.atom "p", a, b] => do
    let a' ← tgt? a
    let b' ← tgt? b
    some (.pair a' b')
  | .list [.atom "s", t] => do
    let t' ← tgt? t
    some (.starred t')
  | _ => none

def iexpr? : Sexp → Option IExpr
  | .list [.atom "num", n] => n.nat?.map .num
  | .list [.atom "name", .atom x] => some (.name x)
  | .list [.atom "dyn", k] => k.nat?.map .dyn
  | _ => none

def tail? : Sexp → Option Tail
  | .atom "none" => some .none
  | .atom "slv" => some .sliceV
  | .list [.atom "bit", e] => (iexpr? e).map .bit
  | .list [.atom "slc", lo, hi] => do
    let l ← lo.nat?
    let h ← hi.nat?
    some (.sliceC l h)
  | _ => none

def env? (x : Sexp) : Option (List (String × Nat)) := do
  let xs ← x.list?
  xs.mapM (fun p => match p with
    | .list [.atom n, v] => v.nat?.map (fun v' => (n, v'))
    | _ => none)

def showNats (xs : List Nat) : String := "(" ++ " ".intercalate (xs.map toString) ++ ")"

def showVerdict : Verdict → String
  | .accept => "accept"
  | .reject .updateBlockWrite => "UpdateBlockWriteError"
  | .reject .updateFFBlockWrite => "UpdateFFBlockWriteError"
  | .reject .updateFFNonTop => "UpdateFFNonTopLevelSignalError"

def showObj (o : RObj) : String := s!"({showNats o.path} {b2s o.fld} {b2s o.sliced} {b2s o.part})"

def handle : List Sexp → Option String
  | [.atom "v", ff, helper, op, clo, glo, tgts, dims, subs, fields, tail] => do
    let ff ← ff.bool?
    let helper ← helper.bool?
    let op ← op? op
    let clo ← env? clo
    let glo ← env? glo
    let tgts ← (← tgts.list?).mapM tgt?
    let dims ← dims.nats?
    let subs ← (← subs.list?).mapM iexpr?
    let fields ← fields.nat?
    let tail ← tail? tail
    let sc : Scope := ⟨clo, glo, tgts⟩
    let objs := resolve sc dims ⟨subs, fields, tail⟩
    let bound := if sc.bound.isEmpty then "()" else "(" ++ " ".intercalate sc.bound ++ ")"
    some s!"verdict {showVerdict (verdict ff helper op objs)} strict {showVerdict (verdictStrict ff helper op objs)} op {op.str} bound {bound} objs ({" ".intercalate (objs.map showObj)}) marked ({" ".intercalate ((marked helper op objs).map showNats)})"
  | _ => none

end PV.Driver.Place
