import PymtlVerif.Driver.Sexp
import PymtlVerif.Driver.Rv
import PymtlVerif.Model.ProcEnv
/-!
Handler `procfl`: executable face of the GENERATED definitions `Gen/ProcFLGen.lean` / `Gen/ProcCLGen.lean` (regenerated from
`tinyrv0_encoding.py`, `ProcFL.py`, `ProcCL.py` on every C20 run) in the environments of `Model/ProcEnv.lean`, so that the
translator's rendering is itself compared with the running Python.

* `procfl fields w`  → `<name | !exception> opcode rd rs1 rs2 shamt i_imm s_imm b_imm csrnum funct7 funct3`
                       (the generated `TinyRV0Inst` properties of the 32-bit word `w`)
* `procfl flrun ((addr word) ...) (inp ...) fuel`
      → `<stop> <count> <pc> (out ...) (x0 ... x31) ((addr word) ...) <xr0>`: the generated `up_ProcFL` iterated from the state after
        `construct` in `flEnv`; stops before executing a zero word (`zero`), when the block blocks (`blocked`) or raises
        (`raised:<exception>`), or after `fuel` executions (`fuel`); `count` = executions that ended normally.
* `procfl clrun ((addr word) ...) (inp ...) fuel`
      → same shape for the generated `F`, `DXM`, `W` of ProcCL in `idealEnv`: one `F`, then rounds of `DXM; W; F`;
        `count` = rounds, and an eighth field `<commits>` = number of W executions that set `commit_inst`.
-/
namespace PV.Driver.ProcFL
open PV PV.TinyRV0 PV.ProcFLGen PV.ProcEnv

def showRes : Res String → String
  | .ok s => s
  | .raised e => "!" ++ e
  | .blocked => "!blocked"

def flLoop : Nat → Nat → FL.St → World → (String × Nat × FL.St × World)
  | 0, n, s, w => ("fuel", n, s, w)
  | fuel + 1, n, s, w =>
    if loadWord w.mem s.PC == 0 then ("zero", n, s, w) else
    match FL.up_ProcFL flEnv false s w with
    | .ok (s', w') => flLoop fuel (n + 1) s' w'
    | .raised e => ("raised:" ++ e, n, s, w)
    | .blocked => ("blocked", n, s, w)

open PV.ProcCLGen in
def clLoop : Nat → Nat → Nat → St → IW → (String × Nat × Nat × St × IW)
  | 0, n, c, s, w => ("fuel", n, c, s, w)
  | fuel + 1, n, c, s, w =>
    if (w.irq.headD default).data == 0 then ("zero", n, c, s, w) else
    match DXM idealEnv false s w with
    | .ok (s1, w1) =>
      match W idealEnv false s1 w1 with
      | .ok (s2, w2) =>
        match F idealEnv false s2 w2 with
        | .ok (s3, w3) => clLoop fuel (n + 1) (c + s2.commit_inst) s3 w3
        | .raised e => ("raised:" ++ e, n, c, s, w)
        | .blocked => ("blocked", n, c, s, w)
      | .raised e => ("raised:" ++ e, n, c, s, w)
      | .blocked => ("blocked", n, c, s, w)
    | .raised e => ("raised:" ++ e, n, c, s, w)
    | .blocked => ("blocked", n, c, s, w)

def handle (args : List Sexp) : Option String :=
  match args with
  | [.atom "fields", w] => do
      let w ← w.nat?
      if w ≥ W32 then none else
      some s!"{showRes (Inst.name w)} {Inst.opcode w} {Inst.rd w} {Inst.rs1 w} {Inst.rs2 w} {Inst.shamt w} {Inst.i_imm w} {Inst.s_imm w} {Inst.b_imm w} {Inst.csrnum w} {Inst.funct7 w} {Inst.funct3 w}"
  | [.atom "flrun", .list img, inp, fuel] => do
      let ws ← img.mapM Rv.pair?
      let inp ← inp.nats?
      let fuel ← fuel.nat?
      if ws.any (fun aw => aw.2 ≥ W32) || inp.any (· ≥ W32) then none else
      let (stop, n, s, w) := flLoop fuel 0 FL.init { mem := loadImage ws, xr0 := 0, inp := inp, out := [] }
      some s!"{stop} {n} {s.PC} {natsToString w.out} {natsToString s.R} {Rv.showMem w.mem} {w.xr0}"
  | [.atom "clrun", .list img, inp, fuel] => do
      let ws ← img.mapM Rv.pair?
      let inp ← inp.nats?
      let fuel ← fuel.nat?
      if ws.any (fun aw => aw.2 ≥ W32) || inp.any (· ≥ W32) then none else
      let w0 : IW := { fdq := [], irq := [], dwq := [], drq := [], xrq := [], mq := inp, mem := loadImage ws, xr0 := 0, out := [] }
      match PV.ProcCLGen.F idealEnv false PV.ProcCLGen.init w0 with
      | .ok (s1, w1) =>
        let (stop, n, c, s, w) := clLoop fuel 0 0 s1 w1
        some s!"{stop} {n} {w.fdq.headD 0} {natsToString w.out} {natsToString s.R} {Rv.showMem w.mem} {w.xr0} {c}"
      | _ => some "raised:first-fetch 0 0 () () () 0 0"
  | _ => none

end PV.Driver.ProcFL
