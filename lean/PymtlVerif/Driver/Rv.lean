import PymtlVerif.Driver.Sexp
import PymtlVerif.Model.TinyRV0
import PymtlVerif.Model.Cksum
/-!
Handler `rv`: executable face of `Model/TinyRV0.lean` and `Model/Cksum.lean` for the C20
correspondence check.

* `rv run ((addr word) ...) (inp ...) fuel`
    → `<stop> <icount> <pc> (out ...) (x0 ... x31) ((addr word) ...) <xr0>`   (`runX`: ISA + NullXcel register)
    the memory listing holds every word that has at least one byte present in the final memory
    (initial image and stores), sorted by address.
* `rv decode w`                → `none` | `<name> a b c` (fields in the order of `Inst`'s constructor)
* `rv encode <name> a b c`     → `<word>` | `notwf`
* `rv cksum (w ...)`           → `<spec> <fl> <rtl> <cl-of-packed> <rtl-of-packed>`
-/
namespace PV.Driver.Rv
open PV PV.TinyRV0

def pair? : Sexp → Option (Nat × Nat)
  | .list [a, w] => do some (← a.nat?, ← w.nat?)
  | _ => none

def showInst : Inst → String
  | .csrr rd csr => s!"csrr {rd} {csr} 0"
  | .csrw csr rs1 => s!"csrw {csr} {rs1} 0"
  | .add a b c => s!"add {a} {b} {c}"
  | .and a b c => s!"and {a} {b} {c}"
  | .sll a b c => s!"sll {a} {b} {c}"
  | .srl a b c => s!"srl {a} {b} {c}"
  | .addi a b c => s!"addi {a} {b} {c}"
  | .lw a b c => s!"lw {a} {b} {c}"
  | .sw a b c => s!"sw {a} {b} {c}"
  | .bne a b c => s!"bne {a} {b} {c}"

def mkInst? (name : String) (a b c : Nat) : Option Inst :=
  match name with
  | "csrr" => some (.csrr a b) | "csrw" => some (.csrw a b)
  | "add" => some (.add a b c) | "and" => some (.and a b c)
  | "sll" => some (.sll a b c) | "srl" => some (.srl a b c)
  | "addi" => some (.addi a b c) | "lw" => some (.lw a b c)
  | "sw" => some (.sw a b c) | "bne" => some (.bne a b c)
  | _ => none

/-- sorted, duplicate-free list of the word addresses that have a byte in memory -/
def wordAddrs (m : Mem) : List Nat :=
  let ks := (m.m.toList.map (fun kv => kv.1 / 4 * 4)).mergeSort (· ≤ ·)
  ks.eraseDups

def showMem (m : Mem) : String :=
  "(" ++ " ".intercalate ((wordAddrs m).map (fun a => s!"({a} {loadWord m a})")) ++ ")"

def handle (args : List Sexp) : Option String :=
  match args with
  | [.atom "run", .list img, inp, fuel] => do
      let ws ← img.mapM pair?
      let inp ← inp.nats?
      let fuel ← fuel.nat?
      if ws.any (fun aw => aw.2 ≥ W32) || inp.any (· ≥ W32) then none else
      let (sx, n, stop) := runX fuel (StateX.init (loadImage ws) inp) 0
      let s := sx.core
      some s!"{stop.name} {n} {s.pc} {natsToString s.out} {natsToString s.regs} {showMem s.mem} {sx.xr0}"
  | [.atom "decode", w] => do
      match decode (← w.nat?) with
      | some i => some (showInst i)
      | none => some "none"
  | [.atom "encode", .atom name, a, b, c] => do
      let i ← mkInst? name (← a.nat?) (← b.nat?) (← c.nat?)
      if decide i.Wf then some s!"{encode i}" else some "notwf"
  | [.atom "cksum", ws] => do
      let ws ← ws.nats?
      let b := Cksum.packWords ws
      some s!"{Cksum.cksumSpec ws} {Cksum.cksumFL ws} {Cksum.cksumRTL ws} {Cksum.cksumCLmsg b} {Cksum.cksumRTLmsg b}"
  | _ => none

end PV.Driver.Rv
