import PymtlVerif.Driver.Sexp
/-! Handler `rv` (stub: not built yet). -/
namespace PV.Driver.Rv
open PV

def handle (_args : List Sexp) : Option String := none

end PV.Driver.Rv
