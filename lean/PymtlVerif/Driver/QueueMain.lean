import PymtlVerif.Driver.Loop
import PymtlVerif.Driver.Queue

def main : IO Unit := PV.runDriver "queue" PV.Driver.Queue.handle
