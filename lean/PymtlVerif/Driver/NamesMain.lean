import PymtlVerif.Driver.Loop
import PymtlVerif.Driver.Names

def main : IO Unit := PV.runDriver "names" PV.Driver.Names.handle
