import PymtlVerif.Driver.Rtl
import PymtlVerif.Model.LoopIR
/-!
Handler `loopir`: executable face of `Model/LoopIR.lean` (C11, `Props/C11w.lean`).

The harness parses every generated `wrapped_SCC_<k>` (DynamicSchedulePass, Mamba2020Pass, OpenLoopCLPass) into the IR with
Python's `ast` and sends it here.  The loop that is executed is the *proven generic definition* `LoopIR.runG`, instantiated on
the driver's table representation of states (same glue as `Driver/Rtl.lean`: `ofTab`, `runBlkTab`); each sweep uses the proven
`Blk.run`, each comparison the proven `sameRng` on the functions read off the tables.

Requests
  loopir ok  <ir>                                           → `ir <ok> <formD> <formO> <fuel> ((sig lo w)...)`   (effective watch list)
  loopir comb <design> (entries...) (cycles...) <fuelcap>   → `<half> | <half>`, half := `ok (vals after the comb schedule) ...` | `cyclic <cycle>` | `timeout <cycle>`
                                                              first half: every SCC entry run by `LoopIR.runG` on its parsed IR (at most fuelcap iterations);
                                                              second half: by `iterate ir.fuel ir.watch` (equal to the first when every IR is ok: C11w.run_eq_iterate)
ir     := (ir (vars (sig lo w)...) (pre <b>|none) (post p...) (fall brk|cont))
p      := (test (lits (j <1|0>)...) <all|any> <brk|cont>) | (raise b)            literal (j 1): `var_j == t_j`, (j 0): `var_j != t_j`
entry  := (b id) | (scc (ids...) <ir>)
design, cycles: as for handler `rtl`.
-/
namespace PV.Driver.LoopIR
open PV PV.Rtl PV.LoopIR PV.Driver.Rtl

def exit? : Sexp → Option Exit
  | .atom "brk" => some .brk
  | .atom "cont" => some .cont
  | _ => none

def lit? : Sexp → Option (Nat × Bool)
  | .list [j, b] => do some (← j.nat?, ← b.bool?)
  | _ => none

def post? : Sexp → Option Post
  | .list [.atom "test", .list (.atom "lits" :: ls), .atom j, a] => do
    let all ← match j with | "all" => some true | "any" => some false | _ => none
    some (.test ⟨← ls.mapM lit?, all, ← exit? a⟩)
  | .list [.atom "raise", b] => do some (.raiseIf (← b.nat?))
  | _ => none

def ir? : Sexp → Option IR
  | .list [.atom "ir", .list (.atom "vars" :: vs), .list [.atom "pre", p], .list (.atom "post" :: ps), .list [.atom "fall", f]] => do
    let pre ← match p with
      | .atom "none" => some none
      | x => do some (some (← x.nat?))
    some ⟨← vs.mapM rng?, pre, ← ps.mapM post?, ← exit? f⟩
  | _ => none

inductive EntryId where
  | b (id : Nat)
  | scc (ids : List Nat) (ir : IR)

def entryId? : Sexp → Option EntryId
  | .list [.atom "b", id] => do some (.b (← id.nat?))
  | .list [.atom "scc", ids, ir] => do some (.scc (← ids.nats?) (← ir? ir))
  | _ => none

inductive EntryB where
  | b (b : Blk)
  | scc (bs : List Blk) (ir : IR)

def resolveEntries (comb : List Blk) (es : List EntryId) : Option (List EntryB) :=
  es.mapM (fun e => match e with
    | .b id => do some (.b (← lookupBlk comb id))
    | .scc ids ir => do some (.scc (← ids.mapM (lookupBlk comb)) ir))

/-- comparison of one watched range between two tables: the proven `sameRng` on the functions read off the tables -/
def sameTab (r : Rng) (t t' : Array Nat) : Bool := sameRng r (ofTab t) (ofTab t')

/-- the proven generic loop on tables -/
def runIRTab (widths : Array Nat) (fuel : Nat) (ir : IR) (scc : List Blk) (t : Array Nat) : Res (Array Nat) :=
  runG sameTab (fun t => scc.foldl (runBlkTab widths) t) ir fuel 0 t

def runEntriesTab (widths : Array Nat) (fuel : Nat) : List EntryB → Array Nat → Res (Array Nat)
  | [], t => .ret t
  | .b b :: es, t => runEntriesTab widths fuel es (runBlkTab widths t b)
  | .scc bs ir :: es, t =>
    match runIRTab widths fuel ir bs t with
    | .ret t' => runEntriesTab widths fuel es t'
    | .raised => .raised
    | .timeout => .timeout

/-- the same schedule with every SCC entry run by `iterate ir.fuel ir.watch` (table version of `Driver/Rtl.lean`) -/
def runEntriesIter (widths : Array Nat) : List EntryB → Array Nat → Res (Array Nat)
  | [], t => .ret t
  | .b b :: es, t => runEntriesIter widths es (runBlkTab widths t b)
  | .scc bs ir :: es, t =>
    match iterateTab widths ir.fuel ir.watch bs t with
    | some t' => runEntriesIter widths es t'
    | none => .raised

/-- per cycle: set the inputs, run the combinational schedule once (no ff phase), print all signal values -/
def combSim (D : Design) (run : Array Nat → Res (Array Nat)) (cycles : List (List (Nat × Nat))) : String := Id.run do
  let widths := D.widths.toArray
  let mut cur : Array Nat := Array.replicate widths.size 0
  let mut out : Array String := #[]
  let mut k := 0
  for ins in cycles do
    for (g, v) in ins do
      if g < cur.size then cur := cur.set! g (v % 2 ^ (widths.getD g 0))
    match run cur with
    | .raised => return s!"cyclic {k}"
    | .timeout => return s!"timeout {k}"
    | .ret c1 =>
      cur := c1
      out := out.push (showVals c1)
    k := k + 1
  return "ok " ++ " ".intercalate out.toList

def showRngs (rs : List Rng) : String :=
  "(" ++ " ".intercalate (rs.map (fun r => s!"({r.sig} {r.lo} {r.w})")) ++ ")"

def handle (args : List Sexp) : Option String :=
  match args with
  | [.atom "ok", x] => do
    let ir ← ir? x
    some s!"ir {b2s ir.ok} {b2s ir.formD} {b2s ir.formO} {ir.fuel} {showRngs ir.watch}"
  | [.atom "comb", d, .list es, .list cyc, f] => do
    let D ← design? d
    let entries ← resolveEntries D.comb (← es.mapM entryId?)
    let cycles ← cyc.mapM pairs?
    let fuel ← f.nat?
    let widths := D.widths.toArray
    some (combSim D (runEntriesTab widths fuel entries) cycles ++ " | " ++ combSim D (runEntriesIter widths entries) cycles)
  | _ => none

end PV.Driver.LoopIR
