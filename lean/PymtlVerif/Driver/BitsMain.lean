import PymtlVerif.Driver.Loop
import PymtlVerif.Driver.Bits

def main : IO Unit := PV.runDriver "bits" PV.Driver.Bits.handle
