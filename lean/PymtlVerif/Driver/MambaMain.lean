import PymtlVerif.Driver.Loop
import PymtlVerif.Driver.Mamba

def main : IO Unit := PV.runDriver "mamba" PV.Driver.Mamba.handle
