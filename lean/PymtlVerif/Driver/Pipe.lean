import PymtlVerif.Driver.Sexp
/-!
Handler `pipe`: executable face of `Model/Pipe.lean` (cycle-level model of the five-stage ProcRTL). Stub.
-/
namespace PV.Driver.Pipe
open PV

def handle (_args : List Sexp) : Option String := none

end PV.Driver.Pipe
