import PymtlVerif.Driver.Sexp
import PymtlVerif.Model.Pipe
/-!
Handler `pipe`: executable face of `Model/Pipe.lean` (cycle-level model of the five-stage ProcRTL).

`pipe run (e0 e1 ...)` — a whole recorded trace; each `e` is the 13 numbers of one `EnvIn` record in the order
`reset imem_req_rdy imem_resp_en imem_resp_data dmem_req_rdy dmem_resp_en dmem_resp_data mngr2proc_en
mngr2proc_msg proc2mngr_rdy xcel_req_rdy xcel_resp_en xcel_resp_data` (1-bit fields 0/1, data fields < 2^32).
The model starts in the power-on state `State.init` (every signal 0) and answers one record per cycle:
`((out) (digest))` where `out` = the 17 `EnvOut` fields in declaration order and `digest` = the sequential state
before the clock edge followed by the internal combinational signals of that cycle (order: `digestNames` in
`harness/checks/c20_pipe.py`) and the 32 registers.
-/
namespace PV.Driver.Pipe
open PV PV.Pipe

def bit? : Sexp → Option Bool
  | .atom "1" => some true
  | .atom "0" => some false
  | _ => none

def word? (x : Sexp) : Option Nat := do
  let v ← x.nat?
  if v < 4294967296 then some v else none

def envIn? : Sexp → Option EnvIn
  | .list [r, a, b, c, d, e, f, g, h, k, l, m, o] => do
    some { reset := ← bit? r, imem_req_rdy := ← bit? a, imem_resp_en := ← bit? b, imem_resp_data := ← word? c,
           dmem_req_rdy := ← bit? d, dmem_resp_en := ← bit? e, dmem_resp_data := ← word? f,
           mngr2proc_en := ← bit? g, mngr2proc_msg := ← word? h, proc2mngr_rdy := ← bit? k,
           xcel_req_rdy := ← bit? l, xcel_resp_en := ← bit? m, xcel_resp_data := ← word? o }
  | _ => none

def b (x : Bool) : Nat := if x then 1 else 0

def outList (o : EnvOut) : List Nat :=
  [b o.imem_req_en, o.imem_req_addr, b o.imem_resp_rdy, b o.dmem_req_en, o.dmem_req_type, o.dmem_req_addr,
   o.dmem_req_data, b o.dmem_resp_rdy, b o.mngr2proc_rdy, b o.proc2mngr_en, o.proc2mngr_msg, b o.xcel_req_en,
   b o.xcel_req_type, o.xcel_req_addr, o.xcel_req_data, b o.xcel_resp_rdy, b o.commit_inst]

def digest (s : State) (i : EnvIn) : List Nat :=
  -- sequential state
  [b s.val_F, b s.val_D, b s.val_X, b s.val_M, b s.val_W,
   s.pc_F, s.pc_D, s.inst_D, s.br_target_X, s.op1_X, s.op2_X, s.store_X, s.ex_result_M, s.wb_result_W,
   b s.cx.rf_wen_pending, s.cx.inst_type, s.cx.alu_fn, s.cx.rf_waddr, b s.cx.proc2mngr_en, s.cx.dmemreq_type,
   s.cx.wb_result_sel, b s.cx.br_type, b s.cx.xcelreq, b s.cx.xcelreq_type,
   b s.cm.rf_wen_pending, s.cm.inst_type, s.cm.rf_waddr, b s.cm.proc2mngr_en, s.cm.dmemreq_type,
   s.cm.wb_result_sel, b s.cm.xcelreq,
   b s.cw.rf_wen_pending, s.cw.inst_type, s.cw.rf_waddr, b s.cw.proc2mngr_en,
   b s.drop_wait, b s.q1_full, s.q1_buf, b s.q2_full, s.q2_buf,
   b s.imemresp_q.full, s.imemresp_q.entry, b s.dmemresp_q.full, s.dmemresp_q.entry,
   b s.mngr2proc_q.full, s.mngr2proc_q.entry, b s.xcelresp_q.full, s.xcelresp_q.entry,
   -- combinational signals
   b (stall_F s i), b (stall_D s i), b (stall_X s i), b (stall_M s i), b (stall_W s i),
   b (ostall_F s i), b (ostall_D s i), b (ostall_X s i), b (ostall_M s i), b (ostall_W s i),
   b (squash_F s i), b (squash_D s i), b (osquash_X s i), b (pc_redirect_X s),
   b (reg_en_F s i), b (reg_en_D s i), b (reg_en_X s i), b (reg_en_M s i), b (reg_en_W s i),
   b (next_val_F s i), b (next_val_D s i), b (next_val_X s i), b (next_val_M s i),
   b (pc_sel_F s), op1_byp_sel_D s, op2_byp_sel_D s, (cs s).op2_sel, (cs s).imm_type, inst_type_D s,
   b (cs s).inst_val, b (cs s).br_type, b (cs s).rs1_en, b (cs s).rs2_en, (cs s).alu_fn, (cs s).dmemreq_type,
   (cs s).wb_result_sel, b (cs s).rf_wen_pending, b (cs s).csrr, b (cs s).csrw,
   b (proc2mngr_en_D s), b (mngr2proc_D s), b (xcelreq_D s), b (xcelreq_type_D s),
   b (ostall_hazard_D s), b (ostall_mngr_D s i), b (ne_X s),
   b (imemreq_en s i), b (imemreq_rdy s), b (imemresp_en s i), b (imemresp_rdy s i), b (imemresp_drop s i),
   b (drop_in_en s i), b (drop_in_rdy s i),
   b (dmemresp_en s i), b (dmemresp_rdy s i), b (mngr2proc_en s i), b (mngr2proc_rdy s i),
   b (xcelresp_en s i), b (xcelresp_rdy s i),
   imemreq_addr s, imemresp_data s i, dmemresp_data s i, mngr2proc_data s i, xcelresp_data s i,
   rf_rdata0_D s, rf_rdata1_D s, imm_D s, op1_byp_D s i, op2_byp_D s i, op2_D s i, pc_plus_imm_D s,
   alu_out_X s, bypass_M s i, b (rf_wen_W s), s.cw.rf_waddr, s.wb_result_W]
  ++ s.rf

def showRec (r : State × EnvIn × EnvOut) : String :=
  "(" ++ natsToString (outList r.2.2) ++ " " ++ natsToString (digest r.1 r.2.1) ++ ")"

def handle : List Sexp → Option String
  | [.atom "run", .list es] => do
    let envs ← es.mapM envIn?
    some ("(" ++ " ".intercalate ((run State.init envs).map showRec) ++ ")")
  | _ => none

end PV.Driver.Pipe
