import PymtlVerif.Driver.Sexp
import PymtlVerif.Model.Names
/-!
Handler `names`: executable face of `Model/Names.lean` for the C13 correspondence check.

Strings travel as lists of code points (`(73 110)` = "In", `()` = ""), because names under test contain blanks and
parentheses. The hash `H` is supplied by the harness as a finite table `((input digest) ...)`; an input that is not
in the table is answered with the marker `\x01 input \x02`, which the harness resolves (blake2b) and re-sends.
-/
namespace PV.Driver.Names
open PV PV.Names

def str? : Sexp → Option String
  | .list xs => do
    let ns ← xs.mapM Sexp.nat?
    some (String.ofList (ns.map Char.ofNat))
  | _ => none

def strs? : Sexp → Option (List String)
  | .list xs => xs.mapM str?
  | _ => none

def showStr (s : String) : String :=
  "(" ++ " ".intercalate (s.toList.map (fun c => toString c.toNat)) ++ ")"

def showStrs (ss : List String) : String := "(" ++ " ".intercalate (ss.map showStr) ++ ")"

def hashOf (tbl : List (String × String)) (s : String) : String :=
  match tbl.lookup s with
  | some d => d
  | none => "\x01" ++ s ++ "\x02"

def htable? : Sexp → Option (List (String × String))
  | .list xs => xs.mapM (fun
      | .list [a, b] => do some (← str? a, ← str? b)
      | _ => none)
  | _ => none

partial def dt? : Sexp → Option DT
  | .list [.atom "vec", n] => do some (.vec (← n.nat?))
  | .list [.atom "struct", cls, .list fs] => do
      let fs ← fs.mapM (fun
        | .list [n, t] => do some (← str? n, ← dt? t)
        | _ => none)
      some (.struct (← str? cls) fs)
  | .list [.atom "arr", dims, sub] => do some (.arr (← dims.nats?) (← dt? sub))
  | _ => none

def pval? : Sexp → Option PVal
  | .list [.atom "int", i] => do some (.int (← i.int?))
  | .list [.atom "bool", b] => do some (.bool (← b.bool?))
  | .list [.atom "str", s] => do some (.str (← str? s))
  | .list [.atom "none"] => some .none
  | .list [.atom "bits", n, v] => do some (.bits (← n.nat?) (← v.nat?))
  | .list [.atom "type", s] => do some (.type (← str? s))
  | .list [.atom "struct", cls, .list fs] => do
      match ← dt? (.list [.atom "struct", cls, .list fs]) with
      | .struct c f => some (.structT c f)
      | _ => none
  | .list [.atom "other", s] => do some (.other (← str? s))
  | _ => none

def params? : Sexp → Option (List (String × PVal))
  | .list xs => xs.mapM (fun
      | .list [k, v] => do some (← str? k, ← pval? v)
      | _ => none)
  | _ => none

partial def tree? : Sexp → Option (Tree Nat)
  | .list [r, n, b, .list cs] => do
      some (.node (← str? r) (← str? n) (← b.nat?) (← cs.mapM tree?))
  | _ => none

partial def ifc? : Sexp → Option Ifc
  | .list [n, ps, .list subs] => do some (.mk (← str? n) (← strs? ps) (← subs.mapM ifc?))
  | _ => none

def module? : Sexp → Option Module
  | .list [n, ids, .list insts] => do
      let insts ← insts.mapM (fun
        | .list [a, b] => do some (← str? a, ← str? b)
        | _ => none)
      some ⟨← str? n, ← strs? ids, insts⟩
  | _ => none

def seg? : Sexp → Option Seg
  | .list [.atom "n", s] => do some (.name (← str? s))
  | .list [.atom "i", i] => do some (.idx (← i.nat?))
  | _ => none

def paths? : Sexp → Option (List (List Seg))
  | .list ps => ps.mapM (fun
      | .list segs => segs.mapM seg?
      | _ => none)
  | _ => none

def showTable (t : List (String × Nat)) : String :=
  "(" ++ " ".intercalate (t.map (fun e => "(" ++ showStr e.1 ++ " " ++ toString e.2 ++ ")")) ++ ")"

def handle (args : List Sexp) : Option String :=
  match args with
  -- component name: full name, plain(1)/hashed(0), hashed part, unique name (code as it is), unique name (repaired)
  | [.atom "uniq", h, cls, ps] => do
      let H := hashOf (← htable? h)
      let cls ← str? cls
      let ps := images H (← params? ps)
      let f := fullName cls ps
      let plain := f.length < 64 && !hasSpecial f
      some s!"{showStr f} {b2s plain} {showStr (nameTail ps)} {showStr (uniqueName H cls ps)} {showStr (uniqueNameR H cls ps)}"
  -- struct type name: full name, field string, name
  | [.atom "sname", h, cls, .list fs] => do
      let H := hashOf (← htable? h)
      match ← dt? (.list [.atom "struct", cls, .list fs]) with
      | .struct c f => some s!"{showStr (DT.fullName (.struct c f))} {showStr (fieldStr f)} {showStr (structName H c f)}"
      | _ => none
  | [.atom "image", h, v] => do
      let H := hashOf (← htable? h)
      some (showStr ((← pval? v).image H))
  -- the walk: table in emission order, aliased instances, verdict of the repaired walk
  | [.atom "walk", t] => do
      let t ← tree? t
      let post := t.post
      let tbl := translateAll post
      let chk := match translateChecked post with
        | .ok _ => "ok ()"
        | .error n => "err " ++ showStr n
      some s!"{showTable post} {showTable tbl} {showTable (aliased post)} {chk}"
  | [.atom "wf", tds, .list ms] => do
      let t : ModTable := ⟨← strs? tds, ← ms.mapM module?⟩
      let d := wfDiag t
      some s!"{b2s (wfModules t)} {d.1} {showStr d.2}"
  | [.atom "skel", ports, .list ifcs, comb, seq] => do
      let ifcs ← ifcs.mapM ifc?
      some s!"{showStrs (portOrder (← strs? ports) ifcs)} {showStrs (blockOrder (← strs? comb) (← strs? seq))}"
  | [.atom "sort", xs] => do some (showStrs (sortByKey id (← strs? xs)))
  | [.atom "legal", s] => do
      let s ← str? s
      some s!"{b2s (idShape s)} {b2s (legalId s)}"
  | [.atom "reserved"] => some (showStrs verilogReserved)
  -- identifiers of a module scope: the identifier of every path, the identifiers declared more than once (each once),
  -- are all user names well formed
  | [.atom "flat", ps] => do
      let ps ← paths? ps
      some s!"{showStrs (ps.map flatId)} {showStrs (flatCollisions ps).eraseDups} {b2s (ps.all (fun p => p.all Seg.ok))}"
  | [.atom "okname", s] => do some (b2s (okName (← str? s)))
  -- struct type: full name, emitted name, class name well formed, no nested struct + field names well formed, widths of
  -- the vectors it is made of (`((8 4))`: nested, so that the list is not read as a string)
  | [.atom "swf", h, cls, .list fs] => do
      let H := hashOf (← htable? h)
      match ← dt? (.list [.atom "struct", cls, .list fs]) with
      | .struct c f =>
        let ws := " ".intercalate ((DT.struct c f).leafWidths.map toString)
        some s!"{showStr (DT.fullName (.struct c f))} {showStr (structName H c f)} {b2s (okName c)} {b2s (flatStruct f)} (({ws}))"
      | _ => none
  | _ => none

end PV.Driver.Names
