import PymtlVerif.Driver.Sexp
/-! Handler `names` (stub: not built yet). -/
namespace PV.Driver.Names
open PV

def handle (_args : List Sexp) : Option String := none

end PV.Driver.Names
