import PymtlVerif.Driver.Sexp
import PymtlVerif.Model.Mamba
/-!
Handler `mamba`: executable face of `Model/Mamba.lean` (correspondence check `harness/checks/c01_mamba.py`).

* `mamba packff ((br blk) ...)` or `((br loop blk) ...)` — `schedule_ff`'s meta blocks (`PV.Mamba.packFF`); with the
  3-element form the effective branchiness (`0` for loop-only blocks) is computed here. Reply `((blk ...) ...)`.
* `mamba packscc ((br loop blk) ...)` — `compile_scc`'s grouping of a BFS order (`PV.Mamba.packSCC`).
* `mamba sched (n) (edges (u v) ...) (br b0 b1 ...) (special i ...)` — `Mamba2020Pass.schedule_intra_cycle` on the
  condensation graph with vertices `0..n-1` (`edges` in the iteration order of `G_new`), `br` the branchiness of the
  single block of each trivial SCC, `special` = nontrivial or loop-only SCCs (queue key 0). Reply: the meta blocks of
  SCC ids `((u ...) ...)` (`PV.Mamba.mambaSched`).
* `mamba heutopo (n) (edges (u v) ...) (br b0 ...) (ids i0 ...)` — `HeuristicTopoPass.schedule_intra_cycle`
  (`PV.Mamba.heuSched`); reply `(u ...)`.
* `mamba insert ((br cnt item) ...) br cnt item` — `insert_sortedlist` alone; reply `((br cnt item) ...)`.
-/
namespace PV.Driver.Mamba
open PV PV.Mamba

def showGroups (gs : List (List Nat)) : String :=
  "(" ++ " ".intercalate (gs.map natsToString) ++ ")"

def ffEntry? : Sexp → Option (Nat × Nat)
  | .list [b, k] => do some (← b.nat?, ← k.nat?)
  | .list [b, l, k] => do some (effBr (← b.nat?, ← l.bool?, ← k.nat?), ← k.nat?)
  | _ => none

def sccEntry? : Sexp → Option (Nat × Bool × Nat)
  | .list [b, l, k] => do some (← b.nat?, ← l.bool?, ← k.nat?)
  | _ => none

def edge? : Sexp → Option (Nat × Nat)
  | .list [u, v] => do some (← u.nat?, ← v.nat?)
  | _ => none

def qe? : Sexp → Option QE
  | .list [b, c, i] => do some ((← b.nat?, ← c.nat?), ← i.nat?)
  | _ => none

/-- adjacency in the order of the edge list -/
def graphOf (n : Nat) (es : List (Nat × Nat)) : Nat → List Nat :=
  let arr : Array (List Nat) := (List.range n).toArray.map (fun u => (es.filter (fun e => e.1 == u)).map Prod.snd)
  fun u => arr.getD u []

def handle (args : List Sexp) : Option String :=
  match args with
  | [.atom "packff", .list xs] => do
      let l ← xs.mapM ffEntry?
      some (showGroups (packFF l))
  | [.atom "packscc", .list xs] => do
      let l ← xs.mapM sccEntry?
      some (showGroups (packSCC l))
  | [.atom "sched", .list [n], .list (.atom "edges" :: es), .list (.atom "br" :: bs), .list (.atom "special" :: sp)] => do
      let n ← n.nat?
      let es ← es.mapM edge?
      let bs ← bs.mapM Sexp.nat?
      let sp ← sp.mapM Sexp.nat?
      if bs.length != n then none
      else if es.any (fun e => e.1 ≥ n || e.2 ≥ n) || sp.any (· ≥ n) then none
      else
        let kb := fun v => if sp.contains v then 0 else bs.getD v 0
        some (showGroups (mambaSched (graphOf n es) kb n))
  | [.atom "heutopo", .list [n], .list (.atom "edges" :: es), .list (.atom "br" :: bs), .list (.atom "ids" :: ids)] => do
      let n ← n.nat?
      let es ← es.mapM edge?
      let bs ← bs.mapM Sexp.nat?
      let ids ← ids.mapM Sexp.nat?
      if bs.length != n || ids.length != n then none
      else if es.any (fun e => e.1 ≥ n || e.2 ≥ n) then none
      else some (natsToString (heuSched (graphOf n es) (fun v => bs.getD v 0) (fun v => ids.getD v 0) n))
  | [.atom "insert", .list xs, b, c, i] => do
      let arr ← xs.mapM qe?
      let r := insertSorted arr (← b.nat?, ← c.nat?) (← i.nat?)
      some ("(" ++ " ".intercalate (r.map (fun e => s!"({e.1.1} {e.1.2} {e.2})")) ++ ")")
  | _ => none

end PV.Driver.Mamba
