import PymtlVerif.Driver.Sexp
/-! Handler `mamba`: stub, filled by its builder. -/
namespace PV.Driver.Mamba
open PV

def handle (_args : List Sexp) : Option String := none

end PV.Driver.Mamba
