import PymtlVerif.Driver.Sexp
import PymtlVerif.Model.AstRW
/-!
Handler `astrw`: executable face of `Model/AstRW.lean` (`AstHelper.DetectReadsWritesCalls` + `extract_obj_from_names`).

`astrw full (closure x ...) (globals x ...) (params x ...) (body <stmt> ...) <heap> (funcs f ...) (vals (<0|1> x k) ...)`

* `<stmt>`/`<expr>`: `nil` | `str` | `(name x L|S|D)` | `(num n)` | `(attr v a ctx)` | `(sub v i ctx)` | `(slice lo up st)` |
  `(call f (args...) (kws...))` | `(assign (ts...) v)` | `(aug t Op v)` | `(for t it (body...) (orelse...))` |
  `(node <kind> (children...))`, kind = BinOp UnaryOp IfExp BoolOp Compare Tuple If While Expr block, anything else = generic;
* `<heap>`: `nil` (no lookup) or the component: `(sig id struct nbits ((attr <heap>) ...))` | `(named id (...))` |
  `(lst <heap> ...)` | `(other (...))` | `none`.

Reply: `err <Err>` or
`ok (rd <rec> ...) (wr <rec> ...) (fc <rec> ...) (sup <0|1>) [objs <set> <set> <set>]`
with `<rec>` = `(<op> (<field> <idx> ...) ...)`, `<op>` = `none` | `for` | the operator class, `<idx>` = `*` | `n` | `(v <0|1> x)` |
`(sl <b> <b>)`; `<set>` = `(err <LErr>)` or `(<ref> ...)` sorted, duplicate-free, `<ref>` = `id` | `(id lo hi)` | `(f name)`.
`sup` = `supportedBody` (`Model/AstRW.lean`).
-/
namespace PV.Driver.AstRW
open PV PV.AstRW

def ctx? : Sexp → Option Ctx
  | .atom "L" => some .load
  | .atom "S" => some .store
  | .atom "D" => some .del
  | _ => none

def kindOf (s : String) : Kind :=
  match s with
  | "BinOp" => .binOp | "UnaryOp" => .unaryOp | "IfExp" => .ifExp | "BoolOp" => .boolOp | "Compare" => .compare
  | "Tuple" => .tuple | "If" => .ifS | "While" => .whileS | "Expr" => .exprS | "block" => .block
  | _ => .gen

partial def node? : Sexp → Option Node
  | .atom "nil" => some .nil
  | .atom "str" => some .str
  | .list [.atom "name", .atom x, c] => do some (.name x (← ctx? c))
  | .list [.atom "num", n] => do some (.num (← n.int?))
  | .list [.atom "attr", v, .atom a, c] => do some (.attr (← node? v) a (← ctx? c))
  | .list [.atom "sub", v, i, c] => do some (.sub (← node? v) (← node? i) (← ctx? c))
  | .list [.atom "slice", a, b, c] => do some (.slice (← node? a) (← node? b) (← node? c))
  | .list [.atom "call", f, .list args, .list kws] => do some (.call (← node? f) (← args.mapM node?) (← kws.mapM node?))
  | .list [.atom "assign", .list ts, v] => do some (.assign (← ts.mapM node?) (← node? v))
  | .list [.atom "aug", t, .atom o, v] => do some (.aug (← node? t) o (← node? v))
  | .list [.atom "for", t, it, .list b, .list o] => do some (.for_ (← node? t) (← node? it) (← b.mapM node?) (← o.mapM node?))
  | .list [.atom "node", .atom k, .list cs] => do some (.node (kindOf k) (← cs.mapM node?))
  | _ => none

partial def obj? : Sexp → Option Obj
  | .atom "none" => some .none
  | .list [.atom "sig", id, st, nb, .list fs] => do some (.sig (← id.nat?) (← st.bool?) (← nb.nat?) (← fs.mapM fld?))
  | .list [.atom "named", id, .list fs] => do some (.named (← id.nat?) (← fs.mapM fld?))
  | .list (.atom "lst" :: xs) => do some (.lst (← xs.mapM obj?))
  | .list [.atom "other", .list fs] => do some (.other (← fs.mapM fld?))
  | _ => none
where fld? : Sexp → Option (String × Obj)
  | .list [.atom a, o] => do some (a, ← obj? o)
  | _ => none

def showBound : Bound → String
  | .num n => toString n
  | .var c x => s!"(v {b2s c} {x})"

def showIdx : Idx → String
  | .star => "*"
  | .num n => toString n
  | .var c x => s!"(v {b2s c} {x})"
  | .slice lo up => s!"(sl {showBound lo} {showBound up})"

/-- flat steps back to `[(field, [idx ...]) ...]` -/
def group (nm : ObjName) : List (String × List Idx) :=
  (nm.foldl (fun acc st =>
    match st, acc with
    | .fld a, _ => (a, []) :: acc
    | .sel i, (a, is) :: r => (a, is ++ [i]) :: r
    | .sel _, [] => []) []).reverse

def showOp : Op → String
  | .none => "none"
  | .for_ => "for"
  | .aug o => o

def showRec (e : Ev) : String :=
  "(" ++ showOp e.op ++ " " ++ " ".intercalate ((group e.name).map fun (a, is) =>
    "(" ++ " ".intercalate (a :: is.map showIdx) ++ ")") ++ ")"

def showErr : Err → String
  | .sliceInMiddle => "sliceInMiddle" | .badBase => "badBase" | .multiSlice => "multiSlice" | .badCtx => "badCtx"

def showLErr : LErr → String
  | .varNotDeclared => "VarNotDeclaredError" | .invalidIndex => "InvalidIndexError"
  | .invalidConnection => "InvalidConnectionError" | .opaque => "opaque"

/-- a reference as a sortable key and its text -/
def refOf : Val → Option (Nat × Nat × Nat × String)
  | .obj (.sig id ..) => some (id, 0, 0, toString id)
  | .obj (.named id _) => some (id, 0, 0, toString id)
  | .slc id lo hi => some (id, lo + 1, hi, s!"({id} {lo} {hi})")
  | .func f => some (0, 0, 0, s!"(f {f})")
  | _ => none

def showSet (vs : List Val) : String :=
  let ks := vs.filterMap refOf
  let txt := ks.map (fun (a, b, c, s) => (s!"{1000000000 + a}:{1000000 + b}:{1000000 + c}:{s}", s))
  let sorted := (txt.toArray.qsort (fun x y => x.1 < y.1)).toList.map (·.2)
  "(" ++ " ".intercalate sorted.eraseDups ++ ")"

def lookKind (σ : Valuation) (root : Obj) (funcs : List String) (evs : List Ev) : String :=
  match evs.mapM (fun e => lookName σ root funcs e.name) with
  | .error e => s!"(err {showLErr e})"
  | .ok vss => showSet vss.flatten

def val? : Sexp → Option (Bool × String × Int)
  | .list [c, .atom x, k] => do some (← c.bool?, x, ← k.int?)
  | _ => none

def syms? (xs : List Sexp) : Option (List String) := xs.mapM Sexp.sym?

def handle : List Sexp → Option String
  | [.atom "full", .list (.atom "closure" :: cl), .list (.atom "globals" :: gl), .list (.atom "params" :: ps),
     .list (.atom "body" :: body), heap,
     .list (.atom "funcs" :: fs), .list (.atom "vals" :: vs)] => do
    let cl ← syms? cl; let gl ← syms? gl; let fs ← syms? fs; let ps ← syms? ps
    let body ← body.mapM node?
    let vals ← vs.mapM val?
    let env : Env := ⟨cl, gl⟩
    match extractFn env ps body with
    | .error e => some s!"err {showErr e}"
    | .ok evs =>
      let (rd, wr, fc) := split evs
      let names := fun (l : List Ev) => " ".intercalate (l.map showRec)
      let sup := s!"(sup {b2s (supportedBody body)})"
      let base := s!"ok (rd {names rd}) (wr {names wr}) (fc {names fc}) {sup}"
      match heap with
      | .atom "nil" => some base
      | h => do
        let root ← obj? h
        let σ : Valuation := fun c x => (vals.find? (fun (c', x', _) => c' == c && x' == x)).map (·.2.2)
        some s!"{base} objs {lookKind σ root fs rd} {lookKind σ root fs wr} {lookKind σ root fs fc}"
  | _ => none

end PV.Driver.AstRW
