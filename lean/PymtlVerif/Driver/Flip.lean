import PymtlVerif.Driver.Sexp
import PymtlVerif.Model.Flip
/-!
Handler `flip`: executable face of `Model/Flip.lean` (grouping loop of `schedule_posedge_flip`).

`flip group ((p0 p1 ...) id) ...` — the double-buffered signals in the order the code visits them, each as its host
component path (child indices from top) and an id — answers `groups (((path) (ids)) ...) settled <0|1>`.
-/
namespace PV.Driver.Flip
open PV PV.Flip

def sig? : Sexp → Option Sig
  | .list [p, i] => do
    let path ← p.nats?
    let id ← i.nat?
    some ⟨path, id⟩
  | _ => none

def showNats (xs : List Nat) : String := "(" ++ " ".intercalate (xs.map toString) ++ ")"

def showGroups (g : Groups) : String :=
  "(" ++ " ".intercalate (g.map (fun xy => "(" ++ showNats xy.1 ++ " " ++ showNats (xy.2.map (·.id)) ++ ")")) ++ ")"

def handle : List Sexp → Option String
  | .atom "group" :: rest => do
    let sigs ← rest.mapM sig?
    let g := grouping sigs
    some s!"groups {showGroups g} settled {if settledB g then 1 else 0}"
  | _ => none

end PV.Driver.Flip
