import PymtlVerif.Driver.Sexp
/-! Handler `nets` (stub: not built yet). -/
namespace PV.Driver.Nets
open PV

def handle (_args : List Sexp) : Option String := none

end PV.Driver.Nets
