import PymtlVerif.Driver.Sexp
import PymtlVerif.Model.Nets
/-! Handler `nets`: executable face of `Model/Nets.lean` for the C08/C09 correspondence checks.

Request:  `nets elab … (funcs ((w…) (r…) (c…))…) (bcalls (f…)…)` for designs with `@s.func` helpers, or
          `nets elab (objs (sid kind host (f…) none|(lo hi))…) (par none|p …) (conns (a b at)…)
                     (blks (host ff ((o op)…) (r…))…)`
Reply (one line of S-expressions):
  `(stage n) (errs E…) (loop b) (ffloop b|none) (allnets (m…)…) (headed (w m…)…) (headless (m…)…) (adj (a n…)…)`
-/
namespace PV.Driver.Nets
open PV PV.Nets

def kind? : Sexp → Option Kind
  | .atom "in" => some .inp | .atom "out" => some .outp | .atom "wire" => some .wire
  | .atom "const" => some .const | _ => none

def op? : Sexp → Option Op
  | .atom "assign" => some .assign | .atom "at" => some .at | .atom "ff" => some .ff | .atom "for" => some .forT | _ => none

def slice? : Sexp → Option (Option (Nat × Nat))
  | .atom "none" => some none
  | .list [lo, hi] => do some (some (← lo.nat?, ← hi.nat?))
  | _ => none

def obj? : Sexp → Option Obj
  | .list [sid, k, h, fs, sl] => do
      some ⟨← sid.nat?, ← kind? k, ← h.nat?, ← fs.nats?, ← slice? sl⟩
  | _ => none

def par? : Sexp → Option (Option Nat)
  | .atom "none" => some none
  | x => do some (some (← x.nat?))

def conn? : Sexp → Option (Nat × Nat × Nat)
  | .list [a, b, c] => do some (← a.nat?, ← b.nat?, ← c.nat?)
  | _ => none

def write? : Sexp → Option (Nat × Op)
  | .list [o, op] => do some (← o.nat?, ← op? op)
  | _ => none

def blk? : Sexp → Option Blk
  | .list [h, ff, .list ws, rs] => do
      some ⟨← h.nat?, ← ff.bool?, ← ws.mapM write?, ← rs.nats?⟩
  | _ => none

def tagged (tag : String) : Sexp → Option (List Sexp)
  | .list (.atom t :: xs) => if t == tag then some xs else none
  | _ => none

def design? (o p c b : Sexp) : Option Design := do
  let os ← (← tagged "objs" o).mapM obj?
  let ps ← (← tagged "par" p).mapM par?
  let cs ← (← tagged "conns" c).mapM conn?
  let bs ← (← tagged "blks" b).mapM blk?
  some ⟨os, ps, cs, bs⟩

def func? : Sexp → Option Func
  | .list [ws, rs, cs] => do some ⟨← ws.nats?, ← rs.nats?, ← cs.nats?⟩
  | _ => none

def hdesign? (o p c b f bc : Sexp) : Option HDesign := do
  let D ← design? o p c b
  let fs ← (← tagged "funcs" f).mapM func?
  let bcs ← (← tagged "bcalls" bc).mapM Sexp.nats?
  some ⟨D, fs, bcs⟩

def showNats (xs : List Nat) : String := " ".intercalate (xs.map toString)

def showErr (e : Err) : String := e.pyClass

def showOutcomeOf (D : Design) (o : Outcome) : String :=
  let E := D.edges
  let S := simple E
  let ff := match ffLoop E with
    | none => "none" | some b => b2s b
  let allnets := " ".intercalate ((nets E).map (fun N => "(" ++ showNats N ++ ")"))
  let headed := " ".intercalate (o.headed.map (fun wn => "(" ++ showNats (wn.1 :: wn.2) ++ ")"))
  let headless := " ".intercalate (o.headless.map (fun N => "(" ++ showNats N ++ ")"))
  let adjs := " ".intercalate ((nodesOf S).map (fun a => "(" ++ showNats (a :: sortDedup (adj S a)) ++ ")"))
  s!"(stage {o.stage}) (errs {" ".intercalate (o.errs.map showErr)}) (loop {b2s (hasLoop E)}) (ffloop {ff}) " ++
  s!"(allnets {allnets}) (headed {headed}) (headless {headless}) (adj {adjs})"

def showOutcome (D : Design) : String := showOutcomeOf D (elaborate D)

def handle (args : List Sexp) : Option String :=
  match args with
  | [.atom "elab", o, p, c, b, f, bc] => do
      let H ← hdesign? o p c b f bc
      if H.wf then some (showOutcomeOf H.flatten (elaborateH H)) else none
  | [.atom "elab", o, p, c, b] => do
      let D ← design? o p c b
      if D.wf then some (showOutcome D) else none
  | [.atom "related", a, b] => do some (b2s (related (← obj? a) (← obj? b)))
  | _ => none

end PV.Driver.Nets
