-- Root of the library: everything that must build for the checks.
import PymtlVerif.Model.Bits
import PymtlVerif.Driver.Main
import PymtlVerif.Props.C04
import PymtlVerif.Props.C05
