"""C20 — FL, CL and RTL example processors agree with the ISA on every program; checksum FL/CL/RTL agree.

proof:          lean/PymtlVerif/Props/C20.lean (ISA model written from tinyrv0-isa.md: encoding round trip,
                interpreter invariants; checksum FL = RTL = spec for every word list); Props/C20p.lean (five-stage ProcRTL refines
                the ISA, see c20_pipe.py); Props/C20fGen.lean / C20cGen.lean (ProcFL's block = the ISA step for every state, the
                TinyRV0Inst accessors / name decoder, ProcCL's execute semantics -- about definitions regenerated from the Python
                source on every run, see c20_procfl.py).  PARTIAL: ProcCL's cycle-level timing and the FL / CL / RTL adapters
                are tied by this differential execution only.
correspondence: random terminating TinyRV0 programs, assembled with the repo's assembler, run on ProcFL, ProcCL
                and ProcRTL inside the repo's TestHarness under random memory latency / stall probability /
                src / sink delays, vs `run` of Model/TinyRV0.lean (proc2mngr sequence, final 1MB memory image,
                commit count); assembler / disassembler vs `encode` / `decode`; checksum FL function, CL and RTL
                units (in the repo's CL src/sink harness) vs Model/Cksum.lean.
direct oracle:  a Python TinyRV0 interpreter written from the ISA document (c20_util.isa_run) + mutual
                agreement of the three levels; Python restatement of the checksum specification.
"""
import struct

from ..common import leanio
from ..common.leanio import InfraError
from . import c20_util as u
from . import c20_pipe
from . import c20_procfl

PID = 'C20'
DRIVERS = ['rv'] + c20_pipe.DRIVERS + c20_procfl.DRIVERS
MODULE = ['PymtlVerif.Props.C20'] + c20_pipe.MODULES + c20_procfl.MODULES
THEOREMS = ['PV.C20.' + t for t in [
  'decode_encode', 'encode_injective', 'decode_iff', 'encode_lt', 'decode_zero',
  'imm12_sign_extended', 'imm13_sign_extended',
  'step_ok', 'init_ok', 'x0_step', 'x0_run', 'run_ok', 'shift_low5', 'pc_next',
  'mem_little_endian', 'load_store', 'lw_after_sw', 'run_out_prefix', 'run_count',
  'exec_xcel_undefined', 'execX_conservative', 'stepX_conservative', 'execX_cases', 'xcel_read_after_write',
  'xcel_reg_stable', 'xcel_reg_init', 'xcel_access_frame', 'execX_ok', 'stepX_ok', 'initX_ok', 'runX_ok',
  'x0_stepX', 'x0_runX', 'runX_out_prefix', 'runX_count',
  'cksum_fl_eq_spec', 'cksum_rtl_eq_spec', 'cksum_agree', 'cksum_units_agree', 'cksum_msg_agree',
  'unpack_pack_words', 'cksum_lt']] + c20_pipe.THEOREMS + c20_procfl.THEOREMS
THEOREM_MODULE = {**c20_pipe.THEOREM_MODULE, **c20_procfl.THEOREM_MODULE}
TRUSTED = [
  'Model/TinyRV0.lean is a reading of tinyrv0-isa.md (decode table, sign-extended I/S/B immediates, little-endian '
  'byte memory, x0 = 0, mngr2proc dequeue / proc2mngr enqueue, reset vector 0x200); CSRR/CSRW are taken as the '
  'pseudo-instructions csrrs rd,csr,x0 / csrrw x0,csr,rs1 (unused register field must be 0, as in the repo\'s encoding table)',
  'accelerator CSRs 0x7E0..0x7FF: the ISA document leaves their meaning to the accelerator; StateX / execX / runX model the tutorial\'s '
  'NullXcel.py as a function (ONE register xr0 behind all 32 numbers, 0 at power-on); its request queue / handshake is not modelled',
  'the FL/CL/RTL adapters, the test memory / source / sink / accelerator around the processors and ProcCL\'s cycle-level timing are related '
  'to the ISA model by this run\'s differential execution only; ProcFL\'s block, the TinyRV0Inst accessors and ProcCL\'s execute semantics are '
  'regenerated from the source and proved equal to the ISA model (Props/C20fGen.lean, C20cGen.lean, see c20_procfl.TRUSTED); the '
  'five-stage ProcRTL is modelled cycle by cycle in Model/Pipe.lean (theorems in Props/C20p.lean, see c20_pipe.TRUSTED for what '
  'is proved about it and what still rests on differential execution)',
  'Model/Cksum.lean follows ChecksumFL.checksum, ChecksumRTL (StepUnit chain) and utils.words_to_b128 / b128_to_words; '
  'the queues / handshakes of ChecksumCL / ChecksumRTL are not modelled (function of the message only)',
  'the recording sink (subclass of TestSinkCL with the same ready/delay behaviour) replaces the asserting sink in the '
  'repo\'s harnesses; a run ends 40 cycles after the expected number of messages arrived (extra messages are recorded)',
] + c20_pipe.TRUSTED + c20_procfl.TRUSTED
ASSUMPTIONS = [
  'programs are TinyRV0 programs the ISA defines completely: aligned accesses below 1MB, stores only to the data window '
  '0x2000..0x20ff, CSRs mngr2proc (read) / proc2mngr (write) / xcelreg00..31 (read and write, NullXcel attached as in the repo\'s '
  'TestHarness), termination by running into the zero word after the last instruction; illegal words are outside the model and the generator',
  'commit_inst: ProcFL and ProcRTL commit every instruction; ProcCL does not commit `nop` (it never reaches its W stage), '
  'so its count is compared with (instruction count - executed nops)',
] + c20_pipe.ASSUMPTIONS + c20_procfl.ASSUMPTIONS
RULE = ('structured random programs (straight-line blocks, forward bne over blocks, down-counter loops nested <= 2, dense RAW '
        'reuse of the last 3 destinations, load-use, store->load same/neighbouring word, pointers through memory, far-base '
        'addressing with negative offsets, csrr/csrw in loops, register-file dump epilogue) + far-branch family (taken bne with '
        '|offset| 2044..4096 bytes both directions over filler) + false-producer family (sw / bne whose inst[11:7] immediate bits equal a source register '
        'of the next 1-3 instructions) + accelerator family (xcelreg writes / reads next to csrw proc2mngr, csrr mngr2proc, loads, stores, '
        'consumers; 1-cycle memory with stalling sink / source) + mem-before-branch family (lw / sw / csrw proc2mngr directly in front of taken '
        'and not-taken bne, forward and backward, observable first instruction at the target; memory latency 2-4, stalls, sink delays) + directed boundary-immediate programs, rejection-sampled with the ISA '
        'oracle; x timing configs (src/sink delay 0-5, stall prob {0,.3,.6}, latency 1-5) x {FL,CL,RTL}; '
        'non-trivial = program stores and takes a backward branch or runs >= 60 instructions; distinct = (program text, inputs, timing, level)')

#=========================================================================
# encoding: assembler / disassembler vs ISA oracle vs model
#=========================================================================

REGS_B = [0, 1, 2, 15, 16, 30, 31]
IMM12_B = [-2048, -2047, -1025, -1024, -1, 0, 1, 2, 31, 32, 1023, 1024, 2046, 2047]
IMM13_B = [-4096, -4094, -2050, -2048, -2046, -4, -2, 0, 2, 4, 30, 32, 34, 2046, 2048, 2050, 4092, 4094]

def gen_inst(rng):
  name = rng.choice(['add', 'and', 'sll', 'srl', 'addi', 'lw', 'sw', 'bne', 'csrr', 'csrw'])
  r = lambda: rng.choice(REGS_B) if rng.random() < 0.4 else rng.randint(0, 31)
  i12 = lambda: rng.choice(IMM12_B) if rng.random() < 0.5 else rng.randint(-2048, 2047)
  i13 = lambda: rng.choice(IMM13_B) if rng.random() < 0.5 else 2 * rng.randint(-2048, 2047)
  if name in ('add', 'and', 'sll', 'srl'): return (name, r(), r(), r(), 0)
  if name in ('addi', 'lw'): return (name, r(), r(), 0, i12())
  if name == 'sw': return (name, 0, r(), r(), i12())
  if name == 'bne': return (name, 0, r(), r(), i13())
  csr = rng.choice([0xFC0, 0x7C0, 0x7E0, 0x7FF, 0, 0xFFF]) if rng.random() < 0.7 else rng.randint(0, 4095)
  return ('csrr', r(), 0, 0, csr) if name == 'csrr' else ('csrw', 0, r(), 0, csr)

def boundary_insts():
  """every instruction type at the extremes of each field (present in every run, not left to chance)"""
  out = []
  for rd, rs1, rs2 in [(0, 0, 0), (31, 31, 31), (1, 0, 31), (31, 1, 0), (0, 31, 1)]:
    out += [(n, rd, rs1, rs2, 0) for n in ('add', 'and', 'sll', 'srl')]
    for imm in (-2048, -2047, -1, 0, 1, 2046, 2047):
      out += [('addi', rd, rs1, 0, imm), ('lw', rd, rs1, 0, imm), ('sw', 0, rs1, rs2, imm)]
    for off in (-4096, -4094, -4092, -2050, -2048, -2046, -2, 0, 2, 2046, 2048, 2050, 4092, 4094):
      out.append(('bne', 0, rs1, rs2, off))
    for csr in (0, 0x7C0, 0xFC0, 0x7E0, 0x7FF, 0xFFF):
      out += [('csrr', rd, 0, 0, csr), ('csrw', 0, rs1, 0, csr)]
  return out

def inst_text(i):
  name, rd, rs1, rs2, imm = i
  if name in ('add', 'and', 'sll', 'srl'): return f'{name} x{rd}, x{rs1}, x{rs2}'
  if name == 'addi': return f'addi x{rd}, x{rs1}, {imm}'
  if name == 'lw': return f'lw x{rd}, {imm}(x{rs1})'
  if name == 'sw': return f'sw x{rs2}, {imm}(x{rs1})'
  if name == 'bne': return f'bne x{rs1}, x{rs2}, {imm}'
  if name == 'csrr': return f'csrr x{rd}, {imm:#x}'
  return f'csrw {imm:#x}, x{rs1}'

def model_fields(i):
  """constructor arguments of Model.Inst in driver order, raw unsigned immediates"""
  name, rd, rs1, rs2, imm = i
  if name in ('add', 'and', 'sll', 'srl'): return (name, rd, rs1, rs2)
  if name in ('addi', 'lw'): return (name, rd, rs1, imm & 0xfff)
  if name == 'sw': return (name, rs2, rs1, imm & 0xfff)
  if name == 'bne': return (name, rs1, rs2, imm & 0x1fff)
  if name == 'csrr': return (name, rd, imm, 0)
  return (name, imm, rs1, 0)

def oracle_fields(d):
  """same canonical form from the oracle's decode result"""
  return None if d is None else ' '.join(str(x) for x in model_fields(d))

def repo_decode(w):
  """canonical form of what the repo's disassembler tables + TinyRV0Inst field accessors say"""
  from examples.ex03_proc.tinyrv0_encoding import tinyrv0_isa_impl, TinyRV0Inst
  try: name = tinyrv0_isa_impl.decode_inst_name(w)
  except AssertionError: return None
  if name == '': return None                       # the all-zero word ("hacky" early return of decode_tmpl)
  t = TinyRV0Inst(w)
  if name == 'nop': name = 'addi'
  rd, rs1, rs2 = int(t.rd), int(t.rs1), int(t.rs2)
  if name in ('add', 'and', 'sll', 'srl'): f = (name, rd, rs1, rs2)
  elif name in ('addi', 'lw'): f = (name, rd, rs1, int(t.i_imm))
  elif name == 'sw': f = (name, rs2, rs1, int(t.s_imm))
  elif name == 'bne': f = (name, rs1, rs2, int(t.b_imm))
  elif name == 'csrr': f = (name, rd, int(t.csrnum), 0)
  elif name == 'csrw': f = (name, int(t.csrnum), rs1, 0)
  else: return f'?{name}'
  return ' '.join(str(x) for x in f)

def check_encoding(ck, n):
  from examples.ex03_proc.tinyrv0_encoding import assemble_inst
  rng = ck.rng
  insts = boundary_insts() + [gen_inst(rng) for _ in range(n)]
  pcs = [u.TEXT + 4 * rng.randint(0, 500) for _ in insts]
  asm = [int(assemble_inst({}, pc, inst_text(i))) for i, pc in zip(insts, pcs)]
  enc = ck.drv('rv').batch([leanio.line('rv', 'encode', *model_fields(i)) for i in insts])
  # words to decode: the assembled ones, 1-3 bit mutations of them, plain random words, 0
  words = list(asm)
  for w in asm:
    m = w
    for _ in range(rng.randint(1, 3)): m ^= 1 << rng.choice([0, 1, 2, 3, 4, 5, 6, 12, 13, 14, 25, 26, 30, 31, 7, 15, 20, rng.randint(0, 31)])
    words.append(m)
  words += [rng.getrandbits(32) for _ in range(n // 2)] + [0, 0x13, 0xffffffff]
  for i, pc, a, e in zip(insts, pcs, asm, enc):
    case = {'part': 'encode', 'inst': list(i), 'pc': pc}
    ck.count(case, True); ck.hist('encode', i[0])
    want = u.isa_encode(*i)
    if a != want:
      ck.violation('assembler-encoding', {'inst': i[0]}, case,
                   {'assembler': hex(a), 'isa_document': hex(want), 'model': e, 'oracle': 'encoding tables of tinyrv0-isa.md restated in Python'})
    elif e != str(a):
      ck.disagreement('Model.encode≈tinyrv0_encoding.assemble_inst', case, e, str(a))
  decode_words(ck, words, 'random')
  c20_procfl.check_fields(ck, words)

def decode_words(ck, words, label):
  dec = ck.drv('rv').batch([leanio.line('rv', 'decode', w) for w in words])
  for w, m in zip(words, dec):
    case = {'part': 'decode', 'word': w}
    d = u.isa_decode(w)
    want = oracle_fields(d)
    got = repo_decode(w)
    ck.count(case, d is not None); ck.hist('decode', label + ('-valid' if d else '-invalid'))
    mm = None if m == 'none' else m
    if got != want:
      ck.violation('disassembler-decoding', {'inst': d[0] if d else 'none'}, case,
                   {'repo_tables': got, 'isa_document': want, 'model': m, 'oracle': 'opcode/funct table of tinyrv0-isa.md restated in Python'})
    elif mm != got:
      ck.disagreement('Model.decode≈tinyrv0_encoding decode tables', case, m, got)

def exhaustive_decode(ck, quick):
  """every opcode x funct3 x funct7 class x (rd, rs1) class, other bits fixed: the whole decision table of decode"""
  f7s = [0, 0x20] if quick else [0, 1, 0x20, 0x3f, 0x40, 0x7f]
  regs = [(0, 0), (1, 1)] if quick else [(a, b) for a in (0, 1, 31) for b in (0, 1, 31)]
  words = [(f7 << 25) | (5 << 20) | (rs1 << 15) | (f3 << 12) | (rd << 7) | opc
           for opc in range(128) for f3 in range(8) for f7 in f7s for rd, rs1 in regs]
  decode_words(ck, words, 'table')
  c20_procfl.check_fields(ck, words[::3] if quick else words)
  ck.extra_cov['exhaustive_part'] = (f'decode decision table: all 128 opcodes x 8 funct3 x funct7 in {[hex(x) for x in f7s]} x '
                                     f'{len(regs)} (rd, rs1) classes = {len(words)} words')

#=========================================================================
# programs
#=========================================================================

DIRECTED = [
  # back-to-back taken branches, branch in the shadow of a branch
  ("csrr x1, mngr2proc\ncsrr x2, mngr2proc\nbne x1, x2, A\nbne x1, x0, B\ncsrw proc2mngr, x1\nA:\nbne x2, x1, C\ncsrw proc2mngr, x2\n"
   "B:\naddi x5, x0, 7\nC:\nbne x0, x0, A\ncsrw proc2mngr, x5\ncsrw proc2mngr, x1\n", [3, 9]),
  # vector increment: loop with pointer bump, load-use into add into store, store-load same word next iteration
  ("csrr x1, mngr2proc\ncsrr x3, mngr2proc\nL:\nlw x5, 0(x1)\nadd x5, x5, x3\nsw x5, 0(x1)\nsw x5, 4(x1)\nlw x6, 4(x1)\ncsrw proc2mngr, x6\n"
   "addi x1, x1, 4\naddi x3, x3, -1\nbne x3, x0, L\nlw x7, 0(x1)\ncsrw proc2mngr, x7\n", [0x2010, 6]),
  # csr streaming: every value passes through
  ("addi x3, x0, 8\nL:\ncsrr x5, mngr2proc\ncsrw proc2mngr, x5\ncsrr x6, mngr2proc\nadd x7, x5, x6\ncsrw proc2mngr, x7\naddi x3, x3, -1\nbne x3, x0, L\n"
   "csrw proc2mngr, x3\n", [(0x9e3779b9 * k) & 0xffffffff for k in range(1, 17)]),
  # shifts by register values >= 32, writes to x0, load of program text, sign-extended address arithmetic
  ("csrr x5, mngr2proc\ncsrr x6, mngr2proc\nsll x7, x5, x6\nsrl x8, x5, x6\nsll x0, x5, x6\nadd x9, x0, x0\nlw x10, 0x200(x0)\n"
   "csrr x1, mngr2proc\naddi x11, x1, 2047\nsw x7, -2047(x11)\nlw x12, 0(x1)\naddi x13, x0, -1\nand x14, x13, x12\n"
   "csrw proc2mngr, x7\ncsrw proc2mngr, x8\ncsrw proc2mngr, x9\ncsrw proc2mngr, x10\ncsrw proc2mngr, x12\ncsrw proc2mngr, x14\n",
   [0x80000001, 0xffffffe1, 0x2040]),
  # boundary immediates of every type: addi/lw/sw with imm = -2048 and 2047, shift amounts 31/32/33 from registers
  ("csrr x1, mngr2proc\ncsrr x5, mngr2proc\naddi x6, x1, 2047\naddi x6, x6, 1\nsw x5, -2048(x6)\nlw x7, -2048(x6)\n"
   "addi x8, x1, -2047\nsw x7, 2047(x8)\naddi x8, x8, -4\nlw x9, 2047(x8)\naddi x10, x0, -2048\naddi x11, x0, 2047\n"
   "addi x12, x0, 31\naddi x13, x0, 32\naddi x14, x0, 33\nsll x15, x5, x12\nsll x16, x5, x13\nsll x17, x5, x14\n"
   "srl x18, x5, x12\nsrl x19, x5, x13\nsrl x20, x5, x14\nsrl x21, x10, x12\nsll x22, x11, x14\n"
   + ''.join(f"csrw proc2mngr, x{r}\n" for r in range(5, 23)), [0x2040, 0x80000003]),
  # false producers: sw / not-taken bne whose inst[11:7] immediate bits equal the register read two slots later
  ("csrr x1, mngr2proc\ncsrr x2, mngr2proc\ncsrr x4, mngr2proc\ncsrr x8, mngr2proc\ncsrr x29, mngr2proc\nnop\nnop\nnop\n"
   "sw x2, 4(x1)\naddi x6, x0, 1\nadd x5, x2, x4\ncsrw proc2mngr, x5\nnop\nnop\nnop\n"
   "bne x2, x2, 8\naddi x6, x6, 1\nadd x9, x2, x8\ncsrw proc2mngr, x9\nnop\nnop\nnop\n"
   "sw x2, 8(x1)\naddi x6, x6, 1\nsw x8, 12(x1)\nlw x10, 12(x1)\ncsrw proc2mngr, x10\nnop\nnop\nnop\n"
   "bne x2, x2, -4\nnop\nsrl x11, x2, x29\nsll x12, x29, x2\ncsrw proc2mngr, x11\ncsrw proc2mngr, x12\nnop\nnop\n"
   "sw x0, 8(x1)\nnop\nbne x2, x8, T\naddi x6, x6, 64\nT:\ncsrw proc2mngr, x6\n", [0x2000, 7, 100, 50, 3]),
  # accelerator register: read right behind back-to-back csrw proc2mngr (response buffered while the sink is busy),
  # write/read through different register numbers, read-use, csrr x0
  ("addi x5, x0, 77\ncsrw 0x7e0, x5\ncsrw proc2mngr, x5\ncsrw proc2mngr, x5\ncsrr x6, 0x7e3\ncsrw proc2mngr, x6\n"
   "csrr x7, mngr2proc\ncsrw 0x7ff, x7\ncsrw proc2mngr, x7\ncsrw proc2mngr, x6\ncsrw proc2mngr, x5\ncsrr x8, 0x7e0\nadd x9, x8, x8\n"
   "csrr x0, 0x7f0\ncsrw proc2mngr, x8\ncsrw proc2mngr, x9\ncsrw 0x7e1, x0\ncsrw proc2mngr, x9\ncsrr x10, 0x7e1\ncsrw proc2mngr, x10\n",
   [0xcafe1234]),
  # memory operations directly in front of taken / not-taken branches (branch waits in X behind them), target's first
  # instruction observable, forward and backward
  ("csrr x1, mngr2proc\naddi x3, x0, 3\naddi x20, x0, 0x111\naddi x21, x0, 0x222\nlw x5, 0(x1)\nlw x6, 4(x1)\nbne x3, x0, T1\n"
   "csrw proc2mngr, x21\nT1:\ncsrw proc2mngr, x20\ncsrw proc2mngr, x5\nsw x6, 8(x1)\nsw x5, 12(x1)\nbne x0, x3, T2\ncsrw proc2mngr, x21\n"
   "addi x21, x21, 1\nT2:\ncsrw proc2mngr, x3\naddi x4, x0, 3\nB1:\ncsrw proc2mngr, x4\naddi x4, x4, -1\nlw x7, 8(x1)\nsw x7, 16(x1)\nlw x8, 16(x1)\n"
   "bne x4, x0, B1\ncsrw proc2mngr, x8\nlw x9, 0(x1)\nlw x10, 4(x1)\nbne x3, x3, T3\ncsrw proc2mngr, x21\nT3:\ncsrw proc2mngr, x20\n"
   "csrw proc2mngr, x20\ncsrw proc2mngr, x21\nbne x1, x0, T4\ncsrw proc2mngr, x21\nT4:\ncsrw proc2mngr, x9\n", [0x2020]),
  # pointer chasing: each load feeds the next address
  ("csrr x1, mngr2proc\nsw x1, 0(x1)\nlw x2, 0(x1)\nlw x2, 0(x2)\nlw x2, 0(x2)\naddi x2, x2, 8\nsw x2, 0(x1)\nlw x1, 0(x1)\nsw x1, 0(x1)\nlw x5, 0(x1)\n"
   "csrw proc2mngr, x5\ncsrw proc2mngr, x2\n", [0x2020]),
]

def directed_program(text, inp, rng):
  data = [(0x01010101 * (k + 1)) & 0xffffffff for k in range(u.NDATA)]
  full = text + '  .data\n' + ''.join(f'  .word {w:#010x}\n' for w in data)
  img = u.assemble(full)
  words = u.image_words(img)
  mem = bytearray(1 << 20)
  for a, w in words: mem[a:a + 4] = w.to_bytes(4, 'little')
  q = list(inp)
  ref = u.isa_run(mem, lambda rd: q.pop(0) if q else None, 5000)
  if ref['stop'] != 'illegal' or q: raise InfraError(f'directed program is not a complete terminating program: {ref["stop"]}')
  ref['mem'] = bytes(mem)
  return dict(text=full, words=words, inp=list(inp), insts=None, ref=ref, attempts=0)

def rand_cfg(rng, tight=False):
  """[src_delay, sink_delay, mem_stall_prob, mem_latency]; `tight` = latency 1 and no stalls, the only setting in which
  consecutive instructions are adjacent in the pipelines (back-to-back hazards, branch shadows)"""
  if tight or rng.random() < 0.1:
    return [rng.choice([0, 0, 1, 3]), rng.choice([0, 0, 1, 4]), 0, 1]
  return [rng.randint(0, 5), rng.randint(0, 5), rng.choice([0, 0.3, 0.6]), rng.randint(1, 5)]

def model_run_line(pr, fuel):
  return leanio.line('rv', 'run', [[a, w] for a, w in pr['words']], list(pr['inp']), fuel)

def parse_model(reply):
  t = leanio.parse_sexp(reply)
  stop, icount, pc, out, regs, mem, xr0 = t
  return dict(stop=stop, icount=int(icount), pc=int(pc), out=[int(x) for x in out], regs=[int(x) for x in regs],
              mem={int(a): int(w) for a, w in mem}, xr0=int(xr0))

def model_image(m):
  img = bytearray(1 << 20)
  for a, w in m['mem'].items():
    if a + 4 <= len(img): img[a:a + 4] = w.to_bytes(4, 'little')
  return bytes(img)

def first_diff(a, b):
  n = min(len(a), len(b))
  if a[:n] == b[:n]: return None
  for i in range(0, n, 4):
    if a[i:i + 4] != b[i:i + 4]:
      return {'addr': hex(i), 'left': a[i:i + 4][::-1].hex(), 'right': b[i:i + 4][::-1].hex()}
  return None

def obs_of_ref(ref):
  return {'out': ref['out'], 'icount': ref['icount'], 'stop': ref['stop'], 'pc': ref['pc']}

def eval_program(ck, pr, model_reply, cfgs, fuel, gen=None):
  """run one program under each timing config on the three levels; oracle first, model second"""
  ref = pr['ref']; m = parse_model(model_reply)
  n = (1 << 20) - 1
  mimg = model_image(m)
  # model vs direct oracle (both are readings of the ISA document): a difference is a broken correspondence
  model_ok = (m['out'] == ref['out'] and m['icount'] == ref['icount'] and m['stop'] == ref['stop'] and m['pc'] == ref['pc']
              and m['regs'] == ref['regs'] and mimg == ref['mem'] and m['xr0'] == ref['xr0'])
  for cfg in cfgs:
    for level in ('FL', 'CL', 'RTL'):
      case = {'part': 'program', 'text': pr['text'], 'inp': pr['inp'], 'cfg': cfg, 'level': level}
      mix = ref['mix']
      nontrivial = (len(ref['stores']) > 0 and mix.get('taken_back', 0) > 0) or ref['icount'] >= 60
      ck.count(case, nontrivial)
      ck.hist('level', level); ck.hist('mem_latency', cfg[3]); ck.hist('mem_stall_prob', cfg[2])
      ck.hist('src_delay', cfg[0]); ck.hist('sink_delay', cfg[1])
      max_cycles = 3000 + 80 * ref['icount'] + 12 * len(ref['out']) * (cfg[1] + 1) + 12 * len(pr['inp']) * (cfg[0] + 1)
      r = u.run_proc(level, pr['text'], pr['inp'], tuple(cfg), len(ref['out']), max_cycles=max_cycles)
      want_commits = ref['icount'] - (ref['nops'] if level == 'CL' else 0)
      bad = []
      if r['status'] != 'ok': bad.append(('status', r['status'], 'ok'))
      if r['out'] != ref['out']: bad.append(('proc2mngr', r['out'][:200], ref['out'][:200]))
      if r['src_left']: bad.append(('mngr2proc-unconsumed', r['src_left'], 0))
      if r['mem'] != ref['mem'][:n]: bad.append(('memory', first_diff(r['mem'], ref['mem']), 'equal images'))
      if r['status'] == 'ok' and not bad and r['commits'] != want_commits: bad.append(('commit_inst', r['commits'], want_commits))
      if bad:
        ck.violation('proc-vs-isa', {'level': level, 'what': bad[0][0]}, case,
                     {'observed_vs_isa': [list(b) for b in bad], 'cycles': r['cycles'],
                      'model': {'out': m['out'][:200], 'icount': m['icount'], 'stop': m['stop']},
                      'oracle': 'Python TinyRV0 interpreter written from tinyrv0-isa.md (c20_util.isa_run)'})
      elif gen is not None and level in gen:
        c20_procfl.compare_with_proc(ck, case, gen[level], r, level, model_image)
      if not bad and not model_ok:
        ck.disagreement('Model.run≈Proc' + level, case,
                        {'out': m['out'][:200], 'icount': m['icount'], 'stop': m['stop'], 'pc': m['pc'], 'regs': m['regs'], 'xr0': m['xr0'],
                         'mem_diff_vs_impl': first_diff(mimg, r['mem'])},
                        {'out': r['out'][:200], 'commits': r['commits']})
  for k, v in ref['mix'].items(): ck.hist('dynamic_mix', k, v)
  ck.hist('dynamic_length', min(ref['icount'] // 50 * 50, 1000))

def check_assembled(ck, pr, enc_replies):
  """every instruction of a generated program: assembler word (with label resolution) vs ISA document vs model"""
  wmap = dict(pr['words'])
  for (pc, name, rd, rs1, rs2, imm), e in zip(pr['insts'], enc_replies):
    a = wmap[pc]; want = u.isa_encode(name, rd, rs1, rs2, imm)
    case = {'part': 'assemble', 'inst': [name, rd, rs1, rs2, imm], 'pc': pc}
    if a != want:
      ck.violation('assembler-encoding', {'inst': name}, case,
                   {'assembler': hex(a), 'isa_document': hex(want), 'model': e, 'oracle': 'encoding tables of tinyrv0-isa.md restated in Python'})
    elif e != str(a):
      ck.disagreement('Model.encode≈tinyrv0_encoding.assemble', case, e, str(a))

def check_programs(ck, nprog, ncfg, sizes, fuel, nfar=0, far_ncfg=1, nalias=0, nxcel=0, nmembr=0):
  rng = ck.rng
  progs = [directed_program(t, i, rng) for t, i in DIRECTED]
  for _ in range(nfar):                              # far-branch family: taken bne with |offset| around / above 2048 bytes
    p = u.gen_far_program(rng, fuel); p['tight_cfgs'] = far_ncfg
    for d in p['hops']: ck.hist('far_branch_offset', d if abs(d) >= 2040 else 'other')
    progs.append(p)
  for _ in range(nalias):                            # false-producer family (sw / bne immediate bits aliasing a source register)
    p = u.gen_program(rng, rng.choice([90, 130, 170]), fuel, family='alias'); p['tight_cfgs'] = 2
    progs.append(p)
  for _ in range(nxcel):                             # accelerator family; timing: 1-cycle memory, sink and source that stall
    p = u.gen_program(rng, rng.choice([60, 100, 140]), fuel, family='xcel')
    p['cfgs'] = [[rng.randint(0, 5), rng.randint(1, 5), 0, 1], rand_cfg(rng)]
    progs.append(p)
  for _ in range(nmembr):                            # memory ops / csrw right before branches; slow memory, stalls, sink delays
    p = u.gen_program(rng, rng.choice([60, 100, 140]), fuel, family='membr')
    p['cfgs'] = [[rng.randint(0, 3), rng.choice([0, 0, 1, 3]), 0, 2],
                 [rng.randint(0, 5), rng.randint(0, 5), rng.choice([0, 0.3, 0.6]), rng.choice([2, 3, 4])]]
    progs.append(p)
  for _ in range(nprog):
    progs.append(u.gen_program(rng, rng.choice(sizes), fuel))
  ck.hist('generator', 'rejected_attempts', sum(max(0, p['attempts'] - 1) for p in progs))
  replies = ck.drv('rv').batch([model_run_line(p, fuel + 10) for p in progs])
  glines = [c20_procfl.gen_lines(p, fuel + 10) for p in progs]
  gfl = ck.drv('procfl').batch([a for a, _ in glines]); gcl = ck.drv('procfl').batch([b for _, b in glines])
  enc_lines = []; spans = []
  for p in progs:
    k0 = len(enc_lines)
    for ins in (p['insts'] or []):
      enc_lines.append(leanio.line('rv', 'encode', *model_fields(ins[1:])))
    spans.append((k0, len(enc_lines)))
  enc = ck.drv('rv').batch(enc_lines)
  for p, rep, (a, b), rfl, rcl in zip(progs, replies, spans, gfl, gcl):
    if p['insts']: check_assembled(ck, p, enc[a:b])
    gen = {'FL': c20_procfl.parse_gen(rfl), 'CL': c20_procfl.parse_gen(rcl)}
    for level in ('FL', 'CL'): c20_procfl.check_gen_vs_oracle(ck, p, gen[level], level, model_image)
    if p.get('cfgs'): cfgs = p['cfgs']
    elif p.get('tight_cfgs'): cfgs = [rand_cfg(rng, tight=(k == 0)) for k in range(p['tight_cfgs'])]
    else: cfgs = [rand_cfg(rng, tight=(k == 0 and rng.random() < 0.7)) for k in range(ncfg)]
    eval_program(ck, p, rep, cfgs, fuel, gen)
    if len(ck.violations) > 20: break

#=========================================================================
# checksum
#=========================================================================

CK_BOUNDARY = [[0] * 8, [0xffff] * 8, [1] * 8, [0x8000] * 8, [1, 2, 3, 4, 5, 6, 7, 8], [8, 7, 6, 5, 4, 3, 2, 1],
               [0xffff, 0, 0, 0, 0, 0, 0, 0], [0, 0, 0, 0, 0, 0, 0, 0xffff], [0xffff, 1, 0xffff, 1, 0xffff, 1, 0xffff, 1],
               [0x7fff, 0x8000, 0x7fff, 0x8001, 0xfffe, 2, 0xffff, 0xffff], [0x1234, 0x5678, 0x9abc, 0xdef0, 0x0fed, 0xcba9, 0x8765, 0x4321]]

def check_cksum(ck, n):
  rng = ck.rng
  inputs = [list(x) for x in CK_BOUNDARY]
  while len(inputs) < n:
    r = rng.random()
    if r < 0.3: inputs.append([rng.choice([0, 1, 0xffff, 0xfffe, 0x8000, 0x7fff]) for _ in range(8)])
    else: inputs.append([rng.getrandbits(16) for _ in range(8)])
  res = u.run_cksum_units(inputs, rng)
  model = ck.drv('rv').batch([leanio.line('rv', 'cksum', ws) for ws in inputs])
  for lvl in ('CL', 'RTL'):
    if isinstance(res[lvl], str) or len(res[lvl]) != len(inputs):
      ck.violation('cksum-unit-run', {'level': lvl}, {'part': 'cksum', 'inputs': inputs[:20]},
                   {'got': res[lvl] if isinstance(res[lvl], str) else f'{len(res[lvl])} results for {len(inputs)} inputs',
                    'oracle': 'one result per input, in order'})
      res[lvl] = None
  for k, ws in enumerate(inputs):
    case = {'part': 'cksum', 'words': ws}
    ck.count(case, any(ws)); ck.hist('cksum', 'boundary' if k < len(CK_BOUNDARY) else 'random')
    want = u.cksum_spec(ws)
    got = {lvl: (res[lvl][k] if res[lvl] is not None else None) for lvl in ('FL', 'CL', 'RTL')}
    wrong = [lvl for lvl in ('FL', 'CL', 'RTL') if got[lvl] is not None and got[lvl] != want]
    ms = [int(x) for x in model[k].split()]
    if wrong:
      ck.violation('cksum-vs-spec', {'level': wrong[0]}, case,
                   {'got': {l: (hex(v) if v is not None else None) for l, v in got.items()}, 'spec': hex(want), 'model': model[k],
                    'oracle': 'two running sums modulo 65536, (sum2 << 16) | sum1'})
    elif any(x != want for x in ms):
      ck.disagreement('Model.Cksum≈ex02_cksum', case, model[k], hex(want))

#=========================================================================

def pregen(ck):
  """translator-based tie for the pipeline: regenerate lean/PymtlVerif/Gen/PipeGen.lean from the current ProcCtrlRTL / ProcDpathRTL /
  MiscRTL sources (tools/py2lean_pipe.py); Props/C20pGen.lean then re-proves generated = Model/Pipe.lean.  Likewise
  Gen/ProcFLGen.lean / ProcCLGen.lean from tinyrv0_encoding.py / ProcFL.py / ProcCL.py (tools/py2lean_procfl.py; Props/C20fGen.lean, C20cGen.lean)"""
  notes, errs = [], []
  for f in (c20_pipe.pregen, c20_procfl.pregen):
    try: notes += list(f(ck) or [])
    except InfraError: raise
    except Exception as e: errs.append(f'{type(e).__name__}: {e}')
  if errs: raise RuntimeError(' || '.join(errs))
  return notes

def run(ck):
  quick = ck.tier == 'quick'
  check_encoding(ck, 400 if quick else 6000)
  exhaustive_decode(ck, quick)
  check_cksum(ck, 150 if quick else 3000)
  if quick: check_programs(ck, 16, 2, [25, 50, 80, 120], 4000, nfar=3, far_ncfg=1, nalias=4, nxcel=4, nmembr=4)
  else: check_programs(ck, 300, 2, [20, 40, 60, 90, 140, 200], 6000, nfar=40, far_ncfg=2, nalias=40, nxcel=40, nmembr=40)
  c20_pipe.run(ck)

def replay(ck, data):
  c = data['case']
  if c is None:
    print('no failing input recorded'); return 0
  if c.get('part') in ('pipe', 'pipe-reset'): return c20_pipe.replay(ck, data)
  if c.get('part') == 'fields': return c20_procfl.replay_fields(ck, c['word'])
  if c.get('part') == 'program':
    text, inp, cfg, level = c['text'], c['inp'], c['cfg'], c['level']
    words = u.image_words(u.assemble(text))
    mem = bytearray(1 << 20)
    for a, w in words: mem[a:a + 4] = w.to_bytes(4, 'little')
    q = list(inp)
    ref = u.isa_run(mem, lambda rd: q.pop(0) if q else None, 20000)
    m = parse_model(ck.drv('rv').batch([leanio.line('rv', 'run', [[a, w] for a, w in words], list(inp), 20010)])[0])
    r = u.run_proc(level, text, inp, tuple(cfg), len(ref['out']), max_cycles=3000 + 100 * ref['icount'] + 500 * len(ref['out']))
    print(text)
    print(f'inputs={inp} cfg(src_delay,sink_delay,stall,latency)={cfg} level={level}')
    print(f"isa oracle: stop={ref['stop']} icount={ref['icount']} out={ref['out']}")
    print(f"lean model: stop={m['stop']} icount={m['icount']} out={m['out']}")
    print(f"Proc{level}:   status={r['status']} commits={r['commits']} cycles={r['cycles']} out={r['out']}")
    print('memory Proc vs oracle:', first_diff(r['mem'], bytes(mem)), ' model vs oracle:', first_diff(model_image(m), bytes(mem)))
    want_commits = ref['icount'] - (ref['nops'] if level == 'CL' else 0)
    ok = (r['status'] == 'ok' and r['out'] == ref['out'] and r['mem'] == bytes(mem)[:len(r['mem'])] and r['commits'] == want_commits
          and not r['src_left'])
    return 0 if ok else 1
  if c.get('part') == 'cksum':
    ws = c['words']
    res = u.run_cksum_units([ws], ck.rng)
    m = ck.drv('rv').batch([leanio.line('rv', 'cksum', ws)])[0]
    print(f'words={ws}\nspec={u.cksum_spec(ws):#x}\nmodel(spec fl rtl clmsg rtlmsg)={m}\nimpl={res}')
    return 0 if all(isinstance(res[l], list) and res[l] == [u.cksum_spec(ws)] for l in ('FL', 'CL', 'RTL')) else 1
  if c.get('part') in ('encode', 'assemble'):
    from examples.ex03_proc.tinyrv0_encoding import assemble_inst
    i = tuple(c['inst'])
    a = int(assemble_inst({}, c['pc'], inst_text(i))); want = u.isa_encode(*i)
    m = ck.drv('rv').batch([leanio.line('rv', 'encode', *model_fields(i))])[0]
    print(f'inst={i}\nassembler={a:#010x}\nisa document={want:#010x}\nmodel={m}')
    return 0 if a == want else 1
  if c.get('part') == 'decode':
    w = c['word']
    m = ck.drv('rv').batch([leanio.line('rv', 'decode', w)])[0]
    print(f'word={w:#010x}\nrepo tables={repo_decode(w)}\nisa document={oracle_fields(u.isa_decode(w))}\nmodel={m}')
    return 0 if repo_decode(w) == oracle_fields(u.isa_decode(w)) else 1
  print('unknown case', c); return 2
