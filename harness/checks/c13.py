"""C13 — translation is deterministic and module names never alias different hardware.

proof:          lean/PymtlVerif/Props/C13.lean (model: Model/Names.lean, lemmas: Proofs/Names.lean)
correspondence: (1) names: random (class name, parameter list) through the REAL get_component_full_name /
                get_component_unique_name (a stub rtype carries name + params) and random bitstruct classes through the
                real Struct.get_full_name / get_name, against fullName / uniqueName / structName (hash = blake2b supplied
                by the harness, as the model keeps it uninterpreted);
                (2) designs: generated hierarchical designs (c13_gen.py), stdlib components and the examples are
                translated by VerilogTranslationPass and YosysTranslationPass in this process (twice) and in FRESH
                processes with PYTHONHASHSEED = 0,1,2,.. (c13_worker.py, twice each); the instance tree, parameters,
                ports / interfaces / update blocks are read off the elaborated design (instance __dict__, construct
                signature) and given to the model, which predicts every module name, the order of the emitted modules,
                WHICH instance's body each module holds (first writer wins), the port order (SV), the always-block order
                and the instance order of every module; the scanned module table (c13_scan.py) goes through wfModules;
                (3) labelled aliasing probes (c13_gen.ALIAS_STREAMS);
                (5) identifiers made by `__`-joining user names and struct type names (c13_mangle.py: witnesses of the Lean
                collision theorems replayed on the real translators, designs with adversarial user names, pairs of struct types
                the naming scheme cannot tell apart, class names / string parameters containing the separator);
                (4) pass runs over SEVERAL translation-enabled sub-trees (c13_gen.multi_subtree: ordinary components,
                Verilog placeholders, components containing one, the same class twice, explicit_module_name), ONE pass
                application, against each sub-tree translated alone in a fresh process (direct oracle only, no model).
direct oracle:  byte equality of the text across runs / seeds; one definition per module name, every instantiated module
                defined, identifiers legal / not reserved / unique per module (c13_scan.direct_wf: regex fullmatch +
                pymtl3's reserved set), also on the names the translator chose (before any text is scanned);
                instances that share an emitted module name have identical STANDALONE translations (each instance
                re-created from its class and EFFECTIVE arguments -- constructor arguments overlaid with set_param --
                and translated as a top of its own); the module named at every instantiation site has the instance's
                own ports (names, widths, dims; SV) and the instance's standalone code; a design the translator refuses
                with "same module name" must really contain two instances of equal identity (class name + parameter
                images) and different hardware -- refusing a design whose components all differ in class name or
                parameters is a violation (legal-design-refused).
"""
import hashlib, importlib, inspect, itertools, json, os, re, subprocess, sys, time

from ..common import leanio
from ..common.leanio import InfraError
from . import c13_gen, c13_mangle, c13_scan, c13_worker

PID = 'C13'
DRIVERS = ['names']
MODULE = 'PymtlVerif.Props.C13'
THEOREMS = ['PV.C13.' + t for t in [
  'wfModules_sound', 'wfModules_complete', 'legalId_iff', 'isIdStart_iff',
  'table_first_wins', 'table_defined_once', 'table_closed', 'table_from_instances',
  'no_alias_if_names_injective', 'alias_if_not_injective', 'no_alias_iff_names_injective', 'tree_first_wins',
  'alias_witness', 'param_image_collision', 'param_image_alias_witness', 'illegal_name_witness',
  'checked_no_alias', 'checked_error_sound', 'checked_ok_iff_injective',
  'fullName_inj', 'uniqueNameWith_inj', 'uniqueName_inj', 'uniqueName_idShape',
  'uniqueNameR_inj', 'uniqueNameR_idShape', 'uniqueNameR_conservative', 'hasSpecial_not_idShape',
  'post_perm_invariant', 'post_children_perm', 'portOrder_perm_invariant', 'blockOrder_perm_invariant',
  'flatId_inj', 'flatIds_nodup', 'flatCollisions_eq_nil_iff', 'flatCollisions_nil_of_ok', 'flatId_collision_witnesses',
  'structFullName_inj', 'structName_inj', 'structName_collision_witnesses', 'struct_collision_changes_layout']]
TRUSTED = [
  'Model/Names.lean follows get_component_full_name, get_component_unique_name, Struct.get_name and the translate_component '
  'walk of RTLIRTranslator.translate; a module body is an opaque value (the text rtlir_tr_component returns)',
  'the hash (blake2b, 8 bytes, hex) is a parameter of the model; the harness supplies hashlib.blake2b; uniqueName_inj assumes '
  'it has no collision on the suffixes involved',
  'c13_scan.py: line-oriented scanner of the emitted text (not a Verilog parser); a depth-0 line it does not understand is an '
  'infrastructure error, never skipped',
  'c13_mangle.comp_paths: which hardware objects of a component get an identifier in the module scope (per backend: list '
  'wires, packed struct wires, per-element wires of the Yosys backend) is read off the design description by harness glue; '
  'the model only joins the path of each object (flatId); the set is compared with the identifiers scanned from the text',
  'the classification of a Python construct argument into PVal (int / bool / str / None / Bits / type / bitstruct / other) '
  'and the reading of ports, interfaces, blocks and children off the instance __dict__ are harness glue',
]
ASSUMPTIONS = [
  'PARTIAL / by correspondence only: independence of the emitted text from PYTHONHASHSEED and from earlier translations in the '
  'same process is a property of CPython set/dict iteration and of the whole translator that no Lean model exhibits; it is '
  'covered by byte comparison across fresh processes (quick 3 seeds, thorough 12) and two translations per process, on the '
  'generated designs only. The theorems cover the naming / aliasing logic, the table walk, the order functions and the checker.',
  'parameters whose str() is a function of the value (not of the object address); ASCII names',
  'fullName_inj / uniqueName_inj: same class (same ordered parameter names), value images without "__" and not ending in "_"',
  'flatId_inj / flatIds_nodup: every user name on the paths is okName (not empty, does not start with "_" or a digit, contains '
  'no "__"; a trailing "_" is allowed); pymtl3 guarantees the first two clauses for hardware objects, the third is the '
  'user\'s obligation (without it: known finding C13-flattened-identifier-collision)',
  'structFullName_inj / structName_inj: struct types WITHOUT nested structs (fields are vectors or lists of vectors), class and '
  'field names okName; with a nested struct Struct.get_full_name is ambiguous even for well-formed names '
  '(structName_collision_witnesses; known finding C13-struct-name-collision); PARTIAL: nothing is proved about struct types '
  'with nested structs beyond the witnesses (whether a collision keeps the packed layout is only recorded: histogram '
  'mangle:collision-layout; struct_collision_changes_layout shows it need not)',
]
RULE = ('names: class name x 0-9 parameters drawn from ints, negative ints, bools, None, strings (identifier-like, with blanks / '
        '<>.[] / other punctuation), Bits values, Bits types, generated bitstruct classes, floats, tuples, lists; a case = one '
        '(class, parameter list); designs: c13_gen (3-8 top-level instances out of 19 templates incl. stdlib, 2-3 levels, shuffled '
        'identifier pool), 9 stdlib/example designs, 19 labelled probe streams (c13_gen.ALIAS_STREAMS: same class name, str() images, long / special / non-identifier / newline-terminated / hash-equal parameters, set_param, bitstruct subclass, same-named structs, nested collisions, placeholder child with explicit_module_name, sibling-internal structs, object repr); a case = (design, backend); non-trivial = '
        'the design has >= 2 instances sharing a module name or >= 3 modules; distinct = distinct source text; '
        'mangle streams (c13_mangle.py): 3 + 6 literal witnesses of the Lean collision theorems; flat designs (half with names from '
        'an adversarial pool incl. two different splittings of one "__"-joined identifier planted as child.port / interface.port / '
        'port / child.interface.port, half well-formed) with ports, port lists, struct ports, wires, nested interfaces, interface '
        'lists, children and child lists; the well-formed half plants near misses (names a single "_" separator would confuse, a list x '
        'next to x_0); pairs of struct types (7 planted collision kinds and 9 near-miss kinds, each in every run, plus random '
        'well-formed flat / nested types); 2 component-name designs; non-trivial = a collision or >= 8 identifiers')

REPO = os.environ.get('PV_REPO', '/repo')     # tools/try_seed.sh points the checks at a scratch worktree
# which name function of Model/Names.lean the real get_component_unique_name is compared with:
# 3 = uniqueName (the code as it is), 4 = uniqueNameR (after the proposed identifier-shape repair)
UNIQ = 4
FINDING = {
  'factory-same-name-different-body': 'F7-same-class-name-different-body',
  'two-modules-same-name-different-body': 'F7-same-class-name-different-body',
  'stdlib-same-name-two-packages': 'F7-same-class-name-different-body',
  'param-image-type-dependent': 'param-str-image-collision',
  'non-identifier-params': 'illegal-module-name',
  'object-repr-param': 'param-repr-address',
  # both: the component table of translate_component is keyed by the unique name, not by the name the module is emitted under
  # regression streams (repaired): the first must be refused, the second must translate
  'explicit-name-different-parameters': 'explicit-module-name-table-key',
}

# ----------------------------------------------------------------------------- protocol helpers

def S(s):
  return [ord(c) for c in s]

def unS(x):
  return ''.join(chr(int(c)) for c in x)

def blake(s):
  h = hashlib.blake2b(digest_size=8)
  h.update(s.encode('ascii', 'replace'))
  return h.hexdigest()

MARK = re.compile('\x01([^\x01\x02]*)\x02')

def ask_hashed(ck, builders):
  """builders: list of functions htable -> request line. Replies may contain \\x01 s \\x02 (an unresolved hash input);
  resolve innermost markers with blake2b and ask again. Returns the parsed replies."""
  tables = [dict() for _ in builders]
  replies = [None] * len(builders)
  todo = list(range(len(builders)))
  for _round in range(6):
    if not todo: break
    lines = [builders[i]([[S(k), S(v)] for k, v in sorted(tables[i].items())]) for i in todo]
    out = ck.drv('names').batch(lines)
    nxt = []
    for i, rep in zip(todo, out):
      parsed = leanio.parse_sexp(rep)
      flat = ' '.join(unS(x) for x in parsed if isinstance(x, list) and all(isinstance(y, str) for y in x))
      inner = MARK.findall(flat)
      if inner:
        for s in inner: tables[i][s] = blake(s)
        nxt.append(i)
      else:
        replies[i] = parsed
    todo = nxt
  if todo: raise InfraError('hash resolution did not converge')
  return replies

# ----------------------------------------------------------------------------- reading a design

def _imports():
  global pymtl3, Bits, is_bitstruct_class, Component, Interface, InPort, OutPort
  import pymtl3
  from pymtl3.datatypes import Bits
  from pymtl3.datatypes.bitstructs import is_bitstruct_class
  from pymtl3 import Component, Interface, InPort, OutPort

def dt_of(t):
  """model data type of a bitstruct field type"""
  if isinstance(t, list):
    dims, sub = [], t
    while isinstance(sub, list):
      dims.append(len(sub)); sub = sub[0]
    return ['arr', dims, dt_of(sub)]
  if is_bitstruct_class(t):
    return ['struct', S(t.__name__), [[S(k), dt_of(v)] for k, v in t.__bitstruct_fields__.items()]]
  return ['vec', t.nbits]

def pstr(v):
  """str image of a parameter value as the (repaired) naming scheme takes it: str(v), except that a value which is or contains a set
  (inside tuples / lists / dict values) is rendered with the elements of every set sorted (independent restatement of
  get_component_full_name.get_string after fix R12 set-param-hashseed / R13 nested-set-param-hashseed)"""
  def has_set(o):
    if isinstance(o, (set, frozenset)): return True
    if isinstance(o, (list, tuple)): return any(has_set(x) for x in o)
    if isinstance(o, dict): return any(has_set(x) for x in o.values())
    return False
  def canon(o):
    if isinstance(o, (set, frozenset)): return '{' + ', '.join(sorted(canon(x) for x in o)) + '}'
    if isinstance(o, tuple): return '(' + ', '.join(canon(x) for x in o) + (',)' if len(o) == 1 else ')')
    if isinstance(o, list): return '[' + ', '.join(canon(x) for x in o) + ']'
    if isinstance(o, dict): return '{' + ', '.join(f'{canon(k)}: {canon(x)}' for k, x in o.items()) + '}'
    return repr(o)
  return canon(v) if has_set(v) else str(v)

def pval_of(v):
  if isinstance(v, bool): return ['bool', v]
  if isinstance(v, Bits): return ['bits', v.nbits, int(v)]
  if isinstance(v, int): return ['int', v]
  if isinstance(v, str): return ['str', S(v)]
  if v is None: return ['none']
  if isinstance(v, type):
    if is_bitstruct_class(v): return dt_of(v)
    return ['type', S(v.__name__)]
  return ['other', S(pstr(v))]

def params_of(m):
  """the EFFECTIVE construct arguments of an instance, derived independently of rt.Component._gen_parameters:
  the construct signature bound to the constructor arguments, overlaid with the arguments given through
  top.set_param('top.<path>.construct', k=v) (read from the instance's parameter tree), defaults applied"""
  sig = inspect.signature(type(m).construct)
  names = list(sig.parameters)[1:]
  kwargs = dict(m._dsl.kwargs)
  tree = getattr(m._dsl, 'param_tree', None)
  if tree is not None and tree.leaf and 'construct' in tree.leaf: kwargs.update(tree.leaf['construct'])
  ba = sig.bind(m, *m._dsl.args, **kwargs)
  ba.apply_defaults()
  return [(n, ba.arguments[n]) for n in names]

def py_struct_name(cls):
  """name of a bitstruct type from its own field table (restatement of Struct.get_name, independent of any cache)"""
  def full(t):
    if isinstance(t, list):
      dims, sub = [], t
      while isinstance(sub, list):
        dims.append(len(sub)); sub = sub[0]
      return full(sub) + 'x' + 'x'.join(map(str, dims))
    if is_bitstruct_class(t): return t.__name__ + '__' + fstr(t)
    return str(t.nbits)
  def fstr(t): return '__'.join(f'{k}_{full(v)}' for k, v in t.__bitstruct_fields__.items())
  f = full(cls)
  return f if len(f) < 64 else cls.__name__ + '__' + blake(fstr(cls))

def identity(m):
  """what a module name is allowed to depend on: the class NAME and the str() images of the effective parameters.
  Two instances with different identities are different components for the naming scheme and must never meet on
  one module name; two instances with equal identities (two classes sharing __name__, 1 vs '1') can only be told
  apart by their bodies, and the translator refusing such a design is the accepted behaviour."""
  def image(v):
    if isinstance(v, type): return py_struct_name(v) if is_bitstruct_class(v) else v.__name__
    return pstr(v)
  EK = c13_worker.backend_pass('sv').explicit_module_name
  if m.has_metadata(EK) and m.get_metadata(EK): return ('explicit_module_name', m.get_metadata(EK))   # the user chose the name
  return (type(m).__name__, tuple((k, image(v)) for k, v in params_of(m)))

def type_width(T):
  if isinstance(T, int): return T
  if isinstance(T, list): return len(T) * type_width(T[0])
  if is_bitstruct_class(T): return sum(type_width(t) for t in T.__bitstruct_fields__.values())
  return T.nbits

def port_table(obj, prefix='', dims=()):
  """SystemVerilog port name -> (packed width, [unpacked dims]) expected from the instance itself"""
  out = {}
  for k, v in obj.__dict__.items():
    if not isinstance(k, str) or k.startswith('_'): continue
    shape, f = [], v
    while isinstance(f, list) and f:
      shape.append(len(f)); f = f[0]
    if isinstance(f, (InPort, OutPort)): out[prefix + k] = (type_width(f._dsl.Type), list(dims) + shape)
    elif isinstance(f, Interface): out.update(port_table(f, prefix + k + '__', tuple(dims) + tuple(shape)))
  return out

def mangle(m):
  return repr(m).replace('.', '_').replace('[', '_').replace(']', '_').replace(':', '_')

def code_of(text, owner_path):
  """module text without comment / blank lines and with the instance path removed from lambda block labels"""
  code = [l.rstrip() for l in text.split('\n') if l.strip() and not l.lstrip().startswith('//')]
  if code and code[0].startswith('module '): code[0] = 'module'      # the name is checked at the instantiation site
  return '\n'.join(code).replace('_lambda__' + owner_path + '_', '_lambda__s_')

def standalone_key(m):
  # identity for classes (two different classes may print alike), type + repr for values
  return (id(type(m)), tuple((k, type(v).__qualname__, id(v) if isinstance(v, type) else repr(v)) for k, v in params_of(m)))

def members(obj):
  """(ports, ifcs, children) of a component / interface from its __dict__ (creation order, not sorted)"""
  ports, ifcs, kids = [], [], []
  def flat(x):
    while isinstance(x, list) and x: x = x[0]
    return x
  def leaves(x):
    if isinstance(x, list):
      for y in x: yield from leaves(y)
    else: yield x
  def shape(x):
    dims = []
    while isinstance(x, list) and x:
      dims.append(len(x)); x = x[0]
    return dims
  for k, v in obj.__dict__.items():
    if not isinstance(k, str) or k.startswith('_'): continue
    f = flat(v)
    if isinstance(f, (InPort, OutPort)): ports.append(k)
    elif isinstance(f, Interface): ifcs.append((k, f))
    elif isinstance(f, Component): kids.append((k, list(leaves(v)), shape(v)))
  return ports, ifcs, kids

def ifc_sexp(name, ifc):
  ports, ifcs, _ = members(ifc)
  return [S(name), [S(p) for p in ports], [ifc_sexp(n, i) for n, i in ifcs]]

def all_components(top):
  out, stack = [], [top]
  while stack:
    m = stack.pop()
    out.append(m)
    for _, insts, _ in members(m)[2]: stack.extend(insts)
  return out

# ----------------------------------------------------------------------------- one design

class DesignRun:
  def __init__(self, ck, d, designs_dir):
    self.ck, self.d, self.designs_dir = ck, d, designs_dir
    self.case = {'design': str(d['uid']), 'kind': d['kind'], 'stream': d.get('stream'), 'source': d['source'],
                 'extra_modules': d.get('extra_modules', [])}

def inproc_translate(ck, d, backend, rep):
  mod = importlib.import_module(d['module'])
  return c13_worker.translate(mod.make_top, backend, os.path.join(ck.workdir, 'out', 'inproc', str(d['uid']), backend),
                              getattr(mod, 'pre_translate', None))

def instance_bodies(top, P):
  """the text rtlir_tr_component gives for EVERY instance (what components[name] would hold had it been first)"""
  tr = top.get_metadata(P.translator)
  def nspace(namespace, m):
    from pymtl3.passes.backends.generic.BaseRTLIRTranslator import TranslatorMetadata
    ns = TranslatorMetadata()
    for name, md in vars(namespace).items():
      if isinstance(md, dict) and m in md: setattr(ns, name, md[m])
    return ns
  bodies = {}
  for m in all_components(top):
    bodies[m] = tr.rtlir_tr_component(nspace(tr.behavioral, m), nspace(tr.structural, m))
  return tr, bodies

_standalone_cache = {}

def standalone(ck, m, backend):
  """text `module .. endmodule` of a fresh instance of m's class with m's arguments, translated as a top of its own"""
  key = (backend,) + standalone_key(m)
  if key not in _standalone_cache:
    cls, kwargs = type(m), dict(params_of(m))
    try:
      _, text = c13_worker.translate(lambda: cls(**kwargs), backend, os.path.join(ck.workdir, 'out', 'standalone', backend),
                                     getattr(sys.modules.get(cls.__module__), 'pre_translate', None))
      tab = c13_scan.scan(text)
      _standalone_cache[key] = tab['modules'][-1]['text']
    except Exception as e:
      _standalone_cache[key] = f'<<standalone translation failed: {type(e).__name__}: {str(e)[:200]}>>'
  return _standalone_cache[key]

def refused_design(ck, d, backend, case, exc):
  """The translator refused a design because two instances met on one module name ("translate to different hardware
  but to the same module name").
  Direct oracle: the refusal is acceptable only if the design really contains two instances that the naming scheme
  cannot tell apart -- equal identity (class NAME + str() images of the EFFECTIVE parameters) -- with different
  hardware (different standalone translations). A design in which all such pairs differ in class name or in a
  parameter is legal; refusing it means two different components collided on a module name.
  Model: names from Model/Names.lean on the effective parameters, bodies = standalone translations of the children;
  translateChecked must refuse exactly when the translator does."""
  mod = importlib.import_module(d['module'])
  top = mod.make_top(); top.elaborate()
  if hasattr(mod, 'pre_translate'): mod.pre_translate(top, backend)
  comps = all_components(top)
  reps = ask_hashed(ck, [lambda h, m=m: leanio.line('names', 'uniq', h, S(type(m).__name__), [[S(k), pval_of(v)] for k, v in params_of(m)]) for m in comps])
  EK = c13_worker.backend_pass('sv').explicit_module_name
  # the name a module is emitted under: the explicit name the user gave, else the model's unique name
  name = {m: ((m.get_metadata(EK) if m.has_metadata(EK) else '') or unS(r[UNIQ])) for m, r in zip(comps, reps)}
  stand = {m: (f'<<top {d["uid"]}>>' if m is top else standalone(ck, m, backend)) for m in comps}
  ident = {m: identity(m) for m in comps}
  ids = {}
  def tree(m):
    return [S(repr(m)), S(name[m]), ids.setdefault(stand[m], len(ids)), [tree(x) for _, insts, _ in members(m)[2] for x in insts]]
  rep = leanio.parse_sexp(ck.drv('names').batch([leanio.line('names', 'walk', tree(top))])[0])
  undistinguishable = [(a, b) for i, a in enumerate(comps) for b in comps[i + 1:] if ident[a] == ident[b] and stand[a] != stand[b]]
  ck.hist('alias-outcome', f'{d.get("stream") or d["kind"]}:refused-by-translator')
  ck.count({'design': str(d['uid']), 'src': hashlib.sha256(d['source'].encode()).hexdigest()[:16], 'backend': backend, 'refused': True})
  msg = str(exc)
  mm = re.search(r'(\S+) \(([^)]*)\) and\s+(\S+) \(([^)]*)\) translate to\s+different hardware but to the same module name (\S+?)!', msg)
  if not undistinguishable:
    by_repr = {repr(m): m for m in comps}
    pair = [by_repr.get(mm.group(1)), by_repr.get(mm.group(3))] if mm else [None, None]
    ck.violation('legal-design-refused', {'finding': FINDING.get(d.get('stream')) or 'distinct-components-one-module-name'}, case,
                 {'error': f'{type(exc).__name__}: {msg.strip()[:400]}',
                  'module_name': mm.group(5) if mm else None,
                  'colliding_instances': [{'instance': repr(x), 'class': f'{type(x).__module__}.{type(x).__qualname__}',
                                           'effective_parameters': [[k, type(v).__name__, pstr(v)] for k, v in params_of(x)]}
                                          for x in pair if x is not None],
                  'oracle': 'no two instances of this design have the same class name and the same parameter images, so no two '
                            'of them may share a module name: components that differ in class or parameters never collide'})
  alias = any(name[a] == name[b] and stand[a] != stand[b] for a in comps for b in comps)
  if undistinguishable and ((rep[3] == 'err') != alias or not alias):     # (a refusal the direct oracle rejects is reported above)
    ck.disagreement('translateChecked≈translator refusing a design', case, {'checked': rep[3], 'name': unS(rep[4])},
                    {'refused': f'{type(exc).__name__}: {msg[:300]}', 'alias_by_direct_oracle': alias})

def check_design(ck, d, texts_by_run):
  """texts_by_run: {run label: {backend: [text, text]}} from the fresh processes; runs the in-process translation,
  all oracles and the model comparison for one design. Returns nothing; reports through ck."""
  src_case = {'design': str(d['uid']), 'kind': d['kind'], 'stream': d.get('stream'), 'source': d['source'],
              'extra_modules': d.get('extra_modules', [])}
  stream = d.get('stream')
  finding = FINDING.get(stream)
  for backend in d.get('backends') or c13_worker.BACKENDS:
    P = c13_worker.backend_pass(backend)
    case = dict(src_case, backend=backend)
    # ---- translate here, twice
    try:
      top, text = inproc_translate(ck, d, backend, 0)
      _, text2 = inproc_translate(ck, d, backend, 1)
    except Exception as e:
      ck.hist('translation-rejected', f'{backend}:{type(e).__name__}')
      ck.rejected.append({'design': str(d['uid']), 'backend': backend, 'error': f'{type(e).__name__}: {str(e)[:300]}'})
      if 'same module name' in str(e):
        refused_design(ck, d, backend, case, e)
      elif d['kind'] != 'probe':
        raise InfraError(f'design {d["uid"]} is not translatable by {backend}: {type(e).__name__}: {str(e)[:400]}\n{d["source"][:3000]}')
      continue
    # ---- determinism (direct oracle): byte equality
    runs = [('inproc-1', text), ('inproc-2', text2)]
    for label, per in sorted(texts_by_run.items()):
      for k, t in enumerate(per.get(backend, [])):
        runs.append((f'{label}-{k+1}', t))
    bad = [(label, t) for label, t in runs if t != text]
    ck.hist('runs-compared', len(runs))
    if bad:
      label, t = bad[0]
      if isinstance(t, dict):
        raise InfraError(f'design {d["uid"]} translated here but not in {label}: {t}')
      la, lb = text.split('\n'), t.split('\n')
      k = next((i for i, (x, y) in enumerate(zip(la, lb)) if x != y), min(len(la), len(lb)))
      ck.violation('nondeterministic-text', {'finding': finding if stream == 'object-repr-param' else 'unlabelled'},
                   case, {'runs': [l for l, _ in bad], 'first_differing_line': k + 1,
                          'here': la[k] if k < len(la) else None, 'there': lb[k] if k < len(lb) else None,
                          'oracle': 'the emitted text must be byte-identical across runs / hash seeds'})
    # ---- the module names the translator chose (direct oracle, before any text is scanned): identifiers
    names_chosen = top.get_metadata(P.translator).structural.component_unique_name
    bad_names = sorted({n for n in names_chosen.values() if not c13_scan.is_id(n) or n in ck.reserved})
    for n in bad_names[:2]:
      ck.violation('illegal-identifier', {'finding': 'illegal-module-name'}, case,
                   {'what': 'illegal-module-name', 'module_name': n, 'instances': [repr(m) for m, x in names_chosen.items() if x == n][:3],
                    'oracle': 'module names match [A-Za-z_][A-Za-z0-9_$]* (the whole name) and are not reserved'})
    # ---- module table (direct oracle, then the verified checker)
    try:
      tab = c13_scan.scan(text)
      if tab['unknown']: raise c13_scan.ScanError(f'line {tab["unknown"][0]} not understood')
    except c13_scan.ScanError as e:
      if bad_names: continue            # the text is not scannable because of the illegal name reported above
      raise InfraError(f'scanner: design {d["uid"]} ({backend}): {e}')
    wf_bad = c13_scan.direct_wf(tab, ck.reserved)
    for kind, detail in wf_bad[:3]:
      ck.violation('illegal-identifier' if kind.startswith('illegal') else kind,
                   {'finding': 'illegal-module-name' if kind == 'illegal-module-name' else (finding or kind)},
                   case, {'what': kind, 'where': detail, 'oracle': 'identifiers match [A-Za-z_][A-Za-z0-9_$]*, are not reserved, are unique '
                          'per module; modules are defined once; instantiated modules are defined'})
    ck.model_reqs.append((lambda h, tab=tab: leanio.line('names', 'wf', [S(x) for x in tab['typedefs']],
                            [[S(m['name']), [S(x) for x in m['ids']], [[S(a), S(b)] for a, b in m['insts']]] for m in tab['modules']]),
                          ('wf', case, wf_bad)))
    # ---- the instance tree, as the model sees it
    tr, bodies = instance_bodies(top, P)
    comps = all_components(top)
    real_name = {m: tr.structural.component_unique_name[m] for m in comps}
    # the name a component is EMITTED under: its explicit_module_name (read from the instance's metadata), else its unique name
    EK = c13_worker.backend_pass('sv').explicit_module_name
    ename = {m: ((m.get_metadata(EK) if m.has_metadata(EK) else '') or real_name[m]) for m in comps}
    # a placeholder that is not the top is emitted (and instantiated) under the wrapper name VerilogPlaceholderPass chose
    from pymtl3.passes.backends.verilog import VerilogPlaceholder, VerilogPlaceholderPass
    for m in comps:
      if isinstance(m, VerilogPlaceholder) and m is not top and m.has_metadata(VerilogPlaceholderPass.placeholder_config):
        ename[m] = m.get_metadata(VerilogPlaceholderPass.placeholder_config).pickled_top_module
    body_id, stand_id = {}, {}
    def bid(table, text_):
      return table.setdefault(text_, len(table))
    stand = {m: (tab['modules'][-1]['text'] if m is top else standalone(ck, m, backend)) for m in comps}
    def tree(m, ids):
      kids = [x for _, insts, _ in members(m)[2] for x in insts]
      ck.rng.shuffle(kids)                       # the model must not depend on the enumeration order
      return [S(repr(m)), S(real_name[m]), ids[m], [tree(k, ids) for k in kids]]
    ids_body = {m: bid(body_id, bodies[m]) for m in comps}
    ids_stand = {m: bid(stand_id, stand[m]) for m in comps}
    # names from the model
    for m in comps:
      ps = params_of(m)
      ck.model_reqs.append((lambda h, m=m, ps=ps: leanio.line('names', 'uniq', h, S(type(m).__name__), [[S(k), pval_of(v)] for k, v in ps]),
                            ('uniq', dict(case, instance=repr(m), params=[(k, pstr(v)) for k, v in ps]), real_name[m],
                             tr.structural.component_full_name[m])))
    # ---- aliasing (direct oracle): same emitted name => identical standalone translation
    by_name = {}
    for m in sorted(comps, key=repr): by_name.setdefault(ename[m], []).append(m)
    shared = {n: ms for n, ms in by_name.items() if len(ms) > 1}
    alias_pairs = []
    for n, ms in shared.items():
      for x in ms[1:]:
        if stand[x] != stand[ms[0]]: alias_pairs.append((n, ms[0], x))
    for n, a, b in alias_pairs[:2]:
      la, lb = stand[a].split('\n'), stand[b].split('\n')
      k = next((i for i, (x, y) in enumerate(zip(la, lb)) if x != y), min(len(la), len(lb)))
      ck.violation('module-name-alias', {'finding': finding or 'unlabelled'}, case,
                   {'module': n, 'instances': [repr(a), repr(b)], 'classes': [f'{type(a).__module__}.{type(a).__qualname__}',
                                                                              f'{type(b).__module__}.{type(b).__qualname__}'],
                    'first_differing_line_of_standalone_translations': [la[k] if k < len(la) else None, lb[k] if k < len(lb) else None],
                    'modules_named_so_in_text': sum(1 for mm in tab['modules'] if mm['name'] == n),
                    'oracle': 'instances that share an emitted module name must have identical standalone translations'})
    ck.hist('alias-outcome', f'{stream or d["kind"]}:{"alias" if alias_pairs else "clean"}')
    # ---- the walk: emission order, first writer wins (internal bodies), aliased instances (standalone bodies)
    comp_order = list(tr.hierarchy.components.keys())
    winners = [body_id.get(tr.hierarchy.components[n], -1) for n in comp_order]
    text_order = [m['name'] for m in tab['modules']]
    walk = d.get('walk', True) and d.get('model', True)        # model False: the text contains foreign Verilog (a placeholder); False: modules are emitted under explicit names, the table model is keyed by unique names
    if walk:
      ck.model_reqs.append((lambda h, t=tree(top, ids_body): leanio.line('names', 'walk', t),
                            ('walk-body', case, comp_order, winners, text_order)))
    # by_name is in repr order = the order of the walk only for siblings; the model decides which instance is first:
    if walk:
      ck.model_reqs.append((lambda h, t=tree(top, ids_stand): leanio.line('names', 'walk', t),
                            ('walk-standalone', case, bool(alias_pairs), None, None)))
    # ---- skeleton of every emitted module: the instance whose body was emitted
    first_of = {}
    for m in comps:
      n = real_name[m]
      if n in tr.hierarchy.components and bodies[m] == tr.hierarchy.components[n] and ename[m] not in first_of: first_of[ename[m]] = m
    scanned = {mm['name']: mm for mm in tab['modules']}
    # ---- every instance is instantiated as a module that IS that instance (direct oracle):
    #      the module named at the instantiation site has the instance's ports (names, widths, dims; SV) and its code is
    #      the instance's own standalone translation (comments and the instance path in lambda labels aside)
    owner_path = {n: mangle(m) for n, m in first_of.items()}
    n_bad = 0
    for p in comps:
      pm = scanned.get(ename[p])
      if pm is None: continue
      site = dict((i, mod_) for mod_, i in pm['insts'])
      for k, insts, dims in members(p)[2]:
        for idx, c in zip(itertools.product(*[range(x) for x in dims]), insts):
          iname = k + ''.join(f'__{i}' for i in idx)
          mod_ = site.get(iname)
          if mod_ is None or mod_ not in scanned: continue       # missing / undefined: the table oracle reports it
          em = scanned[mod_]
          problem = None
          if backend == 'sv':
            want, got = port_table(c), em['portinfo']
            diff = []
            for x in sorted(set(want) | set(got)):
              w, g = want.get(x), got.get(x)
              if g is not None and g[0] is None: continue            # a width the scanner does not understand
              if w is None or g is None or (w[0], list(w[1])) != (g[0], list(g[1])): diff.append(x)
            if diff:
              problem = {'what': 'ports of the instantiated module differ from the ports of the instance',
                         'port': diff[0], 'instance_has': want.get(diff[0]), 'module_has': got.get(diff[0])}
          if problem is None and not stand[c].startswith('<<') and code_of(em['text'], owner_path.get(mod_, 's')) != code_of(stand[c], 's'):
            la, lb = code_of(em['text'], owner_path.get(mod_, 's')).split('\n'), code_of(stand[c], 's').split('\n')
            j = next((i for i, (x, y) in enumerate(zip(la, lb)) if x != y), min(len(la), len(lb)))
            problem = {'what': 'code of the instantiated module differs from the standalone translation of the instance',
                       'module_line': la[j] if j < len(la) else None, 'standalone_line': lb[j] if j < len(lb) else None}
          if problem and n_bad < 2:
            n_bad += 1
            ck.violation('instance-gets-other-hardware', {'finding': finding or 'unlabelled'}, case,
                         dict(problem, instance=repr(c), instantiated_as=mod_,
                              effective_parameters=[[k2, type(v).__name__, pstr(v)] for k2, v in params_of(c)],
                              oracle='the module instantiated for an instance must be the translation of that very instance'))
    for n, m in first_of.items():
      if n not in scanned or not walk: continue
      ports, ifcs, kids = members(m)
      ff = m.get_update_ff()
      comb = [b.__name__ for b in m.get_update_blocks() if b not in ff]
      seq = [b.__name__ for b in ff]
      ck.rng.shuffle(ports); ck.rng.shuffle(comb); ck.rng.shuffle(seq); ck.rng.shuffle(ifcs)
      kid_names = [k for k, _, _ in kids]
      ck.model_reqs.append((lambda h, ports=ports, ifcs=ifcs, comb=comb, seq=seq: leanio.line(
                              'names', 'skel', [S(p) for p in ports], [ifc_sexp(k, i) for k, i in ifcs], [S(b) for b in comb], [S(b) for b in seq]),
                            ('skel', dict(case, module=n), scanned[n]['ports'] if backend == 'sv' else None,
                             [lab for _, lab in scanned[n]['blocks']], None)))
      ck.model_reqs.append((lambda h, kid_names=kid_names: leanio.line('names', 'sort', [S(k) for k in kid_names]),
                            ('insts', dict(case, module=n), [i for _, i in scanned[n]['insts']],
                             {k: dims for k, insts, dims in kids}, None)))
    nshared = sum(len(ms) for ms in shared.values())
    ck.count({'design': str(d['uid']), 'src': hashlib.sha256(d['source'].encode()).hexdigest()[:16], 'backend': backend},
             nontrivial=(nshared >= 2 or len(tab['modules']) >= 3))
    ck.hist('modules', min(len(tab['modules']), 30)); ck.hist('instances', min(len(comps), 60) // 5 * 5)
    ck.hist('instances-sharing-a-module', min(nshared, 40) // 4 * 4)
    ck.hist('hashed-module-names', sum(1 for n in text_order if re.search(r'__[0-9a-f]{16}$', n)))
    for f in d['features']: ck.hist('feature', f)

def evaluate_model(ck):
  """send every queued model request, compare with what the real code did"""
  reqs = ck.model_reqs
  ck.model_reqs = []
  replies = ask_hashed(ck, [b for b, _ in reqs])
  for (_, meta), rep in zip(reqs, replies):
    kind = meta[0]
    if kind == 'wf':
      _, case, wf_bad = meta
      ok = rep[0] == '1'
      if ok != (not wf_bad):
        ck.disagreement('wfModules≈direct table oracle', case, {'wfModules': rep[0], 'diag': rep[1], 'where': unS(rep[2])}, {'direct': wf_bad[:3]})
    elif kind == 'uniq':
      _, case, real_unique, real_full = meta
      full, plain, tail, uniq = unS(rep[0]), rep[1], unS(rep[2]), unS(rep[UNIQ])
      if full != real_full or uniq != real_unique:
        ck.disagreement('uniqueName≈get_component_unique_name', case, {'full': full, 'unique': uniq}, {'full': real_full, 'unique': real_unique})
    elif kind == 'walk-body':
      _, case, comp_order, winners, text_order = meta
      table = [(unS(e[0]), int(e[1])) for e in rep[1]]
      if [n for n, _ in table] != comp_order or [n for n, _ in table] != text_order:
        ck.disagreement('translateAll order≈emitted module order', case, [n for n, _ in table], {'components': comp_order, 'text': text_order})
      elif [b for _, b in table] != winners:
        ck.disagreement('translateAll first-wins≈components[name]', case, table, winners)
    elif kind == 'walk-standalone':
      _, case, has_alias, _, _ = meta
      aliased = [(unS(e[0]), int(e[1])) for e in rep[2]]
      chk = rep[3]
      if bool(aliased) != has_alias or (chk == 'err') != has_alias:
        ck.disagreement('aliased(model)≈alias pairs(direct oracle)', case, {'aliased': aliased, 'checked': chk}, {'alias': has_alias})
    elif kind == 'skel':
      _, case, ports, blocks, _ = meta
      mports, mblocks = [unS(x) for x in rep[0]], [unS(x) for x in rep[1]]
      if ports is not None and mports != ports:
        ck.disagreement('portOrder≈port list of the emitted module', case, mports, ports)
      if mblocks != blocks:
        ck.disagreement('blockOrder≈always blocks of the emitted module', case, mblocks, blocks)
    elif kind == 'insts':
      _, case, insts, dims, _ = meta
      pred = []
      for k in [unS(x) for x in rep[0]]:
        pred += [k + ''.join(f'__{i}' for i in idx) for idx in itertools.product(*[range(n) for n in dims[k]])]
      if pred != insts:
        ck.disagreement('sorted children≈instances of the emitted module', case, pred, insts)
    else:
      raise InfraError(f'unknown request kind {kind}')

# ----------------------------------------------------------------------------- fresh processes

def run_workers(ck, designs, designs_dir, seeds):
  """one fresh process per hash seed; each translates all designs (in its own shuffled order), twice, both backends"""
  procs = []
  for seed in seeds:
    order = [{'module': d['module'], 'uid': str(d['uid']), 'backends': d.get('backends')} for d in designs]
    ck.rng.shuffle(order)
    jobf = os.path.join(ck.workdir, f'job{seed}.json')
    outf = os.path.join(ck.workdir, f'out{seed}.json')
    json.dump({'designs_dir': designs_dir, 'outdir': os.path.join(ck.workdir, 'out', f'seed{seed}'), 'order': order,
               'backends': list(c13_worker.BACKENDS), 'reps': 2}, open(jobf, 'w'))
    env = dict(os.environ, PYTHONHASHSEED=str(seed), PYTHONDONTWRITEBYTECODE='1')
    p = subprocess.Popen(['/venv/bin/python', os.path.abspath(c13_worker.__file__), jobf, outf], env=env, cwd=ck.workdir,
                         stdout=subprocess.PIPE, stderr=subprocess.STDOUT, text=True)
    procs.append((seed, p, outf))
  results = {}
  for seed, p, outf in procs:
    try:
      out, _ = p.communicate(timeout=1500)
    except subprocess.TimeoutExpired:
      p.kill(); raise leanio.MachineryError(f'worker for seed {seed} timed out')
    if p.returncode != 0 or not os.path.exists(outf):
      raise InfraError(f'worker for seed {seed} failed ({p.returncode}): {out[-2000:]}')
    results[seed] = json.load(open(outf))
  return results

def run_batch(ck, designs, seeds, par=4):
  designs_dir = None
  for d in designs: designs_dir = c13_gen.write_design(ck.workdir, d)
  c13_worker.setup_path(designs_dir)
  importlib.invalidate_caches()
  results = {}
  seeds = list(seeds)
  for i in range(0, len(seeds), par):
    results.update(run_workers(ck, designs, designs_dir, seeds[i:i + par]))
  for d in designs:
    per = {}
    for seed, res in results.items():
      r = res.get(str(d['uid']), {})
      if 'import_error' in r: raise InfraError(f'design {d["uid"]} does not import in the worker: {r["import_error"]}')
      per[f'seed{seed}'] = r
    check_design(ck, d, per)
  evaluate_model(ck)

# ----------------------------------------------------------------------------- several enabled sub-trees, one pass run

def run_procs(ck, jobs, par=6):
  """jobs: [(label, job dict, PYTHONHASHSEED)] -> {label: worker output}; every job is a fresh process"""
  results, pending = {}, list(jobs)
  while pending:
    batch, pending = pending[:par], pending[par:]
    procs = []
    for label, job, seed in batch:
      jobf = os.path.join(ck.workdir, f'mjob_{label}.json'); outf = os.path.join(ck.workdir, f'mout_{label}.json')
      json.dump(job, open(jobf, 'w'))
      env = dict(os.environ, PYTHONHASHSEED=str(seed), PYTHONDONTWRITEBYTECODE='1')
      procs.append((label, outf, subprocess.Popen(['/venv/bin/python', os.path.abspath(c13_worker.__file__), jobf, outf], env=env,
                                                  cwd=ck.workdir, stdout=subprocess.PIPE, stderr=subprocess.STDOUT, text=True)))
    for label, outf, p in procs:
      try: out, _ = p.communicate(timeout=900)
      except subprocess.TimeoutExpired:
        p.kill(); raise InfraError(f'worker {label} timed out')
      if p.returncode != 0 or not os.path.exists(outf): raise InfraError(f'worker {label} failed ({p.returncode}): {out[-1500:]}')
      results[label] = json.load(open(outf))
  return results

def first_diff(a, b):
  la, lb = a.split('\n'), b.split('\n')
  k = next((i for i, (x, y) in enumerate(zip(la, lb)) if x != y), min(len(la), len(lb)))
  return {'line': k + 1, 'here': la[k] if k < len(la) else None, 'there': lb[k] if k < len(lb) else None}

def multi_stream(ck, designs, seeds):
  """ONE application of the translation pass over a design with several translation-enabled sub-trees (the pass builds
  one translator and reuses it). Direct oracle, per enabled sub-tree: translated_top_module, the output file name and
  the file's text equal those of the same sub-tree translated ALONE in a fresh process; the text is the same in every
  run / hash seed; every file defines each module once, defines what it instantiates, and no module instantiates
  itself; sub-trees with different hardware get different module names and files."""
  designs_dir = None
  for d in designs: designs_dir = c13_gen.write_design(ck.workdir, d)
  c13_worker.setup_path(designs_dir)
  importlib.invalidate_caches()
  backends = list(c13_worker.BACKENDS)
  jobs = []
  for seed in seeds:
    order = [{'module': d['module'], 'uid': d['uid'], 'only': None} for d in designs]
    ck.rng.shuffle(order)
    jobs.append((f'multi{seed}', {'designs_dir': designs_dir, 'outdir': os.path.join(ck.workdir, 'out', f'mseed{seed}'),
                                  'multi': order, 'backends': backends}, seed))
  for d in designs:
    for nm, _, _ in d['children']:
      jobs.append((f'alone_{d["uid"]}_{nm}', {'designs_dir': designs_dir, 'outdir': os.path.join(ck.workdir, 'out', f'alone_{nm}'),
                                              'multi': [{'module': d['module'], 'uid': d['uid'], 'only': nm}], 'backends': backends},
                   ck.rng.randrange(1000)))
  res = run_procs(ck, jobs)
  for d in designs:
    mod = importlib.import_module(d['module'])
    for b in backends:
      case = {'design': d['uid'], 'kind': 'multi', 'stream': d['stream'], 'backend': b, 'children': d['children'], 'source': d['source'],
              'extra_files': d['extra_files']}
      try:
        here = c13_worker.translate_multi(mod, b, os.path.join(ck.workdir, 'out', 'minproc', d['uid'], b))
      except Exception as e:
        here = {'error': f'{type(e).__name__}: {str(e)[:400]}'}
      runs = [('inproc', here)] + [(f'seed{s}', res[f'multi{s}'][f"{d['uid']}||{b}"]) for s in seeds]
      alone = {}
      for nm, _, _ in d['children']:
        r = res[f'alone_{d["uid"]}_{nm}'][f"{d['uid']}|{nm}|{b}"]
        if 'error' in r: raise InfraError(f'sub-tree {nm} of {d["uid"]} does not translate alone ({b}): {r["error"]}')
        alone[nm] = r[nm]
      failed = [(l, r['error']) for l, r in runs if 'error' in r]
      if failed:
        ck.violation('subtree-pass-fails', {'finding': 'multi-subtree-pass'}, case,
                     {'runs': failed[:2], 'oracle': 'every sub-tree translates alone, so one pass run over all of them must succeed'})
        continue
      for nm, kind, ex in d['children']:
        ck.count({'design': d['uid'], 'src': hashlib.sha256(d['source'].encode()).hexdigest()[:16], 'backend': b, 'subtree': nm},
                 nontrivial=len(d['children']) >= 2)
        ck.hist('multi:kind', kind + ('+explicit' if ex else ''))
        got, want = here[nm], alone[nm]
        for label, r in runs[1:]:
          if r[nm] != got:
            ck.violation('nondeterministic-text', {'finding': 'multi-subtree-pass'}, dict(case, subtree=nm),
                         {'run': label, 'modules': [got['module'], r[nm]['module']], 'files': [got['file'], r[nm]['file']],
                          'text': first_diff(got['text'], r[nm]['text']), 'oracle': 'one pass run gives the same result in every process'})
            break
        for field in ('module', 'file', 'text'):
          if got[field] != want[field]:
            ck.violation('subtree-differs-from-alone', {'finding': 'multi-subtree-pass'}, dict(case, subtree=nm),
                         {'what': {'module': 'translated_top_module', 'file': 'translated_filename', 'text': 'text of the output file'}[field],
                          'in_one_pass_run': got[field] if field != 'text' else first_diff(got['text'], want['text']),
                          'alone_in_a_fresh_process': want[field] if field != 'text' else '(see the differing line: here = pass run, there = alone)',
                          'subtree': f'{nm} ({kind})', 'order_of_the_pass': sorted(x for x, _, _ in d['children']),
                          'oracle': 'a translation-enabled sub-tree is translated by a pass run over several sub-trees exactly as it is alone'})
            break
        try:
          tab = c13_scan.scan(got['text'])
          if tab['unknown']: raise c13_scan.ScanError(f'line {tab["unknown"][0]} not understood')
        except c13_scan.ScanError as e:
          if got['text'] == want['text']: raise InfraError(f'scanner: {d["uid"]}/{nm} ({b}): {e}')
          continue
        bad = c13_scan.direct_wf(tab, ck.reserved)
        bad += [('module-instantiates-itself', m['name']) for m in tab['modules'] if any(x == m['name'] for x, _ in m['insts'])]
        for k2, where in bad[:2]:
          ck.violation('illegal-identifier' if k2.startswith('illegal') else k2, {'finding': 'multi-subtree-pass'}, dict(case, subtree=nm),
                       {'what': k2, 'where': where, 'file': got['file'], 'oracle': 'in every output file modules are defined once, instantiated '
                        'modules are defined, no module instantiates itself, identifiers are legal'})
      kids = [nm for nm, _, _ in d['children']]
      for i, x in enumerate(kids):
        for y in kids[i + 1:]:
          if alone[x]['text'] != alone[y]['text'] and (here[x]['module'] == here[y]['module'] or here[x]['file'] == here[y]['file']):
            ck.violation('module-name-alias', {'finding': 'multi-subtree-pass'}, dict(case, subtree=[x, y]),
                         {'modules': [here[x]['module'], here[y]['module']], 'files': [here[x]['file'], here[y]['file']],
                          'alone': [alone[x]['module'], alone[y]['module']],
                          'oracle': 'sub-trees with different hardware get different module names and different output files'})
      ck.hist('feature', d['features'][0][:40])

# ----------------------------------------------------------------------------- names stream (no designs)

class StubRType:
  """what get_component_full_name / get_component_unique_name look at"""
  def __init__(self, name, params): self.name, self.params = name, params
  def get_name(self): return self.name
  def get_params(self): return self.params

def gen_value(rng, structs, flavour):
  from pymtl3.datatypes import mk_bits
  r = rng.random()
  if flavour == 'nonid':
    return rng.choice([-1, -rng.randrange(1, 500), (1,), 1e20, -2.5e-7, 'a/b', 'a-b', {}, 'x+y', 'a:b', "it's", 'a,b', (), '#1', 'p%d', '2*3', '~x',
                       'wide\n', 'x\n', 'a\r\n', 'v0\t', '\n', 'a\nb'])
  if flavour == 'special':
    return rng.choice(['a b', 'a.b', 'x<y', 'x>y', 'q[0]', [1, 2], [1, 3], 1.5, 2.5, (1, 2), 'a  b', ' ', '.', [[1], [2]], 0.1, [], 'v[1].f'])
  if r < 0.25: return rng.choice([0, 1, 2, 3, 7, 8, 16, 32, 64, 100, 255, 1024, 2**31, 2**64 + 1, rng.randrange(10**6)])
  if r < 0.35: return rng.choice([True, False, None])
  if r < 0.50: return mk_bits(rng.choice([1, 3, 4, 5, 8, 13, 16, 32, 64, 100]))
  if r < 0.60:
    n = rng.choice([1, 3, 4, 5, 8, 13, 16, 33]); return mk_bits(n)(rng.randrange(2 ** n))
  if r < 0.75 and structs: return rng.choice(structs)
  if r < 0.90: return rng.choice(['a', 'rd', 'Bits4', '1', '0', 'True', 'None', 'x_y', 'opt2', 'Mode_A', 'w', 'v0', 'add', 'mul', 'RTL', 'CL'])
  return rng.choice(['a_', 'a__b', '_', '__', 'x__y_1', 'k_', '1__b_2', 'p__q'])          # separators inside values

def gen_structs(rng, n, tag):
  from pymtl3.datatypes import mk_bits, mk_bitstruct
  out = []
  for i in range(n):
    nf = rng.choice([1, 2, 3, 4, 8])
    fields = {}
    for j in range(nf):
      fname = rng.choice(['a', 'b', 'opaque', 'addr', 'data', 'len_', 'type_', 'x', 'payload_word', 'very_long_field_name']) + (str(j) if j else '')
      kinds = [mk_bits(rng.choice([1, 2, 4, 8, 16, 32, 77]))]
      if out and rng.random() < 0.3: kinds.append(rng.choice(out))
      if rng.random() < 0.15: kinds.append([mk_bits(rng.choice([4, 8]))] * rng.choice([2, 3]))
      if rng.random() < 0.05: kinds.append([[mk_bits(4)] * 2] * 3)
      fields[fname] = rng.choice(kinds)
    out.append(mk_bitstruct(rng.choice(['Pt', 'Msg', 'Req', 'MemReqMsg', 'Hdr']) + f'{tag}_{i}', fields))
  return out

def names_stream(ck, n_cases):
  from pymtl3.passes.rtlir.util.utility import get_component_full_name
  from pymtl3.passes.backends.verilog.util.utility import get_component_unique_name
  from pymtl3.passes.rtlir.rtype.RTLIRDataType import get_rtlir_dtype
  rng = ck.rng
  builders, meta = [], []
  structs = gen_structs(rng, 12 if ck.tier == 'quick' else 60, 'N')
  # struct names
  for st in structs:
    real = get_rtlir_dtype(st())
    d = dt_of(st)
    builders.append(lambda h, d=d: leanio.line('names', 'sname', h, d[1], d[2]))
    meta.append(('sname', {'struct': st.__name__, 'fields': {k: str(v) for k, v in st.__bitstruct_fields__.items()}},
                 real.get_full_name(), real.get_name()))
  groups = []
  for c in range(n_cases):
    flavour = rng.choice(['plain'] * 6 + ['special', 'nonid', 'long'])
    cls = rng.choice(['Inner', 'Adder', 'RegisterFile', 'NormalQueueRTL', 'X', 'Router_3', 'a_very_long_component_class_name_for_the_translator'])
    np_ = rng.choice([0, 1, 1, 2, 3, 5]) if flavour != 'long' else rng.choice([5, 7, 9])
    keys = [rng.choice(['Type', 'nbits', 'num_entries', 'p', 'k', 'reset_value', 'rd_ports', 'DataType', 'parameter_number']) + (str(i) if i else '')
            for i in range(np_)]
    # a group: one class, one key list, several value lists (so that collisions can be looked for)
    vals_list = []
    for _ in range(rng.choice([1, 2, 3])):
      vals = [gen_value(rng, structs, flavour if (flavour in ('special', 'nonid') and rng.random() < 0.6) else 'plain') for _ in keys]
      vals_list.append(vals)
    if len(vals_list) > 1 and vals_list[0] and rng.random() < 0.5:
      # a sibling that differs in one value only
      v2 = list(vals_list[0]); j = rng.randrange(len(v2)); v2[j] = gen_value(rng, structs, 'plain'); vals_list.append(v2)
    g = []
    for vals in vals_list:
      ps = list(zip(keys, vals))
      stub = StubRType(cls, ps)
      try:
        real_full, real_uniq = get_component_full_name(stub), get_component_unique_name(stub)
      except Exception as e:
        raise InfraError(f'get_component_unique_name raised {type(e).__name__}: {e} on {cls} {ps}')
      case = {'cls': cls, 'params': [[k, type(v).__name__, pstr(v)] for k, v in ps], 'flavour': flavour}
      builders.append(lambda h, cls=cls, ps=ps: leanio.line('names', 'uniq', h, S(cls), [[S(k), pval_of(v)] for k, v in ps]))
      meta.append(('uniq', case, real_uniq, real_full))
      g.append((case, ps, real_uniq, real_full))
      nonid = any(not re.fullmatch(r'[A-Za-z0-9_$ <>.\[\]]*', str(v) if not isinstance(v, type) else 'x') for v in vals)
      ck.count(dict(case, stream='names'), nontrivial=bool(ps))
      ck.hist('names:flavour', flavour); ck.hist('names:nparams', len(ps)); ck.hist('names:hashed', int(real_uniq != real_full))
      # direct oracle 1: the module name is an identifier
      if not c13_scan.is_id(real_uniq) or real_uniq in ck.reserved:
        ck.hist('names:illegal', 'labelled-nonid' if nonid else 'unlabelled')
        ck.violation('illegal-identifier', {'finding': 'illegal-module-name' if nonid else 'illegal-module-name-unlabelled'},
                     dict(case, stream='names'), {'module_name': real_uniq, 'oracle': 'module names match [A-Za-z_][A-Za-z0-9_$]* and are not reserved'})
    groups.append(g)
  # direct oracle 2 (what fullName_inj / uniqueName_inj promise): one class, one key list, separator-free value images
  nosep = lambda s: '__' not in s and not s.endswith('_')
  for g in groups:
    for i in range(len(g)):
      for j in range(i + 1, len(g)):
        (ca, pa, ua, fa), (cb, pb, ub, fb) = g[i], g[j]
        ia, ib = [im(v) for _, v in pa], [im(v) for _, v in pb]
        if ia != ib and all(map(nosep, ia + ib)) and ua == ub:
          ck.violation('name-collision', {'finding': 'distinct-parameter-images-one-name'}, {'a': ca, 'b': cb, 'stream': 'names'},
                       {'name': ua, 'oracle': 'same class, same parameter names, different separator-free value images => different module names'})
        if ia == ib and [repr(v) for _, v in pa] != [repr(v) for _, v in pb]: ck.hist('names:image-collision', 1)
  replies = ask_hashed(ck, builders)
  for m, rep in zip(meta, replies):
    if m[0] == 'sname':
      _, case, real_full, real_name = m
      full, name = unS(rep[0]), unS(rep[2])
      if (full, name) != (real_full, real_name):
        ck.disagreement('structName≈Struct.get_name', case, {'full': full, 'name': name}, {'full': real_full, 'name': real_name})
      ck.count(dict(case, stream='sname')); ck.hist('names:struct-hashed', int(real_full != real_name))
    else:
      _, case, real_uniq, real_full = m
      full, uniq = unS(rep[0]), unS(rep[UNIQ])
      if (full, uniq) != (real_full, real_uniq):
        ck.disagreement('uniqueName≈get_component_unique_name', case, {'full': full, 'unique': uniq}, {'full': real_full, 'unique': real_uniq})

def im(v):
  """str image as get_string computes it (independent restatement, used by the collision oracle only)"""
  if isinstance(v, type):
    if is_bitstruct_class(v):
      from pymtl3.passes.rtlir.rtype.RTLIRDataType import get_rtlir_dtype
      return get_rtlir_dtype(v()).get_name()
    return v.__name__
  return pstr(v)

def identifier_stream(ck, n):
  """idShape / legalId against the regular expression and pymtl3's reserved set; reserved list against the real one"""
  rng = ck.rng
  rep = leanio.parse_sexp(ck.drv('names').batch([leanio.line('names', 'reserved')])[0])
  model_reserved = {unS(x) for x in rep[0]}
  if model_reserved != set(ck.reserved):
    ck.disagreement('verilogReserved≈verilog_reserved', {'stream': 'reserved'}, sorted(model_reserved - set(ck.reserved)), sorted(set(ck.reserved) - model_reserved))
  alphabet = 'abzAZ_09$ -.<[(+/\'\x7f{é'
  words = sorted(ck.reserved)
  cases = []
  for _ in range(n):
    r = rng.random()
    if r < 0.25: s = rng.choice(words)
    elif r < 0.35: s = rng.choice(words) + rng.choice(['_', '0', '$', 'x'])
    else: s = ''.join(rng.choice(alphabet) for _ in range(rng.choice([0, 1, 1, 2, 3, 6])))
    cases.append(s)
  out = ck.drv('names').batch([leanio.line('names', 'legal', S(s)) for s in cases])
  for s, rep in zip(cases, out):
    shape, legal = rep.split()
    want_shape = bool(re.fullmatch(r'[A-Za-z_][A-Za-z0-9_$]*', s))
    want_legal = want_shape and s not in ck.reserved
    ck.count({'stream': 'identifier', 's': s}, nontrivial=bool(s))
    if (shape == '1') != want_shape or (legal == '1') != want_legal:
      ck.disagreement('legalId≈regex+reserved', {'s': s}, rep, [want_shape, want_legal])

# ----------------------------------------------------------------------------- entry points

def setup(ck):
  _imports()
  from pymtl3.passes.backends.verilog.util.utility import verilog_reserved
  ck.reserved = set(verilog_reserved)
  ck.model_reqs = []
  ck.rejected = []
  ck.preexisting = {w: set(os.listdir(w)) for w in (REPO, leanio.VERIF)}
  if REPO not in sys.path: sys.path.insert(0, REPO)

def run(ck):
  setup(ck)
  quick = ck.tier == 'quick'
  seeds = range(3) if quick else range(12)
  identifier_stream(ck, 600 if quick else 12000)
  names_stream(ck, 1200 if quick else 40000)
  c13_mangle.run_stream(ck, ask_hashed, blake)
  uid = [0]
  def nxt():
    uid[0] += 1
    return uid[0]
  n_gen = 24 if quick else 400
  n_probe_rounds = 2 if quick else 16
  designs = c13_gen.builtin_designs()
  designs += [c13_gen.gen_design(ck.rng, nxt()) for _ in range(n_gen)]
  for _ in range(n_probe_rounds):
    designs += [c13_gen.alias_probe(ck.rng, nxt(), s) for s in c13_gen.ALIAS_STREAMS]
  chunk = 40
  for i in range(0, len(designs), chunk):
    run_batch(ck, designs[i:i + chunk], seeds)
  multi_stream(ck, [c13_gen.multi_subtree(ck.rng, nxt()) for _ in range(8 if quick else 60)], list(seeds)[:3])
  ck.extra_cov['hash_seeds'] = list(seeds)
  ck.extra_cov['translations_per_design_and_backend'] = 2 + 2 * len(list(seeds))
  ck.extra_cov['rejected_translations'] = ck.rejected[:10]
  ck.extra_cov['labelled_streams'] = {s: FINDING.get(s, 'must-be-clean') for s in c13_gen.ALIAS_STREAMS}
  # our own tops are called Top_<n>_noparam (other people run pymtl3's tests in /repo at the same time)
  for where in (REPO, leanio.VERIF):
    leftovers = [f for f in os.listdir(where) if re.match(r'Top_\d+_noparam.*\.v', f) and f not in ck.preexisting[where]]
    if leftovers: raise InfraError(f'emitted files leaked into {where}: {leftovers[:3]}')

def replay(ck, data):
  """re-run the failing case: a names case ({'cls','params'}) is printed from the stored detail; a design case is
  rebuilt from its source, translated here (both backends, twice) and in one fresh process, and all oracles run again"""
  setup(ck)
  case = data.get('case') or {}
  print(json.dumps({'kind': data.get('kind'), 'signature': data.get('signature')}, indent=1))
  if str(case.get('stream', '')).startswith(c13_mangle.STREAM_PREFIXES):
    return c13_mangle.replay_case(ck, case, ask_hashed, blake)
  if 'source' not in case:
    print('case  :', json.dumps(case, default=str)[:2000])
    print('detail:', json.dumps(data.get('detail'), default=str)[:2000])
    if 'cls' not in case: return 1
    # a names case: rebuild the values that have a literal form, run the real function and the model again
    import ast
    from pymtl3.passes.backends.verilog.util.utility import get_component_unique_name
    ps = []
    for k, tname, text in case['params']:
      if tname == 'str': ps.append((k, text))
      elif tname in ('int', 'float', 'bool', 'NoneType', 'tuple', 'list', 'dict'): ps.append((k, ast.literal_eval(text)))
      else:
        print(f'parameter {k} of type {tname} has no literal form; stored outcome only'); return 1
    real = get_component_unique_name(StubRType(case['cls'], ps))
    rep = ask_hashed(ck, [lambda h: leanio.line('names', 'uniq', h, S(case['cls']), [[S(k), pval_of(v)] for k, v in ps])])[0]
    print('implementation:', real)
    print('model         :', unS(rep[UNIQ]))
    legal = c13_scan.is_id(real) and real not in ck.reserved
    print('legal identifier:', legal)
    return 0 if (legal and real == unS(rep[UNIQ])) else 1
  d = {'uid': 'replay', 'kind': case.get('kind', 'probe'), 'stream': case.get('stream'), 'module': 'c13_replay',
       'source': re.sub(r'\bc13_p\w+_m([12])\b', r'c13_replay_m\1', case['source']),
       'extra_modules': [(re.sub(r'^c13_p\w+_m', 'c13_replay_m', n), s) for n, s in case.get('extra_modules', [])], 'features': []}
  print(d['source'])
  run_batch(ck, [d], [0])
  for v in ck.violations:
    print('VIOLATION', v.kind, json.dumps(v.signature), json.dumps(v.detail, default=str)[:1500])
  for b in ck.breaks:
    print('DISAGREEMENT', b['correspondence'], 'model:', str(b['model'])[:600], 'impl:', str(b['impl'])[:600])
  return 1 if (ck.violations or ck.breaks) else 0
