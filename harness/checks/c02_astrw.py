"""C02 / C01 / C09 (foundation), helper of c02.py — the read / write / call extraction from update-block source:
`AstHelper.DetectReadsWritesCalls` (what `_cache_func_meta` stores per class) and `extract_obj_from_names` (how
`_elaborate_read_write_func` turns the name tuples into the `upblk_reads / upblk_writes / upblk_calls / func_*` sets).

proof:          lean/PymtlVerif/Props/C02a.lean over Model/AstRW.lean
correspondence: the REAL `ast` trees the real code analysed (`cls._name_info[ name ][4]`; lambdas: `_dsl.lambda_info`) of
                (a) rtlgen designs and the directed / randomised shape families of this file, (c) the stdlib / example
                components of `c01_lib.designs` as instantiated there, are converted to the model's S-expression form;
                the model's records are compared, in order and with their operator tags, with a fresh run of the real
                `extract_reads_writes_calls` and with the per-class cache (`_name_rd / _name_wr / _name_fc`); the model's
                `lookName` over a snapshot of the elaborated component is compared with the real
                `upblk_reads / upblk_writes / upblk_calls / func_reads / func_writes / func_calls`.
                (b) every function decorated `@update / @update_ff / @update_once / @s.func` found in the source of
                `pymtl3/stdlib/**` and `examples/**` (no instantiation: `__globals__` of the imported module, `co_freevars`
                of the compiled nested code object): model records vs real records; what falls outside `supported`
                is counted and listed in the evidence, nothing is guessed.
direct oracle:  an own tracer (independent of pymtl3's analysis and of the model) executes every traceable update block /
                helper of a simulated twin of the design statement by statement (real `eval` / `exec` of the block's own
                sub-expressions on the live component: real branch outcomes, loop counts and index values) and logs the
                object paths it dereferences for reading, assigns to, and calls; every object reached must be covered by
                the block's recorded set (the object itself, an ancestor, or a bit slice that contains the accessed bits);
                a statically resolved index name that is a local variable of the function is a violation as well.
rejections:     shapes the visitor refuses loudly (`REJECTS`: a display / parenthesised expression as base of a subscript ->
                bare AssertionError, slice of a slice, slice in the middle, del) are replayed on every run: model and real visitor
                must agree on the exception; recorded in the evidence (`astrw_observed_rejections`).
                Known finding C02-lambda-name-collision: directed design, reported
                through `ck.violation('missing-read-in-metadata', {'finding': 'lambda-name-collision'}, ...)` only for the shape
                "two lambda blocks of one component class with the same mangled name" (recognised from the design).
"""
import ast, hashlib, importlib, importlib.util, itertools, os, random, re, sys, types, warnings

from ..common import leanio
from ..common.leanio import InfraError

MODULE = 'PymtlVerif.Props.C02a'
DRIVERS = ['astrw']
THEOREMS = ['PV.C02a.' + t for t in [
  'complete_partial', 'complete_fn', 'exec_complete', 'exec_accesses', 'agree_body', 'objects_covered', 'sound',
  'for_else_visited', 'if_elif_else_visited', 'children_visited', 'env_congr', 'enter_idem', 'enter_comm', 'body_append']]
THEOREM_MODULE = {t: MODULE for t in THEOREMS}
TRUSTED = [
  'Model/AstRW.lean stands for AstHelper.DetectReadsWritesCalls (+ DetectVarNames._get_full_name_starting_py39, the variant '
  'CPython >= 3.9 selects) and for ComponentLevel2.extract_obj_from_names (lookup_variable / expand_array_index; the operator '
  'checks on writes are not modelled): the two while loops of _get_full_name are one recursion that builds the name on the way '
  'back, name tuples are flat step lists, self.current_op is a parameter; harness/checks/c02_astrw.Conv turns the real ast into '
  'the model\'s S-expression (every node class the visitor does not override is a generic node with its children in field '
  'order; If / While bodies are grouped as pseudo nodes); c02_astrw.Heap is the snapshot of the elaborated component the model\'s '
  'lookup runs on (attributes restricted to the identifiers of the analysed source); c02_astrw.Tracer (the direct oracle) is an '
  'own statement-level interpreter on top of eval / exec',
]
ASSUMPTIONS = [
  'PARTIAL (extraction from source): completeness of the recorded read / write / call names (PV.C02a.complete_partial / complete_fn / '
  'exec_complete / objects_covered) has two hypotheses: `supported` — it only excludes shapes the visitor itself rejects (a slice that '
  'is not the last subscript of a chain, a slice of a slice); that every body the visitor accepts is `supported` is NOT proved — and '
  '`Agree` (a name the visitor resolves statically is constant during the execution and has the value the lookup uses: a property of '
  'the block, not of the visitor; the direct oracle `local-index-resolved-statically` checks its syntactic part on every analysed '
  'function). Every decorated function of pymtl3/stdlib and examples is `supported` (evidence: astrw_static_outside_supported = []). '
  'objects_covered assumes that a slice is the last step of the accessed path. Names bound without a Name node (ast.arg, '
  'ExceptHandler.name, ast.alias) are handed to the model as stored Name children of their node (c02_astrw.Conv)',
]
RULE = ('extraction clause: (a) rtlgen designs; (b) every @update / @update_ff / @update_once / @s.func function in the source of '
        'pymtl3/stdlib and examples (not instantiated); (c) the c01_lib library designs; (d) shape families (one shape per block, 3-6 '
        'blocks per component): keyword arguments, call-result bases (concat(...)[a:b], BitsN(k).__op__(...), helper(...)[a:b]), '
        'block-local names shadowing module-level integers (tuple / nested-tuple loop targets, comprehension and generator '
        'variables, plain / annotated / walrus assignments), nested and computed indices (signal, slice of a signal, ~, +, if-else, '
        'int(), helper call) in last and inner position, closure / module-level indices and slice bounds, signal-valued slice '
        'bounds, if / elif / else, for-else, while-else, nested else clauses, conditional and boolean expressions, variable-index / '
        'slice / field writes, tuple temporaries, starred arguments, helper calls as statements; non-trivial = the component has an '
        'analysed function; distinct by source')

_uid = itertools.count()

# ---------------------------------------------------------------------------------------------
# real ast -> S-expression of Model/AstRW.Node
# ---------------------------------------------------------------------------------------------
_CTX = {ast.Load: 'L', ast.Store: 'S', ast.Del: 'D'}
_SKIP = (ast.expr_context, ast.operator, ast.unaryop, ast.boolop, ast.cmpop)
_BLOCKED = (ast.If, ast.While)

class Conv:
  """one function body -> nested lists; `flags`: what the model cannot express (counted, the block is then not compared)"""
  def __init__(self):
    self.flags = []
    self.kinds = {}
    self.names = set()      # ids of Name nodes
    self.attrs = set()      # attribute identifiers
  def node(self, n):
    if n is None: return 'nil'
    k = type(n).__name__
    self.kinds[k] = self.kinds.get(k, 0) + 1
    if isinstance(n, ast.Name):
      self.names.add(n.id); return ['name', n.id, _CTX[type(n.ctx)]]
    if isinstance(n, ast.Constant):
      v = n.value
      if isinstance(v, bool): return ['node', 'Constant', []]
      if isinstance(v, int): return ['num', v]
      if isinstance(v, (float, complex)):
        self.flags.append('non-integer-number'); return ['node', 'Constant', []]
      if isinstance(v, str): return 'str'
      return ['node', 'Constant', []]
    if isinstance(n, ast.Attribute):
      self.attrs.add(n.attr); return ['attr', self.node(n.value), n.attr, _CTX[type(n.ctx)]]
    if isinstance(n, ast.Subscript): return ['sub', self.node(n.value), self.node(n.slice), _CTX[type(n.ctx)]]
    if isinstance(n, ast.Slice): return ['slice', self.node(n.lower), self.node(n.upper), self.node(n.step)]
    if isinstance(n, ast.Call):
      return ['call', self.node(n.func), [self.node(a) for a in n.args], [self.node(k.value) for k in n.keywords]]
    if isinstance(n, ast.Assign): return ['assign', [self.node(t) for t in n.targets], self.node(n.value)]
    if isinstance(n, ast.AugAssign): return ['aug', self.node(n.target), type(n.op).__name__, self.node(n.value)]
    if isinstance(n, ast.For):
      return ['for', self.node(n.target), self.node(n.iter), [self.node(x) for x in n.body], [self.node(x) for x in n.orelse]]
    cs = []
    # names bound without a Name node (`enter` counts them as local): rendered as a stored Name child, which the visitor ignores
    bound = n.arg if isinstance(n, ast.arg) else n.name if isinstance(n, ast.ExceptHandler) else \
            (n.asname or n.name.split('.')[0]) if isinstance(n, ast.alias) else None
    if bound:
      self.names.add(bound); cs.append(['name', bound, 'S'])
    for name, v in ast.iter_fields(n):
      if isinstance(v, ast.AST):
        if not isinstance(v, _SKIP): cs.append(self.node(v))
      elif isinstance(v, list):
        items = [self.node(x) for x in v if isinstance(x, ast.AST) and not isinstance(x, _SKIP)]
        if isinstance(n, _BLOCKED) and name in ('body', 'orelse'): cs.append(['node', 'block', items])
        else: cs += items
    return ['node', k, cs]

def canon_idx(x):
  if x == '*': return '*'
  if isinstance(x, bool): return ['?', repr(x)]
  if isinstance(x, int): return x
  if isinstance(x, tuple) and len(x) == 2 and isinstance(x[0], bool): return ['v', int(x[0]), x[1]]
  if isinstance(x, slice): return ['sl', canon_idx(x.start), canon_idx(x.stop)]
  return ['?', repr(x)]

def canon_real(recs):
  out = []
  for (obj_name, nodelist, op) in recs:
    o = 'none' if op is None else 'for' if op == 'for' else type(op).__name__
    out.append([o, [[f] + [canon_idx(i) for i in idx] for (f, idx) in obj_name]])
  return out

def parse_idx(t):
  if t == '*': return '*'
  if isinstance(t, str): return int(t)
  if t[0] == 'v': return ['v', int(t[1]), t[2]]
  if t[0] == 'sl': return ['sl', parse_idx(t[1]), parse_idx(t[2])]
  raise InfraError(f'bad index in reply: {t}')

def parse_recs(tree):
  return [[r[0], [[el[0]] + [parse_idx(i) for i in el[1:]] for el in r[1:]]] for r in tree]

def real_extract(func, tree):
  """a fresh run of the real visitor: ('ok', rd, wr, fc) in canonical form or ('err', class)"""
  from pymtl3.dsl import AstHelper
  rd, wr, fc = [], [], []
  try:
    with warnings.catch_warnings():
      warnings.simplefilter('ignore')
      AstHelper.extract_reads_writes_calls(None, func, tree, rd, wr, fc)
  except TypeError as e:
    return ('err', 'sliceInMiddle' if 'slice in the middle' in str(e) else 'badCtx' if 'Wrong ast node context' in str(e) else 'TypeError:' + str(e)[:80])
  except AssertionError as e:
    return ('err', 'multiSlice' if 'Multiple slices' in str(e) else 'badBase')
  except (UnboundLocalError, NameError):
    return ('err', 'multiSlice')          # the message expression of `assert len(slices) == 1` fails first
  return ('ok', canon_real(rd), canon_real(wr), canon_real(fc), (rd, wr, fc))

def fn_request(func, tree, heap='nil', funcs=(), extra_vals=None):
  """driver line for one analysed function; returns (line, conv)"""
  fdef = tree.body[0]
  cv = Conv()
  body = [cv.node(s) for s in fdef.body]
  g = func.__globals__
  free = set(func.__code__.co_freevars)
  closure = sorted(x for x in cv.names if x in free)
  globs = sorted(x for x in cv.names | {a.arg for a in ast.walk(fdef.args) if isinstance(a, ast.arg)} if x in g)
  vals = []
  if heap != 'nil':
    cl = closure_values(func)
    for x in closure:
      v = cl.get(x)
      if isinstance(v, int): vals.append([1, x, int(v)])
    for x in globs:
      v = g.get(x)
      if isinstance(v, int): vals.append([0, x, int(v)])
  params = sorted({x.arg for x in ast.walk(fdef.args) if isinstance(x, ast.arg)})
  line = leanio.line('astrw', 'full', ['closure'] + closure, ['globals'] + globs, ['params'] + params, ['body'] + body, heap,
                     ['funcs'] + sorted(funcs), ['vals'] + vals)
  return line, cv

def closure_values(func):
  out = {}
  for i, var in enumerate(func.__code__.co_freevars):
    try: out[var] = func.__closure__[i].cell_contents
    except (ValueError, TypeError, IndexError): pass
  return out

def parse_reply(rep):
  """-> ('err', e) | ('ok', rd, wr, fc, supported, objs or None)"""
  if rep.startswith('err '): return ('err', rep.split()[1])
  t = leanio.parse_sexp(rep)
  if t[0] != 'ok' or t[1][0] != 'rd' or t[2][0] != 'wr' or t[3][0] != 'fc' or t[4][0] != 'sup':
    raise InfraError(f'unexpected reply {rep[:200]}')
  objs = None
  if len(t) > 5:
    if t[5] != 'objs': raise InfraError(f'unexpected reply {rep[:200]}')
    objs = t[6:9]
  return ('ok', parse_recs(t[1][1:]), parse_recs(t[2][1:]), parse_recs(t[3][1:]), t[4][1] == '1', objs)

def show(recs):
  def idx(i): return '*' if i == '*' else str(i) if isinstance(i, int) else (('closure ' if i[1] else 'global ') + i[2]) if i[0] == 'v' else f'{idx(i[1])}:{idx(i[2])}' if i[0] == 'sl' else str(i)
  return [('' if op == 'none' else op + ' ') + '.'.join(el[0] + ''.join(f'[{idx(i)}]' for i in el[1:]) for el in nm) for op, nm in recs]

def compare_names(ck, case, real, model, what='AstRW.extractBody≈DetectReadsWritesCalls'):
  """model records vs the real visitor's, in order; returns True when they agree"""
  if real[0] == 'err' or model[0] == 'err':
    if real[0] != model[0] or real[1] != model[1]:
      ck.disagreement(what + ' (exception)', case, model[:2] if model[0] == 'err' else 'no exception', real[:2] if real[0] == 'err' else 'no exception')
      return False
    return True
  ok = True
  for k, name in ((1, 'read'), (2, 'write'), (3, 'calls')):
    if real[k] != model[k]:
      ck.disagreement(f'{what} ({name})', case, show(model[k]), show(real[k])); ok = False
  return ok

# ---------------------------------------------------------------------------------------------
# (b) every decorated function in the source of pymtl3/stdlib and examples
# ---------------------------------------------------------------------------------------------
_DECOS = {'update', 'update_ff', 'update_once', 'func'}

def deco_kind(d):
  """'update' / 'update_ff' / 'update_once' / 'func' for @update, @s.update, @s.func, ...; None otherwise"""
  if isinstance(d, ast.Name) and d.id in ('update', 'update_ff', 'update_once'): return d.id
  if isinstance(d, ast.Attribute) and d.attr in _DECOS and isinstance(d.value, ast.Name): return d.attr
  return None

def code_index(code, out):
  """(name, first line) -> nested code object"""
  for c in code.co_consts:
    if isinstance(c, types.CodeType):
      out.setdefault((c.co_name, c.co_firstlineno), c); code_index(c, out)
  return out

def repo_root():
  import pymtl3
  return os.path.dirname(os.path.dirname(os.path.abspath(pymtl3.__file__)))

def static_functions():
  """[(relative file, module globals or None, FunctionDef, code object)] of every decorated function"""
  root = repo_root()
  if root not in sys.path: sys.path.insert(0, root)
  out = []
  for top in ('pymtl3/stdlib', 'examples'):
    for dp, dn, fn in sorted(os.walk(os.path.join(root, top))):
      dn.sort()
      for f in sorted(fn):
        if not f.endswith('.py'): continue
        path = os.path.join(dp, f)
        try: src = open(path).read()
        except OSError: continue
        if 'update' not in src and '.func' not in src: continue
        try: tree = ast.parse(src)
        except SyntaxError: continue
        fdefs = [n for n in ast.walk(tree) if isinstance(n, ast.FunctionDef) and any(deco_kind(d) for d in n.decorator_list)]
        if not fdefs: continue
        codes = code_index(compile(src, path, 'exec'), {})
        rel = os.path.relpath(path, root)
        modname = rel[:-3].replace(os.sep, '.')
        g = None
        try:
          with warnings.catch_warnings():
            warnings.simplefilter('ignore')
            g = vars(importlib.import_module(modname))
        except BaseException:
          g = None
        if g is None:
          # the module cannot be imported here: its statically visible top-level names stand for __globals__
          g = {}
          for n in tree.body:
            for x in ast.walk(n):
              if isinstance(x, ast.Name) and isinstance(x.ctx, ast.Store): g[x.id] = None
              elif isinstance(x, (ast.FunctionDef, ast.ClassDef)): g[x.name] = None
              elif isinstance(x, ast.alias): g[(x.asname or x.name).split('.')[0]] = None
        for fd in fdefs:
          line = min([fd.lineno] + [d.lineno for d in fd.decorator_list])
          code = codes.get((fd.name, line)) or codes.get((fd.name, fd.lineno))
          if code is None: continue
          out.append((rel, g, fd, code))
  return out

def run_static(ck):
  fns = static_functions()
  lines, meta = [], []
  for rel, g, fd, code in fns:
    func = types.SimpleNamespace(__globals__=g, __code__=code, __name__=fd.name, __closure__=None)
    clean = ast.FunctionDef(name=fd.name, args=fd.args, body=fd.body, decorator_list=[], returns=None, type_comment=None, lineno=fd.lineno, col_offset=0)
    if sys.version_info >= (3, 12): clean.type_params = []
    tree = ast.Module(body=[clean], type_ignores=[])
    line, cv = fn_request(func, tree)
    lines.append(line); meta.append((rel, fd, func, tree, cv))
  reps = ck.drv('astrw').batch(lines)
  outside, kinds, nflag = [], {}, 0
  for (rel, fd, func, tree, cv), rep in zip(meta, reps):
    case = {'astrw': 'static', 'file': rel, 'function': fd.name, 'line': fd.lineno}
    ck.count({'astrw-static': rel, 'fn': fd.name, 'line': fd.lineno}, True)
    for k, v in cv.kinds.items(): kinds[k] = kinds.get(k, 0) + v
    if cv.flags:
      nflag += 1; ck.hist('astrw_static', 'not-expressible:' + cv.flags[0]); continue
    real = real_extract(func, tree); model = parse_reply(rep)
    compare_names(ck, case, real, model)
    check_local_index_names(ck, case, {'m': rel}, fd.name, func, real)
    if model[0] == 'ok':
      ck.hist('astrw_static', 'supported' if model[4] else 'outside-supported')
      if not model[4]: outside.append(f'{rel}:{fd.lineno} {fd.name}')
    else:
      ck.hist('astrw_static', 'rejected:' + model[1])
  ck.extra_cov['astrw_static_functions'] = len(fns)
  ck.extra_cov['astrw_static_not_expressible'] = nflag
  ck.extra_cov['astrw_static_outside_supported'] = outside
  ck.extra_cov['astrw_static_node_kinds'] = dict(sorted(kinds.items()))
  if len(fns) < 150: raise InfraError(f'only {len(fns)} decorated functions found under pymtl3/stdlib and examples')

# ---------------------------------------------------------------------------------------------
# snapshot of an elaborated component for Model/AstRW.look
# ---------------------------------------------------------------------------------------------
class Heap:
  """`Obj` tree of one component restricted to the attribute identifiers `ids`; numbers every NamedObject met"""
  def __init__(self, ids):
    self.ids = sorted(i for i in ids if not i.startswith('_'))
    self.num = {}          # id(obj) -> number
    self.objs = {}         # number -> obj
  def n(self, o):
    k = self.num.setdefault(id(o), len(self.num) + 1)
    self.objs[k] = o
    return k
  def fields(self, o, path, shallow):
    out = []
    for a in self.ids:
      try: v = getattr(o, a)
      except Exception: continue
      out.append([a, self.obj(v, path, shallow)])
    return out
  def obj(self, o, path=(), shallow=False):
    from pymtl3.dsl.NamedObject import NamedObject
    from pymtl3.dsl.Connectable import Signal
    from pymtl3.datatypes import Bits
    if o is None: return 'none'
    if isinstance(o, list): return ['lst'] + [self.obj(x, path, shallow) for x in o]
    if id(o) in path: return ['other', []]
    if isinstance(o, Signal):
      T = o._dsl.Type
      isb = isinstance(T, type) and issubclass(T, Bits)
      if o._dsl.slice is not None: return ['other', []]     # never reached through a name
      return ['sig', self.n(o), 0 if isb else 1, T.nbits if isb else 0, [] if isb else self.fields(o, path + (id(o),), shallow)]
    if isinstance(o, NamedObject):
      return ['named', self.n(o), self.fields(o, path + (id(o),), shallow)]
    if shallow: return ['other', []]
    return ['other', self.fields(o, path + (id(o),), True)]
  def ref(self, o):
    """a member of a real read / write / call set in the reply's notation"""
    from pymtl3.dsl.Connectable import Signal
    if isinstance(o, types.FunctionType): return f'(f {o.__name__})'
    if isinstance(o, Signal) and o._dsl.slice is not None:
      p = o.get_parent_object()
      if id(p) not in self.num: return f'?{o!r}'
      return f'({self.num[id(p)]} {o._dsl.slice.start} {o._dsl.slice.stop})'
    if id(o) not in self.num: return f'?{o!r}'
    return str(self.num[id(o)])

def flat_refs(t):
  if t and t[0] == 'err': return ('err', t[1])
  return ('ok', sorted(x if isinstance(x, str) else '(' + ' '.join(x) + ')' for x in t))

class Snap:
  """the per-component tables of an elaborated design, copied right before `_collect_vars` merges helper sets in place"""
  def __init__(self): self.comps = None
  def take(self, top):
    from pymtl3.dsl.ComponentLevel2 import ComponentLevel2
    self.comps = []
    for m in sorted(top._collect_all_single(lambda x: isinstance(x, ComponentLevel2)), key=repr):
      d = m._dsl
      self.comps.append(dict(m=m, name_func=dict(d.name_func), name_upblk=dict(d.name_upblk), update_ff=set(d.update_ff),
        tabs={k: {f: set(v) for f, v in getattr(d, k).items()} for k in ('func_reads', 'func_writes', 'func_calls', 'upblk_reads', 'upblk_writes', 'upblk_calls')}))

def elaborate_with_snapshot(top):
  snap = Snap()
  orig = top._elaborate_declare_vars
  def hook():
    snap.take(top); orig()
  top._elaborate_declare_vars = hook
  try: top.elaborate()
  finally: del top._elaborate_declare_vars
  if snap.comps is None: raise InfraError('elaboration did not reach _elaborate_declare_vars')
  return snap

def functions_of(c):
  """[(name, function object, is_block, real ast, cached (rd, wr, fc) or None)] of one component"""
  m = c['m']; cls = type(m)
  info = cls.__dict__.get('_name_info', {})
  out = []
  for name, fn in list(c['name_upblk'].items()) + list(c['name_func'].items()):
    is_blk = name in c['name_upblk']
    ent = m._dsl.lambda_info.get(name) or info.get(name)
    if ent is None: continue                       # a block without cached source (generated blocks of passes)
    is_lambda, _src, _line, _file, tree = ent
    cached = None
    if not is_lambda and name in cls.__dict__.get('_name_rd', {}):
      cached = (cls._name_rd[name], cls._name_wr[name], cls._name_fc[name])
    out.append((name, fn, is_blk, tree, cached))
  return out

def check_component(ck, case, c, lines, meta):
  """queue one driver line per analysed function of component `c`"""
  m = c['m']
  fns = functions_of(c)
  if not fns: return 0
  ids = set()
  convs = []
  for name, fn, is_blk, tree, cached in fns:
    cv = Conv(); [cv.node(s) for s in tree.body[0].body]
    ids |= cv.attrs
  heap = Heap(ids)
  h = heap.obj(m)
  for name, fn, is_blk, tree, cached in fns:
    line, cv = fn_request(fn, tree, heap=h, funcs=list(c['name_func']))
    lines.append(line); meta.append((dict(case, component=repr(m), function=name), c, heap, name, fn, is_blk, tree, cached, cv))
  return len(fns)

def compare_function(ck, rep, mt):
  case, c, heap, name, fn, is_blk, tree, cached, cv = mt
  if cv.flags:
    ck.hist('astrw_fn', 'not-expressible:' + cv.flags[0]); return None
  real = real_extract(fn, tree); model = parse_reply(rep)
  agree = compare_names(ck, case, real, model)
  if real[0] == 'ok' and cached is not None:
    cc = ('ok', canon_real(cached[0]), canon_real(cached[1]), canon_real(cached[2]))
    if cc[1:4] != real[1:4]:
      ck.disagreement('per-class cache (_name_rd / _name_wr / _name_fc) vs a fresh run of the real visitor on the cached ast', case,
                      'n/a', {'cached': [show(x) for x in cc[1:4]], 'fresh': [show(x) for x in real[1:4]]})
  if model[0] != 'ok' or real[0] != 'ok': return model
  ck.hist('astrw_fn', 'supported' if model[4] else 'outside-supported')
  # model lookup vs the real sets
  if name in c.get('collide', ()):
    ck.hist('astrw_lookup', 'skipped:lambda-name-collision'); return model
  pre = 'upblk_' if is_blk else 'func_'
  for k, tab in enumerate(('reads', 'writes', 'calls')):
    realset = c['tabs'][pre + tab].get(fn)
    if realset is None: raise InfraError(f'{pre}{tab} has no entry for {name}')
    want = sorted(heap.ref(o) for o in realset)
    got = flat_refs(model[5][k])
    if got[0] == 'err':
      if got[1] == 'opaque': ck.hist('astrw_lookup', 'opaque'); continue
      ck.disagreement(f'AstRW.lookName≈extract_obj_from_names ({pre}{tab})', case, got, want); continue
    ck.hist('astrw_lookup', 'compared')
    if got[1] != want:
      names = {str(k): repr(o) for k, o in heap.objs.items()}
      pretty = lambda l: [re.sub(r'\d+', lambda mm: names.get(mm.group(0), mm.group(0)), x, count=1) for x in l]
      ck.disagreement(f'AstRW.lookName≈extract_obj_from_names ({pre}{tab})', case, pretty(got[1]), pretty(want))
  return model

# ---------------------------------------------------------------------------------------------
# direct oracle: an own tracer of the block on the simulated twin
# ---------------------------------------------------------------------------------------------
class Untraceable(Exception): pass
class _Break(Exception): pass
class _Continue(Exception): pass
class _Return(Exception): pass

PURE_BUILTINS = {'int', 'range', 'len', 'enumerate', 'min', 'max', 'abs', 'bool', 'sum', 'zip', 'reversed', 'list', 'tuple', 'sorted', 'any', 'all', 'isinstance'}
PURE_METHODS = {'to_bits', 'clone', 'uint', 'int', '__add__', '__and__', '__or__', '__xor__', '__sub__', '__invert__', '__lshift__', '__rshift__', '__eq__', '__ne__', '__lt__', '__getitem__'}

class Tracer:
  """executes one function of the simulated component `m` statement by statement and logs (kind, root, steps):
  kind 'rd' / 'wr' / 'call'; steps ('f', attr) | ('i', k) | ('s', lo, hi).  Index expressions, loop iterables and
  branch conditions are evaluated by the real interpreter on the live component (`eval`), simple statements are
  executed by `exec`; helper functions of the component are traced at the call with their parameters bound."""
  def __init__(self, helpers, helper_asts, budget=4000):
    self.helpers = helpers            # name -> function of the simulated component
    self.helper_asts = helper_asts    # name -> ast.Module
    self.logs = {}                    # function name -> list of events
    self.budget = budget
    self.depth = 0
  # -- evaluation
  def ev(self, node, ns):
    return eval(compile(ast.Expression(body=node), '<pv-astrw>', 'eval'), ns)
  def ex(self, stmt, ns):
    exec(compile(ast.Module(body=[stmt], type_ignores=[]), '<pv-astrw>', 'exec'), ns)
  def pure_call(self, node, ns):
    f = node.func
    if isinstance(f, ast.Name):
      if f.id in self.helpers: return True
      v = ns.get(f.id, getattr(__builtins__, f.id, None) if not isinstance(__builtins__, dict) else __builtins__.get(f.id))
      if isinstance(v, type): return True
      if f.id in PURE_BUILTINS: return True
      return getattr(v, '__module__', '').startswith('pymtl3.datatypes')
    if isinstance(f, ast.Attribute) and f.attr in PURE_METHODS: return True
    return False
  # -- function
  def trace(self, name, fn, tree, args=None):
    if self.depth > 6: raise Untraceable('helper recursion')
    fdef = tree.body[0]
    for x in ast.walk(fdef):
      if isinstance(x, ast.Call) and not self.pure_call(x, fn.__globals__ | closure_values(fn)): raise Untraceable('call of ' + ast.unparse(x.func)[:40])
      if isinstance(x, (ast.Try, ast.With, ast.Lambda, ast.FunctionDef, ast.ClassDef, ast.Yield, ast.Await, ast.Global, ast.Nonlocal, ast.Match)) and x is not fdef:
        raise Untraceable(type(x).__name__)
    ns = dict(fn.__globals__); ns.update(closure_values(fn))
    params = [a.arg for a in fdef.args.args]
    if args is None:
      if params: raise Untraceable('parameters')
    else:
      if len(args) != len(params): raise Untraceable('arity')
      ns.update(zip(params, args))
    log = self.logs.setdefault(name, [])
    self.depth += 1
    try: self.block(fdef.body, ns, log)
    except _Return: pass
    finally: self.depth -= 1
    return log
  def block(self, stmts, ns, log):
    for st in stmts: self.stmt(st, ns, log)
  def stmt(self, st, ns, log):
    self.budget -= 1
    if self.budget < 0: raise Untraceable('budget')
    if isinstance(st, ast.If):
      self.expr(st.test, ns, log)
      self.block(st.body if self.ev(st.test, ns) else st.orelse, ns, log)
    elif isinstance(st, ast.For):
      self.expr(st.iter, ns, log)
      broke = False
      for item in list(self.ev(st.iter, ns)):
        ns['__pv_item'] = item
        self.target(st.target, ns, log)
        self.ex(ast.fix_missing_locations(ast.Assign(targets=[st.target], value=ast.Name(id='__pv_item', ctx=ast.Load()), lineno=1, col_offset=0)), ns)
        try: self.block(st.body, ns, log)
        except _Break: broke = True; break
        except _Continue: pass
      if not broke: self.block(st.orelse, ns, log)
    elif isinstance(st, ast.While):
      broke = False
      while True:
        self.budget -= 1
        if self.budget < 0: raise Untraceable('budget')
        self.expr(st.test, ns, log)
        if not self.ev(st.test, ns): break
        try: self.block(st.body, ns, log)
        except _Break: broke = True; break
        except _Continue: pass
      if not broke: self.block(st.orelse, ns, log)
    elif isinstance(st, ast.Break): raise _Break()
    elif isinstance(st, ast.Continue): raise _Continue()
    elif isinstance(st, ast.Return):
      if st.value is not None: self.expr(st.value, ns, log)
      raise _Return()
    elif isinstance(st, ast.Assign):
      self.expr(st.value, ns, log)
      for t in st.targets: self.target(t, ns, log)
      self.ex(st, ns)
    elif isinstance(st, ast.AugAssign):
      self.expr(st.value, ns, log); self.target(st.target, ns, log); self.ex(st, ns)
    elif isinstance(st, ast.AnnAssign):
      if st.value is not None: self.expr(st.value, ns, log)
      self.target(st.target, ns, log); self.ex(st, ns)
    elif isinstance(st, (ast.Expr, ast.Assert)):
      for ch in ast.iter_child_nodes(st): self.expr(ch, ns, log)
      self.ex(st, ns)
    elif isinstance(st, ast.Pass): pass
    else: raise Untraceable(type(st).__name__)
  # -- access chains
  def chain(self, node, ns, log):
    """(root name, steps) of an Attribute / Subscript chain that starts at a Name, else None; logs the index expressions"""
    if isinstance(node, ast.Name): return (node.id, [])
    if isinstance(node, ast.Attribute):
      r = self.chain(node.value, ns, log)
      if r is None: return None
      return (r[0], r[1] + [('f', node.attr)])
    if isinstance(node, ast.Subscript):
      r = self.chain(node.value, ns, log)
      if r is None: return None
      sl = node.slice
      if isinstance(sl, ast.Slice):
        b = []
        for x in (sl.lower, sl.upper):
          if x is None: b.append(None)
          else:
            self.expr(x, ns, log); b.append(int(self.ev(x, ns)))
        if sl.step is not None: self.expr(sl.step, ns, log)
        return (r[0], r[1] + [('s', b[0], b[1])])
      self.expr(sl, ns, log)
      k = self.ev(sl, ns)
      if isinstance(k, slice) and k.step is None:          # an index name whose value is a slice object (`s.inst[ OPCODE ]`)
        return (r[0], r[1] + [('s', None if k.start is None else int(k.start), None if k.stop is None else int(k.stop))])
      try: k = int(k)
      except Exception: raise Untraceable('non-integer index ' + ast.unparse(sl)[:40] + ' = ' + repr(k)[:30])
      return (r[0], r[1] + [('i', k)])
    self.expr(node, ns, log)
    return None
  def target(self, t, ns, log):
    if isinstance(t, (ast.Tuple, ast.List)):
      for x in t.elts: self.target(x, ns, log)
    elif isinstance(t, ast.Starred): self.target(t.value, ns, log)
    elif isinstance(t, (ast.Attribute, ast.Subscript)):
      r = self.chain(t, ns, log)
      if r is not None: log.append(('wr', r[0], tuple(r[1])))
  def expr(self, e, ns, log):
    if e is None or isinstance(e, (ast.Name, ast.Constant)): return
    if isinstance(e, (ast.Attribute, ast.Subscript)):
      r = self.chain(e, ns, log)
      if r is not None: log.append(('rd', r[0], tuple(r[1])))
      return
    if isinstance(e, ast.Call):
      r = self.chain(e.func, ns, log) if isinstance(e.func, (ast.Attribute, ast.Subscript, ast.Name)) else (self.expr(e.func, ns, log) or None)
      for a in e.args: self.expr(a.value if isinstance(a, ast.Starred) else a, ns, log)
      for k in e.keywords: self.expr(k.value, ns, log)
      if r is not None:
        log.append(('call', r[0], tuple(r[1])))
        if not r[1] and r[0] in self.helpers and not e.keywords and not any(isinstance(a, ast.Starred) for a in e.args):
          try: self.trace(r[0], self.helpers[r[0]], self.helper_asts[r[0]], [self.ev(a, ns) for a in e.args])
          except Untraceable: pass
      return
    if isinstance(e, ast.BoolOp):
      for v in e.values:
        self.expr(v, ns, log)
        val = self.ev(v, ns)
        if (isinstance(e.op, ast.And) and not val) or (isinstance(e.op, ast.Or) and val): break
      return
    if isinstance(e, ast.NamedExpr):
      self.expr(e.value, ns, log); ns[e.target.id] = self.ev(e.value, ns); return
    if isinstance(e, ast.IfExp):
      self.expr(e.test, ns, log)
      self.expr(e.body if self.ev(e.test, ns) else e.orelse, ns, log)
      return
    if isinstance(e, (ast.ListComp, ast.SetComp, ast.GeneratorExp, ast.DictComp)):
      saved = dict(ns)
      def gen(i):
        if i == len(e.generators):
          for x in ([e.key, e.value] if isinstance(e, ast.DictComp) else [e.elt]): self.expr(x, ns, log)
          return
        g = e.generators[i]
        self.expr(g.iter, ns, log)
        for item in list(self.ev(g.iter, ns)):
          self.budget -= 1
          if self.budget < 0: raise Untraceable('budget')
          ns['__pv_item'] = item
          self.ex(ast.fix_missing_locations(ast.Assign(targets=[g.target], value=ast.Name(id='__pv_item', ctx=ast.Load()), lineno=1, col_offset=0)), ns)
          ok = True
          for c in g.ifs:
            self.expr(c, ns, log)
            if not self.ev(c, ns): ok = False; break
          if ok: gen(i + 1)
      gen(0)
      for k in list(ns):
        if k not in saved: del ns[k]
      ns.update(saved)
      return
    for ch in ast.iter_child_nodes(e):
      if isinstance(ch, ast.expr): self.expr(ch, ns, log)

def resolve(m, steps):
  """the object of the reference instance a logged path reaches: (object, bit range or None); None: not an object"""
  from pymtl3.dsl.NamedObject import NamedObject
  from pymtl3.dsl.Connectable import Signal
  from pymtl3.datatypes import Bits
  obj, rng = m, None
  for st in steps:
    if rng is not None:
      w = rng[1] - rng[0]
      if st[0] == 'i':
        k = st[1] + w if st[1] < 0 else st[1]
        rng = (rng[0] + k, rng[0] + k + 1)
      elif st[0] == 's':
        lo = 0 if st[1] is None else st[1]; hi = w if st[2] is None else st[2]
        rng = (rng[0] + lo, rng[0] + hi)
      else: return (obj, rng)                 # an attribute of the value (`.nbits`)
      continue
    if st[0] == 'f':
      if isinstance(obj, list): return None
      try: obj = getattr(obj, st[1])
      except Exception: return None
    elif isinstance(obj, list):
      try: obj = obj[st[1]] if st[0] == 'i' else obj[st[1]:st[2]]
      except IndexError: return None
    elif isinstance(obj, Signal):
      T = obj._dsl.Type
      if not (isinstance(T, type) and issubclass(T, Bits)): return None
      if st[0] == 'i':
        k = st[1] + T.nbits if st[1] < 0 else st[1]
        rng = (k, k + 1)
      else: rng = (0 if st[1] is None else st[1], T.nbits if st[2] is None else st[2])
    else: return None
    if not isinstance(obj, (NamedObject, list)): return None
  return (obj, rng)

def covered(obj, rng, R):
  from pymtl3.dsl.Connectable import Signal
  if isinstance(obj, Signal):
    if rng is not None:
      for r in R:
        if isinstance(r, Signal) and r._dsl.slice is not None and r.get_parent_object() is obj and r._dsl.slice.start <= rng[0] and rng[1] <= r._dsl.slice.stop:
          return True
    x = obj
    while isinstance(x, Signal):
      if x in R: return True
      x = x.get_parent_object()
    return False
  return obj in R

def path_text(root, steps):
  return root + ''.join('.' + s[1] if s[0] == 'f' else f'[{s[1]}]' if s[0] == 'i' else f'[{"" if s[1] is None else s[1]}:{"" if s[2] is None else s[2]}]' for s in steps)

def trace_component(ck, case, c_ref, m_sim, states):
  """run the tracer over every block of the simulated twin of `c_ref['m']`; `states` = callables that put the simulated
  design into a state before each round"""
  from pymtl3.dsl.Connectable import Signal, MethodPort
  m_ref = c_ref['m']
  fns = {name: (fn, is_blk, tree) for name, fn, is_blk, tree, cached in functions_of(c_ref)}
  sim_funcs = dict(m_sim._dsl.name_func)
  asts = {n: fns[n][2] for n in sim_funcs if n in fns}
  reported = set()
  for prep in states:
    prep()
    tr = Tracer({n: f for n, f in sim_funcs.items() if n in asts}, asts)
    for name, (fn_ref, is_blk, tree) in fns.items():
      if not is_blk: continue
      fn_sim = m_sim._dsl.name_upblk.get(name)
      if fn_sim is None: continue
      try: tr.trace(name, fn_sim, tree)
      except Untraceable as e:
        ck.hist('astrw_trace', 'untraceable:' + str(e).split(' ')[0]); tr.logs.pop(name, None); continue
      except (_Break, _Continue): tr.logs.pop(name, None); continue
      except Exception as e:
        ck.hist('astrw_trace', 'aborted:' + type(e).__name__); continue
      ck.hist('astrw_trace', 'traced')
    for name, log in tr.logs.items():
      if name not in fns: continue
      fn_ref, is_blk, tree = fns[name]
      pre = 'upblk_' if is_blk else 'func_'
      sets = {'rd': c_ref['tabs'][pre + 'reads'].get(fn_ref, set()), 'wr': c_ref['tabs'][pre + 'writes'].get(fn_ref, set()),
              'call': c_ref['tabs'][pre + 'calls'].get(fn_ref, set())}
      for (kind, root, steps) in log:
        ck.hist('astrw_event', kind)
        if kind == 'call' and not steps:
          if root in c_ref['name_func'] and c_ref['name_func'][root] not in sets['call'] and (name, kind, root) not in reported:
            reported.add((name, kind, root))
            ck.violation('access-not-recorded', {'what': 'astrw', 'kind': 'call'}, dict(case, component=repr(m_ref), function=name),
                         {'executed': f'{root}()', 'recorded_calls': sorted(getattr(x, '__name__', repr(x)) for x in sets['call']),
                          'oracle': 'a helper function the block really calls is in its recorded call set'})
          continue
        if root != 's': continue
        r = resolve(m_ref, steps)
        if r is None: continue
        obj, rng = r
        if isinstance(obj, list): continue
        if kind == 'call':
          if not isinstance(obj, MethodPort): continue
        elif not isinstance(obj, Signal): continue
        if not covered(obj, rng, sets[kind]):
          key = (name, kind, repr(obj), rng)
          if key in reported: continue
          reported.add(key)
          if kind == 'rd' and name in c_ref.get('collide', ()):
            ck.violation('missing-read-in-metadata', {'finding': 'lambda-name-collision'}, dict(case, component=repr(m_ref), function=name),
                         {'executed': path_text(root, steps), 'object': repr(obj), 'recorded': sorted(repr(x) for x in sets[kind]),
                          'oracle': 'every signal the running block reads is in its recorded set',
                          'shape': 'two `//= lambda` blocks of one component class with the same mangled block name'})
            continue
          ck.violation('access-not-recorded', {'what': 'astrw', 'kind': kind}, dict(case, component=repr(m_ref), function=name),
                       {'executed': path_text(root, steps), 'object': repr(obj) + (f'[{rng[0]}:{rng[1]}]' if rng else ''),
                        'recorded': sorted(repr(x) for x in sets[kind]),
                        'oracle': {'rd': 'every signal the running block reads', 'wr': 'every signal the running block assigns',
                                   'call': 'every method port the running block calls'}[kind] + ' is in its recorded set (itself, an ancestor, or a slice that contains the bits)'})

def check_local_index_names(ck, case, c, name, fn, real):
  """a `(is_closure, name)` marker pins an index to the value of a closure / module-level name: the name must not be a
  local variable (or parameter) of the function"""
  if real[0] != 'ok': return
  local = set(fn.__code__.co_varnames) | set(fn.__code__.co_cellvars)
  bad = []
  for k in (1, 2, 3):
    for op, nm in real[k]:
      for el in nm:
        for i in el[1:]:
          for j in ([i] if not (isinstance(i, list) and i[0] == 'sl') else [i[1], i[2]]):
            if isinstance(j, list) and j[0] == 'v' and j[2] in local: bad.append((j[2], show([[op, nm]])[0]))
  if bad:
    ck.violation('local-index-resolved-statically', {'what': 'astrw'}, dict(case, component=repr(c['m']), function=name),
                 {'names': sorted(set(b[0] for b in bad)), 'records': sorted(set(b[1] for b in bad)),
                  'oracle': 'an index written with a local variable / parameter of the block is a variable index ("*"), not the value of the module-level or closure name of the same name'})

# ---------------------------------------------------------------------------------------------
# shape families: what update blocks may be written like (beyond rtlgen), one shape per block
# ---------------------------------------------------------------------------------------------
SHAPE_HEAD = '''from pymtl3 import *

i = 0
j = 1
k = 2
n = 3
q = 1

@bitstruct
class ShP{uid}:
  a: Bits8
  b: Bits4

class {cls}( Component ):
  def construct( s ):
    s.a = InPort( Bits8 )
    s.b = InPort( Bits8 )
    s.c = InPort( Bits4 )
    s.sel = InPort( Bits2 )
    s.lo = InPort( Bits2 )
    s.v = [ InPort( Bits8 ) for _ in range(4) ]
    s.m = [ [ InPort( Bits8 ) for _ in range(2) ] for _ in range(2) ]
    s.p = InPort( ShP{uid} )
    s.ps = [ InPort( ShP{uid} ) for _ in range(4) ]
    cv = {cv}
    cw = {cw}
    @s.func
    def hf( x ):
      return s.b + x
    @s.func
    def hsel():
      return s.sel
    @s.func
    def hbit( t ):
      return s.c[ t ]
    @s.func
    def hp( i ):
      return s.v[ i ]
    @s.func
    def hq( k, j=1 ):
      return s.m[ j ][ k ] + s.ps[ k ].a
'''

def _shapes():
  """name -> function( rng, o ) -> (declarations, decorator, body lines); `o` = a fresh name stem for the block's outputs"""
  S = {}
  def shape(f): S[f.__name__] = f; return f
  one = lambda o: [f's.{o} = OutPort( Bits8 )']
  lst = lambda o: [f's.{o} = [ OutPort( Bits8 ) for _ in range(4) ]']
  @shape
  def kwargs(r, o):
    e = r.choice(['zext( value=s.c, new_width=8 )', 'sext( new_width=8, value=s.c )', 'zext( s.c, new_width=cw + 8 - cw )', 'hf( x=s.a )',
                  'zext( value=s.v[ s.sel ][0:4], new_width=8 )', 'concat( s.c, Bits4( v=1 ) ) + hf( x=s.v[cv] )', 'Bits8( v=1 ) + zext( value=s.p.b, new_width=8 )'])
    return one(o), 'update', [f's.{o} @= {e}']
  @shape
  def callbase(r, o):
    e = r.choice(['concat( s.a, s.b )[4:12]', 'concat( s.c, s.v[ s.sel ] )[2:10]', 'zext( Bits4(1).__add__( s.c ), 8 )', 'hf( s.a )[0:8]',
                  'concat( s.p.a, s.ps[ s.lo ].b )[cw:cw+8]', 'zext( concat( s.c, s.c )[ s.lo ], 8 )', 'Bits8(3).__and__( s.v[ s.sel ] )',
                  'zext( concat( s.a, s.b )[ zext( s.lo, 4 ) : zext( s.lo, 4 ) + 4 ], 8 )'])
    return one(o), 'update', [f's.{o} @= {e}']
  @shape
  def shadow(r, o):
    v = r.choice(['i', 'j', 'k', 'q'])
    kind = r.choice(['tuple', 'tuple', 'comp', 'comp', 'for', 'assign', 'ann', 'nested-tuple', 'walrus', 'gen', 'param', 'param', 'param2'])
    if kind == 'param': return one(o), 'update', [r.choice([f's.{o} @= hp( 2 ) + hp( s.sel )', f's.{o} @= hp( 3 )', f's.{o} @= hp( s.lo )'])]
    if kind == 'param2': return one(o), 'update', [r.choice([f's.{o} @= hq( 1 )', f's.{o} @= hq( s.lo[0], 0 )', f's.{o} @= hq( k=1, j=s.sel[1] )'])]
    if kind == 'tuple': return lst(o), 'update', [f'for {v}, x in enumerate( [ 1, 2, 3, 4 ] ):', f'  s.{o}[ {v} ] @= s.v[ {v} ] + x']
    if kind == 'nested-tuple': return lst(o), 'update', [f'for ( {v}, x ), y in zip( enumerate( [ 4, 3, 2, 1 ] ), [ 1, 1, 2, 2 ] ):', f'  s.{o}[ {v} ] @= s.v[ {v} ] + x + y']
    if kind == 'comp': return one(o), 'update', [f't = [ s.v[ {v} ] for {v} in range( 1, 4 ) ]', f's.{o} @= t[0] + t[1] + t[2]']
    if kind == 'gen': return one(o), 'update', [f's.{o} @= sum( s.ps[ {v} ].a for {v} in range( 2, 4 ) )']
    if kind == 'for': return lst(o), 'update', [f'for {v} in range( 4 ):', f'  s.{o}[ {v} ] @= s.v[ 3 - {v} ]']
    if kind == 'assign': return one(o), 'update', [f'{v} = 3', f's.{o} @= s.v[ {v} ] + s.ps[ {v} ].a']
    if kind == 'ann': return one(o), 'update', [f'{v}: int = 2', f's.{o} @= s.v[ {v} ][ 0 : 8 ]']
    return one(o), 'update', [f's.{o} @= s.v[ ( {v} := 3 ) ] + s.v[ {v} ]']
  @shape
  def nested(r, o):
    e = r.choice(['s.m[ s.sel[0] ][ s.sel[1] ]', 's.ps[ s.sel ].a', 'zext( s.ps[ s.sel ].b[0:2], 8 )', 's.v[ s.sel + 1 ]', 's.v[ ~s.sel ]',
                  's.v[ s.sel if s.c[0] else s.lo ]', 's.ps[ s.sel + 1 ].a', 's.ps[ s.lo if s.c[0] else s.sel ].a', 's.m[ s.c[ s.lo ] ][ s.c[ s.sel ] ]',
                  's.ps[ s.v[ s.sel ][0:2] ].a', 'zext( s.ps[ ~s.lo ].b[ s.sel[0] ], 8 )', 's.ps[ int( s.sel ) ].a', 's.v[ hsel() ]',
                  's.m[ int( s.lo[0] ) ][ hbit( 1 ) ]', 's.v[ s.ps[ s.lo ].b[0:2] ]', 's.m[ s.sel[0] & s.lo[0] ][ ~s.lo[1] ]',
                  # a call inside an index that is followed by a field / index / slice
                  's.ps[ hsel() ].a', 'zext( s.v[ hsel() ][0:4], 8 )', 's.m[ hbit( 0 ) ][ hbit( 3 ) ]', 'zext( s.ps[ int( s.sel ) ].b[0:2], 8 )',
                  's.ps[ zext( value=s.sel[0], new_width=2 ) ].a', 's.ps[ hsel() ].a + s.m[ hbit( t=s.lo ) ][ 1 ]', 'zext( s.ps[ hsel() ].b[ hbit( 1 ) ], 8 )',
                  # any other expression inside an index that is followed by a field / index / slice
                  's.ps[ s.sel == 1 ].a', 'zext( s.v[ s.sel[0] == s.lo[1] ][0:4], 8 )', 's.m[ s.c[0] and s.c[1] ][ s.lo > 1 ]', 's.ps[ ( t := s.sel ) ].a',
                  's.m[ s.sel != 2 ][ not s.lo[0] ]', 's.ps[ s.c[0] or s.lo[0] ].a', 's.ps[ s.sel < s.lo ].a + s.ps[ 1 if s.c[3] else s.lo ].a'])
    return one(o), r.choice(['update', 'update', 'update_ff']), [f's.{o} @= {e}']
  @shape
  def consts(r, o):
    e = r.choice(['s.v[ cv ]', 's.v[ j ] + s.v[ n ]', 'zext( s.a[ cv : cw + 4 ], 8 )', 'zext( s.b[ j : n ], 8 )', 'zext( s.a[ j : cw + 4 ], 8 )', 's.ps[ cv ].a',
                  'zext( s.ps[ k ].b[ j : n ], 8 )', 's.m[ j ][ i ]', 'zext( s.a[ 7 ], 8 )', 'zext( s.p.a[ 2 : 6 ], 8 )', 'zext( s.v[ cv ][ cw ], 8 )'])
    return one(o), 'update', [f's.{o} @= {e}']
  @shape
  def bounds(r, o):
    e = r.choice(['s.a[ zext( s.lo, 4 ) : zext( s.lo, 4 ) + 4 ]', 's.v[ cv ][ zext( s.sel, 4 ) : zext( s.sel, 4 ) + 2 ]', 's.p.a[ zext( s.lo[0], 4 ) : 6 ]',
                  's.b[ j : zext( s.lo, 4 ) + 2 ]', 's.ps[ s.sel ].a[ zext( s.lo, 4 ) : 8 ]'])
    return one(o), 'update', [f's.{o} @= zext( {e}, 8 )']
  @shape
  def branches(r, o):
    kind = r.choice(['elif', 'elif', 'forelse', 'forelse', 'whileelse', 'nestedelse', 'ifexp', 'boolop'])
    if kind == 'elif': return one(o), 'update', ['if s.sel == 0:', f'  s.{o} @= s.a', 'elif s.sel == 1:', f'  s.{o} @= s.v[ 1 ]', 'elif s.lo[0]:', f'  s.{o} @= s.p.a', 'else:', f'  s.{o} @= hf( s.ps[ 2 ].a )']
    if kind == 'forelse': return lst(o) + [f's.{o}_e = OutPort( Bits8 )'], 'update', ['for x in range( 4 ):', f'  s.{o}[ x ] @= s.v[ x ]', 'else:', f'  s.{o}_e @= s.ps[ s.sel ].a + s.b']
    if kind == 'whileelse': return one(o), 'update', ['t = 0', 'while t < 2:', '  t += 1', 'else:', f'  s.{o} @= s.m[ 1 ][ s.lo[0] ]']
    if kind == 'nestedelse': return one(o) + [f's.{o}_e = OutPort( Bits8 )'], 'update', ['if s.c[0]:', '  for x in range( 2 ):', f'    s.{o} @= s.v[ x ]', '  else:', f'    s.{o}_e @= s.a', 'else:', f'  s.{o} @= s.b', f'  s.{o}_e @= s.v[ 3 ]']
    if kind == 'ifexp': return one(o), 'update', [f's.{o} @= ( s.a if s.sel == 1 else s.v[ 2 ] ) if s.c[ s.lo ] else ( s.ps[ 1 ].a if s.lo[1] else s.b )']
    return one(o), 'update', [f's.{o} @= zext( ( s.c[0] & s.c[1] ) | ( ( s.sel == 1 ) & ( s.a > s.b ) ), 8 ) if ( s.lo == 1 and s.v[0] == 0 ) or s.p.b == 1 else s.v[ 3 ]']
  @shape
  def writes(r, o):
    kind = r.choice(['varidx', 'slices', 'field', 'ffidx', 'tupletmp', 'helperstmt', 'starred', 'varslice'])
    if kind == 'varidx': return lst(o), 'update', ['for x in range( 4 ):', f'  s.{o}[ x ] @= 0', f's.{o}[ s.sel ] @= s.a']
    if kind == 'slices': return one(o), 'update', [f's.{o}[ 0 : cw ] @= s.c[ 0 : cw ]', f's.{o}[ cw : 8 ] @= zext( s.a[ j : 5 ], 8 - cw )']
    if kind == 'field': return [f's.{o} = OutPort( ShP{{uid}} )'], 'update', [f's.{o}.a @= s.v[ s.lo ]', f's.{o}.b[ 0 : 2 ] @= s.sel', f's.{o}.b[ 2 : 4 ] @= s.ps[ 3 ].b[ 0 : 2 ]']
    if kind == 'ffidx': return lst(o), 'update_ff', [f's.{o}[ s.sel ] <<= s.v[ s.sel ] + s.{o}[ s.lo ]']
    if kind == 'tupletmp': return one(o), 'update', ['x, ( y, z ) = s.a, ( s.v[ s.sel ], s.ps[ 1 ].a )', f's.{o} @= x + y + z']
    if kind == 'helperstmt': return one(o), 'update', ['t = hf( s.a )', 'hsel()', f's.{o} @= t + zext( hbit( 2 ), 8 )']
    if kind == 'starred': return one(o), 'update', [f's.{o} @= hf( *[ s.v[ s.lo ] ] ) + concat( *[ s.c, s.p.b ] )']
    return one(o), 'update', [f's.{o} @= 0', f's.{o}[ zext( s.lo, 4 ) : zext( s.lo, 4 ) + 2 ] @= s.sel']
  return S

SHAPES = _shapes()

def gen_shapes(rng, uid, only=None):
  cls = f'Sh{uid}_Top'
  src = SHAPE_HEAD.format(uid=uid, cls=cls, cv=rng.choice([0, 1, 2, 3]), cw=rng.choice([1, 2]))
  nb = rng.choice([3, 4, 5, 6])
  names = sorted(SHAPES)
  decls, blocks, used = [], [], []
  for b in range(nb):
    sh = only or rng.choice(names)
    d, deco, body = SHAPES[sh](rng, f'o{b}')
    if deco == 'update_ff': body = [l.replace(' @= ', ' <<= ') for l in body]
    decls += d; used.append(sh)
    blocks += [f'    @{deco}', f'    def up{b}_{sh}():'] + ['      ' + l for l in body]
  src += ''.join(f'    {d}\n' for d in decls).replace('{uid}', str(uid)) + '\n'.join(blocks) + '\n'
  return src, cls, used

def poke_inputs(top, rng):
  """random values on the top-level input ports of a simulated design (Bits and bitstruct types)"""
  from pymtl3.datatypes import Bits
  from pymtl3.dsl.Connectable import InPort
  def walk(o):
    if isinstance(o, list):
      for x in o: yield from walk(x)
    elif isinstance(o, InPort): yield o
  for name, v in list(vars(top).items()): pass
  for sig in sorted(top.get_input_value_ports(), key=repr):
    if sig.get_host_component() is not top: continue
    nm = sig._dsl.my_name
    if nm in ('clk', 'reset'): continue
    T = sig._dsl.Type
    nb = T.nbits if issubclass(T, Bits) else T().to_bits().nbits
    val = rng.getrandbits(nb)
    try:
      cur = eval('top.' + repr(sig)[2:], {'top': top})
      if issubclass(T, Bits): cur @= val
      else: cur @= T.from_bits(Bits(nb, val))
    except Exception:
      continue

# ---------------------------------------------------------------------------------------------
# designs: reference elaboration (names, lookup) + simulated twin (tracer)
# ---------------------------------------------------------------------------------------------
def load_src(workdir, src, name):
  mod = f'pvar_{os.getpid()}_{next(_uid)}'
  path = os.path.join(workdir, mod + '.py')
  with open(path, 'w') as f: f.write(src)
  spec = importlib.util.spec_from_file_location(mod, path); m = importlib.util.module_from_spec(spec)
  sys.modules[mod] = m; spec.loader.exec_module(m)
  return getattr(m, name)

def process(ck, case, build, lines, meta, rng, trace=True, rounds=2):
  """one design: `build()` gives a fresh top component"""
  from pymtl3.dsl.ComponentLevel2 import ComponentLevel2
  ref = build()
  snap = elaborate_with_snapshot(ref)
  nfn = 0
  # two `//= lambda` blocks of one class whose targets mangle to the same block name share one per-class cache entry
  # (known finding C02-lambda-name-collision): the shape is recognised here, from the design alone
  lam = {}
  for c in snap.comps:
    for name in c['m']._dsl.lambda_info: lam.setdefault((type(c['m']), name), []).append(c)
  for (cls_, name), cs in lam.items():
    if len(cs) > 1:
      for c in cs: c.setdefault('collide', set()).add(name)
  for c in snap.comps: nfn += check_component(ck, case, c, lines, meta)
  ck.count({'astrw': case.get('astrw'), 'design': case.get('design') or hashlib.sha256(case.get('source', '').encode()).hexdigest()[:12]}, nfn > 0)
  if not trace or nfn == 0: return
  from pymtl3.passes.PassGroups import DefaultPassGroup
  try:
    sim = build(); sim.elaborate(); sim.apply(DefaultPassGroup()); sim.sim_reset()
  except Exception as e:
    ck.hist('astrw_trace', 'design-not-simulated:' + type(e).__name__); return
  sims = {repr(m): m for m in sim._collect_all_single(lambda x: isinstance(x, ComponentLevel2))}
  def state():
    poke_inputs(sim, rng)
    try: sim.sim_eval_combinational()
    except Exception: ck.hist('astrw_trace', 'state-not-settled')
  for c in snap.comps:
    m_sim = sims.get(repr(c['m']))
    if m_sim is None: continue
    trace_component(ck, case, c, m_sim, [state] * rounds)

def finish(ck, lines, meta):
  reps = ck.drv('astrw').batch(lines)
  for rep, mt in zip(reps, meta):
    case, c, heap, name, fn, is_blk, tree, cached, cv = mt
    compare_function(ck, rep, mt)
    if not cv.flags: check_local_index_names(ck, case, c, name, fn, real_extract(fn, tree))
  del lines[:]; del meta[:]

# ---------------------------------------------------------------------------------------------
# observed rejections: shapes the visitor refuses loudly (recorded in the evidence; model and real visitor must agree)
# ---------------------------------------------------------------------------------------------
REJECTS = [
  # a subscript whose base is a display or a parenthesised expression: `assert isinstance( node, ast.Str )` in _get_full_name
  ('display-base', 's.o @= [ s.a, s.b ][ s.sel ]', 'badBase'),
  ('parenthesised-base', 's.o @= ( s.a + s.b )[0:4]', 'badBase'),
  ('dict-display-base', 's.o @= { 0: s.a }[ 0 ]', 'badBase'),
  ('slice-of-slice', 's.o @= s.a[ 0 : 4 ][ 0 : 2 ]', 'multiSlice'),
  ('slice-in-the-middle', 's.o @= s.v[ 0 : 2 ][ 1 ]', 'sliceInMiddle'),
  ('del', 'del s.a', 'badCtx'),
]

def run_rejects(ck):
  lines, meta = [], []
  for name, body, err in REJECTS:
    tree = ast.parse('def blk():\n  ' + body + '\n')
    func = types.SimpleNamespace(__globals__={}, __code__=types.SimpleNamespace(co_freevars=('s',)), __name__='blk', __closure__=None)
    line, cv = fn_request(func, tree)
    lines.append(line); meta.append((name, body, err, func, tree))
  res = {}
  for (name, body, err, func, tree), rep in zip(meta, ck.drv('astrw').batch(lines)):
    real = real_extract(func, tree); model = parse_reply(rep)
    compare_names(ck, {'astrw': 'reject', 'shape': name, 'body': body}, real, model)
    res[name] = {'source': body, 'real': real[1] if real[0] == 'err' else 'accepted', 'model': model[1] if model[0] == 'err' else 'accepted'}
    ck.hist('astrw_reject', f'{name}:' + (real[1] if real[0] == 'err' else 'accepted'))
  ck.extra_cov['astrw_observed_rejections'] = res

# ---------------------------------------------------------------------------------------------
DIRECTED = [
  # known finding C02-lambda-name-collision (known_replays/C02-R13-helper-call-in-index-and-lambda-name.py, class LambdaNames)
  ('lambda-name-collision', '''from pymtl3 import *

class ArSel( Component ):
  def construct( s, which ):
    s.a = InPort( 8 )
    s.b = InPort( 8 )
    s.out = OutPort( 8 )
    if which == 0:
      s.out //= lambda: s.a + 1
    else:
      s.out //= lambda: s.b + 1

class ArLambdaNames_Top( Component ):
  def construct( s ):
    s.in_ = InPort( 8 )
    s.wa = Wire( 8 )
    s.wb = Wire( 8 )
    s.x    = [ ArSel( 0 ) ]
    s.x_0_ = ArSel( 1 )
    s.x[0].a //= s.wa
    s.x[0].b //= s.wb
    s.x_0_.a //= s.wa
    s.x_0_.b //= s.wb
    @update
    def up_wa(): s.wa @= s.in_ + 1
    @update
    def up_wb(): s.wb @= s.in_ + 2
''', 'ArLambdaNames_Top'),
  # the three repaired shapes and the seeded ones, fixed text (the randomised families draw the same shapes)
  ('kwargs+callbase+shadow', '''from pymtl3 import *

i = 0

class ArD0_Top( Component ):
  def construct( s ):
    s.w = [ InPort( Bits8 ) for _ in range(4) ]
    s.a = InPort( Bits4 )
    s.b = InPort( Bits8 )
    s.lo = InPort( Bits2 )
    s.o0 = OutPort( Bits16 )
    s.o1 = OutPort( Bits8 )
    s.o2 = OutPort( Bits4 )
    s.o3 = [ OutPort( Bits8 ) for _ in range(4) ]
    s.o4 = OutPort( Bits8 )
    s.o5 = OutPort( Bits8 )
    s.o6 = OutPort( Bits8 )
    @update
    def up_kw():
      s.o0 @= zext( value=s.w[1], new_width=16 )
    @update
    def up_base():
      s.o1 @= concat( s.a, s.b )[4:12]
      s.o2 @= Bits4(1).__add__( s.a )
    @update
    def up_tuple():
      for i, v in enumerate( [ 1, 2, 3, 4 ] ):
        s.o3[ i ] @= s.w[ i ] + v
    @update
    def up_comp():
      t = [ s.w[ i ] for i in range( 2, 4 ) ]
      s.o4 @= t[0] + t[1]
    @update
    def up_bounds():
      s.o5 @= zext( s.b[ zext( s.lo, 4 ) : zext( s.lo, 4 ) + 2 ], 8 )
    @update
    def up_forelse():
      for x in range( 2 ):
        pass
      else:
        s.o6 @= s.w[ s.lo ]
''', 'ArD0_Top'),
]

def run(ck):
  from ..common import rtlgen
  from . import c01_lib
  rng = random.Random(f'{ck.seed}:{getattr(ck, "pid", "C02")}:astrw:{ck.tier}')
  quick = ck.tier == 'quick'
  run_static(ck)
  run_rejects(ck)
  lines, meta = [], []
  before = set(sys.modules)
  for tag, src, top in DIRECTED:
    process(ck, {'astrw': 'directed', 'source': src, 'top': top}, load_src(ck.workdir, src, top), lines, meta, rng)
  nshape = 60 if quick else 1500
  for _ in range(nshape):
    src, top, used = gen_shapes(rng, next(_uid))
    for u in used: ck.hist('astrw_shape', u)
    process(ck, {'astrw': 'shapes', 'source': src, 'top': top}, load_src(ck.workdir, src, top), lines, meta, rng)
    if len(lines) > 2000: finish(ck, lines, meta)
  ngen = 60 if quick else 1500
  for _ in range(ngen):
    d = rtlgen.generate_slices(rng) if rng.random() < 0.2 else rtlgen.generate(rng, max_blocks=8)
    process(ck, {'astrw': 'gen', 'source': d.source(), 'top': d.cls_name('')}, rtlgen.load_class(ck.workdir, d), lines, meta, rng)
    if len(lines) > 2000: finish(ck, lines, meta)
  nlib = 0
  for name, f, opts in c01_lib.designs(ck.tier):
    try: process(ck, {'astrw': 'lib', 'design': name}, f, lines, meta, rng)
    except InfraError: raise
    nlib += 1
  finish(ck, lines, meta)
  for k in set(sys.modules) - before:
    if k.startswith(('pvar_', 'pvgen_')): del sys.modules[k]
  ck.extra_cov['astrw_designs'] = {'directed': len(DIRECTED), 'shapes': nshape, 'rtlgen': ngen, 'library': nlib}
  ck.extra_cov['astrw_violations'] = sum(1 for v in ck.violations if isinstance(v.case, dict) and v.case.get('astrw'))
  ck.extra_cov['astrw_disagreements'] = sum(1 for b in ck.breaks if isinstance(b.get('case'), dict) and b['case'].get('astrw'))

def replay(ck, data):
  from . import c01_lib
  case = data if 'astrw' in data else (data.get('case') or {})
  rng = random.Random(0)
  lines, meta = [], []
  if case.get('astrw') == 'static':
    run_static(ck)
  elif case.get('astrw') == 'lib':
    f = next(f for name, f, opts in c01_lib.designs('thorough') if name == case['design'])
    process(ck, case, f, lines, meta, rng, rounds=6)
  else:
    src = case.get('source')
    if not src: return None
    print(src)
    top = case.get('top') or re.findall(r'class (\w+)\(', src)[-1]
    process(ck, case, load_src(ck.workdir, src, top), lines, meta, rng, rounds=6)
  finish(ck, lines, meta)
  for v in ck.violations: print('VIOLATION', v.kind, v.signature, str(v.detail)[:1500])
  for b in ck.breaks: print('DISAGREEMENT', b['correspondence'], '\n  model:', str(b['model'])[:800], '\n  impl: ', str(b['impl'])[:800])
  return 1 if (ck.violations or ck.breaks) else 0
