"""C14, family "list attributes mutated after assignment" (used by c14.py).

model:          Model/HierHook.lean — NamedObject.__setattr_for_elaborate__ as an operation on the naming state
                (`assign`: object / list / anything else; the repaired same-list re-assignment of `s.x += [...]`),
                list methods that change a list behind the hook's back (`HSt.mutate`); theorems Props/C14h.lean
correspondence: random construct programs (classes of components / interfaces whose construct assigns signals,
                interfaces, components, nested lists with None holes; `+=` once / several times / with nested lists /
                on a list bound under a second attribute name; in the other modes also append / extend / insert /
                slot assignment / pop / `+=` on an inner list) are written as real PyMTL modules and elaborated; every
                access path of the real heap (public __dict__ entries, list indices) with the object it leads to, and
                every object's _dsl record (full_name or none, parent, level, _my_name, _my_indices) are compared
                with the model run on the same program (`hier hook`)
direct oracle:  on the real objects only, as for every C14 stream: every object of the design has a hierarchical
                name; names unique; eval(repr(o)) is o; parent / level / host / field name read off the prefix values;
                same names when elaborated again
known findings: C14-list-mutated-in-place — an object put into an already assigned list by a list method is in the
                design without a name.  Only an unnamed object that the generated code marked as inserted by a list
                method (`_m( ... )`) carries the finding's signature; any other unnamed object fails the run.
                C14-list-elements-moved-in-place — insert before the end / pop / slot replacement move elements that
                have a name already: their names evaluate to another object, raise, or (after a later `+=`) are shared
                by two objects.  Only these three kinds, only in a program of the "moved" mode, and only for a name that
                passes through a list object the generated code marked as changed by a list method (`_l( ... )`), carry
                the signature; everything else fails the run.
"""
import json, os

from ..common import leanio
from ..common.leanio import InfraError

# the four leaf classes every program starts with (class 0 is the top component)
LEAVES = [['leaf', 'Wire( Bits8 )'], ['leaf', 'InPort( Bits4 )'], ['leaf', 'OutPort( Bits1 )'], ['leaf', 'CallerPort()']]
ATTRS = ['l', 'k', 'g', 'm', 'w', 'ws', 'p', 'q', 'in_', 'out', 'sub', 'ifcs', 'x', 'y', 'z', 'a0', 'b_1', 'Q']

# known finding C14-list-mutated-in-place: an unnamed object that the generated code put into a list by a list method
KNOWN_SIG = {'finding': 'list-mutated-in-place'}
# known finding C14-list-elements-moved-in-place: a name that no longer identifies its object because a list method
# (insert before the end / pop / slot replacement) moved named elements of a list the name passes through
MOVED_SIG = {'finding': 'list-elements-moved-in-place'}
MOVED_KINDS = {'eval-is-another-object', 'repr-not-unique', 'eval-raises'}

# ------------------------------------------------------------------------------------------------
# generator.  A symbolic heap mirrors what Python does: objects are ('o', class, uid) tuples, lists are Python
# lists (shared when aliased), None is None.

class ProgGen:
  def __init__(self, rng, mode):
    self.rng, self.mode = rng, mode
    self.classes = [None] + [list(x) for x in LEAVES]
    self.uid = 0
    self.budget = rng.choice([4, 8, 12, 20])
    self.classes[0] = ['comp', self.body('comp', 0, top=True)]

  def is_leaf_cls(self, c): return self.classes[c][0] == 'leaf'

  def new_obj(self, owner_kind, depth):
    rng = self.rng
    self.uid += 1
    r = rng.random()
    subs = [i for i, c in enumerate(self.classes) if c is not None and c[0] != 'leaf' and i != 0
            and (c[0] == 'ifc' or owner_kind == 'comp')]
    if depth < 2 and self.budget > 0 and r < 0.35:
      self.budget -= 1
      if subs and rng.random() < 0.5:
        c = rng.choice(subs)
      else:
        kind = 'comp' if owner_kind == 'comp' and rng.random() < 0.5 else 'ifc'
        self.classes.append(None)
        c = len(self.classes) - 1
        self.classes[c] = [kind, self.body(kind, depth + 1)]
    else:
      c = rng.choice([1, 1, 1, 2, 3, 4])
    return ['new', c], ('o', c, self.uid)

  def new_val(self, owner_kind, depth, dims=None):
    """a new object, None, or a (nested, ragged) list of them"""
    rng = self.rng
    if dims is None: dims = rng.choice([0, 0, 1, 1, 1, 2, 2, 3])
    if dims == 0:
      if rng.random() < 0.12: return ['none'], None
      return self.new_obj(owner_kind, depth)
    n = rng.choice([0, 1, 1, 2, 2, 3])
    vs, ss = [], []
    for _ in range(n):
      d = dims - 1 if rng.random() < 0.8 else rng.randint(0, dims - 1)
      v, s = self.new_val(owner_kind, depth, d)
      vs.append(v); ss.append(s)
    return ['list', vs], ss

  @staticmethod
  def objs_of(sym):
    if isinstance(sym, tuple): return [sym]
    if isinstance(sym, list): return [o for x in sym for o in ProgGen.objs_of(x)]
    return []

  @staticmethod
  def is_hw(sym):
    return isinstance(sym, tuple) or (isinstance(sym, list) and any(isinstance(x, (tuple, list)) for x in sym))

  def lists_of(self, env):
    """[(attr, index path, list)] of every list reachable from an attribute of this owner"""
    out = []
    def walk(a, ix, v):
      if isinstance(v, list):
        out.append((a, ix, v))
        for i, x in enumerate(v): walk(a, ix + [i], x)
    for a, v in env.items(): walk(a, [], v)
    return out

  def body(self, kind, depth, top=False):
    rng = self.rng
    env, hooked, stmts = {}, set(), []
    free = [a for a in ATTRS if a not in ('clk', 'reset')]
    rng.shuffle(free)
    all_leaves = lambda sym: all(self.is_leaf_cls(o[1]) for o in self.objs_of(sym))
    nst = rng.randint(2, 7) if top else rng.randint(0, 3)
    mutated = 0
    for step in range(nst + 4):
      if step >= nst and not (top and self.mode != 'hook' and mutated == 0): break
      r = rng.random()
      lists = self.lists_of(env)
      top_lists = [(a, l) for a, ix, l in lists if not ix]
      want_mut = self.mode != 'hook' and lists and (r < 0.35 or (step >= nst and top))
      if want_mut and (top or rng.random() < 0.3):
        a, ix, l = rng.choice(lists)
        st = self.mutation(kind, depth, a, ix, l)
        if st is not None:
          stmts.append(st); mutated += 1
          continue
      if top_lists and r < 0.6:
        # s.a += [ ... ]
        a, l = rng.choice(top_lists)
        if a not in hooked and not all_leaves(l): continue
        n = rng.choice([0, 1, 1, 1, 2, 3])
        vs, ss = [], []
        for _ in range(n):
          rr = rng.random()
          leaf_objs = [(b, ix, x) for b, ix, x in self.elems(env) if isinstance(x, tuple) and self.is_leaf_cls(x[1])]
          if rr < 0.08 and leaf_objs and a in hooked:
            b, ix, x = rng.choice(leaf_objs); vs.append(['get', b, ix]); ss.append(x)      # an object that has a name already
          else:
            v, s = self.new_val(kind, depth, rng.choice([0, 0, 0, 1, 1, 2])); vs.append(v); ss.append(s)
        if a not in hooked and not all_leaves(ss): continue
        stmts.append(['iadd', a, vs])
        l.extend(ss)
        if self.is_hw(l): hooked.add(a)
        continue
      if not free: break
      a = free.pop()
      rr = rng.random()
      alias_src = [(b, ix, l) for b, ix, l in lists if all_leaves(l)]
      leaf_objs = [(b, ix, x) for b, ix, x in self.elems(env) if isinstance(x, tuple) and self.is_leaf_cls(x[1])]
      if rr < 0.22 and alias_src:
        b, ix, l = rng.choice(alias_src)             # the same list under a second attribute name
        stmts.append(['bind', a, ['get', b, ix]]); env[a] = l
        if self.is_hw(l): hooked.add(a)
      elif rr < 0.28 and leaf_objs:
        b, ix, x = rng.choice(leaf_objs)             # a named leaf object bound again
        stmts.append(['bind', a, ['get', b, ix]]); env[a] = x; hooked.add(a)
      elif rr < 0.36:
        v, s = rng.choice([(['list', []], []), (['list', [['none']]], [None]), (['list', [['none'], ['none']]], [None, None])])
        stmts.append(['bind', a, v]); env[a] = list(s)
      else:
        v, s = self.new_val(kind, depth)
        stmts.append(['bind', a, v]); env[a] = s
        if self.is_hw(s): hooked.add(a)
    return stmts

  def elems(self, env):
    out = []
    def walk(a, ix, v):
      if isinstance(v, list):
        for i, x in enumerate(v): walk(a, ix + [i], x)
      else:
        out.append((a, ix, v))
    for a, v in env.items(): walk(a, [], v)
    return out

  def mutation(self, kind, depth, a, ix, l):
    """a list-method statement on the list s.a[ix…]; 'mutated' mode: nothing that has a name moves"""
    rng = self.rng
    moved = self.mode == 'moved' and rng.random() < 0.7
    if not moved:
      holes = [i for i, x in enumerate(l) if x is None]
      r = rng.random()
      if r < 0.3:
        v, s = self.new_val(kind, depth, rng.choice([0, 0, 0, 1]))
        l.append(s); return ['ext', a, ix, [v], 'append']
      if r < 0.55:
        vs, ss = [], []
        for _ in range(rng.randint(1, 3)):
          v, s = self.new_val(kind, depth, rng.choice([0, 0, 1, 2])); vs.append(v); ss.append(s)
        l.extend(ss); return ['ext', a, ix, vs, 'iadd' if ix and rng.random() < 0.6 else 'extend']
      if r < 0.75:
        v, s = self.new_val(kind, depth, rng.choice([0, 0, 1]))
        k = len(l) + rng.choice([0, 0, 1, 50])
        l.append(s); return ['ins', a, ix, k, v]
      if holes:
        k = rng.choice(holes)
        v, s = self.new_val(kind, depth, rng.choice([0, 0, 1]))
        l[k] = s; return ['set', a, ix, k, v]
      v, s = self.new_val(kind, depth, 0)
      l.append(s); return ['ext', a, ix, [v], 'append']
    # moved: insert before the end, pop, replace a slot
    r = rng.random()
    if r < 0.45 or not l:
      v, s = self.new_val(kind, depth, rng.choice([0, 0, 1]))
      k = rng.randint(0, max(0, len(l) - 1))
      l.insert(k, s); return ['ins', a, ix, k, v]
    if r < 0.75:
      k = rng.randrange(len(l))
      l.pop(k); return ['pop', a, ix, k]
    k = rng.randrange(len(l))
    v, s = self.new_val(kind, depth, rng.choice([0, 0, 1]))
    l[k] = s; return ['set', a, ix, k, v]

def gen_case(rng, mode):
  g = ProgGen(rng, mode)
  return {'family': 'lists', 'mode': mode, 'classes': g.classes}

# ------------------------------------------------------------------------------------------------
# rendering: the model request and the Python module

def enc_vexp(v):
  if v[0] == 'new': return ['new', v[1]]
  if v[0] == 'none': return ['none']
  if v[0] == 'list': return ['list'] + [enc_vexp(x) for x in v[1]]
  return ['get', v[1]] + list(v[2])

def enc_stmt(st):
  if st[0] == 'bind': return ['bind', st[1], enc_vexp(st[2])]
  if st[0] == 'iadd': return ['iadd', st[1]] + [enc_vexp(x) for x in st[2]]
  if st[0] == 'ext': return ['ext', st[1], list(st[2])] + [enc_vexp(x) for x in st[3]]
  if st[0] == 'ins': return ['ins', st[1], list(st[2]), st[3], enc_vexp(st[4])]
  if st[0] == 'set': return ['set', st[1], list(st[2]), st[3], enc_vexp(st[4])]
  if st[0] == 'pop': return ['pop', st[1], list(st[2]), st[3]]
  raise InfraError(f'bad statement {st}')

def model_line(case):
  cs = []
  for c in case['classes']:
    cs.append(['leaf'] if c[0] == 'leaf' else [c[0]] + [enc_stmt(s) for s in c[1]])
  return leanio.line('hier', 'hook', cs)

def py_vexp(case, prefix, v, mark):
  if v[0] == 'new':
    c = case['classes'][v[1]]
    e = c[1] if c[0] == 'leaf' else f'{prefix}_K{v[1]}()'
    return f'_m( {e} )' if mark else e
  if v[0] == 'none': return 'None'
  if v[0] == 'list': return '[ ' + ', '.join(py_vexp(case, prefix, x, mark) for x in v[1]) + ' ]'
  return f's.{v[1]}' + ''.join(f'[{i}]' for i in v[2])

def py_stmt(case, prefix, st):
  tgt = lambda: f's.{st[1]}' + ''.join(f'[{i}]' for i in st[2])
  if st[0] == 'bind': return f's.{st[1]} = {py_vexp(case, prefix, st[2], False)}'
  if st[0] == 'iadd': return f's.{st[1]} += [ ' + ', '.join(py_vexp(case, prefix, x, False) for x in st[2]) + ' ]'
  if st[0] == 'ext':
    vs = [py_vexp(case, prefix, x, True) for x in st[3]]
    if st[4] == 'append': return f'_l( {tgt()} ).append( {vs[0]} )'
    if st[4] == 'iadd': return f'_l( {tgt()} ); {tgt()} += [ ' + ', '.join(vs) + ' ]'
    return f'_l( {tgt()} ).extend( [ ' + ', '.join(vs) + ' ] )'
  if st[0] == 'ins': return f'_l( {tgt()} ).insert( {st[3]}, {py_vexp(case, prefix, st[4], True)} )'
  if st[0] == 'set': return f'_l( {tgt()} )[{st[3]}] = {py_vexp(case, prefix, st[4], True)}'
  if st[0] == 'pop': return f'_l( {tgt()} ).pop( {st[3]} )'
  raise InfraError(f'bad statement {st}')

def py_source(case, prefix):
  L = ['from pymtl3 import *', '', 'MUTATED = []', 'MUTLISTS = []', 'def _m( x ):', '  MUTATED.append( x )', '  return x',
       'def _l( x ):', '  MUTLISTS.append( x )', '  return x', '']
  order = list(range(len(case['classes'])))[::-1]        # classes only use classes created after them
  for k in order:
    c = case['classes'][k]
    if c[0] == 'leaf': continue
    L.append(f'class {prefix}_K{k}( {"Component" if c[0] == "comp" else "Interface"} ):')
    L.append('  def construct( s ):')
    if not c[1]: L.append('    pass')
    for st in c[1]: L.append('    ' + py_stmt(case, prefix, st))
    L.append('')
  L.append(f'TOP = {prefix}_K0')
  return '\n'.join(L) + '\n'

# ------------------------------------------------------------------------------------------------
# the real side

def walk_real(C, top):
  """every access path (public __dict__ entries, list indices) with the NamedObject it leads to — the walk of
  NamedObject._collect_all_single with the path kept"""
  dsl = C.P()
  out = []
  def walk(path, v, depth):
    if depth > 48: raise InfraError('real heap deeper than 48')
    if isinstance(v, dsl.NamedObject):
      out.append((path, v))
      for name, x in v.__dict__.items():
        if isinstance(name, str):
          if name[0] != '_': walk(f'{path}.{name}', x, depth + 1)
        elif isinstance(name, tuple): walk(f'{path}[{name[0]}:{name[1]}]', x, depth + 1)
    elif isinstance(v, list):
      for i, x in enumerate(v): walk(f'{path}[{i}]', x, depth + 1)
  walk('s', top, 0)
  return out

def canon(paths, key):
  """{object key: smallest path}"""
  m = {}
  for p, o in paths:
    k = key(o)
    if k not in m or p < m[k]: m[k] = p
  return m

def real_records(paths):
  names = canon(paths, id)
  recs = {}
  for p, o in paths:
    d = o._dsl
    if hasattr(d, 'full_name'):
      par = d.parent_obj
      recs[names[id(o)]] = (d.full_name, '-' if par is None else names.get(id(par), 'unreachable'), str(d.level), getattr(d, '_my_name', d.my_name),
                            list(getattr(d, '_my_indices', None) or ()))
    else:
      recs[names[id(o)]] = ('-', '-', '-', '-', [])
  return sorted((p, names[id(o)]) for p, o in paths), recs

def model_records(reply):
  if not reply.startswith('ok '): return None, reply
  left, _, right = reply[3:].partition(' | ')
  paths = [(p, int(o)) for p, o in leanio.parse_sexp(left)]
  names = canon(paths, lambda o: o)
  recs = {}
  for r in leanio.parse_sexp(right):
    o = int(r[0])
    if o not in names: continue                      # created, not (or no longer) in the design
    par = '-' if r[2] == '-' else names.get(int(r[2]), 'unreachable')
    recs[names[o]] = (r[1], par, r[3], r[4], [int(i) for i in r[5]])
  return sorted((p, names[o]) for p, o in paths), recs

def moved_explains(C, mode, top, mutlists, b):
  """is this failure of the direct oracle the registered finding C14-list-elements-moved-in-place?  Only in the
  "moved" mode, only the three kinds a moved element produces, and only if the failing name passes through a list
  object that a list method changed after its assignment"""
  if mode != 'moved' or b[0] not in MOVED_KINDS: return False
  try:
    toks = C.tokenise(b[1])
  except ValueError:
    return False
  v = top
  for t in toks:
    if isinstance(v, list) and any(v is l for l in mutlists): return True
    try:
      v = C.apply_tok(v, t)
    except Exception:
      return False
  return False

_n = [0]

def run_case(ck, C, case, reply, verbose=False):
  """elaborate the program, direct oracle on the real objects, then model vs implementation.
  Returns (oracle ok, number of disagreements)."""
  _n[0] += 1
  prefix = f'c14l{os.getpid()}_{_n[0]}'
  path = os.path.join(ck.workdir, prefix + '.py')
  src = py_source(case, prefix)
  with open(path, 'w') as f: f.write(src)
  if verbose: print(src)
  mode = case['mode']
  ok, nd = True, 0
  def dis(what, m, i):
    nonlocal nd
    nd += 1
    ck.disagreement(what, case, m, i)
    if verbose: print(f'DISAGREE {what}\n  model={m}\n  impl ={i}')
  try:
    mod = C.load_module(path, prefix)
    top = mod.TOP(); top.elaborate()
    marked = {id(x) for x in mod.MUTATED}
    n_marked = len(mod.MUTATED)
    paths = walk_real(C, top)
    objs = top.get_all_object_filter(lambda x: True)
    if {id(o) for o in objs} != {id(o) for _, o in paths} or {id(o) for o in top._collect_all_single()} != {id(o) for o in objs}:
      dis('walk of this check ≈ _collect_all_single', 'n/a', sorted(repr(o) for o in objs)[:20])
    # --- the property, on the real objects
    unnamed = [o for o in objs if not hasattr(o._dsl, 'full_name')]
    named = [o for o in objs if hasattr(o._dsl, 'full_name')]
    for o in unnamed[:3]:
      explained = id(o) in marked and mode != 'hook'
      if explained:
        # the registered finding: reproduced by many programs of a run, reported for the first two
        ck._lists_known = getattr(ck, '_lists_known', 0) + 1
        if ck._lists_known > 2: continue
      ok = False
      sig = dict(KNOWN_SIG, kind='object-without-hierarchical-name') if explained else {'kind': 'object-without-hierarchical-name', 'explained': False}
      ck.violation('object-without-hierarchical-name', sig, case,
                   {'object': type(o).__name__, 'repr': repr(o)[:80],
                    'explained_by_list_method_mutation': explained,
                    'oracle': 'every object of the design (get_all_object_filter) has _dsl.full_name'})
    bad = C.oracle_bad(top, named)
    n_moved = 0
    for b in [b for b in bad if not moved_explains(C, mode, top, mod.MUTLISTS, b)][:3]:
      ok = False
      ck.violation(b[0], {'kind': b[0]}, case, {'where': 'lists/' + mode, 'name': b[1], 'observed': b[2],
                                                'oracle': 'uniqueness / eval(repr(o)) is o / metadata read off prefix values'})
    for b in [b for b in bad if moved_explains(C, mode, top, mod.MUTLISTS, b)]:
      n_moved += 1
      ck._lists_moved = getattr(ck, '_lists_moved', 0) + 1
      if ck._lists_moved > 2: continue                  # reproduced by many programs of a run, reported for the first two
      ok = False
      ck.violation(b[0], dict(MOVED_SIG, kind=b[0]), case,
                   {'where': 'lists/moved', 'name': b[1], 'observed': b[2],
                    'explained_by': 'the name passes through a list changed by insert / pop / slot assignment after its assignment',
                    'oracle': 'uniqueness / eval(repr(o)) is o'})
    if mode == 'moved':
      ck.hist('lists_moved_probe', ('names no longer identify their objects: ' + '+'.join(sorted({b[0] for b in bad}))) if bad else 'names still right')
    # the same construct code elaborated again
    top2 = mod.TOP(); top2.elaborate()
    n1 = sorted(repr(o) for o in named)
    n2 = sorted(repr(o) for o in top2.get_all_object_filter(lambda x: True) if hasattr(o._dsl, 'full_name'))
    if n1 != n2:
      ok = False
      ck.violation('re-elaboration-changes-names', {'kind': 're-elaboration-changes-names'}, case,
                   {'first': sorted(set(n1) - set(n2))[:8], 'second': sorted(set(n2) - set(n1))[:8]})
  except InfraError:
    raise
  except Exception as e:
    import traceback
    ck.violation('real-code-raises', {'kind': 'real-code-raises', 'exception': type(e).__name__}, case,
                 {'exception': f'{type(e).__name__}: {e}', 'traceback': traceback.format_exc()[-1500:], 'model': reply[:300]})
    if verbose: traceback.print_exc()
    return False, 0, None
  # --- model vs implementation
  mp, mr = model_records(reply)
  rp, rr = real_records(paths)
  if mp is None:
    dis('Model/HierHook≈elaborate (error)', mr, 'elaborated without error')
  else:
    if mp != rp:
      dis('Model/HierHook≈access paths', [x for x in mp if x not in rp][:8], [x for x in rp if x not in mp][:8])
    elif mr != rr:
      k = next(k for k in sorted(mr) if mr[k] != rr.get(k))
      dis('Model/HierHook≈_dsl record', [k] + list(mr[k]), [k] + list(rr.get(k, ())))
  stats = {'objects': len(objs), 'unnamed': len(unnamed), 'marked': n_marked, 'bad': len(bad), 'moved': n_moved}
  if verbose:
    print('impl :', json.dumps(sorted([k] + list(v) for k, v in rr.items()))[:3000])
    print('model:', json.dumps(sorted([k] + list(v) for k, v in (mr or {}).items()))[:3000] if mp is not None else mr)
  return ok, nd, stats

# ------------------------------------------------------------------------------------------------
# corpus: the shapes named in the report of fix 0c15daa and in the known finding

def _W(): return ['new', 1]

CORPUS = [
  # repaired: += once, several times, with nested lists, of interfaces / components (class 5: ifc, 6: comp)
  ('hook', [['comp', [['bind', 'l', ['list', [_W(), _W()]]], ['iadd', 'l', [_W()]], ['iadd', 'l', [['list', [_W(), ['none']]], _W()]], ['iadd', 'l', []],
                      ['bind', 'g', ['list', [['list', [['new', 5]]], ['list', []]]]], ['iadd', 'g', [['list', [['new', 5], ['new', 6]]], ['new', 6]]],
                      ['bind', 'z', ['list', []]], ['iadd', 'z', [['new', 6]]], ['iadd', 'z', [['new', 6], ['none']]]]]]
           + LEAVES + [['ifc', [['bind', 'v', ['new', 2]]]], ['comp', [['bind', 'ws', ['list', [_W()]]], ['iadd', 'ws', [_W(), _W()]]]]]),
  # the same list under a second attribute name, extended through the first and through the second name
  ('hook', [['comp', [['bind', 'l', ['list', [_W(), _W()]]], ['bind', 'k', ['get', 'l', []]], ['iadd', 'l', [_W()]], ['iadd', 'k', [_W()]],
                      ['bind', 'g', ['list', [['list', [_W()]], ['list', [_W(), _W()]]]]], ['bind', 'row', ['get', 'g', [1]]], ['iadd', 'row', [_W()]],
                      ['iadd', 'g', [['list', [_W()]]]]]]] + LEAVES),
  # known finding: append / extend / insert at the end / += on an inner list / slot assignment into a None hole
  ('mutated', [['comp', [['bind', 'm', ['list', [_W(), _W()]]], ['ext', 'm', [], [_W()], 'append']]]] + LEAVES),
  ('mutated', [['comp', [['bind', 'g', ['list', [['list', [_W()]], ['list', [['none'], _W()]]]]], ['ext', 'g', [0], [_W(), _W()], 'iadd'],
                         ['set', 'g', [1], 0, _W()], ['ext', 'g', [], [['list', [['new', 5]]]], 'extend'], ['ins', 'g', [1], 7, ['new', 5]],
                         ['bind', 'c', ['list', [['new', 5]]]], ['ext', 'c', [], [['new', 5]], 'append']]]]
              + LEAVES + [['comp', [['bind', 'w', _W()]]]]),
  # an append healed by a later += (the repaired hook names what has no name yet), positions unchanged
  ('mutated', [['comp', [['bind', 'l', ['list', [_W()]]], ['ext', 'l', [], [_W()], 'append'], ['iadd', 'l', [_W()]]]]] + LEAVES),
  # moved elements: insert at the front, then += ; pop then += ; slot replacement
  ('moved', [['comp', [['bind', 'l', ['list', [_W(), _W()]]], ['ins', 'l', [], 0, _W()]]]] + LEAVES),
  ('moved', [['comp', [['bind', 'l', ['list', [_W(), _W()]]], ['ins', 'l', [], 0, _W()], ['iadd', 'l', []]]]] + LEAVES),
  ('moved', [['comp', [['bind', 'l', ['list', [_W(), _W()]]], ['pop', 'l', [], 0], ['iadd', 'l', [_W()]]]]] + LEAVES),
  ('moved', [['comp', [['bind', 'l', ['list', [_W(), _W()]]], ['set', 'l', [], 1, _W()]]]] + LEAVES),
]

def run_family(ck, C):
  rng = ck.rng
  quick = ck.tier == 'quick'
  cases = [{'family': 'lists', 'mode': m, 'classes': json.loads(json.dumps(cl))} for m, cl in CORPUS]
  for mode, n in (('hook', 140 if quick else 6000), ('mutated', 60 if quick else 2500), ('moved', 40 if quick else 1500)):
    for _ in range(n): cases.append(gen_case(rng, mode))
  replies = ck.drv('hier').batch([model_line(c) for c in cases])
  seen_known = moved_seen = 0
  for case, reply in zip(cases, replies):
    if len(ck.violations) >= 40 or len(ck.breaks) >= 20: break
    ok, nd, stats = run_case(ck, C, case, reply)
    nst = sum(len(c[1]) for c in case['classes'] if c[0] != 'leaf')
    ck.count(case, nst >= 2)
    ck.hist('lists_mode', case['mode'])
    if stats:
      ck.hist('lists_unnamed_objects', stats['unnamed'] if stats['unnamed'] < 3 else '3+')
      if case['mode'] == 'mutated' and stats['unnamed']: seen_known += 1
      if stats['moved']: moved_seen += 1
    kinds = {}
    for c in case['classes']:
      if c[0] == 'leaf': continue
      for st in c[1]:
        key = st[0] if st[0] != 'ext' else st[4]
        if st[0] == 'bind' and st[2][0] == 'get': key = 'bind alias'
        kinds[key] = kinds.get(key, 0) + 1
    for k, v in kinds.items(): ck.hist('lists_statements', k, v)
  ck.extra_cov['lists_family'] = {'programs': len(cases), 'programs_showing_known_finding': seen_known,
                                  'programs_showing_moved_elements_finding': moved_seen}

def replay(ck, C, case):
  reply = ck.drv('hier').batch([model_line(case)])[0]
  print('request:', model_line(case)[:3000])
  ok, nd, stats = run_case(ck, C, case, reply, verbose=True)
  for v in ck.violations: print('VIOLATION', v.kind, v.signature, v.detail)
  print(f'oracle ok={ok} disagreements={nd} stats={stats}')
  return 0 if ok and nd == 0 else 1
