"""C05 — slices, concat, extension and clog2 address exactly the named bits.

proof:          lean/PymtlVerif/Props/C05.lean
correspondence: Bits.__getitem__/__setitem__ and helpers.py vs Model/Bits.lean
direct oracle:  independent bit-level specification below (spec)
"""
from ..common import leanio
from ..common import bitsutil as bu
from ..common.bitsutil import Bits, mk_bits, concat, trunc, zext, sext, clog2, reduce_and, reduce_or, reduce_xor

PID = 'C05'
DRIVERS = ['bits']
MODULE = ['PymtlVerif.Props.C05', 'PymtlVerif.Props.C04Gen']
THEOREMS = ['PV.C05.' + t for t in [
  'get_slice', 'get_slice_bits', 'get_default_bounds', 'get_invalid', 'step_rejected', 'get_bit',
  'set_slice_bits', 'set_slice_int', 'set_too_wide', 'set_invalid', 'set_bit', 'set_bit_errors',
  'concat_spec', 'concat_layout', 'zext_spec', 'trunc_spec', 'sext_spec', 'sext_bits', 'reduce_spec',
  'clog2_spec', 'clog2_nonpositive']]
# generated-from-source = model (Props/C04Gen.lean; Gen/BitsGen.lean is regenerated from /repo by pregen below)
GEN_THEOREMS = ['PV.C04Gen.gen_' + t + '_eq' for t in [
  'getitem_slice', 'getitem_int', 'setitem_slice', 'setitem_int', 'concat', 'trunc', 'zext', 'sext',
  'truncT', 'zextT', 'sextT', 'clog2', 'reduce_and', 'reduce_or', 'reduce_xor',
  # definitions the ones above are built from (constructor, x.int(), ~x, x + 1, the mask tables)
  'init', 'int', 'invert', 'add', 'upperTab', 'lowerTab']]
THEOREMS = THEOREMS + GEN_THEOREMS
THEOREM_MODULE = {t: 'PymtlVerif.Props.C04Gen' for t in GEN_THEOREMS}
TRUSTED = [
  'Model/Bits.lean slicing part follows PythonBits.__getitem__/__setitem__ (after the fix: commits that test bounds for None) and helpers.py',
  'a slice bound given as a Bits object is modelled by its int() value',
  'tools/py2lean_bits.py (translator, trusted to render its Python subset faithfully): straight-line int code (+ - * // % & | ^ ~ << >>, comparisons, and/or/not, conditional expressions, int()/abs()/isinstance, _upper/_lower table reads), if/assert/raise/return, try/except resolved statically per operand kind (Bits / int / other; None / int bound; unset _next), for over *args and fuel-bounded while; Python ints as Lean Int through Gen/PyInt.lean (pyAnd, pyOr, pyXor, pyNot, pyShl, pyShr, pyFloorDiv, pyMod: trusted statements of the Python operators); implicit raises (ZeroDivisionError, negative shift count, table IndexError) are emitted as guards; exception messages are not evaluated; a raise ValueError under an `if` that reads `.nbits` is Err.width, any other Err.range (both are ValueError); `bN(v)` is read as `Bits(N, v)`; int() of a non-Bits, non-int operand raises TypeError; anything outside the subset makes the translator fail (broken obligation), never guess',
  'helpers.py: the pure-Python `concat` (the definition in the `except` branch of `from mamba import concat`) is the one translated; clog2 is translated for an int argument (the float fallback is unreachable then and is not translated)',
]
ASSUMPTIONS = ['clog2 is modelled for integer arguments only (the float fallback of the repaired clog2 is outside the model)']
RULE = ('operation x width x boundary-biased value x bounds drawn from [-2, n+2] plus None and zero-valued Bits bounds; '
        'non-trivial = valid access with non-zero source, or any error; distinct = distinct canonical case tuple')

def pregen(ck):
  """translator-based tie: regenerate lean/PymtlVerif/Gen/BitsGen.lean from the current PythonBits.py / helpers.py
  (written only if its content changed); Props/C04Gen.lean then re-proves generated = model"""
  import importlib.util, os
  path = os.path.join(leanio.VERIF, 'tools', 'py2lean_bits.py')
  spec = importlib.util.spec_from_file_location('py2lean_bits', path)
  mod = importlib.util.module_from_spec(spec); spec.loader.exec_module(mod)
  return mod.pregen()

ANYERR = 'ANYERR'

def gen_bound(rng, n, allow_none=True):
  r = rng.random()
  if allow_none and r < 0.12: return None
  if r < 0.55: return rng.choice([0, 0, 1, n - 1, n, n + 1, -1, -2, n // 2, n + 2])
  return rng.randint(0, n)

def gen_case(rng):
  kind = rng.choices(['getslice', 'getbit', 'setslice', 'setbit', 'concat', 'ext', 'extT', 'reduce', 'clog2', 'vcd'],
                     [24, 8, 26, 8, 8, 10, 4, 6, 5, 1])[0]
  n = bu.rand_width(rng) if rng.random() < 0.6 else rng.randint(1, 12)
  x = bu.rand_value(rng, n)
  if kind in ('getslice', 'setslice'):
    if rng.random() < 0.55:
      lo = rng.randint(0, n - 1); hi = rng.randint(lo + 1, n)
      if rng.random() < 0.1: lo = None if lo == 0 else lo
      if rng.random() < 0.1: hi = None if hi == n else hi
    else:
      lo, hi = gen_bound(rng, n), gen_bound(rng, n)
    step = None if rng.random() < 0.93 else rng.choice([0, 1, 2, -1])
    asbits = rng.random() < 0.15      # pass bounds as Bits objects on the implementation side
    if kind == 'getslice': return ['getslice', n, x, lo, hi, step, asbits]
    w = None
    l2, h2 = (0 if lo is None else lo), (n if hi is None else hi)
    if 0 <= l2 < h2 <= n: w = h2 - l2
    ww = w if w is not None else rng.randint(1, n)
    r = rng.random()
    if r < 0.45: v = ('b', ww, bu.rand_value(rng, ww))
    elif r < 0.6:
      m = rng.choice([max(1, ww - 1), min(1023, ww + 1), n])
      v = ('b', m, bu.rand_value(rng, m))
    else: v = ('i', bu.rand_int(rng, ww))
    if rng.random() < 0.25 and step is None and v[0] == 'i':
      return ['setslice', n, x, lo, hi, step, asbits, list(v), 'imatmul']
    if rng.random() < 0.06:           # x[lo:hi] = x with the very same object on both sides
      return ['setslice', n, x, lo, hi, step, asbits, ['b', n, x], 'alias']
    return ['setslice', n, x, lo, hi, step, asbits, list(v)]
  if kind == 'getbit':
    i = gen_bound(rng, n, False)
    if rng.random() < 0.35:
      # the index as a Bits object (the x[sel] mux idiom), of the smallest width that holds it or a little wider; targets
      # of width 2^W - 1 with an all-ones W-bit index are one past the end
      if rng.random() < 0.5:
        W = rng.randint(1, 6); n = (1 << W) - 1; x = bu.rand_value(rng, n); i = rng.choice([n, n, n - 1, 0, rng.randint(0, n)])
      else:
        W = max(1, i.bit_length()) + rng.choice([0, 0, 1, 3]) if i >= 0 else 0
      if i >= 0 and W and i < (1 << W): return ['getbit', n, x, i, W]
    return ['getbit', n, x, i]
  if kind == 'setbit':
    r = rng.random()
    if r < 0.4: v = ('b', 1, rng.randint(0, 1))
    elif r < 0.5: v = ('b', rng.choice([2, 3, n]), rng.randint(0, 1))
    else: v = ('i', rng.choice([0, 1, -1, 2, -2, 3, 255]))
    i = gen_bound(rng, n, False)
    if rng.random() < 0.3 and i >= 0:
      W = max(1, i.bit_length()) + rng.choice([0, 0, 1, 3])
      return ['setbit', n, x, i, list(v), W]
    return ['setbit', n, x, i, list(v)]
  if kind == 'concat':
    k = rng.randint(1, 5)
    parts = []
    for _ in range(k):
      m = rng.choice([1, 2, 3, 8, 16, 31, 32, 64, 255, 400, 511]) if rng.random() < 0.7 else bu.rand_width(rng)
      parts.append([m, bu.rand_value(rng, m)])
    return ['concat', parts]
  if kind == 'ext':
    f = rng.choice(['trunc', 'zext', 'sext'])
    w = rng.choice([n, n - 1, n + 1, 1, 0, -1, 1023, 1024, max(1, n // 2), min(1023, 2 * n), rng.randint(1, 1023)])
    return [f, n, x, w]
  if kind == 'extT':
    f = rng.choice(['truncT', 'zextT', 'sextT'])
    w = rng.choice([n, max(1, n - 1), min(1023, n + 1), 1, 1023, max(1, n // 2), min(1023, 2 * n)])
    return [f, n, x, w]
  if kind == 'reduce':
    f = rng.choice(['reduce_and', 'reduce_or', 'reduce_xor'])
    if rng.random() < 0.3: x = rng.choice([0, (1 << n) - 1, (1 << n) - 2, 1, 1 << (n - 1)])
    return [f, n, x]
  if kind == 'clog2':
    r = rng.random()
    if r < 0.4: N = rng.randint(1, 4100)
    elif r < 0.9:
      k = rng.randint(0, 1100); N = (1 << k) + rng.choice([-1, 0, 1])
    else: N = rng.choice([0, -1, -5])
    return ['clog2', N]
  return ['vcd', n, x]

def model_line(c):
  k = c[0]
  if k == 'getslice': return leanio.line('bits', 'getslice', ('b', c[1], c[2]), c[3], c[4], c[5])
  if k == 'setslice': return leanio.line('bits', 'setslice', ('b', c[1], c[2]), c[3], c[4], c[5], bu.opnd_sexp(c[7]))
  if k == 'getbit': return leanio.line('bits', 'getbit', ('b', c[1], c[2]), c[3])
  if k == 'setbit': return leanio.line('bits', 'setbit', ('b', c[1], c[2]), c[3], bu.opnd_sexp(c[4]))
  if k == 'concat': return leanio.line('bits', 'concat', [('b', m, v) for m, v in c[1]])
  if k in ('trunc', 'zext', 'sext', 'truncT', 'zextT', 'sextT'): return leanio.line('bits', k, ('b', c[1], c[2]), c[3])
  if k.startswith('reduce'): return leanio.line('bits', k, ('b', c[1], c[2]))
  if k == 'clog2': return leanio.line('bits', 'clog2', c[1])
  if k == 'vcd': return leanio.line('bits', 'vcd', ('b', c[1], c[2]))
  raise ValueError(k)

def as_bound(b, asbits):
  if asbits and b is not None and 0 <= b < (1 << 12):
    return Bits(12, b)
  return b

def write_checked(f, x, n, x0, v, vdesc):
  """a write that raises must leave the target as it was ("raises an error rather than ... overwriting different bits"),
  and no write may change its right-hand side operand (unless that operand is the target itself)"""
  out = bu.run(f)
  if out.startswith('err ') and not (x.nbits == n and int(x) == x0):
    return f'impure rejected-write-changed-target {hex(x0)}->{hex(int(x))}'
  if v is not x and vdesc[0] == 'b' and not (v.nbits == vdesc[1] and int(v) == vdesc[2]):
    return f'impure write-changed-its-operand {hex(vdesc[2])}->{hex(int(v))}'
  return out

def impl_eval(c):
  k = c[0]
  if k == 'getslice':
    x = bu.mk(c[1], c[2]); sl = slice(as_bound(c[3], c[6]), as_bound(c[4], c[6]), c[5])
    return bu.run_read_fresh(lambda: x[sl], x)
  if k == 'setslice':
    x = bu.mk(c[1], c[2]); sl = slice(as_bound(c[3], c[6]), as_bound(c[4], c[6]), c[5]); v = bu.opnd_real(c[7])
    if len(c) > 8 and c[8] == 'alias': v = x            # aliased write: the right-hand side is the target object itself
    if len(c) > 8 and c[8] == 'imatmul':
      # the usual PyMTL idiom `x[lo:hi] @= v`: Python reads the slice, applies @= to that value and writes it back; a value
      # that does not fit the slice must raise here as well (the range check of this form lives in Bits.__imatmul__)
      def f():
        x[sl] @= v
        return x
      return write_checked(f, x, c[1], c[2], v, c[7])
    def f():
      x[sl] = v
      return x
    return write_checked(f, x, c[1], c[2], v, c[7])
  if k == 'getbit':
    x = bu.mk(c[1], c[2]); i = Bits(c[4], c[3]) if len(c) > 4 else c[3]
    return bu.run_read_fresh(lambda: x[i], x)
  if k == 'setbit':
    x = bu.mk(c[1], c[2]); v = bu.opnd_real(c[4]); i = Bits(c[5], c[3]) if len(c) > 5 else c[3]
    def f():
      x[i] = v
      return x
    return write_checked(f, x, c[1], c[2], v, c[4])
  if k == 'concat':
    parts = [bu.mk(m, v) for m, v in c[1]]
    return bu.run_read_fresh(lambda: concat(*parts), parts[0]) if parts else bu.run(lambda: concat(*parts))
  if k in ('trunc', 'zext', 'sext'):
    x = bu.mk(c[1], c[2]); f = {'trunc': trunc, 'zext': zext, 'sext': sext}[k]
    return bu.run_read_fresh(lambda: f(x, c[3]), x)
  if k in ('truncT', 'zextT', 'sextT'):
    x = bu.mk(c[1], c[2]); f = {'truncT': trunc, 'zextT': zext, 'sextT': sext}[k]
    return bu.run_read_fresh(lambda: f(x, mk_bits(c[3])), x)
  if k.startswith('reduce'):
    x = bu.mk(c[1], c[2]); f = {'reduce_and': reduce_and, 'reduce_or': reduce_or, 'reduce_xor': reduce_xor}[k]
    return bu.run_read_fresh(lambda: f(x), x)        # the result is a value of its own: updating it in place changes no later result
  if k == 'clog2':
    # history probe: earlier calls with arguments that compare (and hash) equal to N but are not ints -- float, Fraction, Decimal,
    # bool -- take other paths of clog2 (its float fallback) and must not influence what clog2 returns for the int N afterwards
    # (seed C05-13: a result memo keyed by the argument)
    N = c[1]
    if isinstance(N, int) and 0 < N < (1 << 200):
      import fractions, decimal
      for mk in (float, fractions.Fraction, decimal.Decimal):
        try:
          a = mk(N)
          if a == N: clog2(a)
        except Exception: pass
    return bu.run_int(lambda: clog2(c[1]))
  if k == 'vcd':
    x = bu.mk(c[1], c[2])
    try: return 'str ' + x.to_vcd_str().replace(' ', '_')
    except Exception as e: return bu.canon_exc(e)
  raise ValueError(k)

def spec(c):
  """independent specification: set of acceptable canonical outcomes, or ANYERR (= must raise)"""
  k = c[0]
  if k in ('getslice', 'setslice'):
    n, x, lo, hi, step = c[1], c[2], c[3], c[4], c[5]
    l2, h2 = (0 if lo is None else lo), (n if hi is None else hi)
    if step is not None or not (0 <= l2 < h2 <= n): return {'err IndexError'}
    w = h2 - l2
    if k == 'getslice': return {f'ok {w} {(x >> l2) & ((1 << w) - 1)}'}
    v = c[7]
    if v[0] == 'b':
      if v[1] != w: return {'err ValueError'}
      val = v[2]
    elif v[0] == 'i':
      if not (-(1 << (w - 1)) <= v[1] < (1 << w)): return {'err ValueError'}
      val = v[1] % (1 << w)
    else: return ANYERR
    mask = ((1 << w) - 1) << l2
    return {f'ok {n} {(x & ~mask) | (val << l2)}'}
  if k in ('getbit', 'setbit'):
    n, x, i = c[1], c[2], c[3]
    if not (0 <= i < n): return {'err IndexError'}
    if k == 'getbit': return {f'ok 1 {(x >> i) & 1}'}
    v = c[4]
    if v[0] == 'b':
      if v[1] != 1: return {'err ValueError'}
      val = v[2]
    elif v[0] == 'i':
      if not (-1 <= v[1] <= 1): return {'err ValueError'}
      val = v[1] & 1
    else: return ANYERR
    return {f'ok {n} {(x & ~(1 << i)) | (val << i)}'}
  if k == 'concat':
    tot, val = 0, 0
    for m, v in c[1]:
      tot += m; val = (val << m) | v
    if tot >= 1024: return {'err ValueError'}
    return {f'ok {tot} {val}'}
  if k in ('trunc', 'zext', 'sext'):
    n, x, w = c[1], c[2], c[3]
    if k == 'trunc':
      if not (1 <= w <= n): return ANYERR
      return {f'ok {w} {x & ((1 << w) - 1)}'}
    if not (n <= w < 1024): return ANYERR
    if k == 'zext': return {f'ok {w} {x}'}
    sx = x - (1 << n) if (x >> (n - 1)) & 1 else x
    return {f'ok {w} {sx % (1 << w)}'}
  if k in ('truncT', 'zextT', 'sextT'):
    n, x, w = c[1], c[2], c[3]
    if k == 'truncT':
      return {f'ok {w} {x & ((1 << w) - 1)}'}        # widening "trunc" keeps the value
    if k == 'zextT':
      if w >= n: return {f'ok {w} {x}'}
      return {'err ValueError', f'ok {w} {x}'} if x < (1 << w) else {'err ValueError'}
    sx = x - (1 << n) if (x >> (n - 1)) & 1 else x
    if w >= n: return {f'ok {w} {sx % (1 << w)}'}
    return {'err ValueError', f'ok {w} {sx % (1 << w)}'} if -(1 << (w - 1)) <= sx < (1 << w) else {'err ValueError'}
  if k == 'reduce_and': return {f'ok 1 {int(c[2] == (1 << c[1]) - 1)}'}
  if k == 'reduce_or': return {f'ok 1 {int(c[2] != 0)}'}
  if k == 'reduce_xor': return {f'ok 1 {bin(c[2]).count("1") & 1}'}
  if k == 'clog2':
    N = c[1]
    if N < 1: return ANYERR
    kk = 0
    while (1 << kk) < N: kk += 1
    return {f'int {kk}'}
  if k == 'vcd':
    n, x = c[1], c[2]
    return {'str ' + (str(x) if n == 1 else 'b' + format(x, f'0{n}b') + '_')}
  raise ValueError(k)

def conforms(impl, s):
  if s == ANYERR: return impl.startswith('err ')
  return impl in s

def process(ck, cases):
  model = ck.driver.batch([model_line(c) for c in cases])
  for c, m in zip(cases, model):
    impl = impl_eval(c)
    s = spec(c)
    ck.count(c, impl.startswith('err') or (len(c) > 2 and c[2] != 0))
    ck.hist('kind', c[0])
    ck.hist('outcome', impl.split()[0] + (' ' + impl.split()[1] if impl.startswith('err') else ''))
    if not conforms(impl, s):
      ck.violation('spec-mismatch', {'kind': c[0]}, c,
                   {'impl': impl, 'spec_accepts': s if s == ANYERR else sorted(s), 'model': m,
                    'oracle': 'independent bit-level specification'})
    elif impl != m:
      ck.disagreement('Model/Bits≈PythonBits(slices/helpers)', c, m, impl)

CORPUS = [
  ['getslice', 8, 0xab, 2, 0, None, False], ['getslice', 8, 0xab, 0, 0, None, False], ['getslice', 8, 0xab, None, 4, None, False],
  ['getslice', 8, 0xab, 4, None, None, False], ['getslice', 8, 0xab, 0, 4, None, True], ['getslice', 8, 0xab, 2, 0, None, True],
  ['getslice', 8, 0xab, 0, 8, 0, False], ['getslice', 8, 0xab, 0, 8, 1, False], ['getslice', 8, 0xab, 0, 9, None, False],
  ['getslice', 8, 0xab, -1, 4, None, False], ['getslice', 8, 0xab, 4, 4, None, False], ['getslice', 8, 0xab, 5, 4, None, False],
  ['setslice', 8, 0xab, 2, 0, None, False, ['i', 1]], ['setslice', 8, 0xab, 0, 0, None, False, ['b', 8, 1]],
  ['setslice', 8, 0xab, 2, 6, None, False, ['i', -3]], ['setslice', 8, 0xab, 2, 6, None, False, ['i', 16]],
  ['setslice', 8, 0xab, 2, 6, None, False, ['i', -9]], ['setslice', 8, 0xab, 2, 6, None, False, ['b', 5, 1]],
  ['setslice', 8, 0xab, 2, 6, None, False, ['b', 3, 1]], ['setslice', 8, 0xff, 0, 8, None, False, ['b', 8, 0]],
  ['setslice', 8, 0xab, 0, 4, 0, False, ['i', 1]],
  ['setslice', 8, 0x5a, None, None, None, False, ['b', 8, 0x5a], 'alias'], ['setslice', 8, 0x5a, 0, 8, None, False, ['b', 8, 0x5a], 'alias'],
  ['setslice', 8, 0x5a, 0, 4, None, False, ['b', 8, 0x5a], 'alias'],
  ['setslice', 8, 0xab, 0, 4, None, False, ['i', -9], 'imatmul'], ['setslice', 8, 0xab, 0, 4, None, False, ['i', -8], 'imatmul'], ['setslice', 8, 0xab, 2, 4, None, False, ['i', -3], 'imatmul'],
  ['setslice', 8, 0xab, 0, 4, None, False, ['i', 15], 'imatmul'], ['setslice', 8, 0xab, 0, 4, None, False, ['i', 16], 'imatmul'],
  ['getbit', 8, 0xab, 8], ['getbit', 8, 0xab, -1], ['getbit', 8, 0xab, 7], ['getbit', 3, 5, 3, 2], ['getbit', 7, 0x55, 7, 3], ['getbit', 1, 0, 1, 1],
  ['getbit', 31, 0x7fffffff, 31, 5], ['getbit', 3, 5, 2, 2], ['setbit', 3, 5, 3, ['i', 1], 2], ['setbit', 8, 0xab, 2, ['i', -1]],
  ['setbit', 8, 0xab, 2, ['i', 2]], ['setbit', 8, 0xab, 2, ['b', 2, 1]], ['setbit', 8, 0xab, 8, ['i', 1]],
  ['concat', [[512, 1], [511, 3]]], ['concat', [[512, 1], [512, 3]]], ['concat', [[1, 1], [1, 0], [2, 3]]],
  ['trunc', 8, 0xab, 9], ['trunc', 8, 0xab, 0], ['zext', 8, 0xab, 7], ['zext', 8, 0xab, 1024], ['sext', 8, 0xab, 16],
  ['sext', 8, 0x7f, 16], ['sext', 1, 1, 8], ['sext', 8, 0xab, 8], ['reduce_xor', 8, 0xab], ['reduce_and', 8, 0xff],
  ['clog2', 2 ** 29], ['clog2', 2 ** 31], ['clog2', 2 ** 39], ['clog2', 2 ** 47], ['clog2', 2 ** 51], ['clog2', 2 ** 55],
  ['clog2', 2 ** 58], ['clog2', 2 ** 59], ['clog2', 2 ** 62], ['clog2', 2 ** 29 + 1], ['clog2', 2 ** 29 - 1], ['clog2', 1], ['clog2', 0],
]

def exhaustive_small(maxn):
  cases = []
  for n in range(1, maxn + 1):
    for x in range(1 << n):
      for lo in list(range(-2, n + 3)) + [None]:
        for hi in list(range(-2, n + 3)) + [None]:
          cases.append(['getslice', n, x, lo, hi, None, False])
          l2, h2 = (0 if lo is None else lo), (n if hi is None else hi)
          if 0 <= l2 < h2 <= n and x in (0, (1 << n) - 1, 1, (1 << n) >> 1):
            w = h2 - l2
            for v in range(-(1 << w) - 1, (1 << w) + 2):
              cases.append(['setslice', n, x, lo, hi, None, False, ['i', v]])
            for v in range(1 << w):
              cases.append(['setslice', n, x, lo, hi, None, False, ['b', w, v]])
      for i in range(-2, n + 3):
        cases.append(['getbit', n, x, i])
        for v in (-2, -1, 0, 1, 2): cases.append(['setbit', n, x, i, ['i', v]])
  return cases

def run(ck):
  rng = ck.rng
  process(ck, CORPUS)
  total = 30000 if ck.tier == 'quick' else 1000000
  done = 0
  while done < total:
    k = min(20000, total - done)
    process(ck, [gen_case(rng) for _ in range(k)])
    done += k
    if len(ck.violations) > 50: break
  ex = exhaustive_small(4 if ck.tier == 'quick' else 6)
  for i in range(0, len(ex), 50000):
    process(ck, ex[i:i + 50000])
  ck.extra_cov['exhaustive_part'] = (f'all (lo,hi) in ([-2,n+2] + None)^2, all x, n <= {4 if ck.tier == "quick" else 6}; '
                                     f'set-slice with every int/Bits value on 4 source patterns: {len(ex)} cases')
  if ck.tier == 'thorough':
    process(ck, [['clog2', N] for N in range(1, 70000)])

def replay(ck, data):
  c = data['case']
  m = ck.driver.batch([model_line(c)])[0]
  impl = impl_eval(c); s = spec(c)
  print(f'case={c}\nmodel={m}\nimpl={impl}\nspec accepts={s if s == ANYERR else sorted(s)}')
  return 0 if conforms(impl, s) else 1
