"""C06 — program-level tie of the *generated* bitstruct methods (Props/C06g.lean, Model/BStructProg.lean, driver pv_bsprog).

bitstructs.py builds every method of a bitstruct class as source text and compiles it. For every class a C06 run creates
this module takes the real generated source of every method (inspect.getsource), parses it with `ast` into the small IR of
Model/BStructProg.lean and asks the driver whether it IS `progOf <method> <declared type>` (syntactic equality, no
normalisation). Props/C06g.lean proves, for every type, that evaluating `progOf m T` is the model function about which
Props/C06.lean is proved — so a matching class has, for ALL values, the behaviour the C06 theorems describe.

* anything outside the IR raises `Untranslatable` (loud, counted, reported as a broken correspondence naming the method) —
  the parser never guesses;
* names are resolved, not trusted: field names against the declared type, `_type_f` / `_typeN` / `concat` through the
  function's own globals; a constructor that resolves to another class object than the one declared at that position is
  a mismatch of its own (`resolves to another class`);
* the IR's evaluator is itself validated against the real methods: on sampled values the *parsed* program is evaluated
  by the driver (to_bits / from_bits / == / hashed tuple; leaf-object sharing pattern of clone, __deepcopy__ and the
  default constructor) and compared with what the real method does.

A mismatch is `ck.disagreement` (broken correspondence); the value-level streams of c06.py look for the failing value.
"""
import ast, copy, inspect, linecache

from pymtl3.datatypes import Bits
from pymtl3.datatypes import helpers as _helpers
from pymtl3.datatypes.bitstructs import is_bitstruct_class

from ..common import leanio
from ..common.leanio import InfraError

MODULE = 'PymtlVerif.Props.C06g'
DRIVERS = ['bsprog']
THEOREMS = ['PV.C06g.' + t for t in [
  'to_bits_prog', 'from_bits_prog', 'roundtrip_transfer', 'eq_prog', 'hash_prog', 'clone_prog', 'clone_transfer',
  'aug_prog', 'flip_prog', 'assign_transfer', 'init_prog']]
TRUSTED = [
  'harness/checks/c06_genprog.py (translator, trusted to render its subset faithfully): the fixed frames of the generated '
  'methods (`if self.__class__ is not other.__class__: other = self.__class__.from_bits( other.to_bits() )`, `return self`, the '
  'assert + `other = other.to_bits()` of from_bits, `return hash(...)`, `(other.__class__ is self.__class__) and ...`, '
  '`return self.__class__( ... )`) are matched verbatim and are the meaning of the Prog constructors of Model/BStructProg.lean; '
  'attribute / subscript paths, list / tuple displays, `[..] * n`, slices of `other` with constant bounds, constructor calls and '
  '`x or <default>` are rendered structurally; anything else raises Untranslatable (broken correspondence, never a guess)',
  'a call of a nested class\'s generated method (self.p @= other.p, self.p.clone(), self.p._flip(), hash / == of a tuple element, '
  '_typeN( ... ), _type_f()) has the meaning the model gives the nested type; every nested class is a class of its own and is '
  'checked the same way (induction over the nesting depth is by this enumeration, not inside Lean)',
  'class identity is outside the Lean model: that a constructor name resolves to the declared class OBJECT is checked by the parser',
]

METHODS = [('to_bits', 'to_bits'), ('from_bits', 'from_bits'), ('__eq__', 'eq'), ('__hash__', 'hash'), ('clone', 'clone'),
           ('__deepcopy__', 'deepcopy'), ('__imatmul__', 'imatmul'), ('__ilshift__', 'ilshift'), ('_flip', 'flip'),
           ('__init__', 'init'), ('__str__', 'str'), ('__repr__', 'repr')]
ALWAYS = {'to_bits', 'from_bits', '__eq__', 'clone', '__deepcopy__', '__imatmul__', '__ilshift__', '_flip'}

class Untranslatable(Exception):
  pass

# ------------------------------------------------------------------------------------------ shapes

def shape_R(R):
  """S-expression of the declared shape of a mirror tree ('b', n, cls) | ('a', k, R) | ('s', cls, [(name, R)...])"""
  if R[0] == 'b': return f'(b {R[1]})'
  if R[0] == 'a': return f'(a {R[1]} {shape_R(R[2])})'
  return '(s ' + ' '.join(shape_R(r) for _, r in R[2]) + ')'

def shape_of_class(c, depth=0):
  """shape of what a resolved global really is (from its own __bitstruct_fields__), or None"""
  if depth > 12: return None
  if isinstance(c, list):
    if not c: return None
    e = shape_of_class(c[0], depth + 1)
    return None if e is None else f'(a {len(c)} {e})'
  if isinstance(c, type) and issubclass(c, Bits) and getattr(c, 'nbits', None): return f'(b {c.nbits})'
  if is_bitstruct_class(c):
    fs = [shape_of_class(t, depth + 1) for t in c.__bitstruct_fields__.values()]
    return None if any(f is None for f in fs) else '(s ' + ' '.join(fs) + ')'
  return None

def elem_R(R):
  while R is not None and R[0] == 'a': R = R[2]
  return R

# ------------------------------------------------------------------------------------------ parsing

_PARSED = {}

def source_of(fn):
  """the generated text: py.code.Source(src).compile() files it in linecache under the code object's own file name, where it
  is the whole 'file' (same text as inspect.getsource, without re-tokenising it)"""
  co = fn.__code__
  ent = linecache.cache.get(co.co_filename)
  if ent is not None and len(ent) == 4 and co.co_firstlineno == 1 and ent[2] and ent[2][0].startswith('def '):
    return ''.join(ent[2])
  return inspect.getsource(fn)

def fndef(fn):
  try: src = source_of(fn)
  except (OSError, TypeError) as e: raise Untranslatable(f'source not retrievable: {e}')
  hit = _PARSED.get(src)
  if hit is None:
    try: mod = ast.parse(src)
    except SyntaxError as e: raise Untranslatable(f'source does not parse: {e}')
    if len(mod.body) != 1 or not isinstance(mod.body[0], ast.FunctionDef): raise Untranslatable('not a single function definition')
    hit = _PARSED[src] = mod.body[0]
    if len(_PARSED) > 20000: _PARSED.clear()
  return hit, src

def _dump(node): return ast.dump(node, annotate_fields=False)
def _stmt(text): return _dump(ast.parse(text).body[0])

PROLOGUE = _stmt('if self.__class__ is not other.__class__:\n  other = self.__class__.from_bits( other.to_bits() )')
RET_SELF = _stmt('return self')
FB_ASSERT = _stmt("assert cls.nbits == other.nbits, f'LHS bitstruct {cls.nbits}-bit <> RHS other {other.nbits}-bit'")
FB_TOBITS = _stmt('other = other.to_bits()')
EQ_CLASS = _dump(ast.parse('other.__class__ is self.__class__').body[0].value)
SELF_CLASS = _dump(ast.parse('self.__class__').body[0].value)

def params(f, want=None):
  a = f.args
  if a.vararg or a.kwarg or a.kwonlyargs or a.posonlyargs or f.decorator_list or f.returns is not None:
    raise Untranslatable('signature outside the generated form')
  names = [x.arg for x in a.args]
  if want is not None and (names != want or a.defaults): raise Untranslatable(f'signature {names} is not {want}')
  return names

class Tr:
  """translation of one class's methods; R = the mirror tree of the DECLARED type"""
  def __init__(self, R):
    self.R = R; self.notes = []          # notes: name-resolution mismatches (constructor resolves to another class)

  # ---- paths, type-directed by the declared type
  def path(self, node, root):
    """(steps, R at the end) of `root.f[i].g…`; steps as S-expression text"""
    rev = []
    while True:
      if isinstance(node, ast.Attribute): rev.append(('f', node.attr)); node = node.value
      elif isinstance(node, ast.Subscript):
        s = node.slice
        if not (isinstance(s, ast.Constant) and type(s.value) is int and s.value >= 0): raise Untranslatable('subscript is not a constant index')
        rev.append(('i', s.value)); node = node.value
      elif isinstance(node, ast.Name):
        if node.id != root: raise Untranslatable(f'path rooted at {node.id!r}, expected {root!r}')
        break
      else: raise Untranslatable(f'operand is not an attribute / index path ({type(node).__name__})')
    R = self.R; out = []
    for kind, key in reversed(rev):
      if kind == 'f':
        if R[0] != 's': raise Untranslatable(f'attribute .{key} of a non-struct')
        names = [n for n, _ in R[2]]
        if key not in names: raise Untranslatable(f'.{key} is not a field of the declared type')
        i = names.index(key); out.append(f'(f {i})'); R = R[2][i][1]
      else:
        if R[0] != 'a': raise Untranslatable(f'index [{key}] of a non-list')
        out.append(f'(i {key})'); R = R[2]
    return ' '.join(out), R

  def resolve(self, fn, name):
    g = fn.__globals__
    if name not in g: raise Untranslatable(f'name {name!r} is not bound in the function\'s globals')
    return g[name]

  def ctor_shape(self, fn, name, expect, what):
    """shape of the class a constructor name resolves to; notes a mismatch when it is not the declared class object"""
    c = self.resolve(fn, name)
    sh = shape_of_class(c)
    if sh is None or isinstance(c, list): raise Untranslatable(f'{name!r} resolves to {c!r}: not a Bits / bitstruct class')
    if expect is not None and expect[0] in 'bs':
      want = expect[2] if expect[0] == 'b' else expect[1]
      same = (c is want) or (expect[0] == 'b' and isinstance(c, type) and issubclass(c, Bits) and c.nbits == want.nbits)
      if not same: self.notes.append(f'{what}: {name} resolves to another class ({getattr(c, "__name__", c)!r} of shape {sh}) than the '
                                     f'one declared at this position ({getattr(want, "__name__", want)!r} of shape {shape_R(expect)})')
    return sh, c

  # ---- the methods
  def to_bits(self, fn, f):
    params(f, ['self'])
    if len(f.body) != 1 or not isinstance(f.body[0], ast.Return): raise Untranslatable('body is not one return')
    c = f.body[0].value
    if not (isinstance(c, ast.Call) and isinstance(c.func, ast.Name) and c.func.id == 'concat' and not c.keywords):
      raise Untranslatable('not `return concat( ... )`')
    if self.resolve(fn, 'concat') is not _helpers.concat: raise Untranslatable('`concat` is not pymtl3.datatypes.helpers.concat')
    return '(tobits' + ''.join(f' ({self.path(a, "self")[0]})' for a in c.args) + ')'

  def fb_expr(self, fn, e, expect):
    if isinstance(e, ast.Subscript) and isinstance(e.value, ast.Name) and e.value.id == 'other' and isinstance(e.slice, ast.Slice):
      s = e.slice
      if s.step is not None or not all(isinstance(b, ast.Constant) and type(b.value) is int and b.value >= 0 for b in (s.lower, s.upper)):
        raise Untranslatable('slice bounds are not constants')
      return f'(slice {s.lower.value} {s.upper.value})'
    if isinstance(e, ast.List):
      sub = expect[2] if expect is not None and expect[0] == 'a' else None
      return '(list' + ''.join(' ' + self.fb_expr(fn, x, sub) for x in e.elts) + ')'
    if isinstance(e, ast.Call) and isinstance(e.func, ast.Name) and not e.keywords:
      sh, c = self.ctor_shape(fn, e.func.id, expect if expect is not None and expect[0] == 's' else None, 'from_bits')
      if not is_bitstruct_class(c): raise Untranslatable(f'{e.func.id!r} is not a bitstruct class')
      fs = expect[2] if expect is not None and expect[0] == 's' and len(expect[2]) == len(e.args) else [(None, None)] * len(e.args)
      return f'(new {sh}' + ''.join(' ' + self.fb_expr(fn, x, r) for x, (_, r) in zip(e.args, fs)) + ')'
    raise Untranslatable(f'from_bits operand {type(e).__name__}')

  def from_bits(self, fn, f):
    params(f, ['cls', 'other'])
    if len(f.body) != 3 or _dump(f.body[0]) != FB_ASSERT or _dump(f.body[1]) != FB_TOBITS or not isinstance(f.body[2], ast.Return):
      raise Untranslatable('frame is not assert / other = other.to_bits() / return')
    c = f.body[2].value
    if not (isinstance(c, ast.Call) and isinstance(c.func, ast.Name) and c.func.id == 'cls' and not c.keywords):
      raise Untranslatable('not `return cls( ... )`')
    fs = self.R[2] if len(self.R[2]) == len(c.args) else [(None, None)] * len(c.args)
    return '(frombits' + ''.join(' ' + self.fb_expr(fn, x, r) for x, (_, r) in zip(c.args, fs)) + ')'

  def eq(self, fn, f):
    params(f, ['self', 'other'])
    if len(f.body) != 1 or not isinstance(f.body[0], ast.Return): raise Untranslatable('body is not one return')
    b = f.body[0].value
    if not (isinstance(b, ast.BoolOp) and isinstance(b.op, ast.And) and len(b.values) == 2 and _dump(b.values[0]) == EQ_CLASS):
      raise Untranslatable('not `(other.__class__ is self.__class__) and ...`')
    c = b.values[1]
    if not (isinstance(c, ast.Compare) and len(c.ops) == 1 and isinstance(c.ops[0], ast.Eq) and isinstance(c.left, ast.Tuple)
            and isinstance(c.comparators[0], ast.Tuple)): raise Untranslatable('not a comparison of two tuple displays')
    l = ' '.join(f'({self.path(x, "self")[0]})' for x in c.left.elts)
    r = ' '.join(f'({self.path(x, "other")[0]})' for x in c.comparators[0].elts)
    return f'(eq ({l}) ({r}))'

  def hash_expr(self, e):
    if isinstance(e, ast.Tuple): return '(tup' + ''.join(' ' + self.hash_expr(x) for x in e.elts) + ')'
    if isinstance(e, ast.List): return '(list' + ''.join(' ' + self.hash_expr(x) for x in e.elts) + ')'
    p = self.path(e, 'self')[0]
    return f'(self {p})' if p else '(self)'

  def hash(self, fn, f):
    params(f, ['self'])
    if len(f.body) != 1 or not isinstance(f.body[0], ast.Return): raise Untranslatable('body is not one return')
    c = f.body[0].value
    if not (isinstance(c, ast.Call) and isinstance(c.func, ast.Name) and c.func.id == 'hash' and len(c.args) == 1 and not c.keywords):
      raise Untranslatable('not `return hash( ... )`')
    if 'hash' in fn.__globals__: raise Untranslatable('`hash` is shadowed in the function\'s globals')
    return f'(hash {self.hash_expr(c.args[0])})'

  def clone_expr(self, e):
    if isinstance(e, ast.List): return '(list' + ''.join(' ' + self.clone_expr(x) for x in e.elts) + ')'
    if isinstance(e, ast.BinOp) and isinstance(e.op, ast.Mult) and isinstance(e.left, ast.List) and isinstance(e.right, ast.Constant) \
       and type(e.right.value) is int and e.right.value >= 0:
      return f'(rep {self.clone_expr(e.left)} {e.right.value})'
    if isinstance(e, ast.Call):
      if not (isinstance(e.func, ast.Attribute) and e.func.attr == 'clone' and not e.args and not e.keywords):
        raise Untranslatable('call that is not `<path>.clone()`')
      p = self.path(e.func.value, 'self')[0]
      return f'(clone {p})' if p else '(clone)'
    p = self.path(e, 'self')[0]
    return f'(self {p})' if p else '(self)'

  def clone(self, fn, f, want=('self',)):
    params(f, list(want))
    if len(f.body) != 1 or not isinstance(f.body[0], ast.Return): raise Untranslatable('body is not one return')
    c = f.body[0].value
    if not (isinstance(c, ast.Call) and _dump(c.func) == SELF_CLASS and not c.keywords): raise Untranslatable('not `return self.__class__( ... )`')
    return '(clone' + ''.join(' ' + self.clone_expr(x) for x in c.args) + ')'

  def deepcopy(self, fn, f): return self.clone(fn, f, ('self', 'memo'))

  def aug(self, fn, f, nb):
    params(f, ['self', 'other'])
    if len(f.body) < 2 or _dump(f.body[0]) != PROLOGUE or _dump(f.body[-1]) != RET_SELF:
      raise Untranslatable('frame is not class-test prologue / statements / return self')
    out = []
    for s in f.body[1:-1]:
      if not (isinstance(s, ast.AugAssign) and isinstance(s.op, ast.LShift if nb else ast.MatMult)):
        raise Untranslatable(f'statement is not `self.<p> {"<<=" if nb else "@="} other.<p>`')
      out.append(f' (({self.path(s.target, "self")[0]}) ({self.path(s.value, "other")[0]}))')
    return f'(aug {int(nb)}' + ''.join(out) + ')'

  def imatmul(self, fn, f): return self.aug(fn, f, False)
  def ilshift(self, fn, f): return self.aug(fn, f, True)

  def flip(self, fn, f):
    params(f, ['self'])
    out = []
    for s in f.body:
      c = s.value if isinstance(s, ast.Expr) else None
      if not (isinstance(c, ast.Call) and isinstance(c.func, ast.Attribute) and c.func.attr == '_flip' and not c.args and not c.keywords):
        raise Untranslatable('statement is not `self.<p>._flip()`')
      out.append(f' ({self.path(c.func.value, "self")[0]})')
    return '(flip' + ''.join(out) + ')'

  def dflt_expr(self, fn, e, expect):
    if isinstance(e, ast.List):
      sub = expect[2] if expect is not None and expect[0] == 'a' else None
      return '(list' + ''.join(' ' + self.dflt_expr(fn, x, sub) for x in e.elts) + ')'
    if isinstance(e, ast.BinOp) and isinstance(e.op, ast.Mult) and isinstance(e.left, ast.List) and isinstance(e.right, ast.Constant) \
       and type(e.right.value) is int and e.right.value >= 0:
      # `[row] * n`: n references to the elements of ONE evaluation of the display (Expr.rep)
      sub = expect[2] if expect is not None and expect[0] == 'a' else None
      inner = '(list' + ''.join(' ' + self.dflt_expr(fn, x, sub) for x in e.left.elts) + ')'
      return f'(rep {inner} {e.right.value})'
    if isinstance(e, ast.Call) and isinstance(e.func, ast.Name) and not e.args and not e.keywords:
      sh, _ = self.ctor_shape(fn, e.func.id, expect, '__init__')
      return f'(dflt {sh})'
    raise Untranslatable(f'default expression {type(e).__name__}')

  def init(self, fn, f):
    names = [n for n, _ in self.R[2]]
    a = f.args
    if a.vararg or a.kwarg or a.kwonlyargs or a.posonlyargs or f.decorator_list: raise Untranslatable('signature outside the generated form')
    ps = [x.arg for x in a.args]
    if not ps or ps[0] in names or ps[1:] != names: raise Untranslatable(f'parameters {ps} are not (self, *declared field names {names})')
    if len(a.defaults) != len(names): raise Untranslatable('not every field parameter has a default')
    for (n, r), d in zip(self.R[2], a.defaults):
      want = 0 if r[0] == 'b' else None
      if not (isinstance(d, ast.Constant) and d.value is want and type(d.value) is type(want)):
        raise Untranslatable(f'default of parameter {n!r} is not {want!r}')
    me = ps[0]; out = []
    for s in f.body:
      if not (isinstance(s, ast.Assign) and len(s.targets) == 1 and isinstance(s.targets[0], ast.Attribute)
              and isinstance(s.targets[0].value, ast.Name) and s.targets[0].value.id == me and s.targets[0].attr in names):
        raise Untranslatable('statement is not `self.<field> = ...`')
      i = names.index(s.targets[0].attr); v = s.value; r = self.R[2][i][1]
      if isinstance(v, ast.Call) and isinstance(v.func, ast.Name) and len(v.args) == 1 and isinstance(v.args[0], ast.Name) \
         and v.args[0].id in names and not v.keywords:
        sh, c = self.ctor_shape(fn, v.func.id, r if r[0] == 'b' else None, '__init__')
        if not (isinstance(c, type) and issubclass(c, Bits)): raise Untranslatable(f'`{v.func.id}(arg)` where {v.func.id} is not a Bits class')
        out.append(f' (set {i} (wrap {c.nbits} {names.index(v.args[0].id)}))')
      elif isinstance(v, ast.BoolOp) and isinstance(v.op, ast.Or) and len(v.values) == 2 and isinstance(v.values[0], ast.Name) \
           and v.values[0].id in names:
        out.append(f' (set {i} (or {names.index(v.values[0].id)} {self.dflt_expr(fn, v.values[1], r if r[0] != "b" else None)}))')
      else: raise Untranslatable('right-hand side is neither `_type_f(arg)` nor `arg or <default>`')
    return '(init' + ''.join(out) + ')'

  def _strlike(self, fn, f, conv, expect_src):
    params(f, ['self'])
    if len(f.body) != 1 or not isinstance(f.body[0], ast.Return): raise Untranslatable('body is not one return')
    idx = []
    for n in ast.walk(f.body[0]):
      if isinstance(n, ast.FormattedValue):
        if n.conversion != conv or n.format_spec is not None: raise Untranslatable('conversion / format spec')
        p, _ = self.path(n.value, 'self')
        if not (p.startswith('(f ') and p.count('(') == 1): raise Untranslatable('interpolated value is not a field')
        idx.append(int(p[3:-1]))
    names = [n for n, _ in self.R[2]]
    if any(i >= len(names) for i in idx) or _dump(f.body[0]) != _stmt(expect_src([names[i] for i in idx])):
      raise Untranslatable('literal text of the format string is not the generated one')
    return '(str' + ''.join(f' {i}' for i in idx) + ')'

  def str(self, fn, f):
    return self._strlike(fn, f, -1, lambda ns: 'return f"' + ':'.join('{self.' + n + '}' for n in ns) + '"')
  def repr(self, fn, f):
    return self._strlike(fn, f, 114, lambda ns: 'return self.__class__.__name__ + f"(' + ','.join('{self.' + n + '!r}' for n in ns) + ')"')

def is_generated(fn):
  co = getattr(fn, '__code__', None)
  return co is not None and 'codegen' in co.co_filename and 'bitstructs.py' in co.co_filename

def class_functions(cls):
  """[(python name, method id, function)] of the generated methods present on the class; [(python name, why)] of missing ones"""
  out, missing = [], []
  for py, mid in METHODS:
    fn = cls.__dict__.get(py)
    fn = getattr(fn, '__func__', fn)
    if fn is None or not inspect.isfunction(fn) or not is_generated(fn):
      if py in ALWAYS: missing.append((py, 'absent' if fn is None else 'not a function generated by bitstructs.py'))
      continue
    out.append((py, mid, fn))
  return out, missing

# ------------------------------------------------------------------------------------------ the check

def names_R(R):
  """JSON-able declared type with field names (the case recorded for a mismatch)"""
  if R[0] == 'b': return ['b', R[1]]
  if R[0] == 'a': return ['a', R[1], names_R(R[2])]
  return ['s'] + [[n, names_R(r)] for n, r in R[2]]

def _leaf_objs(R, o):
  if R[0] == 'b': return [o]
  if R[0] == 'a': return [l for x in o for l in _leaf_objs(R[2], x)]
  return [l for n, r in R[2] for l in _leaf_objs(r, getattr(o, n))]

def _widths(R):
  if R[0] == 'b': return [R[1]]
  if R[0] == 'a': return _widths(R[2]) * R[1]
  return [w for _, r in R[2] for w in _widths(r)]

def _vstr(R, it):
  if R[0] == 'b': return f'(b {R[1]} {next(it)})'
  if R[0] == 'a': return '(a ' + ' '.join([_vstr(R[2], it) for _ in range(R[1])]) + ')'
  return '(s ' + ' '.join([_vstr(r, it) for _, r in R[2]]) + ')'

def _make(R, it):
  if R[0] == 'b': return R[2](next(it))
  if R[0] == 'a': return [_make(R[2], it) for _ in range(R[1])]
  return R[1](*[_make(r, it) for _, r in R[2]])

def _key(R, o):
  if R[0] == 'b': return f'(b {int(o.nbits)} {int(o.uint())})'
  if R[0] == 'a': return '(t' + ''.join(' ' + _key(R[2], x) for x in o) + ')'
  return '(t' + ''.join(' ' + _key(r, getattr(o, n)) for n, r in R[2]) + ')'

def _pattern(ids, base):
  """sharing pattern of a leaf list: index of the source leaf it IS, else first-occurrence numbering from len(base)"""
  where = {x: i for i, x in enumerate(base)}
  out, seen = [], {}
  for x in ids:
    if x in where: out.append(where[x])
    else: out.append(seen.setdefault(x, len(base) + len(seen)))
  return out

PURE = {'eq', 'clone', 'deepcopy', 'imatmul', 'ilshift', 'flip', 'str', 'repr', 'to_bits', 'hash'}   # translation independent of the globals (to_bits / hash: but for the one name checked before the cache is consulted)

class GenProg:
  def __init__(self, ck):
    self.ck = ck; self.seen = {}; self.queue = []; self.keep = []
    self.tcache = {}      # (method, source text, declared shape, field names) -> program | Untranslatable, for PURE methods
    self.verdict = {}     # driver request line -> reply (identical requests are asked once)
    self.stats = {'classes': 0, 'methods': 0, 'mismatch': 0, 'untranslatable': 0, 'evaluated': 0}
    self.reported = set()

  def register(self, R):
    """every struct node of a mirror tree: queue (class object, declared shape) once"""
    if R[0] == 'a': self.register(R[2]); return
    if R[0] != 's': return
    for _, r in R[2]: self.register(r)
    k = (id(R[1]), shape_R(R), tuple(n for n, _ in R[2]))
    if k in self.seen: return
    self.seen[k] = True; self.keep.append(R[1]); self.queue.append(R)
    if len(self.queue) >= 48: self.flush()

  def report(self, R, py, what, model, impl):
    self.stats['mismatch'] += 1
    key = (py, what.split(':')[0])
    if key not in self.reported and len(self.reported) < 12:
      print(f'[C06 genprog] {py}: {what[:160]}')
      self.stats.setdefault('first_mismatches', []).append(f'{py}: {what[:300]}')
    if key in self.reported and len(self.ck.breaks) > 40: return
    self.reported.add(key)
    self.ck.disagreement(f'generated program of {py}: {what}', ['genprog', names_R(R), py], model, impl)

  def flush(self):
    q, self.queue = self.queue, []
    if not q: return
    ck = self.ck
    lines, meta = [], []
    for ci, R in enumerate(q):
      cls = R[1]; T = shape_R(R); tr = Tr(R); names = tuple(n for n, _ in R[2])
      self.stats['classes'] += 1
      fns, missing = class_functions(cls)
      for py, why in missing: self.report(R, py, f'generated method {why}', 'a generated function', why)
      progs = {}
      for py, mid, fn in fns:
        self.stats['methods'] += 1
        ck.count(['genprog', names_R(R), py], True); ck.hist('genprog_method', py)
        try:
          f, src = fndef(fn)
          n0 = len(tr.notes)
          if mid == 'to_bits' and fn.__globals__.get('concat') is not _helpers.concat: raise Untranslatable('`concat` is not pymtl3.datatypes.helpers.concat')
          if mid == 'hash' and 'hash' in fn.__globals__: raise Untranslatable('`hash` is shadowed in the function\'s globals')
          tk = (mid, src, T, names) if mid in PURE else None
          hit = self.tcache.get(tk) if tk is not None else None
          if hit is None:
            try: hit = getattr(tr, mid)(fn, f)
            except Untranslatable as e: hit = e
            if tk is not None: self.tcache[tk] = hit
          if isinstance(hit, Untranslatable): raise hit
          prog = hit
        except Untranslatable as e:
          self.stats['untranslatable'] += 1
          self.report(R, py, f'Untranslatable: {e}', 'a program of the IR', (inspect.getsource(fn) if is_generated(fn) else '?')[:1500])
          continue
        for note in tr.notes[n0:]: self.report(R, py, note, 'the declared class', src[:1500])
        progs[mid] = prog
        line = f'bsprog check {mid} {T} {prog}'
        if self.verdict.get(line) == 'ok': continue
        lines.append(line); meta.append(('check', R, py, prog, src))
      # ---- the IR's evaluator against the real methods, on sampled values
      if self.stats['evaluated'] < (150 if ck.tier == 'quick' else 2000) or ck.rng.random() < 0.1:
        self.stats['evaluated'] += 1
        ws = _widths(R); nb = sum(ws)
        xs = [ck.rng.getrandbits(w) for w in ws]; ys = list(xs)
        if ck.rng.random() < 0.6:
          k = ck.rng.randrange(len(ws)); ys[k] ^= 1 << ck.rng.randrange(ws[k])
        vx, vy = _vstr(R, iter(xs)), _vstr(R, iter(ys))
        try:
          ox, oy = _make(R, iter(xs)), _make(R, iter(ys))
        except Exception: ox = oy = None        # (a user-written __init__ without the calling convention: not this stream's business)
        if ox is not None:
          if 'to_bits' in progs:
            lines.append(f'bsprog evalv {T} {progs["to_bits"]} {vx}'); meta.append(('ev-to_bits', R, ox, xs))
          if 'from_bits' in progs and nb < 1024:
            b = ck.rng.getrandbits(nb)
            lines.append(f'bsprog evalv {T} {progs["from_bits"]} {vx} {nb} {b}'); meta.append(('ev-from_bits', R, b, nb))
          if 'eq' in progs:
            lines.append(f'bsprog evalv {T} {progs["eq"]} {vx} 1 {vy}'); meta.append(('ev-eq', R, ox, oy))
          if 'hash' in progs:
            lines.append(f'bsprog evalv {T} {progs["hash"]} {vx}'); meta.append(('ev-hash', R, ox, xs))
          for mid in ('clone', 'deepcopy'):
            if mid in progs:
              lines.append(f'bsprog evalh {T} {progs[mid]} {vx}'); meta.append(('eh-' + mid, R, ox, xs))
          if 'init' in progs:
            lines.append(f'bsprog evalh {T} {progs["init"]} {vx}'); meta.append(('eh-init', R, None, xs))
    replies = ck.drv('bsprog').batch(lines)
    for (kind, R, *rest), rep in zip(meta, replies):
      if kind == 'check':
        py, prog, src = rest
        self.verdict[f'bsprog check {dict(METHODS)[py]} {shape_R(R)} {prog}'] = rep
        if rep != 'ok':
          self.report(R, py, 'program ≠ progOf (the canonical program of the declared type)', rep[len('mismatch '):], {'parsed': prog, 'source': src[:1500]})
        continue
      try: self.compare_eval(kind, R, rest, rep)
      except InfraError: raise
      except Exception as e:
        pyname = {'eq': '__eq__', 'hash': '__hash__', 'deepcopy': '__deepcopy__', 'init': '__init__'}.get(kind[3:], kind[3:])
        self.report(R, pyname, f'IR evaluator vs the real method: the real method raised {type(e).__name__}: {str(e)[:200]}', rep, 'exception')

  def compare_eval(self, kind, R, rest, rep):
    cls = R[1]; py = kind[3:]
    if kind == 'ev-to_bits':
      o, xs = rest
      try: p = o.to_bits(); impl = f'(ok {int(p.nbits)} {int(p.uint())})'
      except Exception as e: impl = f'(err {type(e).__name__})'
    elif kind == 'ev-from_bits':
      b, nb = rest
      try: impl = f'(ok {_key(R, cls.from_bits(Bits(nb, b)))})'
      except Exception as e: impl = f'(err {type(e).__name__})'
    elif kind == 'ev-eq':
      impl = str(int((rest[0] == rest[1]) is True))
    elif kind == 'ev-hash':
      o, xs = rest
      if sum(_widths(R)) < 1024 and hash(o) != hash(cls.from_bits(o.to_bits())):
        self.report(R, '__hash__', 'IR evaluator vs the real method: equal values hash differently', rep, 'hash(o) != hash(from_bits(to_bits(o)))')
      impl = '(t' + ''.join(' ' + _key(r, getattr(o, n)) for n, r in R[2]) + ')'     # the tuple the program hashes = the field values
    elif kind in ('eh-clone', 'eh-deepcopy'):
      o, xs = rest
      c = o.clone() if kind == 'eh-clone' else copy.deepcopy(o)
      base = [id(l) for l in _leaf_objs(R, o)]
      impl = (_pattern([id(l) for l in _leaf_objs(R, c)], base), _key(R, c))
      py = 'clone' if kind == 'eh-clone' else '__deepcopy__'
    else:
      d = cls()
      impl = (_pattern([id(l) for l in _leaf_objs(R, d)], [None] * len(rest[1])), _key(R, d)); py = '__init__'
    if kind.startswith('eh-'):
      if rep == 'undef': model = 'undef'
      else:
        sx = leanio.parse_sexp(rep)
        n = len(rest[1])
        model = (_pattern([int(x) for x in sx[0]], list(range(n))), _render(sx[1]))
      if model != impl: self.report(R, py, 'IR evaluator (calls into nested classes = model) vs the real method (leaf-object sharing pattern, value)', model, impl)
    elif rep != impl:
      self.report(R, {'to_bits': 'to_bits', 'from_bits': 'from_bits', 'eq': '__eq__', 'hash': '__hash__'}[py],
                  'IR evaluator (calls into nested classes = model) vs the real method', rep, impl)

  def finish(self):
    self.flush()
    self.ck.extra_cov['generated_programs'] = dict(self.stats)

def _render(x):
  return x if isinstance(x, str) else '(' + ' '.join(_render(y) for y in x) + ')'
