"""C18 — magic memories act as one in-order memory whatever the timing parameters.

proof:          lean/PymtlVerif/Props/C18.lean  (model lean/PymtlVerif/Model/Mem.lean)
correspondence: MagicMemoryFL (direct calls), MagicMemoryCL (stdlib TestSrcCL/TestSinkCL), stream MagicMemoryRTL
                (SourceRTL/SinkRTL) vs `seqSpec` on the recorded processing order, and vs the cycle-level system
                models `CL.cycle` / `RTL.cycle` driven by the recorded stall / source / sink decisions
direct oracle:  a dict-of-bytes sequential memory applied to the recorded processing order + a literal
                "latest earlier store covering the byte" search for every byte a read / AMO returned
"""
from ..common import leanio
from ..common.leanio import InfraError
from . import c18_util as U

PID = 'C18'
DRIVERS = ['mem']
MODULE = 'PymtlVerif.Props.C18'
THEOREMS = ['PV.C18.' + t for t in [
  'read_write', 'write_frame', 'write_keeps_bytes', 'read_latest', 'image_latest', 'write_stores',
  'amo_spec', 'amo_table', 'sint_twos_complement',
  'deq_pipe_fifo', 'send_pipe_fifo', 'inelastic_pipe_fifo',
  'cl_timing_independent', 'rtl_timing_independent', 'cl_responses_in_order', 'rtl_responses_in_order',
  'cl_single_port', 'rtl_single_port', 'cl_disjoint_ports', 'rtl_disjoint_ports', 'cl_same_order_same_contents']]
TRUSTED = [
  'Model/Mem.lean: service (body of up_mem), readLE/writeLE, amoFun, the slot-pipeline models of DelayPipeDeqCL / '
  'DelayPipeSendCL / InelasticDelayPipe, and the per-cycle block order of the CL / RTL system models (the RTL model '
  'performs the clock edge of port i right after iteration i of up_mem; the real design runs all iterations first)',
  'the harness records the processing order by wrapping read/write/amo of the MagicMemoryFL instance and reading the '
  'caller frame locals (i, req) of up_mem; cycle numbers are sim_cycle_count() values',
]
ASSUMPTIONS = [
  'request types READ, WRITE and the nine AMOs only (INV/FLUSH answer without touching the store, other types assert)',
  'AMOs are full-width (len = 0): a sub-word AMO raises a width error inside AMO_FUNS for add/and/or/xor/minu/maxu '
  '(recorded as an observation, see coverage.observation_subword_amo)',
  'addresses stay below mem_nbytes (an access beyond the bytearray raises IndexError)',
  'test sources, sinks and the stall random generators enter the system theorems as arbitrary per-cycle Bool streams',
]
RULE = ('system cases: ports 1-3(4) x data width {32 mostly, 16, 64} x latency 0-6 (CL) / extra_latency 0-4 (RTL) x stall_prob '
        '{0,.2,.5,.8} x per-port source/sink initial and interval delays x per-port streams of reads/writes of every length '
        'and full-width AMOs on a 12-byte window (shared by the ports, or one window per port), each stream run under two '
        'timing configurations; FL cases: direct call sequences; non-trivial = some read/AMO returns a byte stored by an '
        'earlier request; distinct = distinct canonical case')

MASKS = {}
def amo_py(w, op, m, a):
  """independent restatement of AMO_FUNS on w-bit values"""
  M = (1 << w) - 1
  sg = lambda x: x - (1 << w) if x >> (w - 1) else x
  if op == 3: return (m + a) & M
  if op == 4: return m & a
  if op == 5: return m | a
  if op == 6: return a
  if op == 7: return m if sg(m) < sg(a) else a
  if op == 8: return min(m, a)
  if op == 9: return m if sg(m) > sg(a) else a
  if op == 10: return max(m, a)
  if op == 11: return m ^ a
  raise ValueError(op)

class SeqMem:
  """the direct oracle: a sequential dict-of-bytes memory"""
  def __init__(self, image):
    self.m = {image[0] + j: b for j, b in enumerate(image[1])}
    self.events = []      # (addr, k, value) per processed request that stored, with the index of the request
  def rd(self, a, k):
    return sum(self.m.get(a + j, 0) << (8 * j) for j in range(k))
  def wr(self, a, k, v):
    for j in range(k): self.m[a + j] = (v >> (8 * j)) & 255
  def apply(self, nb, r):
    t, o, a, l, d = r
    k = l if l else nb
    if t == 0: return [0, o, 0, l, self.rd(a, k)], None
    if t == 1:
      self.wr(a, k, d); return [1, o, 0, 0, 0], (a, k, d & ((1 << (8 * k)) - 1))
    old = self.rd(a, k)
    new = amo_py(8 * k, t, old, d)
    self.wr(a, k, new)
    return [t, o, 0, l, old], (a, k, new)

def oracle(nb, image, log):
  """log: list of [port, req]. Returns (responses per log entry, events per entry, memory)."""
  sm = SeqMem(image)
  resps, evs = [], []
  for p, r in log:
    x, e = sm.apply(nb, r)
    resps.append(x); evs.append(e)
  return resps, evs, sm

def latest_byte(image, evs, upto, b):
  """literal reading of the property: the byte at address b stored by the latest of evs[:upto] covering b"""
  for e in reversed(evs[:upto]):
    if e is not None and e[0] <= b < e[0] + e[1]:
      return (e[2] >> (8 * (b - e[0]))) & 255
  j = b - image[0]
  return image[1][j] if 0 <= j < len(image[1]) else 0

#-------------------------------------------------------------------------
# generation
#-------------------------------------------------------------------------

def rand_data(rng, w):
  r = rng.random()
  M = (1 << w) - 1
  if r < 0.35: return rng.choice([0, 1, M, M - 1, 1 << (w - 1), (1 << (w - 1)) - 1, (1 << (w - 1)) + 1, 0x80, 0xff, 0x7f])  & M
  return rng.getrandbits(w)

def gen_req(rng, dbits, base, win):
  nb = dbits >> 3
  r = rng.random()
  if r < 0.36: t = 0
  elif r < 0.70: t = 1
  else: t = rng.randint(3, 11)
  if t >= 3:
    l = 0; k = nb
  else:
    l = rng.randrange(nb); k = l if l else nb
  a = base + rng.randint(0, max(0, win - k))
  d = rand_data(rng, dbits) if t else 0
  return [t, rng.randint(0, 255), a, l, d]

def gen_timing(rng, kind, n):
  return dict(stall_prob=rng.choice([0, .2, .5, .8]),
              stall_seed=[i if rng.random() < 0.3 else rng.randrange(1 << 30) for i in range(n)],   # CL only
              latency=rng.randint(0, 6) if kind == 'cl' else rng.randint(0, 4),
              src_init=[rng.choice([0, 0, 1, 2, 3, 5, 9]) for _ in range(n)],
              src_intv=[rng.choice([0, 0, 0, 1, 2, 4]) for _ in range(n)],
              sink_init=[rng.choice([0, 0, 1, 3, 6, 11]) for _ in range(n)],
              sink_intv=[rng.choice([0, 0, 0, 1, 2, 5]) for _ in range(n)])

def gen_case(rng, kind, tier):
  n = rng.choice([1, 2, 2, 3, 3] + ([4] if tier == 'thorough' else []))
  dbits = rng.choice([32] * 8 + [16, 64])
  nb = dbits >> 3
  win = 12 if nb <= 4 else 20
  mode = 'single' if n == 1 else rng.choice(['shared', 'shared', 'disjoint'])
  base = rng.choice([0x0, 0x1000, 0x2004, 0xff00 - 64, rng.randrange(0, 0xfe00)])
  stride = win + rng.choice([0, 4, 20])
  maxlen = 14 if tier == 'quick' else 22
  reqs = []
  for i in range(n):
    b = base + (stride * i if mode == 'disjoint' else 0)
    reqs.append([gen_req(rng, dbits, b, win) for _ in range(rng.randint(0, maxlen))])
  span = win + stride * (n - 1) + 4
  image = [base, [rng.getrandbits(8) if rng.random() < 0.8 else 0 for _ in range(span)]]
  t1 = gen_timing(rng, kind, n); t2 = gen_timing(rng, kind, n)
  return dict(kind=kind, nports=n, dbits=dbits, mode=mode, reqs=reqs, image=image, dump=[base, span], t1=t1, t2=t2)

def cfg_of(c, t):
  d = dict(nports=c['nports'], dbits=c['dbits'], reqs=c['reqs'])
  d.update(t)
  return d

#-------------------------------------------------------------------------
# evaluation of one system run
#-------------------------------------------------------------------------

def seq_line(c, log):
  return leanio.line('mem', 'seq', c['dbits'] >> 3, [[c['image'][0]] + c['image'][1]],
                     [[p] + r for p, r in log], c['dump'])

def sys_line(c, t, env):
  return leanio.line('mem', c['kind'], c['nports'], c['dbits'] >> 3, t['latency'], [[c['image'][0]] + c['image'][1]],
                     c['reqs'], env, c['dump'])

def check_run(ck, c, tname, R):
  """direct oracle on one real run. Returns (ok, per-port response contents)."""
  n, nb = c['nports'], c['dbits'] >> 3
  case = {'case': c, 'timing': tname}
  sig = {'kind': c['kind']}
  log = [[p, r] for (_, p, r) in R.log]
  got = [[x for (_, x) in R.deliv[i]] for i in range(n)]
  if R.timeout:
    ck.violation('no-completion', sig, case, {'cycles': R.cycles, 'processed': len(log), 'received': [len(g) for g in got],
                                              'oracle': 'all sources and sinks done within 3000 cycles'})
    return False, got
  ok = True
  # each port's processed requests are its request stream, in order
  for i in range(n):
    mine = [r for p, r in log if p == i]
    if mine != c['reqs'][i]:
      ck.violation('processed-not-request-stream', sig, case, {'port': i, 'processed': mine, 'requests': c['reqs'][i]}); ok = False
  if any(not (0 <= p < n) for p, _ in log):
    ck.violation('bad-port', sig, case, {'log': log}); ok = False
  resps, evs, sm = oracle(nb, c['image'], log)
  for i in range(n):
    want = [x for (p, _), x in zip(log, resps) if p == i]
    if got[i] != want:
      ck.violation('response-mismatch', dict(sig, what='responses'), case,
                   {'port': i, 'impl': got[i], 'oracle': want, 'log': log}); ok = False
    # type / opaque echo, in request order
    if [(x[0], x[1]) for x in got[i]] != [(r[0], r[1]) for r in c['reqs'][i]]:
      ck.violation('echo-mismatch', dict(sig, what='echo'), case, {'port': i, 'impl': got[i], 'requests': c['reqs'][i]}); ok = False
  # every byte returned by a read / AMO is the latest earlier store covering it (literal search)
  if ok:
    pos = [0] * n
    for idx, (p, r) in enumerate(log):
      x = got[p][pos[p]]; pos[p] += 1
      if r[0] != 1:
        k = r[3] if r[3] else nb
        for j in range(k):
          if (x[4] >> (8 * j)) & 255 != latest_byte(c['image'], evs, idx, r[2] + j):
            ck.violation('not-latest-write', dict(sig, what='latest'), case, {'index': idx, 'req': r, 'resp': x, 'byte': j}); ok = False
        if x[4] >> (8 * k):
          ck.violation('not-latest-write', dict(sig, what='high-bytes'), case, {'index': idx, 'req': r, 'resp': x}); ok = False
  want_img = [sm.m.get(c['dump'][0] + j, 0) for j in range(c['dump'][1])]
  if R.image != want_img:
    ck.violation('image-mismatch', dict(sig, what='image'), case, {'impl': R.image, 'oracle': want_img, 'log': log}); ok = False
  return ok, got

def compare_model(ck, c, tname, t, R, seq_reply, sys_reply):
  n = c['nports']
  case = {'case': c, 'timing': tname}
  impl_resp = [[x for (_, x) in R.deliv[i]] for i in range(n)]
  s = leanio.parse_sexp(seq_reply)
  m_resp = [[] for _ in range(n)]
  for e in s[0]:
    v = [int(x) for x in e]
    m_resp[v[0]].append(v[1:])
  m_img = [int(x) for x in s[1]]
  if m_resp != impl_resp or m_img != R.image:
    ck.disagreement(f'seqSpec≈{c["kind"]} memory on the recorded processing order', case,
                    {'responses': m_resp, 'image': m_img}, {'responses': impl_resp, 'image': R.image})
  y = leanio.parse_sexp(sys_reply)
  m_log = [[int(a), int(b)] for a, b in y[0]]
  m_del = [[[int(v) for v in e] for e in port] for port in y[1]]
  m_img2 = [int(x) for x in y[2]]
  m_left = [int(x) for x in y[3]]
  i_log = [[cyc, p] for (cyc, p, _) in R.log]
  i_del = [[[cyc] + x for (cyc, x) in R.deliv[i]] for i in range(n)]
  if m_log != i_log or m_del != i_del or m_img2 != R.image or any(m_left):
    ck.disagreement(f'{c["kind"].upper()} system model≈real system (processing order, cycles, deliveries)', case,
                    {'log': m_log, 'deliveries': m_del, 'image': m_img2, 'left': m_left},
                    {'log': i_log, 'deliveries': i_del, 'image': R.image})

def nontrivial(c, R):
  nb = c['dbits'] >> 3
  stored = set()
  for (_, p, r) in R.log:
    k = r[3] if r[3] else nb
    span = set(range(r[2], r[2] + k))
    if r[0] != 1 and span & stored: return True
    if r[0] != 0: stored |= span
  return False

def run_systems(ck, kind, count):
  rng = ck.rng
  pend = []
  for _ in range(count):
    c = gen_case(rng, kind, ck.tier)
    runs = []
    for tname in ('t1', 't2'):
      t = c[tname]
      R = U.run_system(kind, cfg_of(c, t), c['image'], c['dump'])
      ok, got = check_run(ck, c, tname, R)
      runs.append((tname, t, R, ok, got))
      ck.hist(kind + ' latency', t['latency']); ck.hist(kind + ' stall_prob', t['stall_prob'])
    ck.count(c, nontrivial(c, runs[0][2]))
    ck.hist(kind + ' ports', c['nports']); ck.hist(kind + ' mode', c['mode']); ck.hist('dbits', c['dbits'])
    ck.hist(kind + ' requests', min(60, 10 * (sum(len(r) for r in c['reqs']) // 10)))
    # timing must not change contents: comparable across configurations when the order cannot matter
    (_, _, R1, ok1, g1), (_, _, R2, ok2, g2) = runs
    if c['mode'] in ('single', 'disjoint') and not R1.timeout and not R2.timeout:
      if g1 != g2 or R1.image != R2.image:
        ck.violation('timing-changed-contents', {'kind': kind, 'what': 'two-timings'}, {'case': c, 'timing': 't1+t2'},
                     {'t1': g1, 't2': g2, 'image1': R1.image, 'image2': R2.image})
    if c['mode'] == 'shared' and [(p) for (_, p, _) in R1.log] != [(p) for (_, p, _) in R2.log]:
      ck.hist(kind + ' interleaving differs between timings', 'yes')
    for (tname, t, R, ok, got) in runs:
      if not R.timeout:
        pend.append((c, tname, t, R))
    if len(ck.violations) > 20: break
  lines = []
  for (c, tname, t, R) in pend:
    lines.append(seq_line(c, [[p, r] for (_, p, r) in R.log]))
    lines.append(sys_line(c, t, R.env))
  out = ck.drv('mem').batch(lines)
  for k, (c, tname, t, R) in enumerate(pend):
    compare_model(ck, c, tname, t, R, out[2 * k], out[2 * k + 1])

#-------------------------------------------------------------------------
# MagicMemoryFL by direct calls, AMO_FUNS
#-------------------------------------------------------------------------

def run_fl(ck, count):
  rng = ck.rng
  cases, impl = [], []
  for _ in range(count):
    dbits = rng.choice([32] * 6 + [16, 64, 128])
    nb = dbits >> 3
    win = 3 * nb
    base = rng.choice([0, 0x1000, rng.randrange(0, 0xfe00)])
    reqs = [gen_req(rng, dbits, base, win) for _ in range(rng.randint(1, 30))]
    image = [base, [rng.getrandbits(8) for _ in range(win)]]
    c = dict(kind='fl', dbits=dbits, reqs=reqs, image=image, dump=[base, win], nports=1)
    try:
      resps, img = U.run_fl(dbits, image, c['dump'], reqs)
    except Exception as e:
      ck.violation('fl-exception', {'kind': 'fl'}, {'case': c}, {'exception': repr(e)}); continue
    log = [[0, r] for r in reqs]
    want, evs, sm = oracle(nb, image, log)
    want_img = [sm.m.get(base + j, 0) for j in range(win)]
    ck.count(c, True); ck.hist('fl dbits', dbits)
    if resps != want or img != want_img:
      ck.violation('fl-mismatch', {'kind': 'fl'}, {'case': c}, {'impl': resps, 'oracle': want, 'impl_image': img, 'oracle_image': want_img})
      continue
    cases.append(c); impl.append((resps, img))
  out = ck.drv('mem').batch([seq_line(c, [[0, r] for r in c['reqs']]) for c in cases])
  for c, (resps, img), rep in zip(cases, impl, out):
    s = leanio.parse_sexp(rep)
    m_resp = [[int(x) for x in e][1:] for e in s[0]]
    m_img = [int(x) for x in s[1]]
    if m_resp != resps or m_img != img:
      ck.disagreement('seqSpec≈MagicMemoryFL direct calls', {'case': c}, {'responses': m_resp, 'image': m_img}, {'responses': resps, 'image': img})

def run_amo(ck, count):
  from pymtl3 import mk_bits
  from pymtl3.stdlib.mem.MagicMemoryFL import AMO_FUNS
  rng = ck.rng
  cs = []
  for _ in range(count):
    w = rng.choice([16, 32, 32, 64, 128])
    cs.append([w, rng.randint(3, 11), rand_data(rng, w), rand_data(rng, w)])
  out = ck.drv('mem').batch([leanio.line('mem', 'amo', *c) for c in cs])
  for c, rep in zip(cs, out):
    w, op, m, a = c
    T = mk_bits(w)
    impl = int(AMO_FUNS[op](T(m), T(a)))
    ck.count(['amo'] + c, True); ck.hist('amo op', op)
    if impl != amo_py(w, op, m, a):
      ck.violation('amo-mismatch', {'kind': 'amo', 'op': op}, {'case': ['amo'] + c}, {'impl': impl, 'oracle': amo_py(w, op, m, a)})
    elif int(rep) != impl:
      ck.disagreement('amoFun≈AMO_FUNS', {'case': ['amo'] + c}, int(rep), impl)

def observe_subword_amo(ck):
  """scope note of the design: what a sub-word AMO does today (an observation, not a verdict)"""
  from pymtl3 import mk_bits
  from pymtl3.stdlib.mem.MagicMemoryFL import MagicMemoryFL
  fl = MagicMemoryFL(1 << 8); fl.elaborate()
  obs = {}
  for op in range(3, 12):
    try:
      r = fl.amo(mk_bits(4)(op), mk_bits(32)(16), 2, mk_bits(32)(0x80000001))
      obs[op] = f'returns Bits{r.nbits}'
    except Exception as e:
      obs[op] = type(e).__name__
  ck.extra_cov['observation_subword_amo'] = obs

def run(ck):
  q = ck.tier == 'quick'
  observe_subword_amo(ck)
  run_amo(ck, 3000 if q else 60000)
  run_fl(ck, 1500 if q else 30000)
  nsys = 800 if q else 7000
  for kind in ('cl', 'rtl'):
    done = 0
    while done < nsys and len(ck.violations) <= 20:
      k = min(400, nsys - done)
      run_systems(ck, kind, k)
      done += k

def replay(ck, data):
  cc = data['case']
  if cc is None:
    print('no concrete case recorded'); return 1
  c = cc['case']
  if isinstance(c, list):      # amo
    w, op, m, a = c[1:]
    from pymtl3 import mk_bits
    from pymtl3.stdlib.mem.MagicMemoryFL import AMO_FUNS
    impl = int(AMO_FUNS[op](mk_bits(w)(m), mk_bits(w)(a)))
    rep = ck.drv('mem').batch([leanio.line('mem', 'amo', w, op, m, a)])[0]
    print(f'case={c}\nmodel={rep}\nimpl={impl}\noracle={amo_py(w, op, m, a)}')
    return 0 if impl == amo_py(w, op, m, a) else 1
  if c['kind'] == 'fl':
    resps, img = U.run_fl(c['dbits'], c['image'], c['dump'], c['reqs'])
    log = [[0, r] for r in c['reqs']]
    want, evs, sm = oracle(c['dbits'] >> 3, c['image'], log)
    rep = ck.drv('mem').batch([seq_line(c, log)])[0]
    print(f'case={c}\nmodel={rep}\nimpl={resps} {img}\noracle={want}')
    return 0 if resps == want else 1
  bad = 0
  for tname in ('t1', 't2'):
    if cc.get('timing') not in (tname, 't1+t2'): continue
    t = c[tname]
    R = U.run_system(c['kind'], cfg_of(c, t), c['image'], c['dump'])
    n0 = len(ck.violations)
    check_run(ck, c, tname, R)
    log = [[p, r] for (_, p, r) in R.log]
    out = ck.drv('mem').batch([seq_line(c, log), sys_line(c, t, R.env)])
    print(f'--- {tname}: {t}\nimpl log (cycle, port, req)={R.log}\nimpl deliveries={R.deliv}\nimpl image={R.image}')
    print(f'model seqSpec={out[0]}\nmodel system={out[1]}')
    for v in ck.violations[n0:]:
      print(f'ORACLE: {v.kind} {v.detail}'); bad = 1
  return bad
