"""C03 — translated SystemVerilog behaves exactly like the PyMTL simulation.

proof:          lean/PymtlVerif/Props/C03.lean (expr_correct, ref_correct, stmt_correct, stmt_sim, commit_append,
                singleDriver_sound, design_fixpoint_unique, …) over Model/SV.lean, Model/SVMod.lean, Model/VTr.lean
correspondence: generated translatable component hierarchies -> VerilogTranslationPass -> emitted text ->
                c03_svparse (IEEE 1800-2017 grammar) -> Lean two-state semantics of the parsed text (pv_sv):
                (1) single driver / undriven / well-formedness of the elaborated text,
                (2) cycle-by-cycle output comparison with the PyMTL simulation (DefaultPassGroup),
                (3) per update block: parsed text vs `VTr.trStmt` applied to the real type-checked RTLIR, on sampled stores.
direct oracle:  (2): an output mismatch (design, inputs, cycle, port) between the Lean-evaluated *parsed real text* and
                the real PyMTL simulation is a failing input of the property whatever the model's `tr` says; syntax
                errors are judged by the parser written from IEEE 1800-2017 Annex A; loop headers are re-read in Python.
"""
from . import c03_gen as G
from . import c03_util as U
from . import c03_corpus as K
from . import c03_sconn as SC
from . import c03_sdecl as SD

PID = 'C03'
DRIVERS = ['sv']
MODULE = 'PymtlVerif.Props.C03'
THEOREMS = ['PV.C03.' + t for t in [
  'expr_correct', 'ref_correct', 'rhs_correct', 'stmt_correct', 'stmt_sim', 'for_unrolls', 'nonblocking_last_wins',
  'commit_in_order', 'singleDriver_sound', 'singleDriver_complete', 'design_fixpoint_unique', 'design_order_independent',
  'settle_is_fixpoint']]
TRUSTED = [
  'Model/SV.lean + Model/SVMod.lean: hand-written two-state IEEE 1800-2017 semantics of the emitted subset (sizing rules of 11.6, signed / unsigned expression types of 11.8.1-11.8.2 incl. `integer` variables and the sign-preserving size cast of 6.24.1, '
  'blocking / non-blocking assignment, always_comb fixed point by bounded sweeps, always_ff as one clock domain, instances inlined); '
  'NO Verilog simulator exists in this sandbox (Verilator absent), so this semantics cannot be cross-validated here and is part of the trusted base',
  'harness/checks/c03_svparse.py: parser of the emitted subset written from IEEE 1800-2017 Annex A / Table 11-2 ("syntactically valid" means: accepted by it)',
  'Model/VTr.lean mirrors VBehavioralTranslatorL1-L3 clause by clause; tied to the real translator by comparing, per update block, the parsed real text with tr(real typed RTLIR) on sampled stores',
  'the structural translator: which connection assigns are emitted in which module and how they are oriented is modelled and proved (Model/SConn.lean, Props/C03s.lean: gen_connections + _gen_metadata); declarations, instances and the rendering of a pair into text are covered by executing the parsed text, not by a theorem',
  'harness/checks/c03_rtlir.py reads widths/constants from the real type-checked RTLIR and mangles sub-component / interface signal names as VBehavioralTranslatorL4/L5 do',
]
ASSUMPTIONS = [
  'WT (Proofs/SV.lean: WTm/WTs/WTsL) = the invariant of the RTLIR type checker (equal operand widths, literals sized to the context, RHS width = LHS width); taken as hypothesis here, C10 relates it to the type checker',
  'designs whose PyMTL simulation raises an exception (division by zero, index out of range, F4/F12 shapes) are outside the comparison',
  'placeholders / imported Verilog, no_synthesis options and line-trace hooks are out of scope',
  'single clock domain: always_ff @(posedge clk) processes are all triggered by sim_tick; x/z values do not exist (two-state)',
]
RULE = ('one PRNG -> random component hierarchies: 0-2 levels of sub-components with constructor parameters, 1-D / 2-D lists of leaf '
        'sub-components (also with different parameters), Bits / bitstruct (nested, 1-D / 2-D list fields) ports, 1-D / 2-D lists of ports and '
        'wires, interfaces and 1-D / 2-D lists of interfaces, constants (int, Bits, bitstruct, closure), temporaries, if/elif/else, constant for '
        'loops (nested, step 2, landing negative steps), whole / slice / bit / field / element targets, structural connections (whole, slices, '
        'constants, every element of a list, lambdas), slices, dynamic indices, part selects, concat/zext/sext/trunc/reduce/BitsN(), comparisons, '
        'shifts, %, if-expressions, struct re-read as bits; widths 1..64 with a 65..512 tail; 5-8 cycles of boundary-biased inputs each; '
        'regression streams for the repaired defect shapes (F13-F16, F18-F21) and labelled streams for the known findings (canonical witness '
        'first); non-trivial = translated, parsed and simulated on both sides; distinct = distinct (source text, inputs)')

# ---- begin: placement and orientation of structural connections (Model/SConn.lean, Props/C03s.lean, harness/checks/c03_sconn.py)
DRIVERS = DRIVERS + SC.DRIVERS
MODULE = [MODULE, SC.MODULE]
THEOREMS = THEOREMS + SC.THEOREMS
THEOREM_MODULE = dict(SC.THEOREM_MODULE)
TRUSTED = TRUSTED + SC.TRUSTED
ASSUMPTIONS = ASSUMPTIONS + SC.ASSUMPTIONS
RULE = RULE + '; ' + SC.RULE
# ---- end

# ---- begin: declarations, instances and operand rendering of the structural translators (Model/SDecl.lean, Props/C03d.lean, harness/checks/c03_sdecl.py)
DRIVERS = DRIVERS + SD.DRIVERS
MODULE = MODULE + [SD.MODULE]
THEOREMS = THEOREMS + SD.THEOREMS
THEOREM_MODULE.update(SD.THEOREM_MODULE)
TRUSTED = TRUSTED + SD.TRUSTED
ASSUMPTIONS = ASSUMPTIONS + SD.ASSUMPTIONS
RULE = RULE + '; ' + SD.RULE
# ---- end

# ---- begin: signedness (Model/SV.lean `signedOf` / `evalC`): the SystemVerilog backend emits nothing signed, so the side condition
#      `signSafe` of the generic theorems is free here
THEOREMS = THEOREMS + ['PV.C03.' + t for t in ['sv_unsigned', 'signSafe_sv', 'signSafeS_sv', 'expr_correct_sv', 'stmt_sim_sv']]
ASSUMPTIONS = ASSUMPTIONS + [
  'expr_correct / ref_correct / rhs_correct / stmt_correct / stmt_sim take `signSafe be e` (no ordering comparison / remainder of two SIGNED operands) as a '
  'hypothesis: proved for every expression of the SystemVerilog backend (signSafe_sv: `int unsigned` loop variables, nothing emitted is signed), a genuine '
  'restriction for the Yosys backend only (C12)',
]
# ---- end

BE = 'verilog'

def streams(ck):
  quick = ck.tier == 'quick'
  return {'clean': 100 if quick else 1500, 'clean_c12': 66 if quick else 1000, 'finding_each': 3 if quick else 12, 'ncycles': 5 if quick else 8,
          'nstores': 6 if quick else 16, 'batch': 24}

def run(ck):
  import random
  cfg = streams(ck)
  stats = {}
  rng = ck.rng
  # ---- corpus: hand-written designs and the witnesses of repaired defects
  corpus = [dict(d) for d in K.CORPUS if BE in d.get('backends', ('verilog', 'yosys'))]
  for fid, bes in G.FIXED_STREAMS.items():           # shapes of repaired defects (F15, F16, F16b, F18, F19): clean now
    if BE in bes:
      for k in range(cfg['finding_each']): corpus.append(G.gen_fixed(random.Random(rng.getrandbits(64)), BE, fid))
  # ---- histories: several instances of one class elaborated in one process before each is translated (repaired F41)
  for k in range(cfg['finding_each'] + 1): corpus += G.gen_history(random.Random(rng.getrandbits(64)), BE)
  U.run_batch(ck, BE, corpus, stats, cfg['ncycles'] + 2, cfg['nstores'])
  # ---- labelled streams of the known findings
  fd = [dict(w) for w in K.WITNESSES if BE in w['backends']]      # canonical witnesses first, then randomised instances
  # (pending streams run once their finding is registered for this property in known_findings.json)
  streams_ = dict(G.FINDING_STREAMS)
  streams_.update({f: v for f, v in G.PENDING_STREAMS.items() if G.registered(f, PID)})
  for fid, (bes, _) in streams_.items():
    if BE not in bes: continue
    for k in range(cfg['finding_each']):
      fd.append(G.gen_finding(random.Random(rng.getrandbits(64)), BE, fid))
  U.run_batch(ck, BE, fd, stats, cfg['ncycles'], 2, tie=False)
  # ---- the clean stream
  done = 0
  while done < cfg['clean']:
    n = min(cfg['batch'], cfg['clean'] - done)
    batch = [G.gen_clean(random.Random(rng.getrandbits(64)), BE, {'wide': True}) for _ in range(n)]
    U.run_batch(ck, BE, batch, stats, cfg['ncycles'], cfg['nstores'])
    done += n
    if len([v for v in ck.violations if not str(v.signature.get('finding', 'none')).startswith('F')]) > 40: break
    if ck.tier == 'quick' and ck.elapsed() > 75: break
  ck.extra_cov['pipeline'] = stats
  ck.extra_cov['designs'] = {'corpus': len(corpus), 'finding_streams': len(fd), 'clean': done}
  SC.run(ck)   # last, so that the PRNG streams above do not move: structural hierarchies vs Model/SConn (gen_connections / _gen_metadata)
  SD.run(ck, BE)   # declarations / instances / operand rendering vs Model/SDecl

def replay(ck, data):
  case = data['case']
  if case and case.get('sconn'): return SC.replay(ck, data)
  if case and case.get('sdecl'): return SD.replay(ck, data)
  if case is None:
    print('no concrete case recorded (proof / correspondence break without failing input)'); return 1
  if 'src' not in case:
    print('replay needs the source text of the design'); return 1
  d = {'src': case['src'], 'label': case.get('label', 'replay'), 'cycles': case.get('cycles'), 'features': []}
  if case.get('history'): d['history'], d['pick'] = case['history'], case['pick']
  if case.get('aux'): d['aux'] = case['aux']          # further generated modules the design imports ({AUX0} ...)
  if d['cycles'] is None: d.pop('cycles')      # (a 'sim_src' entry of older replay files is ignored: the design is simulated as written)
  stats = {}
  be = case.get('backend', BE)
  jobs = U.run_batch(ck, be, [d], stats, 6, 8, keep=True)
  j = jobs[0]
  print('design:\n' + d['src'])
  print('stage:', j.stage, j.info if j.stage != 'ok' else '')
  if j.text: print('emitted text:\n' + '\n'.join(l for l in j.text.split('\n') if l.strip() and not l.strip().startswith('//')))
  for v in ck.violations: print('VIOLATION', v.kind, v.signature, v.detail)
  for b in ck.breaks: print('DISAGREEMENT', b['correspondence'], b['model'], b['impl'])
  return 1 if ck.violations else 0
