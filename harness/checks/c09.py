"""C09 — structurally illegal designs are always rejected at elaboration.

proof:          lean/PymtlVerif/Props/C09.lean (model: Model/Nets.lean, `elaborate`)
correspondence: exception class of top.elaborate() (message ignored, except the `[Type k]` tag of SignalTypeError) for legal
                designs, designs with exactly one injected defect, designs with several defects (ok/error only) and exhaustive
                small tables (port directions, operators, pairs of written objects), each under several statement orders,
                vs the verdict of the model
direct oracle:  c08_gen.oracle — operators, cycle in the merged connection graph (union-find), driver sets per signal *bit*
                (real packed positions), nets without a source, legal data flows — plus the class the injected defect calls for
"""
import re

from ..common import leanio
from ..common.leanio import InfraError
from . import c08_gen as g
from . import c09_place

PID = 'C09'
DRIVERS = ['nets']
MODULE = 'PymtlVerif.Props.C09'
THEOREMS = ['PV.C09.' + t for t in [
  'related_iff_overlap', 'overlap_spec', 'upblk_writes_iff', 'upblk_writes_iff_rel', 'multi_writer_iff', 'no_writer_iff',
  'loop_iff', 'floodfill_cycle', 'floodfill_cycle_any_order', 'hasCycle_order_free', 'loop_edge_set', 'self_loop', 'dup_is_no_loop', 'verdict_iff', 'verdict_class',
  'legal_accepted', 'order_invariant_perm', 'order_invariant_flip', 'op_table', 'op_errors_iff', 'port_upblk_table',
  'port_upblk_iff', 'port_net_table', 'port_walk_spec', 'helpers_reached', 'helpers_flatten_writes', 'helpers_verdict',
  'helpers_wf', 'wf_checked']]
TRUSTED = [
  '@s.func helpers: the model folds the reads/writes of every function a block reaches into the block (HDesign.flatten; reach closure proved: '
  'helpers_reached, helpers_flatten_writes) and raises InvalidFuncCallError on a call cycle reachable from a block; the harness oracle computes the '
  'call-graph closure on its own. pymtl3 applies no operator rule inside helper functions (an `=` or `<<=` there is accepted; observed, not generated), '
  'and update_ff blocks calling writing helpers are not generated',
  'Model/Nets.lean `elaborate`: the stages of Component.elaborate() written from ComponentLevel2/3 (after fix: cb61d3c, 87007f6, be47852)',
  'proved equivalences: related<->shared bit, _check_upblk_writes<->two block drivers of a bit, writer resolution<->two/no outside-driven members '
  '(least-fixed-point spec), the pred-based flood-fill stack machine<->cycle in the merged connection graph for every iteration order, verdict<->defect, '
  'invariance under order/side of connects',
  'the walk of _check_port_in_nets is specified (port_walk_spec: one connection per non-writer member, oriented away from the writer); '
  'modelled decision tables compared by correspondence only: operator rules, port directions Types 1-9 and loop-back rule',
  'independence from the order of update blocks / of writes inside blocks and from Python set iteration order: by correspondence over orders',
]
ASSUMPTIONS = [
  'same design space as C08 (no interfaces / method ports / Placeholder) for the net / port / multi-writer streams, operators =, @=, <<= and for targets there; '
  'lists of signals, every augmented operator and non-constant part selects are covered by the operator-placement stream (c09_place.py)',
  'quirk kept: the same pair connected twice (either orientation) is merged by the adjacency sets and is not a loop (PV.C09.dup_is_no_loop)',
  'multi-defect designs are compared on accepted/rejected only',
]
RULE = ('legal designs (C08 generator); exactly one injected defect out of 46 kinds (two blocks / block vs net / field vs parent / overlapping slices / '
        'slice vs whole / two constants / constant vs block / two blocks reaching one signal-writing @s.func helper (directly or through different intermediate helpers) / helper write vs direct write / helper write vs net / call cycle between helpers / second driver on a deep part of a struct that one block writes whole and overrides two levels down / headless net / self connection / cycle of 3+ / each port rule Type 1-9 and loop-back, Types 5/7/9 also with a constant (int or Bits, either argument order, //= or connect) as the driver / '
        'wrong operator (=, @=, <<=, for-loop target) in update and update_ff, also as a second write to an object the same block already wrote legally, in either statement order / <<= on slice or field) at a random hierarchy position, plus the duplicated-connection quirk; 2-3 defects; '
        'a history family (one class whose construct parameter selects the expression of a `//= lambda` connection, legal and illegal variants for Types 1-4 / multi-writer / no-writer, every order of elaborating the variants in one process: the verdict must be that of the design itself); exhaustive tables; each under K statement orders with side flips; case = (design, order); non-trivial = design has a defect or at least two '
        'user nets; distinct = canonical JSON')

# ---- begin: translator-based tie of the slice-overlap test (tools/py2lean_overlap.py regenerates Gen/OverlapGen.lean from
# pymtl3/dsl/Connectable.py before the build; Props/C09Gen.lean proves generated `_overlap` = `Nets.overlap` of the model)
MODULE = [MODULE, 'PymtlVerif.Props.C09Gen']
THEOREMS = THEOREMS + ['PV.C09Gen.gen_overlap_eq_nets']
THEOREM_MODULE = {'PV.C09Gen.gen_overlap_eq_nets': 'PymtlVerif.Props.C09Gen'}
TRUSTED = TRUSTED + ['tools/py2lean_overlap.py (translator, same core and trusted subset as tools/py2lean_bits.py): `_overlap` of Connectable.py is regenerated as Gen/OverlapGen.lean on every run and proved equal to the model\'s Nets.overlap on (lo, hi) pairs (no hypothesis)']
def pregen(ck):
  import importlib.util, os
  path = os.path.join(leanio.VERIF, 'tools', 'py2lean_overlap.py')
  spec = importlib.util.spec_from_file_location('py2lean_overlap', path)
  mod = importlib.util.module_from_spec(spec); spec.loader.exec_module(mod)
  return mod.pregen()
# ---- end: translator-based tie

# ---- begin: operator-placement stream (c09_place.py; Model/Place.lean, Props/C09p.lean): target shape x operator x block kind x helper,
# names bound in the block vs module-level names, accepted writes simulated
DRIVERS = DRIVERS + c09_place.DRIVERS
MODULE = MODULE + [c09_place.MODULE]
THEOREMS = THEOREMS + c09_place.THEOREMS
THEOREM_MODULE.update({t: c09_place.MODULE for t in c09_place.THEOREMS})
TRUSTED = TRUSTED + c09_place.TRUSTED
RULE = RULE + '; ' + c09_place.RULE
# ---- end: operator-placement stream

CLASSES = {'UpdateBlockWriteError', 'UpdateFFBlockWriteError', 'UpdateFFNonTopLevelSignalError', 'InvalidConnectionError',
           'MultiWriterError', 'NoWriterError', 'SignalTypeError', 'InvalidFuncCallError'}

def parse_reply(rep):
  return {x[0]: x[1:] for x in leanio.parse_sexp(rep)}

def model_verdict(m):
  classes = sorted({e.split(':')[0] for e in m['errs']})
  types = sorted({e.split(':')[1] for e in m['errs'] if ':' in e})
  return classes, types

def model_lines(d, variants):
  return [d.model_line(conn_order=d.conn_order_of(var), flips=var['flips'])[1] for var in variants]

class Pending:
  """designs waiting for the model: one driver process per chunk instead of one per design"""
  def __init__(self, ck, limit=150):
    self.ck, self.limit, self.items = ck, limit, []
  def add(self, d, variants, stream, **kw):
    self.items.append((d, variants, stream, kw))
    if len(self.items) >= self.limit: self.flush()
  def flush(self):
    if not self.items: return
    lines, spans = [], []
    for (d, variants, stream, kw) in self.items:
      ls = model_lines(d, variants); spans.append((len(lines), len(lines) + len(ls))); lines += ls
    reps = self.ck.drv('nets').batch(lines)
    for (d, variants, stream, kw), (a, b) in zip(self.items, spans):
      run_design(self.ck, d, variants, stream, reps=reps[a:b], **kw)
    self.items = []

def run_design(ck, d, variants, stream, expect=None, exact=True, extra_instances=0, reps=None):
  """expect: None = take the oracle's word; (cls, typ) = class the injected defect calls for ('ok' = accepted).
  exact=False: compare accepted/rejected only."""
  dj = g.design_to_json(d)
  objs = d.all_objects()
  if reps is None: reps = ck.drv('nets').batch(model_lines(d, variants))
  parsed = [parse_reply(r) for r in reps]
  for vi in range(1, len(reps)):
    if parsed[vi] != parsed[0]:
      ck.disagreement('model-order-dependence', {'design': dj, 'variant': g.variant_to_json(variants[vi]), 'stream': stream}, reps[0], reps[vi])
  m = parsed[0]
  if m['loop'] != m['ffloop']:
    ck.disagreement('model-loop-tests-differ', {'design': dj, 'variant': g.variant_to_json(variants[0]), 'stream': stream}, m['loop'], m['ffloop'])
  mcls, mtyp = model_verdict(m)
  res = g.oracle(d)
  ocls = g.expected_class(res) or ['ok']
  if expect is not None:
    ecls, etyp = expect
    if exact and [ecls] != ocls:
      raise InfraError(f'C09 generator: injected defect {d.labels} calls for {ecls} but the bit-level oracle says {ocls} ({res})\n{d.source(variants[:1])}')
  else:
    ecls, etyp = (ocls[0] if len(ocls) == 1 else None), None
  mod = g.load_module(ck.workdir, d, variants)
  seen = []
  try:
    runs = [(vi, var) for vi, var in enumerate(variants)] + [(0, variants[0])] * extra_instances
    for vi, var in runs:
      case = {'design': dj, 'variant': g.variant_to_json(var), 'stream': stream, 'defects': [l[0] for l in d.labels]}
      ck.count(case, bool(d.labels) or len(d.netinfo) >= 2)
      top, exc, msg = g.elaborate(mod, d, vi)
      real = exc or 'ok'
      t = re.search(r'\[Type (\d)\]', msg)
      rtyp = t.group(1) if t else None
      src = d.source([var])
      sig = {'stream': stream, 'defect': d.labels[0][0].split(':')[0] if d.labels else 'none'}
      # ---- direct oracle on the implementation's verdict
      if res['legal'] and real != 'ok':
        ck.violation('legal-design-rejected', dict(sig, exc=real), case, {'exception': real, 'message': msg[:600], 'source': src})
      elif not res['legal'] and real == 'ok':
        ck.violation('illegal-design-accepted', sig, case, {'oracle': {k: sorted(map(str, v)) if isinstance(v, set) else v for k, v in res.items() if k != 'nets'}, 'source': src})
      elif not res['legal'] and exact and ecls is not None and real != ecls:
        ck.violation('wrong-error-class', dict(sig, got=real), case, {'expected': ecls, 'exception': real, 'message': msg[:600], 'source': src})
      elif real != 'ok' and real not in CLASSES:
        ck.violation('wrong-error-class', dict(sig, got=real), case, {'expected': ocls, 'exception': real, 'message': msg[:600], 'source': src})
      seen.append(real)
      if exact and seen[0] != real:
        ck.violation('order-dependent-verdict', sig, case, {'first_order': seen[0], 'this_order': real, 'source': src})
      if not exact and (seen[0] == 'ok') != (real == 'ok'):
        ck.violation('order-dependent-verdict', sig, case, {'first_order': seen[0], 'this_order': real, 'source': src})
      # ---- model second
      if exact:
        if (mcls or ['ok']) != [real] and not (len(mcls) > 1 and real in mcls):
          ck.disagreement('verdict-class', case, {'stage': m['stage'], 'errs': m['errs']}, {'exception': real, 'message': msg[:300]})
        elif real == 'SignalTypeError' and len(mtyp) == 1 and [rtyp] != mtyp:
          ck.disagreement('signal-type-number', case, m['errs'], {'type': rtyp, 'message': msg[:300]})
        if etyp is not None and rtyp != str(etyp):
          ck.violation('wrong-error-class', dict(sig, got=f'Type{rtyp}'), case, {'expected_type': etyp, 'message': msg[:600], 'source': src})
      else:
        if bool(mcls) != (real != 'ok'):
          ck.disagreement('accepted-or-rejected', case, {'stage': m['stage'], 'errs': m['errs']}, {'exception': real})
      if real == 'ok':
        # accepted designs: nets and writers as in C08
        rn = g.real_nets(top)
        mn = sorted((d.orepr(objs[int(n[0])]), sorted(d.orepr(objs[int(x)]) for x in n[1:])) for n in m['headed'])
        if rn != mn: ck.disagreement('nets-and-writers', case, mn, rn)
      ck.hist('verdict', real + (f':{rtyp}' if rtyp else ''))
  finally:
    g.unload_module(mod)
  ck.hist('stream', stream)
  ck.hist('model_stage', m['stage'][0])
  ck.hist('components', len(d.comps))
  for l in d.labels: ck.hist('defect', l[0].split(':')[0])
  for t in d.tags: ck.hist('directed_shape', t)
  ck.hist('slices_written_as_slice_of_slice', min(len(d.nest), 8))

def run_history(ck, ds, family):
  """one class, K parameter values = K designs; every order of elaborating them in this process (a fresh copy of the class
  per order): the verdict of a design must not depend on what was elaborated before it"""
  import itertools
  K = len(ds)
  orders = list(itertools.permutations(range(K)))
  reps = ck.drv('nets').batch([d.model_line()[1] for d in ds])
  ms = [parse_reply(r) for r in reps]
  ress = [g.oracle(d) for d in ds]
  d0 = ds[0]
  ident = d0.variant_orders(ck.rng, identity=True)
  mod = g.load_module(ck.workdir, d0, [ident] * len(orders))
  first = {}
  try:
    for vi, order in enumerate(orders):
      for pos, p in enumerate(order):
        d, m, res = ds[p], ms[p], ress[p]
        case = {'design': g.design_to_json(d), 'variant': g.variant_to_json(ident), 'stream': 'history', 'family': family,
                'history': [list(ds[q].hist[q]) if False else q for q in order[:pos]], 'param': p, 'defects': []}
        ck.count(case, True)
        top, exc, msg = g.elaborate_with(mod, d0, vi, p)
        real = exc or 'ok'
        ocls = g.expected_class(res) or ['ok']
        src = d0.source([ident])
        sig = {'stream': 'history', 'family': family}
        detail = {'param': p, 'elaborated_before': list(order[:pos]), 'lambdas': [d0.lam_src(sp, 0) for sp in d0.hist],
                  'expected': ocls, 'exception': real, 'message': msg[:400], 'source': src}
        if pos == 0: first.setdefault(p, real)
        # direct oracle: the verdict is a function of the design
        if res['legal'] and real != 'ok':
          ck.violation('legal-design-rejected', dict(sig, exc=real), case, detail)
        elif not res['legal'] and real == 'ok':
          ck.violation('illegal-design-accepted', sig, case, detail)
        elif real not in ocls:
          ck.violation('wrong-error-class', dict(sig, got=real), case, detail)
        elif p in first and first[p] != real:
          ck.violation('history-dependent-verdict', sig, case, dict(detail, alone=first[p]))
        mcls, _ = model_verdict(m)
        if (mcls or ['ok']) != [real] and real not in mcls:
          ck.disagreement('verdict-class', case, {'stage': m['stage'], 'errs': m['errs']}, {'exception': real, 'message': msg[:300]})
        ck.hist('verdict', real); ck.hist('history_position', pos)
  finally:
    g.unload_module(mod)
  ck.hist('stream', 'history'); ck.hist('history_family', family)

def variants_of(d, rng, k):
  return [d.variant_orders(rng, identity=(i == 0)) for i in range(k)]

def run(ck):
  rng = ck.rng
  quick = ck.tier == 'quick'
  K = 3 if quick else 6
  pend = Pending(ck)
  # ---- legal designs
  for i in range(150 if quick else 1000):
    d1 = rng.random() < 0.3
    d = g.gen_legal(rng, d1=d1)
    pend.add(d, variants_of(d, rng, K), 'legal', extra_instances=2 if d1 else 0)
  # ---- exactly one defect
  per_kind = 8 if quick else 100
  for kind in g.INJECTORS:
    done = tries = 0
    while done < per_kind and tries < 30 * per_kind:
      tries += 1
      d = g.gen_legal(rng, levels=rng.choice([1, 2, 3, 3]), nnets=rng.randint(1, 5))
      r = g.inject(d, rng, kind)
      if r is None: continue
      done += 1
      pend.add(d, variants_of(d, rng, K), 'one-defect', expect=r)
    if done < per_kind: raise InfraError(f'C09: could not place defect {kind}')
  # ---- several defects: accepted / rejected only
  kinds = [k for k in g.INJECTORS if k != 'dup']
  for i in range(100 if quick else 1000):
    d = g.gen_legal(rng, levels=rng.choice([2, 3, 3]), nnets=rng.randint(1, 5))
    n = 0
    for kind in rng.sample(kinds, rng.randint(2, 3)):
      if g.inject(d, rng, kind) is not None: n += 1
    if n < 2: continue
    pend.add(d, variants_of(d, rng, 2 if quick else 3), 'multi-defect', exact=False)
  # ---- history: parameter-selected lambda connections, all elaboration orders in one process
  for family in ('type1', 'type2', 'type3', 'type4', 'multi', 'nowriter'):
    for _ in range(3 if quick else 40):
      run_history(ck, g.gen_history(rng, family), family)
  # ---- exhaustive small tables
  tables = [('table-port-nets', g.table_port_nets(rng) + g.table_const_ports(rng)), ('table-port-upblk', g.table_port_upblk(rng)), ('table-ops', g.table_ops(rng))]
  pairs = g.table_write_pairs(rng, ('b', 4)) + g.table_write_pairs(rng, ('s', 'PB'))
  if quick: pairs = rng.sample(pairs, 120)
  tables.append(('table-write-pairs', pairs))
  for name, ds in tables:
    for d in ds:
      pend.add(d, variants_of(d, rng, 2), name)
  pend.flush()
  c09_place.run(ck, 'C09')
  ck.extra_cov['exhaustive'] = not quick
  ck.extra_cov['exhaustive_tables'] = ('port directions over nets: 11 host relations x 3 x 3 kinds (+ loop-back at the parent), and a constant driver: 6 (connecting component, component of the tied signal) pairs x 3 kinds x whole/part; ports in update blocks: 5 host pairs x 3 kinds x '
    'read/write; operators: 2 block kinds x 4 operators (=, @=, <<=, for target) x whole/slice/field, and every pair (first write, second write to the same object) of them; pairs of written objects of one Bits4 and one PB signal x '
    '{two blocks, one block, block and net}' + (' (write pairs sampled: 120)' if quick else ' (all)'))

def replay(ck, data):
  r = c09_place.replay(ck, data)
  if r is not None: return r
  case = data['case']
  d = g.design_from_json(case['design'])
  var = g.variant_from_json(case['variant'])
  objs, line = d.model_line(conn_order=d.conn_order_of(var), flips=var['flips'])
  m = parse_reply(ck.drv('nets').batch([line])[0])
  print('--- source'); print(d.source([var]))
  print('--- model : stage', m['stage'], 'errs', m['errs'])
  mod = g.load_module(ck.workdir, d, [var])
  top, exc, msg = g.elaborate(mod, d, 0)
  print('--- impl  :', exc or 'ok', msg[:400])
  res = g.oracle(d)
  print('--- oracle:', g.expected_class(res) or 'legal', {k: v for k, v in res.items() if k != 'nets'})
  mcls, _ = model_verdict(m)
  ok = ((g.expected_class(res) is None) == (exc is None)) and ((mcls or ['ok']) == [exc or 'ok'] or (exc in mcls))
  return 0 if ok else 1
