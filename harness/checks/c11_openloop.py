"""C11 — (1) the loop structure of every generated SCC super-block as a checked model, (2) cyclic designs under OpenLoopCLPass.

Helper module of c11.py (`run(ck)`, `check_wrapper(...)`, `replay(ck, data)`).

proof:          lean/PymtlVerif/Props/C11w.lean (model: Model/LoopIR.lean).  `IR` is a small description of a `wrapped_SCC_<k>`
                function (bound test in front of / behind the sweep, one `if <lits joined by and|or>: break|continue` per test,
                what the end of the body does); `IR.run` is its executable semantics; `run_eq_iterate`: an IR of the normal
                class (`IR.ok`) IS `Rtl.iterate ir.fuel ir.watch`, so `stable_is_fixed_point`, `false_loop_eq_acyclic`,
                `none_means_unstable`, `whole_schedule` speak about what the wrapper text says; counter-example theorems for the
                shapes outside the class (`allChanged_returns_unstable`, `breakOnChange_returns_unstable`, `unbounded_hangs`).
correspondence: `parse_wrapper` turns the real source of every SCC wrapper met by the C11 streams (DynamicSchedulePass, Mamba2020Pass,
                OpenLoopCLPass) into the IR with Python's `ast` (anything it does not recognise is reported, never guessed);
                the driver `pv_loopir` evaluates `IR.ok`, `IR.fuel`, `IR.watch` on it and, for the open-loop stream, runs the
                proven generic loop `LoopIR.runG` on the parsed IR next to `iterate ir.fuel ir.watch`.
open-loop stream: the cyclic design kinds of c11.gen_cyclic as METHOD-DRIVEN tops: the top-level inputs become wires written by an
                update block `pv_drive` from values stored by the method port `pv_push`; `pv_pull` is constrained behind a block
                that reads every signal, so `pv_push(v); pv_pull()` evaluates the whole combinational schedule once.  Elaborate +
                GenDAGPass + WrapGreenletPass + OpenLoopCLPass (what AutoTickSimPass applies), `sim_reset()`, then transactions in
                which only SOME inputs change (so that a sweep moves some but not all of the variables carrying the cycle).
direct oracle:  after every transaction (a) re-running every update block changes nothing, (b) false loops (four kinds) equal the
                acyclic reference RefSim, (c) divergent loops raise UpblkCyclicError, at most 101 sweeps, never hang (a sweep
                counter aborts the run after 1000 sweeps), convergent kinds are not rejected.
"""
import ast, importlib.util, inspect, os, random as _random, re, sys, textwrap

from ..common import leanio, rtlgen
from ..common.leanio import InfraError

DRIVERS = ['loopir']
MODULE = 'PymtlVerif.Props.C11w'
THEOREMS = ['PV.C11w.' + t for t in [
  'runG_formD', 'runG_formO', 'runG_mono', 'run_eq_iterate', 'ok_ret_iterate', 'ok_stable_is_fixed_point', 'ok_false_loop_eq_acyclic',
  'ok_never_hangs', 'ok_runEntries', 'ok_whole_schedule', 'allChanged_returns_unstable', 'breakOnChange_returns_unstable',
  'unbounded_never_raises', 'unbounded_hangs']]
TRUSTED = [
  'harness/checks/c11_openloop.py parse_wrapper: the rendering of a generated wrapped_SCC_<k> (Python ast) into Model/LoopIR.IR - '
  'counter incremented first, snapshots before the sweep, one sweep per iteration, every comparison between a variable and its own '
  'snapshot are ENFORCED by the parser (otherwise the wrapper is reported as outside the IR); bound position, comparison operators, '
  'and/or, break/continue and the end of the body are read off the text',
  'the instrumentation of the open-loop tops (pv_drive / pv_sink blocks, pv_push / pv_pull method ports) is harness text added to the generated design',
]
RULE = ('open loop: the c11 cyclic kinds as method-driven tops under GenDAGPass + OpenLoopCLPass, random vertex-shuffle seed, 5-9 transactions '
        'each changing a random non-empty subset of the inputs (often one); a case = (design, seed); loop IR: one case per generated SCC wrapper')

# ---------------------------------------------------------------------------------------------
# (2) the generated wrapper -> IR
# ---------------------------------------------------------------------------------------------
class OutsideIR(Exception):
  """the wrapper has a shape the IR cannot express (reported as a broken correspondence, with the reason)"""

def _is_const(n, v): return isinstance(n, ast.Constant) and type(n.value) is type(v) and n.value == v

def parse_wrapper(fn):
  """IR of a generated wrapped_SCC_<k>: {'vars': [python text of variable j], 'pre': b|None, 'post': [('test', [(j, is_eq)...],
  'all'|'any', 'brk'|'cont') | ('raise', b)], 'fall': 'brk'|'cont', 'run': how the group is run}"""
  src = textwrap.dedent(inspect.getsource(fn))
  tree = ast.parse(src)
  fdefs = [n for n in tree.body if isinstance(n, ast.FunctionDef) and n.name == fn.__name__]
  if len(fdefs) != 1: raise OutsideIR(f'{len(fdefs)} definitions of {fn.__name__} in its source')
  body = list(fdefs[0].body)
  if len(body) != 2: raise OutsideIR(f'function body has {len(body)} statements, expected `N = 0` and `while True:`')
  init, loop = body
  if not (isinstance(init, ast.Assign) and len(init.targets) == 1 and isinstance(init.targets[0], ast.Name) and _is_const(init.value, 0)):
    raise OutsideIR('first statement is not `<counter> = 0`')
  ctr = init.targets[0].id
  if not (isinstance(loop, ast.While) and _is_const(loop.test, True) and not loop.orelse):
    raise OutsideIR('second statement is not `while True:`')
  g = fn.__globals__
  host = [None]
  def text(e):
    t = ast.unparse(e)
    if t == 'host' or t.startswith('host.') or t.startswith('host['):
      if host[0] is None: raise OutsideIR('`host` used before it is assigned in this iteration')
      t = host[0] + t[4:]
    return t
  def bound_test(st):
    """`if <ctr> > C: raise UpblkCyclicError(...)` -> C"""
    if not (isinstance(st, ast.If) and isinstance(st.test, ast.Compare) and isinstance(st.test.left, ast.Name) and st.test.left.id == ctr): return None
    if len(st.test.ops) != 1 or not isinstance(st.test.comparators[0], ast.Constant) or not isinstance(st.test.comparators[0].value, int):
      raise OutsideIR(f'unrecognised test on the counter: {ast.unparse(st.test)}')
    c = st.test.comparators[0].value
    if isinstance(st.test.ops[0], ast.Gt): b = c
    elif isinstance(st.test.ops[0], ast.GtE) and c >= 1: b = c - 1
    else: raise OutsideIR(f'unrecognised test on the counter: {ast.unparse(st.test)}')
    ok = (len(st.body) == 1 and isinstance(st.body[0], ast.Raise) and not st.orelse and st.body[0].exc is not None and
          'UpblkCyclicError' in ast.unparse(st.body[0].exc).split('(')[0])
    if not ok: raise OutsideIR(f'the counter test does not just raise UpblkCyclicError: {ast.unparse(st)[:120]}')
    return b
  def is_run(st):
    if isinstance(st, ast.Expr) and isinstance(st.value, ast.Call) and isinstance(st.value.func, ast.Name) and not st.value.args and not st.value.keywords:
      nm = st.value.func.id
      return nm in g and callable(g[nm]) and nm not in ('deepcopy', fn.__name__)
    if isinstance(st, ast.For) and isinstance(st.target, ast.Name) and isinstance(st.iter, ast.Name) and not st.orelse and len(st.body) == 1:
      b = st.body[0]
      return (isinstance(b, ast.Expr) and isinstance(b.value, ast.Call) and isinstance(b.value.func, ast.Name) and b.value.func.id == st.target.id
              and not b.value.args and isinstance(g.get(st.iter.id), list))
    return False
  def exit_of(stmts):
    if len(stmts) == 1 and isinstance(stmts[0], ast.Break): return 'brk'
    if len(stmts) == 1 and isinstance(stmts[0], ast.Continue): return 'cont'
    return None
  vars_, snaps = [], {}
  def literal(c):
    if not (isinstance(c, ast.Compare) and len(c.ops) == 1 and isinstance(c.ops[0], (ast.Eq, ast.NotEq))):
      raise OutsideIR(f'unrecognised comparison {ast.unparse(c)}')
    l, r = c.left, c.comparators[0]
    if isinstance(l, ast.Name) and l.id in snaps and not (isinstance(r, ast.Name) and r.id in snaps): l, r = r, l
    if not (isinstance(r, ast.Name) and r.id in snaps): raise OutsideIR(f'{ast.unparse(c)}: the right side is not a snapshot of this iteration')
    j = snaps[r.id]
    if text(l) != vars_[j]: raise OutsideIR(f'{ast.unparse(c)}: compares {text(l)} with the snapshot of {vars_[j]}')
    return (j, 1 if isinstance(c.ops[0], ast.Eq) else 0)
  pre, post, fall, phase, seen_incr, run_kind = None, [], None, 'pre', False, None
  stmts = list(loop.body)
  k = 0
  while k < len(stmts):
    st = stmts[k]; k += 1
    if isinstance(st, ast.Assign) and len(st.targets) == 1 and isinstance(st.targets[0], ast.Name) and st.targets[0].id == 'host':
      host[0] = text(st.value) if ast.unparse(st.value).startswith('host') else ast.unparse(st.value); continue
    if phase == 'pre':
      if isinstance(st, ast.AugAssign) and isinstance(st.target, ast.Name) and st.target.id == ctr and isinstance(st.op, ast.Add) and _is_const(st.value, 1):
        if seen_incr or pre is not None: raise OutsideIR('the counter is not incremented exactly once, first in the body')
        seen_incr = True; continue
      b = bound_test(st)
      if b is not None:
        if not seen_incr or pre is not None: raise OutsideIR('bound test before the increment, or two bound tests in front of the sweep')
        pre = b; continue
      if isinstance(st, ast.Assign) and len(st.targets) == 1 and isinstance(st.targets[0], ast.Name):
        nm, v = st.targets[0].id, st.value
        if isinstance(v, ast.Call) and isinstance(v.func, ast.Attribute) and v.func.attr == 'clone' and not v.args: e = v.func.value
        elif isinstance(v, ast.Call) and isinstance(v.func, ast.Name) and v.func.id == 'deepcopy' and len(v.args) == 1: e = v.args[0]
        else: raise OutsideIR(f'unrecognised assignment in front of the sweep: {ast.unparse(st)[:100]}')
        if nm in snaps or nm == ctr: raise OutsideIR(f'snapshot variable {nm} assigned twice')
        snaps[nm] = len(vars_); vars_.append(text(e)); continue
      if is_run(st):
        if not seen_incr: raise OutsideIR('the counter is not incremented before the sweep')
        run_kind = 'for' if isinstance(st, ast.For) else 'calls'
        while k < len(stmts) and run_kind == 'calls' and is_run(stmts[k]) and not isinstance(stmts[k], ast.For): k += 1
        phase = 'post'; continue
      raise OutsideIR(f'unrecognised statement in front of the sweep: {ast.unparse(st)[:100]}')
    # after the sweep
    if isinstance(st, ast.Break): fall = 'brk'; break
    if isinstance(st, ast.Continue): fall = 'cont'; break
    b = bound_test(st)
    if b is not None: post.append(('raise', b)); continue
    if isinstance(st, ast.If):
      act = exit_of(st.body)
      if act is None: raise OutsideIR(f'the body of a test is not a bare break / continue: {ast.unparse(st)[:120]}')
      c = st.test
      if isinstance(c, ast.BoolOp):
        lits, join = [literal(v) for v in c.values], 'all' if isinstance(c.op, ast.And) else 'any'
      else:
        lits, join = [literal(c)], 'any'
      post.append(('test', lits, join, act))
      if st.orelse:
        other = exit_of(st.orelse)
        if other is None: raise OutsideIR(f'the else branch of a test is not a bare break / continue: {ast.unparse(st)[:120]}')
        fall = other; break
      continue
    raise OutsideIR(f'unrecognised statement behind the sweep: {ast.unparse(st)[:100]}')
  if phase != 'post': raise OutsideIR('the loop body never runs the group')
  if fall is None: fall = 'cont'
  return {'vars': vars_, 'pre': pre, 'post': post, 'fall': fall, 'run': run_kind, 'counter': ctr}

def path_to_rng(d, txt):
  """python text of a watched variable (`s.c0.b`, `s.x[0:4]`, `s.m.h.g0`, `s.xs.f[2:4]`) -> (signal index, lo, width)"""
  if not txt.startswith('s.'): raise OutsideIR(f'watched variable {txt!r} is not reached from s')
  full = txt[2:]
  bypath = {s.path: s for s in d.sigs}
  mm = re.match(r'(.*)\[(\d+):(\d+)\]$', full)
  if mm and mm.group(1) in bypath:
    return (bypath[mm.group(1)].idx, int(mm.group(2)), int(mm.group(3)) - int(mm.group(2)))
  if full in bypath: return (bypath[full].idx, 0, bypath[full].width)
  for sp, s_ in bypath.items():
    if s_.stype is not None and full.startswith(sp + '.'):
      rest = full[len(sp) + 1:]
      ms = re.match(r'(.*)\[(\d+):(\d+)\]$', rest)
      fld = ms.group(1) if ms else rest
      for (p_, lo, ww, _) in s_.stype.named():
        if p_ == fld:
          return (s_.idx, lo + int(ms.group(2)), int(ms.group(3)) - int(ms.group(2))) if ms else (s_.idx, lo, ww)
  raise OutsideIR(f'cannot map watched variable {txt!r} to a signal range')

def ir_sexp(d, ir):
  post = []
  for p in ir['post']:
    if p[0] == 'raise': post.append(['raise', p[1]])
    else: post.append(['test', ['lits'] + [[j, e] for (j, e) in p[1]], p[2], p[3]])
  return ['ir', ['vars'] + [list(path_to_rng(d, v)) for v in ir['vars']], ['pre', 'none' if ir['pre'] is None else ir['pre']],
          ['post'] + post, ['fall', ir['fall']]]

def parse_ok_reply(rep):
  p = leanio.parse_sexp(rep)
  if not p or p[0] != 'ir': raise leanio.MachineryError(f'unexpected loopir reply {rep[:200]}')
  return {'ok': p[1] == '1', 'formD': p[2] == '1', 'formO': p[3] == '1', 'fuel': int(p[4]), 'watch': [tuple(int(x) for x in r) for r in p[5]]}

class WrapperChecks:
  """collects one `loopir ok` request per generated wrapper; `finish` compares the replies"""
  def __init__(self, ck):
    self.ck, self.lines, self.meta = ck, [], []
  def add(self, d, fn, flow, case, want_watch=None, want_fuel=None):
    """returns the parsed IR (or None after reporting that the wrapper is outside the IR)"""
    ck = self.ck
    ck.count({'wrapper': hash(case.get('source', '')) & 0xffffffff, 'flow': flow, 'fn': fn.__name__, 'seed': case.get('seed')}, True)
    ck.hist('loopir_flow', flow)
    try:
      ir = parse_wrapper(fn)
      sx = ir_sexp(d, ir)
    except OutsideIR as e:
      ck.hist('loopir_shape', 'outside-IR')
      ck.disagreement('the generated SCC super-block is inside the loop IR (bound test, snapshots before one sweep, tests on own snapshots, break/continue)',
                      dict(case, flow=flow), 'IR of Model/LoopIR.lean', {'reason': str(e), 'wrapper': _src_of(fn)})
      return None
    ir['sexp'] = sx
    self.lines.append(leanio.line('loopir', 'ok', sx)); self.meta.append((d, fn, flow, case, ir, want_watch, want_fuel))
    return ir
  def finish(self):
    ck = self.ck
    for (d, fn, flow, case, ir, want_watch, want_fuel), rep in zip(self.meta, ck.drv('loopir').batch(self.lines)):
      r = parse_ok_reply(rep)
      ck.hist('loopir_shape', 'D' if r['formD'] else 'O' if r['formO'] else 'not-ok')
      ck.hist('loopir_vars', min(len(ir['vars']), 8))
      c = dict(case, flow=flow, ir={k: ir[k] for k in ('vars', 'pre', 'post', 'fall')})
      if not r['ok']:
        ck.disagreement('loop structure of the generated SCC super-block is in the normal class (IR.ok: hypothesis of run_eq_iterate)', c, rep, _src_of(fn))
        continue
      want = 101 if flow == 'openloop' else 100
      if r['fuel'] != (want_fuel or want):
        ck.disagreement(f'iteration bound of the generated SCC super-block ({want} sweeps in the {flow} template)', c, rep, _src_of(fn))
      if want_watch is not None and sorted(r['watch']) != sorted(tuple(w) for w in want_watch):
        # the variables that are COMPARED are not the variables that are snapshotted (parsed from the clone() lines by rtlgen.parse_scc)
        ck.disagreement('compared variables of the SCC super-block = snapshotted variables', c, {'compared': r['watch']}, {'snapshotted': [list(w) for w in want_watch], 'wrapper': _src_of(fn)})

def _src_of(fn):
  try: return textwrap.dedent(inspect.getsource(fn))[:1500]
  except Exception as e: return f'<no source: {e}>'

# ---------------------------------------------------------------------------------------------
# (1) cyclic designs as method-driven tops
# ---------------------------------------------------------------------------------------------
def ol_source(d):
  """module text of design d as an open-loop top; returns (text, top-level input signals in push order)"""
  ins = [s for s in d.sigs if s.comp == '' and s.kind == 'in' and s.name != 'reset']
  for s in ins: s.kind = 'wire'          # a component may not write its own InPort: the driven inputs become wires
  try: src = d.source()
  finally:
    for s in ins: s.kind = 'in'
  head, sep, tail = src.rpartition('    pass\n')
  if not sep: raise InfraError('generated source has no final `pass` of the top construct')
  L = []
  for s in ins:
    ty = s.stype.name if s.stype is not None else f'Bits{s.width}'
    L.append(f'    s.pv_v{s.idx} = {ty}()')
  L += ['    s.pv_seen = 0', '    @update', '    def pv_drive():']
  L += [f'      s.{s.name} @= s.pv_v{s.idx}' for s in ins]
  reads = ['s.' + s.path for s in d.sigs if s.name != 'clk']
  L += ['    @update', '    def pv_sink():', '      s.pv_seen = ( ' + ', '.join(reads) + ', )']
  L.append('    s.add_constraints( M( s.pv_push ) < U( pv_drive ), U( pv_sink ) < M( s.pv_pull ) )')
  M = ['  @method_port', '  def pv_push( s, vals ):'] + [f'    s.pv_v{s.idx} = vals[{k}]' for k, s in enumerate(ins)]
  M += ['  @method_port', '  def pv_pull( s ):', '    return 0', '']
  return head + '\n'.join(L) + '\n' + sep + '\n'.join(M) + tail, ins

_mods = [0]
def load_text(workdir, src, clsname):
  _mods[0] += 1
  modname = f'pvol_{os.getpid()}_{_mods[0]}'
  path = os.path.join(workdir, modname + '.py')
  with open(path, 'w') as f: f.write(src)
  spec = importlib.util.spec_from_file_location(modname, path)
  mod = importlib.util.module_from_spec(spec); sys.modules[modname] = mod; spec.loader.exec_module(mod)
  return getattr(mod, clsname), mod

def apply_openloop(cls, seed):
  """what AutoTickSimPass applies, pass by pass (the vertex shuffle of OpenLoopCLPass uses the global PRNG)"""
  from pymtl3.passes.autotick.OpenLoopCLPass import OpenLoopCLPass
  from pymtl3.passes.sim.GenDAGPass import GenDAGPass
  from pymtl3.passes.sim.WrapGreenletPass import WrapGreenletPass
  rtlgen.quiet_dump_dag()
  top = cls(); top.elaborate()
  GenDAGPass()(top); WrapGreenletPass()(top)
  _random.seed(seed)
  OpenLoopCLPass(print_line_trace=False)(top)
  return top

def no_method_schedule(top):
  """OpenLoopCLPass keeps its schedule in locals: `up = gen_tick_function( ups_no_method )` is a free variable of sim_reset"""
  fn = top.sim_reset
  up = dict(zip(fn.__code__.co_freevars, fn.__closure__))['up'].cell_contents
  return list(dict(zip(up.__code__.co_freevars, up.__closure__))['schedule'].cell_contents)

HARNESS_BLOCKS = ('pv_drive', 'pv_sink')

class Hang(Exception): pass

class OLSim:
  """one elaborated + open-loop-scheduled instance of a cyclic design"""
  def __init__(self, cls, mod, d, ins, seed):
    self.d, self.ins, self.mod = d, ins, mod
    self.top = apply_openloop(cls, seed)
    rs = rtlgen.RealSim.__new__(rtlgen.RealSim)          # block <-> model id tables and read_all of the RTL streams
    rs.top, rs.d, rs.flow = self.top, d, 'openloop'
    rs.index_blocks()
    self.rs = rs
    self.schedule = no_method_schedule(self.top)
    self.sccs = [f for f in self.schedule if getattr(f, '__name__', '').startswith('wrapped_SCC')]

  def entries(self, irs):
    """model entries: (b id) | (scc (ids) ir-sexp); the harness' own blocks are not part of the model"""
    out = []
    for f in self.schedule:
      nm = getattr(f, '__name__', '')
      if f in self.rs.blk2id: out.append(['b', self.rs.blk2id[f]])
      elif nm in HARNESS_BLOCKS or f in self.rs.unknown: continue
      elif nm.startswith('wrapped_SCC'):
        inner = f.__globals__.get('scc')
        if not isinstance(inner, list): raise InfraError(f'{nm}: the inner schedule `scc` is not in the namespace of the wrapper')
        ids = []
        for b in inner:
          if b not in self.rs.blk2id: raise InfraError(f'unknown block {getattr(b, "__name__", b)!r} inside {nm}')
          ids.append(self.rs.blk2id[b])
        out.append(['scc', ids, irs[f]])
      else: raise InfraError(f'unexpected entry {nm!r} in the open-loop schedule')
    return out

  def values(self, vec):
    from pymtl3.datatypes import Bits
    out = []
    for s, v in zip(self.ins, vec):
      if s.stype is not None: out.append(getattr(self.mod, s.stype.name).from_bits(Bits(s.width, v)))
      else: out.append(Bits(s.width, v))
    return out

  def guarded(self, fn, code):
    """run fn counting the calls of `code` (one per sweep and occurrence); abort a run that does not stop"""
    n = [0]
    def prof(frame, event, arg):
      if event == 'call' and frame.f_code is code:
        n[0] += 1
        if n[0] > 1000 * self.mult: raise Hang()
    sys.setprofile(prof)
    try: fn()
    finally: sys.setprofile(None)
    return n[0]

  def watch_first(self):
    """code object of the first block of the first SCC and its multiplicity in the inner schedule"""
    if not self.sccs: self.mult = 1; return None
    inner = self.sccs[0].__globals__['scc']
    self.mult = sum(1 for b in inner if b is inner[0])
    return inner[0].__code__

def gen_transactions(rng, d, ins):
  """input vectors (values in `ins` order); between two transactions only a random non-empty subset of the inputs changes"""
  def val(s):
    top = (1 << s.width) - 1
    return rng.choice([0, 1, top, top - 1, 1 << (s.width - 1), rng.getrandbits(s.width), rng.getrandbits(s.width)]) & top
  cur = [val(s) for s in ins]
  out = [list(cur)]
  for _ in range(rng.randint(4, 8)):
    r = rng.random()
    if r < 0.1: pass                                            # nothing changes
    else:
      k = 1 if r < 0.6 else rng.randint(1, len(ins))
      for j in rng.sample(range(len(ins)), k):
        s = ins[j]
        cur[j] = (cur[j] ^ (1 << rng.randrange(s.width))) if rng.random() < 0.4 else val(s)
    out.append(list(cur))
  return out

REF_KINDS = ('false', 'structloop', 'hostloop', 'structwhole')
CONVERGENT = ('false', 'conv', 'ring', 'bigring', 'structloop', 'hostloop', 'structwhole')

def drive(ck, sim, kind, case, txs, ref=None):
  """the transactions on the real simulator with the direct oracles; returns (status, trace)"""
  from pymtl3.dsl.errors import UpblkCyclicError
  d, top, rs = sim.d, sim.top, sim.rs
  code = sim.watch_first()
  reset_idx = next(s.idx for s in d.sigs if s.comp == '' and s.name == 'reset')
  blks = [b for b in top._dag.final_upblks if b not in top.get_all_update_ff()]
  sig = {'flow': 'openloop', 'kind': kind}
  def sweeps_ok(n, where):
    if code is not None and n > 101 * sim.mult:
      ck.violation('more-than-101-sweeps', sig, dict(case, inputs=txs), {'sweeps': n, 'where': where, 'oracle': 'the open-loop super-block gives up after 101 sweeps'})
  trace = []
  try:
    try:
      n = sim.guarded(top.sim_reset, code) if code is not None else (top.sim_reset() or 0)
      sweeps_ok(n / 3, 'sim_reset')
    except UpblkCyclicError:
      return ('cyclic', -1), trace
    for k, vec in enumerate(txs):
      vals = sim.values(vec)
      def tx():
        top.pv_push(vals); top.pv_pull()
      try:
        n = sim.guarded(tx, code) if code is not None else (tx() or 0)
      except UpblkCyclicError:
        return ('cyclic', k), trace
      sweeps_ok(n, f'transaction {k}')
      a = rs.read_all()
      trace.append(a)
      c = dict(case, inputs=txs[:k + 1])
      # (a) fixed point: no update block, run again, changes any signal
      for blk in blks:
        blk()
        if rs.read_all() != a:
          ck.violation('returned-unstable-state', sig, c, {'block': blk.__name__, 'before': a, 'after': rs.read_all(), 'signals': [s.path for s in d.sigs],
                                                          'oracle': 'after a transaction returned, re-running an update block changes nothing'})
          return ('unstable', k), trace
      # (b) a false loop has the values of the equivalent acyclic design
      if ref is not None:
        ra, _ = ref.cycle([(reset_idx, 0)] + [(s.idx, v) for s, v in zip(sim.ins, vec)])
        if ra != a:
          ck.violation('false-loop-differs-from-acyclic', {'flow': 'openloop'}, c, {'impl': a, 'ref': ra, 'signals': [s.path for s in d.sigs],
                                                                                    'oracle': 'a false loop must evaluate to the values of the equivalent acyclic design'})
          return ('differs', k), trace
  except Hang:
    ck.violation('cyclic-group-does-not-stop', sig, dict(case, inputs=txs), {'oracle': 'more than 1000 sweeps of one cyclic group in a single call: evaluation must stop after the iteration bound'})
    return ('hang', len(trace)), trace
  return 'ok', trace

def expected_status(kind, txs, ins):
  """for the divergent kinds: the transaction at which UpblkCyclicError is due (-1 = during sim_reset), else None"""
  if kind == 'div': return -1
  if kind == 'divcond':
    j = next(i for i, s in enumerate(ins) if s.name == 'in0')
    return next((k for k, v in enumerate(txs) if v[j] & 1), None)
  return None

def parse_comb_reply(rep):
  """`<IR half> | <iterate half>`, each `ok (vals)...` | `cyclic k` | `timeout k`"""
  def half(t):
    t = t.strip()
    if t.startswith('cyclic') or t.startswith('timeout'): return (t.split()[0], int(t.split()[1]))
    if not t.startswith('ok'): raise leanio.MachineryError(f'unexpected loopir reply {t[:200]}')
    return [[int(x) for x in c] for c in leanio.parse_sexp(t[2:])]
  a, _, b = rep.partition('|')
  return half(a), half(b)

def run(ck):
  rng = _random.Random(f'{ck.seed}:C11:{ck.tier}:openloop')
  state = _random.getstate()
  try: _run(ck, rng)
  finally: _random.setstate(state)

def _run(ck, rng):
  from . import c11 as c11mod
  n = 120 if ck.tier == 'quick' else 800
  wc = WrapperChecks(ck)
  lines, meta = [], []
  for _ in range(n):
    kind = rng.choice(['false', 'false', 'conv', 'ring', 'ring', 'div', 'divcond', 'bigring', 'structloop', 'structloop', 'hostloop', 'hostloop', 'structwhole'])
    d, _expect = c11mod.gen_cyclic(rng, kind)
    src, ins = ol_source(d)
    ck.extra_cov.setdefault('sample_openloop_source', src)
    cls, mod = load_text(ck.workdir, src, d.cls_name(''))
    txs = gen_transactions(rng, d, ins)
    for rep_ in range(2 if ck.tier == 'quick' else 3):
      seed = rng.getrandbits(30)
      case = {'openloop': True, 'source': src, 'cls': d.cls_name(''), 'seed': seed, 'kind': kind, 'signals': [s.path for s in d.sigs],
              'in_sigs': [s.idx for s in ins]}
      ck.count({'src_hash': hash(src) & 0xffffffff, 'flow': 'openloop', 'seed': seed}, True)
      ck.hist('openloop_kind', kind)
      try:
        sim = OLSim(cls, mod, d, ins, seed)
      except Exception as e:
        ck.violation('pass-group-failed-on-cyclic-design', {'flow': 'openloop', 'kind': kind, 'error': type(e).__name__}, case,
                     {'error': f'{type(e).__name__}: {str(e)[:300]}', 'oracle': 'a cyclic group is either iterated to a fixed point or reported with UpblkCyclicError when simulated'})
        break
      if not sim.sccs:
        ck.disagreement('cyclic design scheduled without an SCC block', case, 'scc expected', [getattr(f, '__name__', '?') for f in sim.schedule]); break
      # the loop structure of every wrapper
      irs, bad = {}, False
      for f in sim.sccs:
        ir = wc.add(d, f, 'openloop', case)
        if ir is None: bad = True
        else: irs[f] = ir['sexp']; ck.hist('openloop_watched', min(len(ir['vars']), 8))
      status, trace = drive(ck, sim, kind, case, txs, rtlgen.RefSim(d) if kind in REF_KINDS else None)
      ck.hist('openloop_status', status if isinstance(status, str) else status[0])
      due = expected_status(kind, txs, ins)
      c = dict(case, inputs=txs)
      if kind in CONVERGENT and isinstance(status, tuple) and status[0] == 'cyclic':
        ck.violation('convergent-loop-rejected', {'flow': 'openloop', 'kind': kind}, c, {'status': status})
      if kind in ('div', 'divcond'):
        raised_at = status[1] if isinstance(status, tuple) and status[0] == 'cyclic' else None
        if due is not None and (status == 'ok' or (raised_at is not None and raised_at > due)):
          ck.violation('divergent-loop-returned', {'flow': 'openloop'}, c,
                       {'status': status, 'due': due, 'trace': trace[:3], 'oracle': 'a loop with no stable assignment must raise UpblkCyclicError (transaction index, -1 = sim_reset)'})
        elif raised_at is not None and (due is None or raised_at < due):
          ck.violation('convergent-loop-rejected', {'flow': 'openloop', 'kind': kind}, c, {'status': status, 'due': due})
      # the model run on the parsed loops
      if bad: continue
      reset_idx = next(s.idx for s in d.sigs if s.comp == '' and s.name == 'reset')
      zero = [[reset_idx, 0]] + [[s.idx, 0] for s in ins]
      cycles = [zero] * RESET_CYCLES + [[[reset_idx, 0]] + [[s.idx, v] for s, v in zip(ins, vec)] for vec in txs]
      lines.append(leanio.line('loopir', 'comb', d.sexp(), sim.entries(irs), cycles, 2000))
      meta.append((c, status, trace))
  wc.finish()
  for (c, status, trace), rep in zip(meta, ck.drv('loopir').batch(lines)):
    m_ir, m_it = parse_comb_reply(rep)
    compare_model(ck, c, status, trace, m_ir, 'Model LoopIR.run (parsed loop) ≈ open-loop SCC wrapper')
    compare_model(ck, c, status, trace, m_it, 'Model iterate ≈ open-loop SCC wrapper')
  ck.extra_cov['openloop'] = {'designs': n, 'flows': ['GenDAGPass+WrapGreenletPass+OpenLoopCLPass']}
  probe_gaps(ck)
  run_greenlet(ck, rng)

RESET_CYCLES = 3      # sim_reset evaluates the combinational schedule three times (reset = 1, 1, 0) with all driven inputs at 0

def compare_model(ck, c, status, trace, got, what):
  """model cycles 0..2 are the reset (all inputs 0); cycle k+3 is transaction k"""
  if isinstance(got, tuple) and got[0] == 'timeout' and isinstance(status, tuple) and status[0] == 'hang': return
  if isinstance(got, tuple):
    want = ('cyclic', max(got[1] - RESET_CYCLES, -1))
    if got[0] != 'cyclic' or not (isinstance(status, tuple) and status[0] == 'cyclic' and status[1] == want[1]):
      ck.disagreement(what, c, f'{got[0]} at model cycle {got[1]}', {'status': status, 'trace': trace[:3]})
    return
  if status != 'ok' and not (isinstance(status, tuple) and status[0] in ('unstable', 'differs')):
    ck.disagreement(what, c, 'ok', {'status': status}); return
  mt = got[RESET_CYCLES:RESET_CYCLES + len(trace)]
  if mt != trace:
    k = next((i for i, (x, y) in enumerate(zip(mt, trace)) if x != y), min(len(mt), len(trace)))
    ck.disagreement(what, dict(c, inputs=c['inputs'][:k + 1]), {'transaction': k, 'model': mt[k] if k < len(mt) else None},
                    {'impl': trace[k] if k < len(trace) else None})

# ---------------------------------------------------------------------------------------------
# cyclic groups through a greenlet-wrapped block: an `@update_once` block that calls a blocking method of a child
# (CallerIfcFL -> CalleeIfcFL) is replaced by WrapGreenletPass; a cycle through it must still be REPORTED (update_once in a
# cycle), and the acyclic twin (back edge cut) must schedule and equal the reference
# ---------------------------------------------------------------------------------------------
GL_OPS = {'and': lambda v, b, c: v & c, 'xor': lambda v, b, c: v ^ c, 'shr': lambda v, b, c: v >> 1, 'addb': lambda v, b, c: (v + b) & 0xff,
          'orb': lambda v, b, c: v | b, 'id': lambda v, b, c: v}
GL_TXT = {'and': '({v} & {c})', 'xor': '({v} ^ {c})', 'shr': '({v} >> 1)', 'addb': '({v} + s.b)', 'orb': '({v} | s.b)', 'id': '{v}'}
LUT_OPS = {'id': (lambda v: v, 'v'), 'inc': (lambda v: (v + 1) & 0xff, 'v + 1'), 'flip': (lambda v: v ^ 0x5a, 'v ^ 0x5a')}

def gl_spec(rng):
  n = rng.randint(2, 4)
  return {'n': n, 'g': rng.randrange(n), 'ops': [rng.choice(sorted(GL_OPS)) for _ in range(n)], 'consts': [rng.choice([0xf0, 0x0f, 0x3c, 0xff, 0x81]) for _ in range(n)],
          'lut': rng.choice(sorted(LUT_OPS)), 'pre': rng.choice([0, 0x11, 0xa5]), 'tap': rng.randrange(n), 'order': rng.sample(range(n + 2), n + 2),
          'two_down': rng.random() < 0.5}

def gl_source(spec, name, cyclic, ol):
  """wires w0..w{n-1}: w_i = op_i( w_{i-1} ), w_0 reads w_{n-1} (cyclic) or the upstream wire `pre` (twin); block g is the update_once
  block calling the blocking method; upstream block up_pre (pre = a ^ C), downstream block(s) up_out"""
  n, g = spec['n'], spec['g']
  L = ['from pymtl3 import *', 'from pymtl3.dsl import CalleeIfcFL, CallerIfcFL', f'class {name}_Lut( Component ):', '  def construct( s ):',
       '    s.look = CalleeIfcFL( method=s.look_ )', '  def look_( s, v ):', f'    return {LUT_OPS[spec["lut"]][1]}', '',
       f'class {name}( Component ):', '  def construct( s ):']
  port = 'Wire' if ol else 'InPort'
  L += [f'    s.a = {port}( Bits8 )', f'    s.b = {port}( Bits8 )', '    s.pre = Wire( Bits8 )', '    s.out = OutPort( Bits8 )', '    s.out2 = OutPort( Bits8 )']
  L += [f'    s.w{i} = Wire( Bits8 )' for i in range(n)]
  L += [f'    s.lut = {name}_Lut()', '    s.look = CallerIfcFL()', '    s.look //= s.lut.look']
  blocks = {}
  blocks[n] = ['    @update', '    def up_pre():', f'      s.pre @= s.a ^ {spec["pre"]}']
  down = ['    @update', '    def up_out():', f'      s.out @= s.w{spec["tap"]}']
  down += ['      s.out2 @= s.w0 & s.b'] if not spec['two_down'] else []
  blocks[n + 1] = down + (['    @update', '    def up_out2():', '      s.out2 @= s.w0 & s.b'] if spec['two_down'] else [])
  for i in range(n):
    src_ = f's.w{(i - 1) % n}' if (i > 0 or cyclic) else 's.pre'
    if i == 0 and cyclic: src_ = f'(s.w{n - 1} | s.pre)'
    e = GL_TXT[spec['ops'][i]].format(v=src_, c=spec['consts'][i])
    if i == g: blocks[i] = ['    @update_once', f'    def up_{i}():', f'      s.w{i} @= s.look( {e} )']
    else: blocks[i] = ['    @update', f'    def up_{i}():', f'      s.w{i} @= {e}']
  for k in spec['order']: L += blocks[k]
  if ol:
    L += ['    s.pv_a = Bits8()', '    s.pv_b = Bits8()', '    @update', '    def pv_drive():', '      s.a @= s.pv_a', '      s.b @= s.pv_b']
    # pv_pull is ordered behind a plain block that reads every signal (NOT by U( up_i ) < M( s.pv_pull ): WrapGreenletPass leaves
    # top_level_callee_constraints keyed by the original block, so OpenLoopCLPass drops such a constraint for the wrapped block)
    reads = ['s.pre', 's.out', 's.out2'] + [f's.w{i}' for i in range(n)]
    L += ['    s.pv_seen = 0', '    @update', '    def pv_sink():', '      s.pv_seen = ( ' + ', '.join(reads) + ', )']
    L += ['    s.add_constraints( M( s.pv_push ) < U( pv_drive ), U( pv_sink ) < M( s.pv_pull ) )']
    L += ['  @method_port', '  def pv_push( s, a, b ):', '    s.pv_a = a', '    s.pv_b = b', '  @method_port', '  def pv_pull( s ):', '    return 0']
  return '\n'.join(L) + '\n'

def gl_ref(spec, a, b):
  """values of the acyclic twin: (pre, w0.., out, out2)"""
  pre = a ^ spec['pre']
  w, v = [], pre
  for i in range(spec['n']):
    v = GL_OPS[spec['ops'][i]](v, b, spec['consts'][i]) & 0xff
    if i == spec['g']: v = LUT_OPS[spec['lut']][0](v) & 0xff
    w.append(v)
  return [pre] + w + [w[spec['tap']], w[0] & b]

def gl_case(ck, case, verbose=False):
  """one (spec, variant, flow): returns the outcome; violations are reported here"""
  from pymtl3.datatypes import Bits8
  from pymtl3.dsl.errors import UpblkCyclicError
  spec, flow, cyclic = case['spec'], case['flow'], case['cyclic']
  cls, _ = load_text(ck.workdir, case['source'], case['cls'])
  sig = {'flow': flow, 'family': 'greenlet'}
  rtlgen.quiet_dump_dag()
  state = _random.getstate()
  try:
    try:
      if flow == 'openloop': top = apply_openloop(cls, case['seed'])
      else:
        from pymtl3.passes.PassGroups import DefaultPassGroup
        from pymtl3.passes.mamba.PassGroups import Mamba2020
        top = cls(); top.elaborate()
        top.apply(DefaultPassGroup() if flow == 'default' else Mamba2020(print_line_trace=False))
      outcome = 'scheduled'
    except UpblkCyclicError: outcome = 'UpblkCyclicError'
    except Exception as e: outcome = f'{type(e).__name__}: {str(e)[:200]}'
  finally: _random.setstate(state)
  if verbose: print(f'{flow}, {"cyclic" if cyclic else "acyclic twin"}: {outcome}')
  if outcome != 'scheduled':
    if not cyclic:
      ck.violation('pass-group-failed-on-acyclic-design', sig, case, {'outcome': outcome, 'oracle': 'the twin without the back edge is acyclic: it must be scheduled'})
    elif outcome != 'UpblkCyclicError':
      ck.violation('pass-group-failed-on-cyclic-design', sig, case, {'outcome': outcome, 'oracle': 'a cycle containing an update_once block is reported with UpblkCyclicError'})
    return outcome
  names = ['pre'] + [f'w{i}' for i in range(spec['n'])] + ['out', 'out2']
  snap = lambda: [int(getattr(top, nm)) for nm in names]
  blks = [b for b in top._dag.final_upblks if b not in top.get_all_update_ff()]
  rows, unstable, wrong = [], None, None
  try:
    top.sim_reset()
    for (a, b) in case['inputs']:
      if flow == 'openloop': top.pv_push(Bits8(a), Bits8(b)); top.pv_pull()
      else: top.a @= a; top.b @= b; top.sim_tick()          # sim_eval_combinational refuses designs with method ports
      v = snap(); rows.append(v)
      for blk in blks:
        blk()
        if snap() != v and unstable is None: unstable = {'inputs': (a, b), 'block': blk.__name__, 'before': v, 'after': snap(), 'signals': names}
      if not cyclic and wrong is None and v != gl_ref(spec, a, b): wrong = {'inputs': (a, b), 'impl': v, 'ref': gl_ref(spec, a, b), 'signals': names}
      if unstable: break
  except UpblkCyclicError:
    rows.append('UpblkCyclicError at run time')
    if not cyclic: ck.violation('convergent-loop-rejected', sig, case, {'rows': rows})
  if verbose: print('  values', names, rows[:4], '| unstable:', unstable, '| wrong:', wrong)
  if cyclic:
    ck.violation('update_once-in-cycle-accepted', sig, case,
                 {'outcome': 'scheduled', 'values': rows[:4], 'unstable_state': unstable,
                  'oracle': f'block up_{spec["g"]} is an @update_once block (calls a blocking method, wrapped by WrapGreenletPass) inside a cyclic group: UpblkCyclicError must be raised'})
  else:
    if unstable: ck.violation('returned-unstable-state', sig, case, dict(unstable, oracle='re-running an update block changes nothing'))
    if wrong: ck.violation('acyclic-twin-differs-from-reference', sig, case, dict(wrong, oracle='values of the chain evaluated in dependency order'))
  return outcome

def run_greenlet(ck, rng):
  n = 10 if ck.tier == 'quick' else 150
  for _ in range(n):
    spec = gl_spec(rng)
    inputs = [(rng.getrandbits(8), rng.getrandbits(8)) for _ in range(4)]
    for cyclic in (True, False):
      for flow in ('default', 'mamba', 'openloop'):
        _mods[0] += 1
        name = f'GL{_mods[0]}'
        case = {'openloop_greenlet': True, 'spec': spec, 'flow': flow, 'cyclic': cyclic, 'cls': name, 'seed': rng.getrandbits(30), 'inputs': inputs,
                'source': gl_source(spec, name, cyclic, flow == 'openloop')}
        ck.count({'greenlet': spec, 'flow': flow, 'cyclic': cyclic}, True)
        out = gl_case(ck, case)
        ck.hist('greenlet_' + ('cyclic' if cyclic else 'twin'), out.split(':')[0])
  ck.extra_cov['greenlet_in_cycle'] = {'specs': n, 'flows': ['default', 'mamba', 'openloop'], 'variants': ['cyclic', 'acyclic twin']}

# ---------------------------------------------------------------------------------------------
# divergent loop whose watched signals live in >= 2 host components, entered from a stable evaluation (history): a period-2
# oscillator (y = ~x ; x = y | fb | hold) coupled through a mux-style false path (sel) to 1-2 pass-through children.  First
# evaluation(s): hold = all ones (stable); last evaluation: hold = 0, sel = 0, k != 0 - the children's signals change once and
# settle, x / y toggle for ever: UpblkCyclicError is due.  Each design is built several times per flow (the order in which the
# hosts are compared follows set order).
# ---------------------------------------------------------------------------------------------
def ho_spec(rng):
  w = rng.randint(1, 4)
  m = (1 << w) - 1
  steps = [{'hold': m, 'k': 0, 'sel': rng.choice([0, m])} for _ in range(rng.randint(1, 2))]
  steps.append({'hold': 0, 'k': rng.choice([1, m, rng.randint(1, m)]), 'sel': 0})
  return {'w': w, 'children': rng.randint(1, 2), 'layout': rng.choice(['top-osc', 'top-osc', 'child-osc']), 'order': rng.random(), 'steps': steps}

def ho_source(spec, name):
  w, nc = spec['w'], spec['children']
  T = f'Bits{w}'
  L = ['from pymtl3 import *', f'class {name}_Thru( Component ):', '  def construct( s ):', f'    s.in_ = InPort( {T} )', f'    s.out = OutPort( {T} )',
       '    @update', '    def up_child():', '      s.out @= s.in_', '']
  if spec['layout'] == 'child-osc':
    L += [f'class {name}_Osc( Component ):', '  def construct( s ):', f'    s.fb = InPort( {T} )', f'    s.hold = InPort( {T} )', f'    s.y = OutPort( {T} )', f'    s.x = Wire( {T} )',
          '    @update', '    def up_inv():', '      s.y @= ~s.x', '    @update', '    def up_back():', '      s.x @= s.y | s.fb | s.hold', '']
  L += [f'class {name}( Component ):', '  def construct( s ):', f'    s.sel = InPort( {T} )', f'    s.k = InPort( {T} )', f'    s.hold = InPort( {T} )']
  L += [f'    s.c{j} = {name}_Thru()' for j in range(nc)]
  last = f's.c{nc - 1}.out'
  blocks = []
  if spec['layout'] == 'top-osc':
    L += [f'    s.x = Wire( {T} )', f'    s.y = Wire( {T} )']
    y = 's.y'
    blocks.append(['    @update', '    def up_inv():', '      s.y @= ~s.x'])
    blocks.append(['    @update', '    def up_back():', f'      s.x @= s.y | ( {last} & s.sel ) | s.hold'])
  else:
    L += [f'    s.o = {name}_Osc()']
    y = 's.o.y'
    blocks.append(['    @update', '    def up_fb():', f'      s.o.fb @= {last} & s.sel'])
    blocks.append(['    @update', '    def up_hold():', '      s.o.hold @= s.hold'])
  blocks.append(['    @update', '    def up_drive0():', f'      s.c0.in_ @= s.k | ( {y} & s.sel )'])
  for j in range(1, nc):
    blocks.append(['    @update', f'    def up_drive{j}():', f'      s.c{j}.in_ @= s.c{j - 1}.out | ( {y} & s.sel )'])
  _random.Random(spec['order']).shuffle(blocks)
  for b in blocks: L += b
  return '\n'.join(L) + '\n'

def ho_signals(spec):
  sig = ['x', 'y'] if spec['layout'] == 'top-osc' else ['o.x', 'o.y', 'o.fb', 'o.hold']
  for j in range(spec['children']): sig += [f'c{j}.in_', f'c{j}.out']
  return sig

def ho_case(ck, case, cls=None, verbose=False):
  from pymtl3.dsl.errors import UpblkCyclicError
  from pymtl3.passes.PassGroups import DefaultPassGroup
  from pymtl3.passes.mamba.PassGroups import Mamba2020
  spec, flow = case['spec'], case['flow']
  if cls is None: cls, _ = load_text(ck.workdir, case['source'], case['cls'])
  sig = {'flow': flow, 'family': 'host-oscillator'}
  rtlgen.quiet_dump_dag()
  try:
    top = cls(); top.elaborate()
    top.apply(DefaultPassGroup() if flow == 'default' else Mamba2020(print_line_trace=False))
  except Exception as e:
    ck.violation('pass-group-failed-on-cyclic-design', dict(sig, error=type(e).__name__), case, {'error': f'{type(e).__name__}: {str(e)[:300]}'}); return 'failed'
  names = ho_signals(spec)
  snap = lambda: [int(rtlgen.resolve_path(top, p)) for p in names]
  blks = [b for b in top._dag.final_upblks if b not in top.get_all_update_ff()]
  for i, st in enumerate(spec['steps']):
    last = i == len(spec['steps']) - 1
    top.sel @= st['sel']; top.k @= st['k']; top.hold @= st['hold']
    try:
      top.sim_eval_combinational()
    except UpblkCyclicError:
      if verbose: print(f'{flow} step {i}: UpblkCyclicError')
      if not last:
        ck.violation('convergent-loop-rejected', sig, dict(case, steps_done=i + 1), {'step': st, 'oracle': 'hold = all ones forces x: a stable assignment exists'}); return 'rejected'
      return 'UpblkCyclicError'
    v = snap()
    if verbose: print(f'{flow} step {i}: {st} -> {dict(zip(names, v))}')
    moved = None
    for blk in blks:
      blk()
      if snap() != v: moved = {'block': blk.__name__, 'before': v, 'after': snap(), 'signals': names, 'step': st}; break
    if moved:
      ck.violation('returned-unstable-state', sig, dict(case, steps_done=i + 1),
                   dict(moved, oracle='after sim_eval_combinational returned, re-running an update block changes nothing' + (' (no stable assignment exists for this step: UpblkCyclicError was due)' if last else '')))
      return 'unstable'
    if last:
      ck.violation('divergent-loop-not-reported', sig, case, {'values': dict(zip(names, v)), 'oracle': 'x = ~x has no stable assignment: UpblkCyclicError must be raised'})
      return 'returned'
  return 'ok'

def run_hostosc(ck):
  rng = _random.Random(f'{ck.seed}:C11:{ck.tier}:hostosc')
  nspec, ninst = (8, 10) if ck.tier == 'quick' else (60, 12)
  for _ in range(nspec):
    spec = ho_spec(rng)
    _mods[0] += 1
    name = f'HO{_mods[0]}'
    src = ho_source(spec, name)
    cls, _ = load_text(ck.workdir, src, name)
    for flow in ('default', 'mamba'):
      for inst in range(ninst):
        case = {'openloop_hostosc': True, 'spec': spec, 'flow': flow, 'cls': name, 'source': src, 'instance': inst}
        ck.count({'hostosc': spec, 'flow': flow, 'instance': inst}, True)
        ck.hist('hostosc_outcome', ho_case(ck, case, cls)); ck.hist('hostosc_layout', f"{spec['layout']}/{spec['children']}ch/w{spec['w']}")
  ck.extra_cov['host_oscillator'] = {'specs': nspec, 'instances_per_flow': ninst, 'flows': ['default', 'mamba']}

# ---------------------------------------------------------------------------------------------
# two gaps of OpenLoopCLPass found on the pinned tree and repaired in /repo (fix: update_once in a cycle / explicit-constraint cycle);
# they are ordinary oracles now (PV_C11_OPENLOOP_STRICT=0 turns them back into informational probes)
# ---------------------------------------------------------------------------------------------
ONCE_SRC = '''from pymtl3 import *
class OLOnce{u}( Component ):
  def construct( s ):
    s.v = 0
    s.in0 = Wire( Bits4 )
    s.a = Wire( Bits4 )
    s.b = Wire( Bits4 )
    @update
    def drive():
      s.in0 @= s.v
    @update
    def up_a():
      s.a @= s.b | s.in0
    @update_once
    def up_b():
      s.b @= s.a
    s.add_constraints( M( s.push ) < U( drive ), U( up_a ) < M( s.pull ), U( up_b ) < M( s.pull ) )
  @method_port
  def push( s, v ):
    s.v = v
  @method_port
  def pull( s ):
    return 0
'''
EXPL_SRC = '''from pymtl3 import *
class OLExpl{u}( Component ):
  def construct( s ):
    s.x = Wire( Bits4 )
    s.y = Wire( Bits4 )
    @update
    def ua():
      s.x @= 1
    @update
    def ub():
      s.y @= 2
    s.add_constraints( U( ua ) < U( ub ), U( ub ) < U( ua ) )
  @method_port
  def pull( s ):
    return 0
'''
def probe_gaps(ck):
  from pymtl3.dsl.errors import UpblkCyclicError
  strict = os.environ.get('PV_C11_OPENLOOP_STRICT', '1') == '1'
  out = {}
  for tag, text, name in (('update_once-in-cycle', ONCE_SRC, 'OLOnce'), ('explicit-constraint-cycle', EXPL_SRC, 'OLExpl')):
    u = _mods[0] + 1
    src = text.format(u=u)
    cls, _ = load_text(ck.workdir, src, f'{name}{u}')
    try:
      apply_openloop(cls, 0); outcome = 'scheduled'
    except UpblkCyclicError: outcome = 'UpblkCyclicError'
    except BaseException as e: outcome = type(e).__name__
    out[tag] = outcome
    ck.hist('openloop_gap_' + tag, outcome)
    if strict and outcome != 'UpblkCyclicError':
      ck.violation('update_once-in-cycle-accepted' if tag.startswith('update_once') else 'pass-group-failed-on-cyclic-design',
                   {'flow': 'openloop', 'gap': tag}, {'openloop_gap': tag, 'source': src}, {'outcome': outcome, 'oracle': 'UpblkCyclicError expected (as DynamicSchedulePass / Mamba2020Pass)'})
  ck.extra_cov['openloop_gap_probes'] = out

# ---------------------------------------------------------------------------------------------
def replay(ck, data):
  """re-run a recorded open-loop case on the real code with the direct oracle (a); print the wrapper and its IR verdict"""
  case = data.get('case') or {}
  print(data.get('kind'), data.get('signature')); print(str(data.get('detail'))[:1500])
  if case.get('openloop_hostosc'):
    n0 = len(ck.violations); print(case['source'])
    for _ in range(12): ho_case(ck, case, verbose=True)           # which host is compared first follows set order: several instances
    for v in ck.violations[n0:n0 + 3]: print('VIOLATION', v.kind, v.signature, str(v.detail)[:800])
    return 1 if len(ck.violations) > n0 else 0
  if case.get('openloop_greenlet'):
    n0 = len(ck.violations); print(case['source']); gl_case(ck, case, verbose=True)
    for v in ck.violations[n0:]: print('VIOLATION', v.kind, v.signature, str(v.detail)[:800])
    return 1 if len(ck.violations) > n0 else 0
  if case.get('openloop_gap'):
    n0 = len(ck.violations); os.environ['PV_C11_OPENLOOP_STRICT'] = '1'; probe_gaps(ck)
    return 1 if len(ck.violations) > n0 else 0
  from pymtl3.datatypes import Bits
  from pymtl3.dsl.errors import UpblkCyclicError
  state = _random.getstate()
  try:
    cls, mod = load_text(ck.workdir, case['source'], case['cls'])
    top = apply_openloop(cls, case['seed'])
  finally: _random.setstate(state)
  bad = 0
  for f in no_method_schedule(top):
    if getattr(f, '__name__', '').startswith('wrapped_SCC'):
      print(_src_of(f))
      try: print('IR:', {k: v for k, v in parse_wrapper(f).items()})
      except OutsideIR as e: print('outside the IR:', e); bad = 1
  sigs = case['signals']
  def snap(): return [int(rtlgen.resolve_path(top, p).to_bits()) for p in sigs]
  blks = [b for b in top._dag.final_upblks if b not in top.get_all_update_ff()]
  try:
    top.sim_reset()
    for k, vec in enumerate(case.get('inputs') or []):
      vals = []
      for g, v in zip(case['in_sigs'], vec):
        cur = rtlgen.resolve_path(top, sigs[g])
        vals.append(type(cur).from_bits(Bits(cur.nbits, v)) if hasattr(type(cur), 'from_bits') and not isinstance(cur, Bits) else Bits(cur.nbits, v))
      top.pv_push(vals); top.pv_pull()
      a = snap()
      print(f'transaction {k}: inputs {vec} -> {a}')
      for blk in blks:
        blk()
        if snap() != a:
          print(f'  re-running {blk.__name__} changed the state: {a} -> {snap()}'); bad = 1; break
      if bad: break
  except UpblkCyclicError as e:
    print('UpblkCyclicError:', str(e)[:200])
    if case.get('kind') in CONVERGENT: bad = 1
  return bad
