"""C02, clause "explicit ... METHOD ordering constraints are honoured too": GenDAGPass._process_methods.

proof:          lean/PymtlVerif/Props/C02m.lean over lean/PymtlVerif/Model/Methods.lean (process = the block-level pairs the pass
                adds; exact characterisation, soundness, completeness for direct constraints and along walks, schedule corollaries)
correspondence: real CL designs (module files under ck.workdir): (a) stdlib — chains of Pipe/Bypass/Normal queues, DelayPipeDeqCL,
                StallCL in front, DelayPipeSendCL / a deq-side pass-through at the end, MagicMemoryCL with TestSrcCL/TestSinkCL;
                (b) generated components with method ports / non-blocking interfaces, caller components, random
                M<M, M==M, U<M, M<U constraints (consistent by construction, free, and rings that must be rejected).
                For each: DefaultPassGroup on the elaborated design; the pairs _process_methods added = all_constraints minus the
                value/explicit-U constraints; the model input is read off the design exactly as the pass does (actual method objects);
                model `process` (driver `rtl methods`) vs the added pairs.
direct oracle:  independent of the model: for every declared M(x) < M(y) (x, y widened to their == classes by a union-find),
                U(b) < M(y), M(x) < U(b): in the DefaultPassGroup schedule the calling blocks are in that order, and in the run-time
                call order recorded with sys.setprofile every call of x (entry of b) precedes every call of y within a cycle — for
                different blocks, and unless the explicit opposite constraint on the block itself is declared (the pass's documented
                "INVALID if explicit constraint" rule). Rings must raise UpblkCyclicError; consistent designs must not.
"""
import importlib.util, itertools, json, os, sys

from ..common import leanio
from ..common.leanio import InfraError

THEOREMS = ['PV.C02m.' + t for t in ['search_exact', 'step_exact', 'class_exact', 'process_exact', 'sound', 'complete_fwd',
                                     'complete_bwd', 'complete_MM', 'complete_UM', 'complete_MU', 'schedule_direct', 'schedule_kahn']]
MODULE = 'PymtlVerif.Props.C02m'

_uid = itertools.count()

# ----------------------------------------------------------------------------------------------------------------------
# loading and running real designs
# ----------------------------------------------------------------------------------------------------------------------

def load(ck, src, clsname):
  modname = f'pvcm_{os.getpid()}_{next(_uid)}'
  path = os.path.join(ck.workdir, modname + '.py')
  with open(path, 'w') as f: f.write(src)
  spec = importlib.util.spec_from_file_location(modname, path)
  mod = importlib.util.module_from_spec(spec); sys.modules[modname] = mod; spec.loader.exec_module(mod)
  return getattr(mod, clsname)

class Extract:
  """the input of _process_methods read off an elaborated design on which GenDAGPass has run, translated to ids the way
  the pass translates ports/interfaces to ACTUAL method objects"""
  def __init__(self, top):
    from pymtl3.dsl.Connectable import BlockingIfc, MethodPort, NonBlockingIfc
    def actual(x):
      if isinstance(x, MethodPort): return x.method
      if isinstance(x, (NonBlockingIfc, BlockingIfc)): return x.method.method
      return x
    host = top._dsl.all_upblk_hostobj
    self.blocks = sorted(top.get_all_update_blocks(), key=lambda b: (repr(host.get(b)), b.__name__))
    self.ids = {}          # object (block function / actual method) -> id; dict semantics = the pass's set/dict semantics
    self.names = {}
    for b in self.blocks:
      self.ids[b] = len(self.ids); self.names[self.ids[b]] = f'U({host.get(b)!r}.{b.__name__})'
    self.block_ids = [self.ids[b] for b in self.blocks]
    def mid(x):
      m = actual(x)
      if m not in self.ids:
        self.ids[m] = len(self.ids); self.names[self.ids[m]] = f'M({x!r})' if hasattr(x, '_dsl') else f'M({getattr(x, "__name__", x)})'
      return self.ids[m]
    self.calls = []
    for b in self.blocks:
      for c in sorted(top._dsl.all_upblk_calls.get(b, ()), key=repr):
        self.calls.append((self.ids[b], mid(c)))
    self.calls = sorted(set(self.calls))
    self.mcons = []
    for (x, y, eq) in sorted(top.get_all_explicit_constraints()[3], key=lambda c: (repr(c[0]), repr(c[1]), c[2])):
      self.mcons.append((mid(x), mid(y), bool(eq)))
    self.mcons = sorted(set(self.mcons))

  def line(self):
    return leanio.line('rtl', 'methods', ['calls'] + [list(c) for c in self.calls],
                       ['mcons'] + [[x, y, e] for (x, y, e) in self.mcons], ['blocks'] + self.block_ids)

  def model_input(self):
    return {'calls': [list(c) for c in self.calls], 'mcons': [[x, y, int(e)] for x, y, e in self.mcons], 'blocks': self.block_ids,
            'names': {str(k): v for k, v in sorted(self.names.items())}}

def added_pairs(top, ex):
  """(pairs of update blocks _process_methods added, pairs of update blocks present before it)"""
  from pymtl3.passes.sim.GenDAGPass import GenDAGPass
  after = set(top._dag.all_constraints)
  saved_objs = top._dag.constraint_objs
  GenDAGPass()._process_value_constraints(top)          # recomputes all_constraints WITHOUT the method pairs (deterministic)
  before = set(top._dag.all_constraints)
  top._dag.all_constraints = after; top._dag.constraint_objs = saved_objs
  isb = set(ex.blocks)
  toid = lambda s: {(ex.ids[a], ex.ids[b]) for (a, b) in s if a in isb and b in isb}
  return toid(after - before), toid(before)

# ----------------------------------------------------------------------------------------------------------------------
# the direct oracle (python restatement, independent of the Lean model)
# ----------------------------------------------------------------------------------------------------------------------

def requirements(ex):
  """[(kind, first, second, why)]: ('mm', (A, xs), (B, ys)) the calls of xs made by block A precede the calls of ys made by B;
  ('um', b, (B, ys)); ('mu', (A, xs), b)"""
  blocks = set(ex.block_ids)
  parent = {}
  def find(a):
    parent.setdefault(a, a)
    while parent[a] != a:
      parent[a] = parent[parent[a]]; a = parent[a]
    return a
  for x, y, e in ex.mcons:
    if e: parent[find(x)] = find(y)
  allm = {m for _, m in ex.calls} | {n for x, y, _ in ex.mcons for n in (x, y)}
  cls = lambda x: [m for m in allm if find(m) == find(x)]
  callers = {}
  for b, m in ex.calls: callers.setdefault(m, []).append(b)
  lt = {(x, y) for x, y, e in ex.mcons if not e}
  req = []
  for x, y in sorted(lt):
    if x not in blocks and y not in blocks:
      for xs in cls(x):
        for ys in cls(y):
          for A in callers.get(xs, ()):
            for B in callers.get(ys, ()):
              if A != B and (B, x) not in lt and (y, A) not in lt: req.append(('mm', (A, xs), (B, ys), (x, y)))
    elif x in blocks and y not in blocks:
      for ys in cls(y):
        for B in callers.get(ys, ()):
          if B != x and (B, y) not in lt: req.append(('um', x, (B, ys), (x, y)))
    elif y in blocks and x not in blocks:
      for xs in cls(x):
        for A in callers.get(xs, ()):
          if A != y and (x, A) not in lt: req.append(('mu', (A, xs), y, (x, y)))
  return req + chain_requirements(ex, blocks, find, cls, callers, lt)

def chain_requirements(ex, blocks, find, cls, callers, lt):
  """'<' is an order, so constraints compose: along x0 < x1 < ... < xk (k >= 2; the intermediate x_i are methods, taken up to
  their == classes, called by some block or by none) whatever stands for x0 (the block itself, or a block calling a method of
  its class) precedes whatever stands for xk.  Kept clear of the pass's documented "INVALID if explicit constraint" exemptions:
  a calling block is only used when it is not itself explicitly ordered against a method on the chain; chains from a block to a
  block are not demanded
  (the pass derives nothing when no method of the chain is called)."""
  node = lambda x: ('b', x) if x in blocks else ('m', find(x))
  adj, radj = {}, {}
  for x, y in lt:
    adj.setdefault(node(x), set()).add(node(y)); radj.setdefault(node(y), set()).add(node(x))
  # block -> method classes it is explicitly ordered against (either direction)
  against = {}
  for x, y in lt:
    if x in blocks and y not in blocks: against.setdefault(x, set()).add(find(y))
    if y in blocks and x not in blocks: against.setdefault(y, set()).add(find(x))
  def reach(s, g):
    """{node: shortest number of edges} from s, walking through method classes only"""
    dist, frontier = {}, [(t, 1) for t in g.get(s, ())]
    while frontier:
      t, k = frontier.pop(0)
      if t in dist or t == s: continue
      dist[t] = k
      if t[0] == 'm': frontier += [(u, k + 1) for u in g.get(t, ())]
    return dist
  def stands_for(nd, on_chain):
    if nd[0] == 'b': return [(nd[1], None)]
    return [(A, m) for m in cls(nd[1]) for A in callers.get(m, ()) if not (against.get(A, set()) & on_chain)]
  req = []
  for s in sorted(adj):
    fwd = reach(s, adj)
    for t, k in sorted(fwd.items()):
      if k < 2 or (s[0] == 'b' and t[0] == 'b'): continue
      back = reach(t, radj)
      on_chain = {n[1] for n in fwd if n[0] == 'm' and (n in back or n == t)} | ({s[1]} if s[0] == 'm' else set())
      for A, xs in stands_for(s, on_chain):
        for B, ys in stands_for(t, on_chain):
          if A == B: continue
          why = ('chain', s[1], t[1], k)
          if xs is None: req.append(('um', A, (B, ys), why))
          elif ys is None: req.append(('mu', (A, xs), B, why))
          else: req.append(('mm', (A, xs), (B, ys), why))
  return req

def check_schedule(ex, req, sched):
  pos = {}
  for k, f in enumerate(sched):
    if f in ex.ids: pos[ex.ids[f]] = k
  bad = []
  for kind, a, b, why in req:
    A = a if kind == 'um' else a[0]
    B = b if kind == 'mu' else b[0]
    if A in pos and B in pos and not pos[A] < pos[B]: bad.append((kind, A, B, why))
  return bad, pos

class Recorder:
  """run-time order of block entries and actual-method calls (sys.setprofile on their code objects; instances told apart by
  the bound self / the closure cells)"""
  def __init__(self, ex):
    self.by_code = {}
    blocks = set(ex.block_ids)
    for obj, i in ex.ids.items():
      kind = 'b' if i in blocks else 'm'
      fn = getattr(obj, '__func__', obj)
      code = getattr(fn, '__code__', None)
      if code is None: continue
      self.by_code.setdefault(code, []).append((kind, i, obj))
    self.events = []
    self.cur = None

  def match(self, frame, obj):
    fn = getattr(obj, '__func__', None)
    loc = frame.f_locals
    if fn is not None:
      names = frame.f_code.co_varnames
      return bool(names) and loc.get(names[0]) is obj.__self__
    cl = getattr(obj, '__closure__', None) or ()
    for name, cell in zip(obj.__code__.co_freevars, cl):
      try: v = cell.cell_contents
      except ValueError: continue
      if loc.get(name, v) is not v: return False
    return True

  def prof(self, frame, event, arg):
    if event != 'call': return
    cands = self.by_code.get(frame.f_code)
    if not cands: return
    hit = cands[0] if len(cands) == 1 else next((c for c in cands if self.match(frame, c[2])), None)
    if hit is None: return
    kind, i, _ = hit
    if kind == 'b': self.cur = i
    self.events.append((kind, i, self.cur))

  def cycle(self, fn):
    self.events = []; self.cur = None
    sys.setprofile(self.prof)
    try: fn()
    finally: sys.setprofile(None)
    return self.events

def check_events(req, events):
  """events of one cycle: (kind, id, current block)"""
  tb, tm = {}, {}
  for t, (kind, i, cur) in enumerate(events):
    if kind == 'b': tb.setdefault(i, []).append(t)
    elif cur is not None: tm.setdefault((cur, i), []).append(t)
  bad = []
  for kind, a, b, why in req:
    ta = tb.get(a) if kind == 'um' else tm.get(a)
    tbb = tb.get(b) if kind == 'mu' else tm.get(b)
    if ta and tbb and not max(ta) < min(tbb): bad.append((kind, a, b, why))
  return bad

# ----------------------------------------------------------------------------------------------------------------------
# one design through implementation, oracle and (later) the model
# ----------------------------------------------------------------------------------------------------------------------

def drive(ck, src, clsname, tag, expect, lines, meta, ncycles=4, after_run=None, reset=False):
  """expect: 'ok' (must schedule), 'cyclic' (must raise UpblkCyclicError), 'any'"""
  from pymtl3.dsl.errors import UpblkCyclicError
  from pymtl3.passes.PassGroups import DefaultPassGroup
  from pymtl3.passes.tracing.CLLineTracePass import CLLineTracePass
  cls = load(ck, src, clsname)
  top = cls(); top.elaborate()
  # line tracing off: CLLineTracePass replaces port.method by wrappers, the identities the DAG pass used would be lost
  top.set_metadata(CLLineTracePass.enable, False)
  case = {'methods': True, 'tag': tag, 'source': src, 'top': clsname, 'expect': expect}
  try:
    top.apply(DefaultPassGroup()); err = None
  except UpblkCyclicError:
    err = 'UpblkCyclicError'
  except Exception as e:
    ck.violation('method-pass-crash', {'tag': tag.split(':')[0], 'exc': type(e).__name__}, case,
                 {'what': f'DefaultPassGroup raised {type(e).__name__}: {e}'[:400], 'oracle': 'a legal CL design is scheduled or rejected with UpblkCyclicError'})
    ck.count({'tag': tag, 'crash': type(e).__name__}, True)
    return
  if not hasattr(top, '_dag') or not hasattr(top._dag, 'all_constraints'):
    raise InfraError(f'GenDAGPass did not run on a generated CL design ({tag})')
  ex = Extract(top)
  added, before = added_pairs(top, ex)
  case['input'] = ex.model_input()
  req = requirements(ex)
  ck.count({'tag': tag, 'input': case['input']['calls'], 'mcons': case['input']['mcons'], 'expect': expect}, nontrivial=bool(added) or err is not None)
  ck.hist('methods_design', tag.split(':')[0]); ck.hist('methods_added_pairs', min(len(added), 12)); ck.hist('methods_outcome', err or 'scheduled')
  ck.hist('methods_requirements', min(len(req), 12))
  if expect == 'cyclic' and err is None:
    ck.violation('method-cycle-accepted', {'tag': tag.split(':')[0]}, case,
                 {'added': sorted(added), 'oracle': 'a ring of method constraints over update_once blocks must raise UpblkCyclicError'})
  if expect == 'ok' and err is not None:
    ck.violation('method-constraints-rejected', {'tag': tag.split(':')[0]}, case,
                 {'outcome': err, 'added': sorted(added), 'oracle': 'constraints consistent with one total order of the blocks must be schedulable'})
  if err is None:
    bad, pos = check_schedule(ex, req, top._sched.update_schedule)
    if bad:
      ck.violation('method-constraint-order', {'where': 'schedule', 'tag': tag.split(':')[0]}, case,
                   {'violated': bad[:6], 'positions': pos, 'names': case['input']['names'],
                    'oracle': 'callers of x scheduled before callers of y for every declared M(x) < M(y) (classes of ==), U(b) < M(y), M(x) < U(b)'})
    rec = Recorder(ex)
    try:
      if reset: top.sim_reset()
      for cyc in range(ncycles):
        ev = rec.cycle(top.sim_tick)
        bad = check_events(req, ev)
        if bad:
          ck.violation('method-constraint-order', {'where': 'runtime', 'tag': tag.split(':')[0]}, case,
                       {'cycle': cyc, 'violated': bad[:6], 'events': ev[:80], 'names': case['input']['names'],
                        'oracle': 'within a cycle every call of x precedes every call of y (different blocks)'})
          break
      if after_run is not None:
        msg = after_run(top)
        if msg:
          ck.violation('cl-behaviour', {'tag': tag.split(':')[0]}, case, {'what': msg})
    except Exception as e:
      ck.violation('cl-behaviour', {'tag': tag.split(':')[0], 'exc': type(e).__name__}, case, {'what': f'{type(e).__name__}: {e}'[:400]})
  lines.append(ex.line()); meta.append((case, added, before))

def compare(ck, lines, meta):
  replies = ck.drv('rtl').batch(lines)
  for (case, added, before), rep in zip(meta, replies):
    if not rep.startswith('edges'): raise InfraError(f'unexpected reply {rep!r}')
    model = {(int(a), int(b)) for a, b in leanio.parse_sexp(rep.split('edges', 1)[1])[0]}
    if model - before != added:
      ck.disagreement('Model/Methods.process≈pairs added by _process_methods', case, sorted(model - before), sorted(added))

# ----------------------------------------------------------------------------------------------------------------------
# (a) stdlib designs
# ----------------------------------------------------------------------------------------------------------------------

STD_HEAD = '''from pymtl3 import *
from pymtl3.stdlib.queues.cl_queues import PipeQueueCL, BypassQueueCL, NormalQueueCL
from pymtl3.stdlib.delays import DelayPipeDeqCL, DelayPipeSendCL, StallCL

class PassDeq( Component ):
  # pass-through on the dequeue side, written the way StallCL is on the enqueue side
  def construct( s ):
    s.src = CallerIfcCL()
    s.add_constraints( M( s.get ) == M( s.src ), M( s.get.rdy ) == M( s.src.rdy ) )
  @non_blocking( lambda s: s.src.rdy() )
  def get( s ):
    return s.src()

class Sink( Component ):
  def construct( s ):
    s.got = []
  @non_blocking( lambda s: True )
  def recv( s, msg ):
    s.got.append( msg )
'''

def chain_source(uid, stages, front_stall, tail, order):
  """stages: constructor texts of components with enq/deq; tail: 'deq' | 'passdeq' | 'send<d>'"""
  L = [STD_HEAD, f'class Chain{uid}( Component ):', '  def construct( s ):', '    s.cnt = 0', '    s.got = []']
  for i, st in enumerate(stages): L.append(f'    s.q{i} = {st}')
  first = 's.q0.enq'
  if front_stall:
    L += ['    s.st = StallCL( 0.0 )', '    connect( s.st.send, s.q0.enq )']; first = 's.st.recv'
  n = len(stages)
  blks = {}
  blks['src'] = [f'    @update_once', f'    def up_src():', f'      if {first}.rdy():', f'        {first}( s.cnt ); s.cnt += 1']
  for i in range(n - 1):
    blks[f'mv{i}'] = ['    @update_once', f'    def up_mv{i}():', f'      if s.q{i}.deq.rdy() and s.q{i+1}.enq.rdy():', f'        s.q{i+1}.enq( s.q{i}.deq() )']
  last = f's.q{n-1}.deq'
  if tail == 'passdeq':
    L += ['    s.pd = PassDeq()', f'    connect( s.pd.src, s.q{n-1}.deq )']; last = 's.pd.get'
  if tail.startswith('send'):
    L += [f'    s.dl = DelayPipeSendCL( {tail[4:]} )', '    s.snk = Sink()', '    connect( s.dl.send, s.snk.recv )']
    blks['snk'] = ['    @update_once', '    def up_snk():', f'      if {last}.rdy() and s.dl.enq.rdy():', f'        s.dl.enq( {last}() )']
  else:
    blks['snk'] = ['    @update_once', '    def up_snk():', f'      if {last}.rdy():', f'        s.got.append( {last}() )']
  for k in order: L += blks[k]
  return '\n'.join(L) + '\n'

QKINDS = ['PipeQueueCL( {n} )', 'BypassQueueCL( {n} )', 'NormalQueueCL( {n} )', 'DelayPipeDeqCL( 0 )', 'DelayPipeDeqCL( {d} )']

def in_order(top):
  got = list(top.snk.got) if hasattr(top, 'snk') else list(top.got)
  if got != list(range(len(got))): return f'messages out of order or duplicated: {got}'
  if not got: return 'nothing arrived in 30 cycles'
  return None

def stdlib_designs(ck, lines, meta):
  rng = ck.rng
  cases = []
  # the both-sides pass-through witness (fixed in /repo: "method constraints were lost when both sides ... pass-through"):
  # StallCL in front, PassDeq behind, both queue kinds that declare a direct M<M, both textual orders
  for q in ('PipeQueueCL( 1 )', 'BypassQueueCL( 1 )'):
    for order in (['src', 'snk'], ['snk', 'src']):
      cases.append(([q], True, 'passdeq', order))
  # every queue kind alone, both textual orders
  for qk in QKINDS:
    for order in (['src', 'snk'], ['snk', 'src']):
      cases.append(([qk.format(n=rng.randint(1, 3), d=rng.randint(1, 3))], False, 'deq', order))
  nrand = 14 if ck.tier == 'quick' else 300
  for _ in range(nrand):
    n = rng.randint(1, 3)
    stages = [rng.choice(QKINDS).format(n=rng.randint(1, 3), d=rng.randint(1, 3)) for _ in range(n)]
    order = ['src'] + [f'mv{i}' for i in range(n - 1)] + ['snk']
    rng.shuffle(order)
    tail = rng.choice(['deq', 'deq', 'passdeq', 'send0', 'send1', 'send2'])
    cases.append((stages, rng.random() < 0.4, tail, order))
  for stages, stall, tail, order in cases:
    uid = next(_uid)
    src = chain_source(uid, stages, stall, tail, order)
    tag = 'chain:' + ','.join(s.split('(')[0] for s in stages) + (':stall' if stall else '') + ':' + tail + ':' + ''.join(o[0] + o[-1] for o in order)
    drive(ck, src, f'Chain{uid}', tag, 'ok', lines, meta, ncycles=30, after_run=in_order)

MEM_SRC = '''from pymtl3 import *
from pymtl3.stdlib.mem.MagicMemoryCL import MagicMemoryCL
from pymtl3.stdlib.mem.MemMsg import MemMsgType, mk_mem_msg
from pymtl3.stdlib.test_utils import TestSinkCL, TestSrcCL
req_cls, resp_cls = mk_mem_msg( 8, 32, 32 )
class MemH{uid}( Component ):
  def construct( s ):
    nports = {nports}
    reqs  = [ req_cls( MemMsgType.WRITE, i, 0x100+4*i, 0, i ) for i in range({nmsgs}) ]
    resps = [ resp_cls( MemMsgType.WRITE, i, 0, 0, 0 ) for i in range({nmsgs}) ]
    s.srcs  = [ TestSrcCL( req_cls, reqs, 0, {src_intv} ) for i in range(nports) ]
    s.mem   = MagicMemoryCL( nports, [(req_cls, resp_cls)]*nports, {stall}, {latency} )
    s.sinks = [ TestSinkCL( resp_cls, resps, 0, {sink_intv} ) for i in range(nports) ]
    for i in range(nports):
      connect( s.srcs[i].send, s.mem.ifc[i].req )
      connect( s.mem.ifc[i].resp, s.sinks[i].recv )
'''

def mem_designs(ck, lines, meta):
  rng = ck.rng
  combos = [(1, 0, 1, 0, 0), (2, 0.5, 3, 0, 1), (1, 0, 0, 1, 0)]
  for _ in range(2 if ck.tier == 'quick' else 40):
    combos.append((rng.randint(1, 2), rng.choice([0, 0.3, 0.5]), rng.randint(0, 4), rng.randint(0, 2), rng.randint(0, 2)))
  for nports, stall, lat, si, ki in combos:
    uid = next(_uid)
    src = MEM_SRC.format(uid=uid, nports=nports, nmsgs=4, stall=stall, latency=lat, src_intv=si, sink_intv=ki)
    def done(top):
      if not all(x.done() for x in top.sinks): return 'memory responses missing after 60 cycles'
    drive(ck, src, f'MemH{uid}', f'mem:p{nports}:l{lat}:s{stall}', 'ok', lines, meta, ncycles=60, after_run=done, reset=True)

# ----------------------------------------------------------------------------------------------------------------------
# (b) generated components
# ----------------------------------------------------------------------------------------------------------------------

class GenDesign:
  """children declare method ports m<i> (@method_port) and non-blocking interfaces n<i> (two nodes: n<i> and n<i>.rdy);
  blocks: top-level update_once blocks, blocks of caller components (CallerPort / CallerIfcCL connected to a child's
  method, like TestSrcCL), child-internal blocks (no calls; only named by U(...) constraints)"""
  def __init__(self, rng, uid):
    self.rng, self.uid = rng, uid
    self.children = []       # per child: {'mp': k, 'nb': k, 'blocks': [names], 'cons': [text]}
    self.nodes = []          # method nodes: (child index, expr relative to child 'm0' / 'n0' / 'n0.rdy')
    self.blocks = []         # ('top', name) | ('caller', idx) | ('child', ci, name)
    self.calls = {}          # block index -> [node index]   (top and caller blocks)
    self.top_cons = []       # (a, b, eq) with a, b = ('m', node) | ('b', block)
    self.callers = []        # caller components: {'node': node index, 'ifc': bool}

  def node_expr(self, n, prefix):
    ci, e = self.nodes[n]
    return f'{prefix}c{ci}.{e}'

  def call_stmt(self, n):
    ci, e = self.nodes[n]
    if e.endswith('.rdy'): return f's.c{ci}.{e}()'
    if e.startswith('n'): return f's.c{ci}.{e}( 1 )'
    return f's.c{ci}.{e}()'

  def cons_text(self, c, inside=None):
    (ka, a), (kb, b), eq = c
    def t(k, x):
      if k == 'b':
        blk = self.blocks[x]
        return f'U( {blk[-1]} )'
      ci, e = self.nodes[x]
      return f'M( s.{e} )' if inside == ci else f'M( s.c{ci}.{e} )'
    return f'{t(ka, a)} {"==" if eq else "<"} {t(kb, b)}'

  def source(self):
    u = self.uid
    L = ['from pymtl3 import *', '']
    for ci, ch in enumerate(self.children):
      L += [f'class GC{u}_{ci}( Component ):', '  def construct( s ):', '    s.n = 0']
      for bn, plain in ch['blocks']:
        L += [f'    @{"update" if plain else "update_once"}', f'    def {bn}():', '      s.n = s.n + 1']
      if ch['cons']:
        L += ['    s.add_constraints(', ',\n'.join('      ' + self.cons_text(c, inside=ci) for c in ch['cons']), '    )']
      for i in range(ch['mp']): L += ['  @method_port', f'  def m{i}( s ):', '    pass']
      for i in range(ch['nb']): L += ['  @non_blocking( lambda s: True )', f'  def n{i}( s, v=0 ):', '    pass']
      L.append('')
    for k, cal in enumerate(self.callers):
      L += [f'class GK{u}_{k}( Component ):', '  def construct( s ):',
            f'    s.out = {"CallerIfcCL()" if cal["ifc"] else "CallerPort()"}', '    @update_once', f'    def kb{k}():']
      L += (['      if s.out.rdy():', '        s.out( 2 )'] if cal['ifc'] else ['      s.out()'])
      L.append('')
    L += [f'class GT{u}( Component ):', '  def construct( s ):']
    for ci in range(len(self.children)): L.append(f'    s.c{ci} = GC{u}_{ci}()')
    for k, cal in enumerate(self.callers):
      L.append(f'    s.k{k} = GK{u}_{k}()')
      L.append(f'    connect( s.k{k}.out, {self.node_expr(cal["node"], "s.")} )')
    for bi in self.top_order:
      kind = self.blocks[bi]
      L += ['    @update_once', f'    def {kind[1]}():']
      body = [f'      {self.call_stmt(n)}' for n in self.calls.get(bi, [])]
      L += body or ['      pass']
    if self.top_cons:
      L += ['    s.add_constraints(', ',\n'.join('      ' + self.cons_text(c) for c in self.top_cons), '    )']
    return '\n'.join(L) + '\n'

def gen_structure(rng, uid):
  d = GenDesign(rng, uid)
  nchild = rng.choice([1, 1, 2])
  for ci in range(nchild):
    mp, nb = rng.randint(1, 3), rng.randint(0, 1)
    while not 2 <= mp + 2 * nb <= 5: mp, nb = rng.randint(1, 3), rng.randint(0, 1)
    ch = {'mp': mp, 'nb': nb, 'blocks': [], 'cons': []}
    for i in range(mp): d.nodes.append((ci, f'm{i}'))
    for i in range(nb): d.nodes += [(ci, f'n{i}'), (ci, f'n{i}.rdy')]
    for j in range(rng.choice([0, 0, 1])):
      name = f'cb{ci}_{j}'; ch['blocks'].append((name, rng.random() < 0.5)); d.blocks.append(('child', ci, name))
    d.children.append(ch)
  ntop = rng.randint(2, 5)
  for i in range(ntop): d.blocks.append(('top', f'b{i}'))
  # caller components: only plain method ports / whole interfaces can be connected
  for k in range(rng.choice([0, 0, 1, 2])):
    cand = [n for n, (ci, e) in enumerate(d.nodes) if not e.endswith('.rdy') and not any(c['node'] == n for c in d.callers)]
    if not cand: break
    n = rng.choice(cand)
    d.callers.append({'node': n, 'ifc': d.nodes[n][1].startswith('n')}); d.blocks.append(('caller', f'kb{k}'))
  # calls
  for bi, b in enumerate(d.blocks):
    if b[0] == 'top':
      k = rng.choice([0, 1, 1, 2, 2, 3])
      d.calls[bi] = rng.sample(range(len(d.nodes)), min(k, len(d.nodes)))
    elif b[0] == 'caller':
      cal = d.callers[int(b[1][2:])]
      n = cal['node']
      if cal['ifc']:
        rdy = next(i for i, (ci, e) in enumerate(d.nodes) if ci == d.nodes[n][0] and e == d.nodes[n][1] + '.rdy')
        d.calls[bi] = [rdy, n]
      else: d.calls[bi] = [n]
  d.top_order = [bi for bi, b in enumerate(d.blocks) if b[0] == 'top']
  rng.shuffle(d.top_order)
  return d

def place(d, c):
  """put a constraint into the component that can name both ends: a child when both ends are its own, else the top
  (blocks of caller components cannot be named from outside: not used in constraints)"""
  (ka, a), (kb, b), eq = c
  def owner(k, x):
    if k == 'm': return d.nodes[x][0]
    blk = d.blocks[x]
    return blk[1] if blk[0] == 'child' else 'top'
  oa, ob = owner(ka, a), owner(kb, b)
  if oa == ob and oa != 'top' and d.rng.random() < 0.7: d.children[oa]['cons'].append(c); return True
  if 'top' in (oa, ob) or ka == 'm' and kb == 'm':
    if (ka == 'b' and d.blocks[a][0] == 'child') or (kb == 'b' and d.blocks[b][0] == 'child'): return False
    d.top_cons.append(c); return True
  return False

def nameable_blocks(d):
  return [bi for bi, b in enumerate(d.blocks) if b[0] in ('top', 'child')]

def gen_consistent(rng, uid):
  """constraints consistent with one total order (rank) of the blocks: schedulable, no exclusion can apply"""
  d = gen_structure(rng, uid)
  nb = len(d.blocks)
  rank = list(range(nb)); rng.shuffle(rank)          # rank[block]
  callers = {}
  for bi, ns in d.calls.items():
    for n in ns: callers.setdefault(n, []).append(bi)
  parent = list(range(len(d.nodes)))
  def find(a):
    while parent[a] != a: a = parent[a]
    return a
  eqs = []
  for _ in range(rng.choice([0, 0, 1, 1, 2])):
    a, b = rng.sample(range(len(d.nodes)), 2)
    eqs.append((a, b)); parent[find(a)] = find(b)
  span = {}
  for n in range(len(d.nodes)):
    r = find(n)
    rs = [rank[b] for b in callers.get(n, [])]
    lo, hi = span.get(r, (None, None))
    for x in rs:
      lo = x if lo is None else min(lo, x); hi = x if hi is None else max(hi, x)
    span[r] = (lo, hi)
  for r, (lo, hi) in list(span.items()):
    if lo is None:
      p = rng.randint(-1, nb - 1) + 0.5; span[r] = (p, p)
  for a, b in eqs: place(d, (('m', a), ('m', b), True))
  items = [('m', n) for n in range(len(d.nodes))] + [('b', b) for b in nameable_blocks(d)]
  lohi = lambda it: span[find(it[1])] if it[0] == 'm' else (rank[it[1]], rank[it[1]])
  want = rng.randint(1, 5)
  for _ in range(40):
    if want == 0: break
    x, y = rng.sample(items, 2)
    if x[0] == 'b' and y[0] == 'b': continue
    if lohi(x)[1] < lohi(y)[0] and place(d, (x, y, False)): want -= 1
  return d

def gen_free(rng, uid):
  """no discipline: contradictory constraints, exclusions and cycles all occur"""
  d = gen_structure(rng, uid)
  items = [('m', n) for n in range(len(d.nodes))] + [('b', b) for b in nameable_blocks(d)]
  for _ in range(rng.randint(1, 6)):
    x, y = rng.sample(items, 2)
    if x[0] == 'b' and y[0] == 'b': continue
    eq = x[0] == 'm' and y[0] == 'm' and rng.random() < 0.25
    place(d, (x, y, eq))
  return d

def gen_excl(rng, uid):
  """aimed at the four "INVALID if explicit constraint" exclusions: a base constraint whose ends have callers, plus the
  explicit opposite constraint on a calling block itself (U(B) < M(x), M(y) < U(A), U(blk) < M(u), M(u) < U(blk))"""
  d = gen_structure(rng, uid)
  callers = {}
  for bi, ns in d.calls.items():
    if d.blocks[bi][0] == 'top':
      for n in ns: callers.setdefault(n, []).append(bi)
  called = sorted(callers)
  tops = [bi for bi, b in enumerate(d.blocks) if b[0] == 'top']
  if not called: return gen_free(rng, uid)
  for _ in range(rng.randint(1, 3)):
    form = rng.choice(['MM', 'MM', 'UM', 'MU'])
    if form == 'MM':
      x = rng.choice(called); y = rng.choice([n for n in range(len(d.nodes)) if n != x])
      if rng.random() < 0.5: x, y = y, x
      # optionally reach the called method through an equivalence
      if rng.random() < 0.3:
        z = rng.choice(range(len(d.nodes)))
        if z not in (x, y): d.top_cons.append((('m', x), ('m', z), True))
      d.top_cons.append((('m', x), ('m', y), False))
      for _ in range(rng.randint(1, 2)):
        r = rng.random()
        if r < 0.45 and callers.get(y): d.top_cons.append((('b', rng.choice(callers[y])), ('m', x), False))      # U(B) < M(x)
        elif r < 0.9 and callers.get(x): d.top_cons.append((('m', y), ('b', rng.choice(callers[x])), False))     # M(y) < U(A)
        else: d.top_cons.append((('b', rng.choice(tops)), ('m', rng.choice([x, y])), False))
    elif form == 'UM':
      u = rng.choice(called)
      d.top_cons.append((('b', rng.choice(tops)), ('m', u), False))
      d.top_cons.append((('b', rng.choice(callers[u])), ('m', u), False))                                         # U(blk) < M(u), blk calls u
    else:
      u = rng.choice(called)
      d.top_cons.append((('m', u), ('b', rng.choice(tops)), False))
      d.top_cons.append((('m', u), ('b', rng.choice(callers[u])), False))                                         # M(u) < U(blk), blk calls u
  d.top_cons = sorted(set(d.top_cons)); rng.shuffle(d.top_cons)
  return d

def gen_ring(rng, uid):
  """k blocks in a ring b0 -> b1 -> ... -> b0, every link one of: M(a) < M(z) (b_i calls a, b_i+1 calls z),
  U(b_i) < M(z), M(a) < U(b_i+1), or M(a) == M(a2), M(a2) < M(z): must be rejected"""
  d = GenDesign(rng, uid)
  k = rng.randint(2, 4)
  ch = {'mp': 3 * k, 'nb': 0, 'blocks': [], 'cons': []}
  d.children.append(ch)
  for i in range(3 * k): d.nodes.append((0, f'm{i}'))
  for i in range(k): d.blocks.append(('top', f'b{i}')); d.calls[i] = []
  for i in range(k):
    j = (i + 1) % k
    a, a2, z = 3 * i, 3 * i + 1, 3 * i + 2
    form = rng.choice(['MM', 'UM', 'MU', 'EQ'])
    if form == 'MM': d.calls[i].append(a); d.calls[j].append(z); d.top_cons.append((('m', a), ('m', z), False))
    elif form == 'UM': d.calls[j].append(z); d.top_cons.append((('b', i), ('m', z), False))
    elif form == 'MU': d.calls[i].append(a); d.top_cons.append((('m', a), ('b', j), False))
    else:
      d.calls[i].append(a); d.calls[j].append(z)
      d.top_cons += [(('m', a), ('m', a2), True), (('m', a2), ('m', z), False)]
  for i in range(k): rng.shuffle(d.calls[i])
  d.top_order = list(range(k)); rng.shuffle(d.top_order)
  rng.shuffle(d.top_cons)
  return d

def generated_designs(ck, lines, meta):
  rng = ck.rng
  n = 110 if ck.tier == 'quick' else 900
  for i in range(n):
    r = rng.random()
    uid = next(_uid)
    if r < 0.5: d, tag, expect = gen_consistent(rng, uid), 'gen-consistent', 'ok'
    elif r < 0.7: d, tag, expect = gen_free(rng, uid), 'gen-free', 'any'
    elif r < 0.88: d, tag, expect = gen_excl(rng, uid), 'gen-excl', 'any'
    else: d, tag, expect = gen_ring(rng, uid), 'gen-ring', 'cyclic'
    drive(ck, d.source(), f'GT{uid}', f'{tag}:{uid}', expect, lines, meta)

# ----------------------------------------------------------------------------------------------------------------------

def run(ck):
  lines, meta = [], []
  stdlib_designs(ck, lines, meta)
  mem_designs(ck, lines, meta)
  generated_designs(ck, lines, meta)
  compare(ck, lines, meta)
  ck.extra_cov['method_designs'] = len(lines)

def replay(ck, case):
  """re-run one recorded design: print the model input, the pairs added by the implementation and by the model, the
  schedule and the oracle's verdict"""
  lines, meta = [], []
  n0 = len(ck.violations)
  drive(ck, case['source'], case['top'], case.get('tag', 'replay'), case.get('expect', 'any'), lines, meta,
        ncycles=60 if case.get('tag', '').startswith('mem') else 12, reset=case.get('tag', '').startswith('mem'))
  c, added, before = meta[0]
  print('model input:', json.dumps(c['input'])[:3000])
  print('implementation added:', sorted(added))
  rep = ck.drv('rtl').batch(lines)[0]
  print('model:', rep)
  compare(ck, lines, meta)
  for v in ck.violations[n0:]: print('VIOLATION', v.kind, v.signature, str(v.detail)[:1500])
  for b in ck.breaks: print('DISAGREEMENT', b['correspondence'], b['model'], b['impl'])
  return 1 if (len(ck.violations) > n0 or ck.breaks) else 0
