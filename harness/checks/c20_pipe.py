"""C20 (part) — the five-stage ProcRTL itself, cycle by cycle, against Model/Pipe.lean.

proof:          lean/PymtlVerif/Props/C20p.lean over Model/Pipe.lean (cycle-level model of ProcCtrl + ProcDpath + drop unit +
                the imem request / response bypass queues, written from the code as it is)
correspondence: the REAL ProcRTL runs inside the repo's TestHarness (c20_util programs and timing configurations:
                random memory latency, stall probability, src / sink delays).  At every cycle -- the three reset cycles of
                sim_reset included, starting from the simulator's power-on state -- the harness reads, directly from the
                component's signals, (a) what the environment drives (EnvIn: reset, imem/dmem req.rdy, imem/dmem resp.en+data,
                mngr2proc en+msg, proc2mngr rdy, xcel req.rdy / resp.en+data), (b) what the processor drives (EnvOut) and
                (c) the internal state and wires (valid bits, every pipeline register, control registers per stage, stall /
                ostall / squash / reg_en / next_val bits, bypass selects, control-table row, drop-unit state, queue contents,
                register file).  The recorded EnvIn trace is fed to the model (driver pv_pipe, one line = one trace); EnvOut and
                the digest must agree exactly at every cycle.
direct oracle:  independent of the model: proc2mngr stream and final memory image of the run equal the Python ISA interpreter's
                (c20_util.isa_run), all inputs consumed, commit count = ISA instruction count.
"""
import contextlib, io, struct

from ..common import leanio
from ..common.leanio import InfraError
from . import c20_util as u

from pymtl3 import *
from pymtl3.passes.sim.PrepareSimPass import PrepareSimPass
from pymtl3.passes.sim.SimpleTickPass import SimpleTickPass

DRIVERS = ['pipe']
MODULE = 'PymtlVerif.Props.C20p'
THEOREMS = ['PV.C20p.' + t for t in [
  # level 1: one-cycle facts of the transcribed control equations (any state, any input)
  'stall_chain', 'stall_keeps', 'bubble', 'squash_origin', 'squash_younger_only', 'rf_write_only_W', 'x0_never_written', 'x0_zero',
  # level 2: all states reachable from power-on under ANY input list (ghost sequence numbers)
  'ghost_projection', 'stage_conservation', 'tags_in_order', 'no_dup_no_loss', 'squashed_younger', 'drop_unit_exact',
  'deq_is_accounted', 'rf_written_by_unstalled_W',
  # level 3: refinement of the ISA interpreter for all programs / all admissible environment timings
  'isa_step_is_datapath', 'refinement_invariant', 'arch_state_refines', 'commits_are_isa', 'branch_decision_is_isa',
  'env_assumption_satisfiable', 'reset_gives_postReset', 'runs_satisfiable',
]]
GEN_MODULE = 'PymtlVerif.Props.C20pGen'
MODULES = [MODULE, GEN_MODULE]
# generated-from-source = model (Gen/PipeGen.lean is regenerated from $PV_REPO or /repo by pregen below)
GEN_THEOREMS = ['PV.C20pGen.' + t for t in [
  'gen_Decode_comb_logic_out_eq', 'gen_Alu_comb_logic_out_eq', 'gen_Alu_comb_logic_ops_ne_eq',
  'gen_ImmGen_up_immgen_imm_eq', 'cs_row_eq', 'csBits_fields', 'gen_comb_reg_en_F_reg_en_F_eq',
  'gen_reg_F_val_F_next_eq', 'gen_comb_PC_sel_F_pc_sel_F_eq', 'gen_comb_F_squash_squash_F_eq',
  'gen_comb_F_squash_imemresp_drop_eq', 'gen_comb_F_ostall_F_eq', 'gen_comb_F_stall_F_eq',
  'gen_comb_F_imemreq_en_eq', 'gen_comb_F_imemresp_en_eq', 'gen_comb_F_next_val_F_eq',
  'gen_comb_reg_en_D_reg_en_D_eq', 'gen_reg_D_val_D_next_eq', 'gen_comb_control_table_D_cs_eq',
  'gen_comb_control_table_D_inst_val_D_eq', 'gen_comb_control_table_D_br_type_D_eq',
  'gen_comb_control_table_D_rs1_en_D_eq', 'gen_comb_control_table_D_imm_type_D_eq',
  'gen_comb_control_table_D_op2_sel_D_eq', 'gen_comb_control_table_D_rs2_en_D_eq',
  'gen_comb_control_table_D_alu_fn_D_eq', 'gen_comb_control_table_D_dmemreq_type_D_eq',
  'gen_comb_control_table_D_wb_result_sel_D_eq', 'gen_comb_control_table_D_rf_wen_pending_D_eq',
  'gen_comb_control_table_D_csrr_D_eq', 'gen_comb_control_table_D_csrw_D_eq',
  'gen_comb_control_table_D_rf_waddr_D_eq', 'gen_comb_control_table_D_proc2mngr_en_D_eq',
  'gen_comb_control_table_D_mngr2proc_D_eq', 'gen_comb_control_table_D_xcelreq_type_D_eq',
  'gen_comb_control_table_D_xcelreq_D_eq', 'gen_comb_bypass_D_op1_byp_sel_D_eq',
  'gen_comb_bypass_D_op2_byp_sel_D_eq', 'gen_comb_hazard_D_ostall_ld_X_rs1_D_eq',
  'gen_comb_hazard_D_ostall_ld_X_rs2_D_eq', 'gen_comb_hazard_D_ostall_xcel_X_rs1_D_eq',
  'gen_comb_hazard_D_ostall_xcel_X_rs2_D_eq', 'gen_comb_hazard_D_ostall_hazard_D_eq', 'gen_comb_D_ostall_mngr_D_eq',
  'gen_comb_D_ostall_D_eq', 'gen_comb_D_stall_D_eq', 'gen_comb_D_squash_D_eq', 'gen_comb_D_next_val_D_eq',
  'gen_comb_D_mngr2proc_en_eq', 'gen_comb_reg_en_X_reg_en_X_eq', 'gen_reg_X_val_X_next_eq',
  'gen_reg_X_rf_wen_pending_X_next_eq', 'gen_reg_X_inst_type_X_next_eq', 'gen_reg_X_alu_fn_X_next_eq',
  'gen_reg_X_rf_waddr_X_next_eq', 'gen_reg_X_proc2mngr_en_X_next_eq', 'gen_reg_X_dmemreq_type_X_next_eq',
  'gen_reg_X_wb_result_sel_X_next_eq', 'gen_reg_X_br_type_X_next_eq', 'gen_reg_X_xcelreq_X_next_eq',
  'gen_reg_X_xcelreq_type_X_next_eq', 'gen_comb_br_X_pc_redirect_X_eq', 'gen_comb_X_ostall_dmem_X_eq',
  'gen_comb_X_ostall_xcel_X_eq', 'gen_comb_X_ostall_X_eq', 'gen_comb_X_stall_X_eq', 'gen_comb_X_osquash_X_eq',
  'gen_comb_X_dmemreq_en_eq', 'gen_comb_X_dmemreq_type_eq', 'gen_comb_X_xcelreq_en_eq', 'gen_comb_X_xcelreq_type_eq',
  'gen_comb_X_next_val_X_eq', 'gen_comb_reg_en_M_reg_en_M_eq', 'gen_reg_M_val_M_next_eq',
  'gen_reg_M_rf_wen_pending_M_next_eq', 'gen_reg_M_inst_type_M_next_eq', 'gen_reg_M_rf_waddr_M_next_eq',
  'gen_reg_M_proc2mngr_en_M_next_eq', 'gen_reg_M_dmemreq_type_M_next_eq', 'gen_reg_M_wb_result_sel_M_next_eq',
  'gen_reg_M_xcelreq_M_next_eq', 'gen_comb_M_ostall_xcel_M_eq', 'gen_comb_M_ostall_dmem_M_eq',
  'gen_comb_M_ostall_M_eq', 'gen_comb_M_stall_M_eq', 'gen_comb_M_dmemresp_en_eq', 'gen_comb_M_xcelresp_en_eq',
  'gen_comb_M_next_val_M_eq', 'gen_comb_reg_en_W_reg_en_W_eq', 'gen_reg_W_val_W_next_eq',
  'gen_reg_W_rf_wen_pending_W_next_eq', 'gen_reg_W_inst_type_W_next_eq', 'gen_reg_W_rf_waddr_W_next_eq',
  'gen_reg_W_proc2mngr_en_W_next_eq', 'gen_comb_W_rf_wen_W_eq', 'gen_comb_W_ostall_W_eq', 'gen_comb_W_stall_W_eq',
  'gen_comb_W_proc2mngr_en_eq', 'gen_comb_W_commit_inst_eq', 'gen_inst_type_decoder_D_out_eq',
  'gen_dpath_pc_incr_F_out_eq', 'gen_dpath_pc_sel_mux_F_out_eq', 'gen_dpath_pc_reg_F_out_next_eq',
  'gen_dpath_pc_reg_D_out_next_eq', 'gen_dpath_inst_D_reg_out_next_eq', 'gen_dpath_immgen_D_imm_eq',
  'gen_dpath_op1_byp_mux_D_out_eq', 'gen_dpath_op2_byp_mux_D_out_eq', 'gen_dpath_op2_sel_mux_D_out_eq',
  'gen_dpath_pc_plus_imm_D_out_eq', 'gen_dpath_br_target_reg_X_out_next_eq', 'gen_dpath_op1_reg_X_out_next_eq',
  'gen_dpath_op2_reg_X_out_next_eq', 'gen_dpath_store_reg_X_out_next_eq', 'gen_dpath_alu_X_out_eq',
  'gen_dpath_alu_X_ops_ne_eq', 'gen_dpath_ex_result_reg_M_out_next_eq', 'gen_dpath_wb_result_sel_mux_M_out_eq',
  'gen_dpath_wb_result_reg_W_out_next_eq', 'gen_dpath_rf_raddr_0_conn_eq', 'gen_dpath_rf_raddr_1_conn_eq',
  'gen_dpath_xcelreq_addr_conn_eq', 'gen_dpath_wires_ok', 'gen_drop_set_outputs_out_rdy_eq',
  'gen_drop_set_outputs_in__en_eq', 'gen_drop_state_transitions_snoop_state_next_eq', 'gen_drop_wires_ok',
  'gen_top_wires_ok', 'gen_undriven',
]]
THEOREM_MODULE = {**{t: MODULE for t in THEOREMS}, **{t: GEN_MODULE for t in GEN_THEOREMS}}
THEOREMS = THEOREMS + GEN_THEOREMS
TRUSTED = [
  'Model/Pipe.lean is a hand transcription of ProcCtrlRTL.py / ProcDpathRTL.py / MiscRTL.py (DropUnitRTL, ImmGenRTL, AluRTL) / '
  'TinyRV0InstRTL.py (DecodeInstType) and of the queues ProcRTL.py instantiates (imemreq_q = BypassQueue2RTL = two chained '
  'enrdy BypassQueue1RTL; imemresp_q / dmemresp_q / mngr2proc_q / xcelresp_q = one-entry BypassQueue1EntryRTL, data field only); '
  'the accelerator interface is left as environment inputs / outputs (NullXcelRTL is part of the recorded environment); tied to '
  '/repo by the cycle-exact comparison of every EnvOut field and ~150 internal signals + the register file on recorded traces',
  'the recording harness re-issues the schedule of sim_reset / sim_tick (clock edge, then the update schedule) from the same '
  'generated tick functions, reading signals after the combinational schedule of each cycle',
]

TRUSTED += [
  'translator tie for the control / datapath-select logic: tools/py2lean_pipe.py renders, with Python `ast`, every @update / @update_ff '
  'block of ProcCtrl, DropUnitRTL, ImmGenRTL, AluRTL, DecodeInstType and of the stdlib Mux / Adder / Incrementer / RegEnRst as '
  'instantiated by ProcDpath, the instance / `//=` structure of ProcDpath and the ctrl-dpath-drop-unit connections of ProcRTL into '
  'Gen/PipeGen.lean (subset: `@=`, `<<=`, local aliases, if/elif/else merged into conditional expressions, & | ~ == != < > + << >>, '
  'constant slices, concat / zext / sext / bN(k), port lists indexed by a signal; constants such as bm_*, byp_*, alu_*, NOP.., RS1.., '
  'CSR_*, SNOOP/WAIT, c_reset_vector, XcelMsgType.* and constructor parameters are resolved statically from the modules\' own '
  'assignments; where each class is looked up is a fixed table; anything else makes the translator fail = broken obligation). '
  'Props/C20pGen.lean proves that the valuation of the Python signals by the terms of Model/Pipe.lean (ctrlSig / dpathSig / dropSig: the '
  'hand-written NAMING tie, itself cross-checked by the cycle-level digest comparison that reads the same signal names) satisfies every '
  'generated equation, register update, mux wiring and connection. Reading: a block that reads a signal after its last assignment in '
  'the same block reads the settled valuation. Still hand-transcribed only: the queues (BypassQueue2RTL, BypassQueue1EntryRTL), '
  'RegisterFile, and the ports ProcRTL connects to queues / interfaces (PipeGen.Top.envPorts lists them by name).',
]

ASSUMPTIONS = [
  'level 3 (PV.C20p.refinement_invariant / arch_state_refines / commits_are_isa) is about the MODEL Model/Pipe.lean and holds under: '
  '(a) Runs p N: the ISA interpreter executes N instructions from reset without stopping and none of them was overwritten by an '
  'earlier store (no self-modifying code); (b) the explicit environment predicate envOk / EnvTrace (Proofs/PipeSpec.lean): reset low, '
  'instruction responses = words of the image at accepted fetch addresses in order, data responses in order with little-endian word '
  'semantics (loads read at acceptance), mngr2proc = the source list in order, every rdy / delay arbitrary; accelerator interface '
  'unconstrained but unused by ISA-defined programs; (c) start in a PostReset state. Safety only (no liveness / fairness).',
]

def pregen(ck):
  """translator-based tie: regenerate lean/PymtlVerif/Gen/PipeGen.lean from the ProcCtrlRTL / ProcDpathRTL / MiscRTL / TinyRV0InstRTL /
  ProcRTL sources of $PV_REPO (default /repo) -- written only if its content changed; Props/C20pGen.lean then re-proves
  generated = model"""
  import importlib.util, os
  path = os.path.join(leanio.VERIF, 'tools', 'py2lean_pipe.py')
  spec = importlib.util.spec_from_file_location('py2lean_pipe', path)
  mod = importlib.util.module_from_spec(spec); spec.loader.exec_module(mod)
  return mod.pregen()

ENVIN = ['reset', 'imem_req_rdy', 'imem_resp_en', 'imem_resp_data', 'dmem_req_rdy', 'dmem_resp_en', 'dmem_resp_data',
         'mngr2proc_en', 'mngr2proc_msg', 'proc2mngr_rdy', 'xcel_req_rdy', 'xcel_resp_en', 'xcel_resp_data']
ENVOUT = ['imem_req_en', 'imem_req_addr', 'imem_resp_rdy', 'dmem_req_en', 'dmem_req_type', 'dmem_req_addr', 'dmem_req_data',
          'dmem_resp_rdy', 'mngr2proc_rdy', 'proc2mngr_en', 'proc2mngr_msg', 'xcel_req_en', 'xcel_req_type', 'xcel_req_addr',
          'xcel_req_data', 'xcel_resp_rdy', 'commit_inst']

def envin_readers():
  return [
    lambda p: p.reset, lambda p: p.imem.req.rdy, lambda p: p.imem.resp.en, lambda p: p.imem.resp.msg.data,
    lambda p: p.dmem.req.rdy, lambda p: p.dmem.resp.en, lambda p: p.dmem.resp.msg.data,
    lambda p: p.mngr2proc.en, lambda p: p.mngr2proc.msg, lambda p: p.proc2mngr.rdy,
    lambda p: p.xcel.req.rdy, lambda p: p.xcel.resp.en, lambda p: p.xcel.resp.msg.data]

def envout_readers():
  return [
    lambda p: p.imem.req.en, lambda p: p.imem.req.msg.addr, lambda p: p.imem.resp.rdy,
    lambda p: p.dmem.req.en, lambda p: p.dmem.req.msg.type_, lambda p: p.dmem.req.msg.addr, lambda p: p.dmem.req.msg.data,
    lambda p: p.dmem.resp.rdy, lambda p: p.mngr2proc.rdy, lambda p: p.proc2mngr.en, lambda p: p.proc2mngr.msg,
    lambda p: p.xcel.req.en, lambda p: p.xcel.req.msg.type_, lambda p: p.xcel.req.msg.addr, lambda p: p.xcel.req.msg.data,
    lambda p: p.xcel.resp.rdy, lambda p: p.commit_inst]

# (name, reader) in the order of Driver/Pipe.lean `digest`
DIGEST = [
  # sequential state
  ('val_F', lambda p: p.ctrl.val_F), ('val_D', lambda p: p.ctrl.val_D), ('val_X', lambda p: p.ctrl.val_X),
  ('val_M', lambda p: p.ctrl.val_M), ('val_W', lambda p: p.ctrl.val_W),
  ('pc_F', lambda p: p.dpath.pc_reg_F.out), ('pc_D', lambda p: p.dpath.pc_reg_D.out), ('inst_D', lambda p: p.dpath.inst_D_reg.out),
  ('br_target_X', lambda p: p.dpath.br_target_reg_X.out), ('op1_X', lambda p: p.dpath.op1_reg_X.out),
  ('op2_X', lambda p: p.dpath.op2_reg_X.out), ('store_X', lambda p: p.dpath.store_reg_X.out),
  ('ex_result_M', lambda p: p.dpath.ex_result_reg_M.out), ('wb_result_W', lambda p: p.dpath.wb_result_reg_W.out),
  ('rf_wen_pending_X', lambda p: p.ctrl.rf_wen_pending_X), ('inst_type_X', lambda p: p.ctrl.inst_type_X),
  ('alu_fn_X', lambda p: p.ctrl.alu_fn_X), ('rf_waddr_X', lambda p: p.ctrl.rf_waddr_X),
  ('proc2mngr_en_X', lambda p: p.ctrl.proc2mngr_en_X), ('dmemreq_type_X', lambda p: p.ctrl.dmemreq_type_X),
  ('wb_result_sel_X', lambda p: p.ctrl.wb_result_sel_X), ('br_type_X', lambda p: p.ctrl.br_type_X),
  ('xcelreq_X', lambda p: p.ctrl.xcelreq_X), ('xcelreq_type_X', lambda p: p.ctrl.xcelreq_type_X),
  ('rf_wen_pending_M', lambda p: p.ctrl.rf_wen_pending_M), ('inst_type_M', lambda p: p.ctrl.inst_type_M),
  ('rf_waddr_M', lambda p: p.ctrl.rf_waddr_M), ('proc2mngr_en_M', lambda p: p.ctrl.proc2mngr_en_M),
  ('dmemreq_type_M', lambda p: p.ctrl.dmemreq_type_M), ('wb_result_sel_M', lambda p: p.ctrl.wb_result_sel_M),
  ('xcelreq_M', lambda p: p.ctrl.xcelreq_M),
  ('rf_wen_pending_W', lambda p: p.ctrl.rf_wen_pending_W), ('inst_type_W', lambda p: p.ctrl.inst_type_W),
  ('rf_waddr_W', lambda p: p.ctrl.rf_waddr_W), ('proc2mngr_en_W', lambda p: p.ctrl.proc2mngr_en_W),
  ('drop.snoop_state', lambda p: p.imemresp_drop.snoop_state),
  ('imemreq_q.q1.full', lambda p: p.imemreq_q.q1.full.out), ('imemreq_q.q1.buffer.addr', lambda p: p.imemreq_q.q1.buffer.out.addr),
  ('imemreq_q.q2.full', lambda p: p.imemreq_q.q2.full.out), ('imemreq_q.q2.buffer.addr', lambda p: p.imemreq_q.q2.buffer.out.addr),
  ('imemresp_q.full', lambda p: p.imemresp_q.q.full), ('imemresp_q.entry.data', lambda p: p.imemresp_q.q.entry.data),
  ('dmemresp_q.full', lambda p: p.dmemresp_q.q.full), ('dmemresp_q.entry.data', lambda p: p.dmemresp_q.q.entry.data),
  ('mngr2proc_q.full', lambda p: p.mngr2proc_q.q.full), ('mngr2proc_q.entry', lambda p: p.mngr2proc_q.q.entry),
  ('xcelresp_q.full', lambda p: p.xcelresp_q.q.full), ('xcelresp_q.entry.data', lambda p: p.xcelresp_q.q.entry.data),
  # combinational signals
  ('stall_F', lambda p: p.ctrl.stall_F), ('stall_D', lambda p: p.ctrl.stall_D), ('stall_X', lambda p: p.ctrl.stall_X),
  ('stall_M', lambda p: p.ctrl.stall_M), ('stall_W', lambda p: p.ctrl.stall_W),
  ('ostall_F', lambda p: p.ctrl.ostall_F), ('ostall_D', lambda p: p.ctrl.ostall_D), ('ostall_X', lambda p: p.ctrl.ostall_X),
  ('ostall_M', lambda p: p.ctrl.ostall_M), ('ostall_W', lambda p: p.ctrl.ostall_W),
  ('squash_F', lambda p: p.ctrl.squash_F), ('squash_D', lambda p: p.ctrl.squash_D), ('osquash_X', lambda p: p.ctrl.osquash_X),
  ('pc_redirect_X', lambda p: p.ctrl.pc_redirect_X),
  ('reg_en_F', lambda p: p.ctrl.reg_en_F), ('reg_en_D', lambda p: p.ctrl.reg_en_D), ('reg_en_X', lambda p: p.ctrl.reg_en_X),
  ('reg_en_M', lambda p: p.ctrl.reg_en_M), ('reg_en_W', lambda p: p.ctrl.reg_en_W),
  ('next_val_F', lambda p: p.ctrl.next_val_F), ('next_val_D', lambda p: p.ctrl.next_val_D),
  ('next_val_X', lambda p: p.ctrl.next_val_X), ('next_val_M', lambda p: p.ctrl.next_val_M),
  ('pc_sel_F', lambda p: p.ctrl.pc_sel_F), ('op1_byp_sel_D', lambda p: p.ctrl.op1_byp_sel_D),
  ('op2_byp_sel_D', lambda p: p.ctrl.op2_byp_sel_D), ('op2_sel_D', lambda p: p.ctrl.op2_sel_D),
  ('imm_type_D', lambda p: p.ctrl.imm_type_D), ('inst_type_D', lambda p: p.ctrl.inst_type_decoder_D.out),
  ('inst_val_D', lambda p: p.ctrl.inst_val_D), ('br_type_D', lambda p: p.ctrl.br_type_D), ('rs1_en_D', lambda p: p.ctrl.rs1_en_D),
  ('rs2_en_D', lambda p: p.ctrl.rs2_en_D), ('alu_fn_D', lambda p: p.ctrl.alu_fn_D), ('dmemreq_type_D', lambda p: p.ctrl.dmemreq_type_D),
  ('wb_result_sel_D', lambda p: p.ctrl.wb_result_sel_D), ('rf_wen_pending_D', lambda p: p.ctrl.rf_wen_pending_D),
  ('csrr_D', lambda p: p.ctrl.csrr_D), ('csrw_D', lambda p: p.ctrl.csrw_D),
  ('proc2mngr_en_D', lambda p: p.ctrl.proc2mngr_en_D), ('mngr2proc_D', lambda p: p.ctrl.mngr2proc_D),
  ('xcelreq_D', lambda p: p.ctrl.xcelreq_D), ('xcelreq_type_D', lambda p: p.ctrl.xcelreq_type_D),
  ('ostall_hazard_D', lambda p: p.ctrl.ostall_hazard_D), ('ostall_mngr_D', lambda p: p.ctrl.ostall_mngr_D),
  ('ne_X', lambda p: p.ctrl.ne_X),
  ('ctrl.imemreq_en', lambda p: p.ctrl.imemreq_en), ('ctrl.imemreq_rdy', lambda p: p.ctrl.imemreq_rdy),
  ('ctrl.imemresp_en', lambda p: p.ctrl.imemresp_en), ('ctrl.imemresp_rdy', lambda p: p.ctrl.imemresp_rdy),
  ('ctrl.imemresp_drop', lambda p: p.ctrl.imemresp_drop),
  ('drop.in_.en', lambda p: p.imemresp_drop.in_.en), ('drop.in_.rdy', lambda p: p.imemresp_drop.in_.rdy),
  ('ctrl.dmemresp_en', lambda p: p.ctrl.dmemresp_en), ('ctrl.dmemresp_rdy', lambda p: p.ctrl.dmemresp_rdy),
  ('ctrl.mngr2proc_en', lambda p: p.ctrl.mngr2proc_en), ('ctrl.mngr2proc_rdy', lambda p: p.ctrl.mngr2proc_rdy),
  ('ctrl.xcelresp_en', lambda p: p.ctrl.xcelresp_en), ('ctrl.xcelresp_rdy', lambda p: p.ctrl.xcelresp_rdy),
  ('dpath.imemreq_addr', lambda p: p.dpath.imemreq_addr), ('dpath.imemresp_data', lambda p: p.dpath.imemresp_data),
  ('dpath.dmemresp_data', lambda p: p.dpath.dmemresp_data), ('dpath.mngr2proc_data', lambda p: p.dpath.mngr2proc_data),
  ('dpath.xcelresp_data', lambda p: p.dpath.xcelresp_data),
  ('rf_rdata0_D', lambda p: p.dpath.rf_rdata0_D), ('rf_rdata1_D', lambda p: p.dpath.rf_rdata1_D), ('imm_D', lambda p: p.dpath.immgen_D.imm),
  ('op1_byp_mux_D.out', lambda p: p.dpath.op1_byp_mux_D.out), ('op2_byp_mux_D.out', lambda p: p.dpath.op2_byp_mux_D.out),
  ('op2_sel_mux_D.out', lambda p: p.dpath.op2_sel_mux_D.out), ('pc_plus_imm_D.out', lambda p: p.dpath.pc_plus_imm_D.out),
  ('alu_X.out', lambda p: p.dpath.alu_X.out), ('bypass_M', lambda p: p.dpath.bypass_M),
  ('rf_wen_W', lambda p: p.dpath.rf_wen_W), ('dpath.rf_waddr_W', lambda p: p.dpath.rf_waddr_W), ('rf_wdata_W', lambda p: p.dpath.rf_wdata_W),
]
DIGEST_NAMES = [n for n, _ in DIGEST] + [f'rf[{k}]' for k in range(32)]
N_STATE = 48   # the first N_STATE digest entries are sequential state

class Recorder:
  """reads EnvIn / EnvOut / digest of one cycle straight from the component's signals"""
  def __init__(s, proc, readers=None):
    s.p = proc
    s.rin, s.rout = envin_readers(), envout_readers()
    s.rdig = [r for _, r in (readers or DIGEST)]
    s.envin, s.envout, s.digest = [], [], []
  def sample(s):
    p = s.p
    s.envin.append([int(r(p)) for r in s.rin])
    s.envout.append([int(r(p)) for r in s.rout])
    s.digest.append([int(r(p)) for r in s.rdig] + [int(x) for x in p.dpath.rf.regs])

def record_proc(text, inp, cfg, nout, extra=40, max_cycles=200000, proc_cls=None, readers=None, reset_pulse_at=None):
  """c20_util.run_proc for ProcRTL with a recording of every cycle (reset cycles included).
  Returns (result dict as run_proc, Recorder).  `reset_pulse_at`: optional cycle at which the reset input is raised
  for two cycles in the middle of the run (then only the cycle-level comparison is meaningful)."""
  src_delay, sink_delay, stall, lat = cfg
  with u.patched_sink(u.proc_harness):
    th = u.proc_harness.TestHarness(proc_cls or u.ProcRTL, src_delay=src_delay, sink_delay=sink_delay,
                                    mem_stall_prob=stall, mem_latency=lat)
    th.elaborate()
  img = u.assemble(text)
  if inp:
    img.add_section(u.SparseMemoryImage.Section('.mngr2proc', 0x13000, bytearray(b''.join(struct.pack('<I', v) for v in inp))))
  th.load(img)
  sink = th.sink; sink.got = []
  status = 'ok'; commits = 0; commits_at_last = None; cycles = 0; tail = None
  rec = None
  try:
    with contextlib.redirect_stdout(io.StringIO()):
      th.apply(DefaultPassGroup())
      rec = Recorder(th.proc, readers)
      # sim_reset, with a sample after the update schedule of each cycle (same generated functions as PrepareSimPass)
      ff = SimpleTickPass.gen_tick_function(PrepareSimPass(print_line_trace=False).collect_ff_funcs(th))
      up = SimpleTickPass.gen_tick_function(th._sched.update_schedule)
      th.reset @= 1
      up(); rec.sample()            # cycle 0: power-on state, reset high
      ff(); up(); rec.sample()      # cycle 1
      ff(); up(); rec.sample()      # cycle 2
      ff(); th.reset @= 0
      up(); rec.sample()            # cycle 3: first cycle with reset low
      while cycles < max_cycles:
        if reset_pulse_at is not None and cycles in (reset_pulse_at, reset_pulse_at + 2):
          ff(); th.reset @= (1 if cycles == reset_pulse_at else 0); up()
        else:
          th.sim_tick()
        rec.sample(); cycles += 1
        commits += int(th.commit_inst)
        if tail is None:
          if len(sink.got) >= nout and th.src.done():
            tail = extra; commits_at_last = commits
        else:
          tail -= 1
          if tail <= 0: break
      else:
        status = 'timeout'
  except Exception as e:
    status = f'exception {type(e).__name__}: {str(e)[:200]}'
  n = (1 << 20) - 1
  # the sample of cycle 3 (before the first sim_tick) may already show a commit-free cycle; commits counted from samples
  total_commits = sum(o[-1] for o in rec.envout) if rec else 0
  return dict(out=list(sink.got), mem=bytes(th.mem.read_mem(0, n)), commits=commits_at_last, cycles=cycles,
              status=status, src_left=len(th.src.msgs), total_commits=total_commits), rec

def model_trace(ck, envins):
  """[(envout list, digest list)] per cycle for each trace"""
  replies = ck.drv('pipe').batch([leanio.line('pipe', 'run', t) for t in envins])
  res = []
  for rep in replies:
    t = leanio.parse_sexp(rep)[0]
    res.append([([int(x) for x in o], [int(x) for x in d]) for o, d in t])
  return res

def first_mismatch(rec, model):
  """first cycle / signal where recorded and model values differ, or None"""
  if len(model) != len(rec.envin): return {'cycle': None, 'what': f'{len(model)} model cycles for {len(rec.envin)} recorded'}
  for t, (mo, md) in enumerate(model):
    if mo != rec.envout[t]:
      k = next(k for k in range(len(mo)) if mo[k] != rec.envout[t][k])
      return {'cycle': t, 'what': 'EnvOut.' + ENVOUT[k], 'model': mo[k], 'impl': rec.envout[t][k], 'envin': dict(zip(ENVIN, rec.envin[t]))}
    if md != rec.digest[t]:
      if len(md) != len(rec.digest[t]): return {'cycle': t, 'what': f'digest length {len(md)} vs {len(rec.digest[t])}'}
      k = next(k for k in range(len(md)) if md[k] != rec.digest[t][k])
      return {'cycle': t, 'what': ('state.' if k < N_STATE or k >= len(DIGEST) else 'wire.') + DIGEST_NAMES[k], 'model': md[k],
              'impl': rec.digest[t][k], 'envin': dict(zip(ENVIN, rec.envin[t]))}
  return None

def coverage(ck, rec):
  """which micro-architectural events the recorded trace exercised"""
  ix = {n: k for k, n in enumerate(DIGEST_NAMES)}
  ev = {'stall_F': 0, 'stall_D': 0, 'stall_X': 0, 'stall_M': 0, 'stall_W': 0, 'squash_D': 0, 'squash_F': 0, 'ostall_hazard_D': 0,
        'ostall_mngr_D': 0, 'drop_wait': 0, 'q1_full': 0, 'q2_full': 0, 'byp_x': 0, 'byp_m': 0, 'byp_w': 0}
  for d in rec.digest:
    for k in ('stall_F', 'stall_D', 'stall_X', 'stall_M', 'stall_W', 'squash_D', 'squash_F', 'ostall_hazard_D', 'ostall_mngr_D'):
      ev[k] += d[ix[k]]
    ev['drop_wait'] += d[ix['drop.snoop_state']]; ev['q1_full'] += d[ix['imemreq_q.q1.full']]; ev['q2_full'] += d[ix['imemreq_q.q2.full']]
    if d[ix['val_D']]:
      for sel in (d[ix['op1_byp_sel_D']], d[ix['op2_byp_sel_D']]):
        if sel: ev[('byp_x', 'byp_m', 'byp_w')[sel - 1]] += 1
  for k, v in ev.items(): ck.hist('pipe_events', k, v)
  return ev

def eval_case(ck, pr, cfg, fam):
  ref = pr['ref']
  case = {'part': 'pipe', 'text': pr['text'], 'inp': pr['inp'], 'cfg': cfg, 'family': fam}
  max_cycles = 3000 + 80 * ref['icount'] + 12 * len(ref['out']) * (cfg[1] + 1) + 12 * len(pr['inp']) * (cfg[0] + 1)
  r, rec = record_proc(pr['text'], pr['inp'], tuple(cfg), len(ref['out']), max_cycles=max_cycles)
  if rec is None: raise InfraError('recording harness could not be set up: ' + r['status'])
  ev = coverage(ck, rec)
  ck.count(case, ev['squash_D'] > 0 and ev['stall_D'] > 0 and ev['byp_x'] + ev['byp_m'] + ev['byp_w'] > 0)
  ck.hist('pipe_cycles', min(len(rec.envin) // 500 * 500, 5000)); ck.hist('pipe_family', fam)
  # direct oracle first: the run itself against the ISA interpreter
  n = (1 << 20) - 1
  bad = []
  if r['status'] != 'ok': bad.append(('status', r['status'], 'ok'))
  if r['out'] != ref['out']: bad.append(('proc2mngr', r['out'][:200], ref['out'][:200]))
  if r['src_left']: bad.append(('mngr2proc-unconsumed', r['src_left'], 0))
  if r['mem'] != ref['mem'][:n]: bad.append(('memory', 'differs', 'equal images'))
  if r['status'] == 'ok' and not bad and r['commits'] != ref['icount']: bad.append(('commit_inst', r['commits'], ref['icount']))
  if bad:
    ck.violation('proc-vs-isa', {'level': 'RTL', 'what': bad[0][0]}, {**case, 'part': 'program', 'level': 'RTL'},
                 {'observed_vs_isa': [list(b) for b in bad], 'cycles': r['cycles'],
                  'oracle': 'Python TinyRV0 interpreter written from tinyrv0-isa.md (c20_util.isa_run)'})
  return case, rec

def compare(ck, cases):
  models = model_trace(ck, [rec.envin for _, rec in cases])
  ncyc = 0
  for (case, rec), model in zip(cases, models):
    ncyc += len(rec.envin)
    mm = first_mismatch(rec, model)
    if mm is not None:
      ck.disagreement('Model.Pipe.step≈ProcRTL cycle-by-cycle (' + str(mm.get('what')) + ')', case,
                      {'first_mismatch': mm}, {'cycles_recorded': len(rec.envin)})
  ck.extra_cov['pipe_cycles_compared'] = ck.extra_cov.get('pipe_cycles_compared', 0) + ncyc

DIRECTED = [
  # load-use stall, bypass from X / M / W, taken branch with side-effecting shadow, csrw back-pressure
  ("csrr x1, mngr2proc\naddi x5, x0, 3\nL:\nsw x5, 0(x1)\nlw x6, 0(x1)\nadd x7, x6, x5\nadd x8, x7, x6\nadd x9, x8, x5\ncsrw proc2mngr, x9\n"
   "addi x5, x5, -1\nbne x5, x0, L\ncsrw proc2mngr, x7\ncsrr x10, mngr2proc\nbne x10, x0, T\ncsrw proc2mngr, x5\nsw x5, 4(x1)\nT:\ncsrw proc2mngr, x10\n", [0x2010, 5]),
]

def eval_reset_case(ck, pr, cfg, at):
  """a reset pulse (two cycles) in the middle of a run: only the cycle-level comparison is meaningful (the CL memory and
  the source are not reset, so the program does not complete); the processor sees responses to requests it has forgotten"""
  case = {'part': 'pipe-reset', 'text': pr['text'], 'inp': pr['inp'], 'cfg': cfg, 'reset_pulse_at': at}
  r, rec = record_proc(pr['text'], pr['inp'], tuple(cfg), 10 ** 9, max_cycles=at + 150, reset_pulse_at=at)
  # the restarted program runs on registers that were not reset: the CL test memory may raise on a wild address; the
  # cycles recorded up to that point are compared all the same
  if rec is None or len(rec.envin) < min(at, 8): raise InfraError('recording harness failed: ' + r['status'])
  ck.count(case, True); ck.hist('pipe_family', 'reset-pulse')
  return case, rec

def run(ck):
  from . import c20 as c20mod
  quick = ck.tier == 'quick'
  rng = ck.rng
  fuel = 4000
  progs = [(c20mod.directed_program(t, i, rng), 'directed') for t, i in DIRECTED]
  progs += [(u.gen_program(rng, rng.choice([25, 40, 60, 80] if quick else [25, 50, 80, 120]), fuel), 'mixed') for _ in range(20 if quick else 150)]
  progs += [(u.gen_program(rng, 90, fuel, family='alias'), 'alias') for _ in range(1 if quick else 20)]
  cases = []
  for k, (pr, fam) in enumerate(progs):
    cfgs = [c20mod.rand_cfg(rng, tight=True)] + ([c20mod.rand_cfg(rng)] if (k % 2 == 0 or not quick) else [])
    for cfg in cfgs:
      cases.append(eval_case(ck, pr, cfg, fam))
    if k % 5 == 1:
      cases.append(eval_reset_case(ck, pr, c20mod.rand_cfg(rng), rng.randint(8, 120)))
    if len(cases) >= 24:
      compare(ck, cases); cases = []
    if len(ck.violations) > 10: break
  compare(ck, cases)

def replay(ck, data):
  c = data['case']
  ref_mem = bytearray(1 << 20)
  words = u.image_words(u.assemble(c['text']))
  for a, w in words: ref_mem[a:a + 4] = w.to_bytes(4, 'little')
  q = list(c['inp'])
  ref = u.isa_run(ref_mem, lambda rd: q.pop(0) if q else None, 20000)
  at = c.get('reset_pulse_at')
  if at is not None: r, rec = record_proc(c['text'], c['inp'], tuple(c['cfg']), 10 ** 9, max_cycles=at + 150, reset_pulse_at=at)
  else: r, rec = record_proc(c['text'], c['inp'], tuple(c['cfg']), len(ref['out']), max_cycles=3000 + 100 * ref['icount'] + 500 * len(ref['out']))
  model = model_trace(ck, [rec.envin])[0]
  mm = first_mismatch(rec, model)
  print(c['text']); print(f"inputs={c['inp']} cfg={c['cfg']}")
  print(f"isa oracle: icount={ref['icount']} out={ref['out']}")
  print(f"ProcRTL:    status={r['status']} commits={r['commits']} cycles={r['cycles']} out={r['out']}")
  print(f"cycle-level comparison over {len(rec.envin)} cycles: first mismatch = {mm}")
  if mm and mm.get('cycle') is not None:
    t = mm['cycle']
    for tt in range(max(0, t - 2), t + 1):
      print(f' cycle {tt}: envin={dict(zip(ENVIN, rec.envin[tt]))}')
      print('   impl :', {n: v for n, v in zip(DIGEST_NAMES[:N_STATE], rec.digest[tt][:N_STATE])})
      print('   model:', {n: v for n, v in zip(DIGEST_NAMES[:N_STATE], model[tt][1][:N_STATE])})
  ok = at is not None or (r['status'] == 'ok' and r['out'] == ref['out'] and r['mem'] == bytes(ref_mem)[:len(r['mem'])] and not r['src_left'])
  return 0 if (ok and mm is None) else 1
