"""C08 — connected signals form single-writer nets independent of connect order.

proof:          lean/PymtlVerif/Props/C08.lean (model: Model/Nets.lean)
correspondence: top.get_all_value_nets() / get_signal_adjacency_dict() of generated hierarchical designs, elaborated
                under several statement orders and side flips, vs `nets`/`resolve` of the model; then simulation
direct oracle:  eval(repr(member)) is member for every net member + union-find over the connection list + bit-level source analysis (c08_gen.oracle) + "all orders give the
                same nets and writers" + "every member of a net carries the writer's value" (DefaultPassGroup with sim_eval_combinational / sim_reset / sim_tick as the first request; UnrollSim or Mamba2020 on a second order)
"""
import random

from ..common import leanio
from ..common.leanio import InfraError
from . import c08_gen as g

PID = 'C08'
DRIVERS = ['nets']
MODULE = 'PymtlVerif.Props.C08'
THEOREMS = ['PV.C08.' + t for t in [
  'component_sound_complete', 'component_is_closed', 'nets_are_classes', 'nets_cover_classes', 'nets_each_once',
  'nets_edge_set', 'perm_invariant', 'flip_invariant', 'writer_unique', 'every_net_once', 'headless_has_no_source',
  'marks_are_spec', 'two_writers_iff', 'src_iff_bits', 'propagation_confluent', 'resolve_is_resolveFrom']]
TRUSTED = [
  'Model/Nets.lean: nets/resolve written from ComponentLevel3._floodfill_nets/_resolve_value_connections (after fix: 87007f6, be47852); '
  'objects are numbered by the harness, the relation between objects is computed from (signal, field path, slice)',
  'the rounds of the model are proved confluent (PV.C08.propagation_confluent: any order of nets and initial marks gives the order-free result); '
  'that the implementation\'s loop is the modelled loop is established by this correspondence over statement orders and side flips',
  'the simulation clause (members equal the writer) is checked on the real simulator only (no theorem)',
  'harness: c08_gen.py (design generator, PyMTL source emitter, bit-level oracle with the real packed layout of the bitstructs)',
]
ASSUMPTIONS = [
  'designs: 1-3 levels of components, Bits and (nested) bitstruct signals, connections between signals / fields / slices / constants; '
  'list-valued struct fields (2-D lists of Bits and of structs, a 1-D list) included; no interfaces, no method ports, no lists of top-level signals, no Placeholder components',
  'well-formedness assumed by the theorems (Design.WF) is checked by the driver on every request (Design.wf, proved sound: PV.C09.wf_checked)',
  'main stream never lets a net member share bits with another member of the same net (that shape is the known finding '
  'self-overlap-net, generated in its own labelled stream)',
]
RULE = ('random hierarchy + random nets grown from a writer (block-written / top-level input / constant / relative of an already driven object: '
        'parent, field, overlapping slice) by legal data flows; each design elaborated under K orders (per-component statement permutations, random '
        'side flips, //= vs connect); case = (design, order); non-trivial = at least two user nets and at least one field/slice object; '
        'distinct = canonical JSON of design and order')

# ---- begin: translator-based tie of the slice-overlap test (tools/py2lean_overlap.py regenerates Gen/OverlapGen.lean from
# pymtl3/dsl/Connectable.py before the build; Props/C09Gen.lean proves generated `_overlap` = `Nets.overlap` of the model)
MODULE = [MODULE, 'PymtlVerif.Props.C09Gen']
THEOREMS = THEOREMS + ['PV.C09Gen.gen_overlap_eq_nets']
THEOREM_MODULE = {'PV.C09Gen.gen_overlap_eq_nets': 'PymtlVerif.Props.C09Gen'}
TRUSTED = TRUSTED + ['tools/py2lean_overlap.py (translator, same core and trusted subset as tools/py2lean_bits.py): `_overlap` of Connectable.py is regenerated as Gen/OverlapGen.lean on every run and proved equal to the model\'s Nets.overlap on (lo, hi) pairs (no hypothesis)']
def pregen(ck):
  import importlib.util, os
  path = os.path.join(leanio.VERIF, 'tools', 'py2lean_overlap.py')
  spec = importlib.util.spec_from_file_location('py2lean_overlap', path)
  mod = importlib.util.module_from_spec(spec); spec.loader.exec_module(mod)
  return mod.pregen()
# ---- end: translator-based tie

def parse_reply(rep):
  r = {x[0]: x[1:] for x in leanio.parse_sexp(rep)}
  return r

def model_nets(d, objs, r):
  return sorted((d.orepr(objs[int(n[0])]), sorted(d.orepr(objs[int(x)]) for x in n[1:])) for n in r['headed'])

def model_adj(d, objs, r):
  return sorted((d.orepr(objs[int(n[0])]), sorted(d.orepr(objs[int(x)]) for x in n[1:])) for n in r['adj'])

def model_lines(d, variants):
  return [d.model_line(conn_order=d.conn_order_of(var), flips=var['flips'], blk_order=None)[1] for var in variants]

class Pending:
  """designs waiting for the model: one driver process per chunk instead of one per design"""
  def __init__(self, ck, limit=60):
    self.ck, self.limit, self.items = ck, limit, []
  def add(self, *args, **kw):
    self.items.append((args, kw))
    if len(self.items) >= self.limit: self.flush()
  def flush(self):
    if not self.items: return
    lines, spans = [], []
    for (args, kw) in self.items:
      ls = model_lines(args[0], args[1]); spans.append((len(lines), len(lines) + len(ls))); lines += ls
    reps = self.ck.drv('nets').batch(lines)
    for (args, kw), (a, b) in zip(self.items, spans):
      check_design(self.ck, *args, reps=reps[a:b], **kw)
    self.items = []

def check_design(ck, d, variants, stream, sim_variants, shape_sig=None, reps=None):
  """one design under all its variants: model lines, real elaboration, oracles, comparisons"""
  dj = g.design_to_json(d)
  desc = g.describe(d)
  objs = d.all_objects()
  if reps is None: reps = ck.drv('nets').batch(model_lines(d, variants))
  parsed = [parse_reply(r) for r in reps]
  # the model itself must be order independent (theorems perm_invariant / flip_invariant)
  for vi in range(1, len(reps)):
    if {k: v for k, v in parsed[vi].items()} != parsed[0]:
      ck.disagreement('model-order-dependence', {'design': dj, 'variant': g.variant_to_json(variants[vi]), 'stream': stream}, reps[0], reps[vi])
  m = parsed[0]
  res = g.oracle(d)
  uf = sorted(sorted(d.orepr(x) for x in n) for n in g.uf_nets(d))
  onets = sorted((d.orepr(w) if w is not None else None, sorted(d.orepr(x) for x in n)) for (w, n) in res['nets'])
  mod = g.load_module(ck.workdir, d, variants)
  first = None
  nontrivial = len(d.netinfo) >= 2 and desc['sub_objects'] >= 1
  try:
    for vi, var in enumerate(variants):
      case = {'design': dj, 'variant': g.variant_to_json(var), 'stream': stream}
      ck.count(case, nontrivial)
      top, exc, msg = g.elaborate(mod, d, vi)
      if exc is not None:
        if res['legal']:
          ck.violation('legal-design-rejected', {'exc': exc, 'stream': stream}, case,
                       {'exception': exc, 'message': msg[:600], 'oracle': 'bit-level oracle finds no defect', 'source': d.source([var])})
        else:
          raise InfraError(f'C08 generator produced a design its own oracle calls illegal: {res}')
        continue
      rn = g.real_nets(top)
      ra = g.real_adj(top)
      # direct oracle 0: the name of every net member addresses that member
      for (w_, net_) in top.get_all_value_nets():
        for m_ in net_:
          if hasattr(m_, 'is_signal') and m_.is_signal():
            try: same = eval(repr(m_), {'s': top}) is m_
            except Exception: same = False
            if not same:
              ck.violation('name-does-not-address-member', {'stream': stream}, case, {'member': repr(m_), 'source': d.source([var])})
      # direct oracle 1: nets are the connected components of the connection list
      if sorted(n for (_, n) in rn) != uf:
        ck.violation('nets-not-components', {'stream': stream}, case, {'impl_nets': rn, 'components': uf, 'source': d.source([var])})
      # direct oracle 2: the writer is the unique independently driven member
      if rn != onets:
        ck.violation('writer-not-unique-driver', {'stream': stream}, case, {'impl_nets': rn, 'oracle_nets': onets, 'source': d.source([var])})
      # direct oracle 3: every order gives the same nets and writers
      if first is None: first = (rn, ra)
      elif (rn, ra) != first:
        ck.violation('order-dependent-nets', {'stream': stream}, case, {'this_order': rn, 'first_order': first[0], 'source': d.source([var])})
      # model second
      mn, ma = model_nets(d, objs, m), model_adj(d, objs, m)
      if m['stage'] != ['0'] or rn != mn:
        ck.disagreement('nets-and-writers', case, {'stage': m['stage'], 'errs': m['errs'], 'nets': mn}, {'nets': rn})
      if ra != ma:
        ck.disagreement('adjacency', case, ma, ra)
      if m['loop'] != m['ffloop']:
        ck.disagreement('model-loop-tests-differ', case, m['loop'], m['ffloop'])
      # direct oracle 4: simulation, under several first requests to the fresh simulator and two pass groups
      if vi in sim_variants:
        byrepr = {d.orepr(o): o for o in d.all_objects()}
        nets = [(byrepr[w], [byrepr[x] for x in n]) for (w, n) in rn if w in byrepr and all(x in byrepr for x in n)]
        plans = [('eval', 'default'), ('reset', 'default'), ('tick', 'default')] if vi == min(sim_variants) else \
                [(ck.rng.choice(['eval', 'reset', 'tick']), ck.rng.choice(['unroll', 'mamba']))]
        for pi, (drive, flow) in enumerate(plans):
          t2 = top
          if pi > 0:
            t2, exc2, _ = g.elaborate(mod, d, vi)
            if exc2 is not None: break
          try:
            fails = g.simulate_and_check(t2, d, mod, ck.rng, nets, nvec=2, drive=drive, flow=flow)
          except Exception as e:
            # an accepted design whose nets cannot be simulated: the members do not carry the writer's value
            fails = [dict(exception=type(e).__name__, message=str(e)[:400], drive=drive, flow=flow)]
          ck.hist('simulated', f'{flow}:{drive}-first')
          if fails:
            sig = dict(shape_sig) if shape_sig else {'stream': stream}
            ck.violation('member-differs-from-writer', sig, case, {'first_failures': fails[:4], 'source': d.source([var])})
  finally:
    g.unload_module(mod)
  ck.hist('levels', desc['levels']); ck.hist('components', desc['comps'])
  ck.hist('user_nets', min(len(d.netinfo), 9)); ck.hist('user_connections', min(desc['user_conns'] // 3 * 3, 24))
  ck.hist('orders_per_design', len(variants)); ck.hist('stream', stream)
  for n in d.netinfo: ck.hist('writer_kind', n['kind'])
  ck.hist('field_or_slice_objects', min(desc['sub_objects'] // 2 * 2, 16))
  for t in d.tags: ck.hist('directed_shape', t)
  ck.hist('slices_written_as_slice_of_slice', min(len(d.nest), 8))

def run(ck):
  rng = ck.rng
  quick = ck.tier == 'quick'
  ndesigns = 340 if quick else 2500
  K = 6 if quick else 16
  # known finding: a net whose reader overlaps its own writer is simulated one evaluation late
  w = g.witness_self_overlap()
  check_design(ck, w, [w.variant_orders(rng, identity=True), w.variant_orders(rng)], 'self-overlap-witness', {0},
               shape_sig={'shape': 'self-overlap-net'})
  for _ in range(3 if quick else 20):
    d = g.gen_self_overlap(rng)
    check_design(ck, d, [d.variant_orders(rng, identity=(k == 0)) for k in range(2)], 'self-overlap', {0},
                 shape_sig={'shape': 'self-overlap-net'})
  pend = Pending(ck)
  for i in range(ndesigns):
    d = g.gen_legal(rng, d1=rng.random() < 0.2)
    variants = None
    if not quick and i % 5 == 0:
      variants = g.all_variant_orders(d, rng, 120)       # exhaustive over statement orders for small designs
      if variants is not None: ck.hist('exhaustive_orders', 'yes')
    if variants is None:
      variants = [d.variant_orders(rng, identity=(k == 0)) for k in range(K)]
    sims = {0, rng.randrange(len(variants))}
    pend.add(d, variants, 'legal', sims)
  pend.flush()
  ck.extra_cov['orders'] = f'{K} per design' + ('' if quick else '; every per-component statement order for each fifth design with at most 120 orders')

def replay(ck, data):
  case = data['case']
  d = g.design_from_json(case['design'])
  var = g.variant_from_json(case['variant'])
  objs, line = d.model_line(conn_order=d.conn_order_of(var), flips=var['flips'])
  m = parse_reply(ck.drv('nets').batch([line])[0])
  print('--- source'); print(d.source([var]))
  print('--- model : stage', m['stage'], 'errs', m['errs']); print('    nets', model_nets(d, objs, m))
  mod = g.load_module(ck.workdir, d, [var])
  top, exc, msg = g.elaborate(mod, d, 0)
  if exc is not None:
    print('--- impl  : raised', exc, msg[:400]); return 1
  rn = g.real_nets(top)
  print('--- impl  : nets', rn)
  res = g.oracle(d)
  print('--- oracle: nets', sorted((d.orepr(w) if w is not None else None, sorted(d.orepr(x) for x in n)) for (w, n) in res['nets']))
  byrepr = {d.orepr(o): o for o in d.all_objects()}
  fails = g.simulate_and_check(top, d, mod, random.Random(0), [(byrepr[w], [byrepr[x] for x in n]) for (w, n) in rn])
  print('--- simulation: member/writer mismatches', fails[:4])
  return 1 if (fails or rn != model_nets(d, objs, m)) else 0
