"""C14 — hierarchical names are unique and evaluate back to their objects.

proof:          lean/PymtlVerif/Props/C14.lean  (model: Model/Hier.lean, lemmas: Proofs/Hier.lean)
correspondence: random construction descriptions are written as real PyMTL module files, elaborated, and
                every object's repr / field name / parent / level / host / top-level signal / slice is
                compared with the records of the Lean model (`hier elab`); non-canonical expressions
                (int index on a signal, slice of a slice) are evaluated on both sides (`hier resolve`)
direct oracle:  independent of the model, on the real objects only: repr unique; eval(repr(o)) is o;
                parent is the value of the longest proper prefix of repr(o) that evaluates to a
                NamedObject; level / host / top-level signal read off the prefix values; the same
                construction code elaborated twice gives the same name set
"""
import importlib.util, json, os, re, sys

from ..common import leanio
from ..common.leanio import InfraError

PID = 'C14'
DRIVERS = ['hier']
MODULE = ['PymtlVerif.Props.C14', 'PymtlVerif.Props.C14h']
THEOREMS = ['PV.C14.' + t for t in [
  'bfs_indices', 'resolve_name', 'name_injective', 'record_determined', 'parent_longest_prefix', 'root_parent',
  'field_name', 'level_counts_prefixes', 'level_counts_components', 'host_deepest_component',
  'top_level_signal', 'int_index_is_slice', 'slice_of_slice', 'slice_record', 'resolve_complete', 'elab_sound',
  'rebuild_same_names', 'render_injective', 'repr_unique']]
# the naming hook as an operation on the naming state (Model/HierHook.lean): attribute assignments and `+=`
HOOK_THEOREMS = ['PV.C14h.' + t for t in [
  'walk_indices', 'hook_names_resolve', 'hook_names_injective', 'hook_metadata', 'iadd_names_unnamed_elements',
  'mutated_behind_hook_unnamed', 'append_behind_hook_unnamed', 'insert_behind_hook_unnamed']]
THEOREMS = THEOREMS + HOOK_THEOREMS
THEOREM_MODULE = {t: 'PymtlVerif.Props.C14h' for t in HOOK_THEOREMS}
TRUSTED = [
  'Model/Hier.lean follows NamedObject.__setattr_for_elaborate__, Signal.__getattr__/__getitem__, Component._construct (clk/reset), get_host_component as they are in /repo',
  'lazily created field/slice signals are modelled as a created set over the space of possible children; "created once and cached" is represented by the record being a function of the heap location (theorem record_determined) and tied to the code by `eval(repr(o)) is o` and `eval(expr) is eval(canonical name)` in this check',
  'the tokenizer of this check (validated on every name by render(tokenise(s)) == s and against the Lean `render`)',
  'Model/HierHook.lean follows NamedObject.__setattr_for_elaborate__ (object / list / anything-else branch, FieldReassignError, the same-list re-assignment of `s.x += [...]` since fix 0c15daa) as it is in /repo; a Python list that is reachable through several references is modelled by rewriting every occurrence of its identity (HSt.mutate); the interpreter of construct programs in Driver/HierHook.lean (evaluation order, _construct() of newly named objects, clk/reset of a component) is glue, tied by the exact comparison of access paths and _dsl records in c14_lists.py',
]
ASSUMPTIONS = [
  'an object bound under a second attribute is named by its LAST binding (clean rule); generated for leaf objects and lists of leaf objects only, where this equals the description with the object constructed at the last binding (a whole interface / a signal that already has field or slice children keeps its children named through the old path and is not generated; a whole component is rejected by elaborate()); lists hold only NamedObjects, lists or None placeholders (None at any position, element 0 of the outermost list included since fix: c7238e1)',
  'slot / field names are Python identifiers that do not shadow attributes of Component / Interface / Signal; a component is never stored inside an interface (needed only for level = number of component prefixes)',
  'a repeated slot name is a FieldReassignError in the real code; the model reports the same error and otherwise keeps the first binding',
  'hook theorems (Props/C14h): statements are `s.a = v` on an attribute name the owner does not have yet and `s.a += extra`; the objects put into a value are in the design already or new (no name, no attributes), never the owner itself; a list does not contain itself; hook_metadata additionally: objects bound again have no named children (otherwise known finding C14-rebind-object-with-descendants); a list changed by a list method after its assignment is outside the theorems (known finding C14-list-mutated-in-place, modelled by mutated_behind_hook_unnamed)',
]
RULE = ('random construction description: component tree 1-4 deep, slots holding a signal / interface / method port / '
        'component or a nested list (1-3 dimensions, sometimes ragged, mixed, with empty sub-lists, with None holes: '
        'diagonal / triangle of a grid, whole rows, leading / middle / trailing positions), struct-typed '
        'signals with list fields and nested structs, 0-12 access expressions (field, list-field index, slice, int '
        'index, slice of slice, slice of slice of slice) evaluated inside construct and after elaborate; then 0-3 '
        'top.add_value_port(parent, name, port) on components and interfaces at any depth (also in lists), some followed by '
        'top.add_connection, and the whole property re-checked; in half of the cases 1-4 aliasing re-assignments inside construct '
        '(an already named leaf object or list of leaf objects of the sub-hierarchy, or of the owner itself, bound again under a '
        'new attribute of a component / interface) plus accesses through the old paths; '
        'separately: chains of 2-3 component classes with @method_port / @non_blocking / @blocking methods (derived classes override / add / '
        'only inherit decorated methods) elaborated under five histories of freshly created classes (alone, after base classes, after derived '
        'classes, siblings in both orders): same names in every history; separately (c14_lists.py): construct programs of components / interfaces '
        'with list attributes changed after their assignment — `+=` once / several times / with nested lists / None holes / on lists first bound empty / on a list '
        'bound under a second attribute name (extended through either name), lists of signals, interfaces and components; mode "mutated": append / extend / insert at the end / '
        '`+=` on an inner list / slot assignment into a None hole (must reproduce exactly known finding C14-list-mutated-in-place); mode "moved": insert before the end / pop / slot '
        'replacement, also followed by `+=`; non-trivial = has a list slot or a lazily created signal; distinct = distinct canonical description')

# ------------------------------------------------------------------------------------------------
# tokens

TOK_RE = re.compile(r'\.([A-Za-z_][A-Za-z0-9_]*)|\[(\d+):(\d+)\]|\[(\d+)\]')

def tokenise(s):
  """'s.a[1].b[2:5]' -> [['a','a'],['i',1],['a','b'],['s',2,5]]  (the leading 's' is implicit)"""
  if not s or s[0] != 's': raise ValueError(f'name does not start at the top: {s!r}')
  i, out = 1, []
  while i < len(s):
    m = TOK_RE.match(s, i)
    if not m: raise ValueError(f'cannot tokenise {s!r} at {i}')
    if m.group(1) is not None: out.append(['a', m.group(1)])
    elif m.group(2) is not None: out.append(['s', int(m.group(2)), int(m.group(3))])
    else: out.append(['i', int(m.group(4))])
    i = m.end()
  return out

def render(toks):
  out = ['s']
  for t in toks:
    if t[0] == 'a': out.append('.' + t[1])
    elif t[0] == 'i': out.append(f'[{t[1]}]')
    else: out.append(f'[{t[1]}:{t[2]}]')
  return ''.join(out)

# ------------------------------------------------------------------------------------------------
# generator of construction descriptions
#   node  = ['comp', slots] | ['ifc', slots] | ['ifc', slots, realclass] | ['mport', 'caller'|'callee'] | ['sig', 'wire'|'in'|'out', ty]
#   slots = [[name, sval], ...]    sval = ['one', node] | ['many', [sval, ...]]
#   ty    = ['bits', n] | ['struct', [[fname, fval], ...]]    fval = ['one', ty] | ['many', [fval, ...]]

NAMES = ['a', 'b', 'c', 'p', 'q', 'r', 'x', 'y', 'z', 'in_', 'out', 'req', 'resp', 'msg', 'val', 'rdy', 'en', 'ret',
         'foo', 'bar', 'w0', 'u_1', 'data', 'Q', 'aB', 's', 'ss', 'i', 'a0', 'b12', 'x_y_z']
FNAMES = ['a', 'b', 'c', 'd', 'p', 'q', 'f0', 'f_1', 'hi', 'lo', 'op', 's', 'x', 'aa', 'Z']

class Gen:
  def __init__(self, rng, big=False):
    self.rng = rng
    self.budget = rng.choice([3, 6, 10, 16, 24, 40]) * (2 if big else 1)
    self.maxdepth = rng.choice([1, 2, 2, 3, 3, 4])

  def ty(self, depth=0):
    rng = self.rng
    if depth >= 2 or rng.random() < (0.55 if depth == 0 else 0.6):
      return ['bits', rng.choice([1, 1, 2, 3, 4, 5, 8, 8, 13, 16, 32, 64])]
    nf = rng.randint(1, 3)
    names = rng.sample(FNAMES, nf)
    fields = []
    for fn in names:
      t = self.ty(depth + 1)
      if rng.random() < 0.4:
        dims = [rng.randint(1, 3) for _ in range(rng.choice([1, 1, 2, 2, 3]))]
        fv = ['one', t]
        for d in reversed(dims): fv = ['many', [fv] * d]
      else:
        fv = ['one', t]
      fields.append([fn, fv])
    return ['struct', fields]

  def leaf(self, in_ifc):
    rng = self.rng
    r = rng.random()
    if r < 0.15: return ['mport', rng.choice(['caller', 'callee'])]
    return ['sig', rng.choice(['wire', 'in', 'out']), self.ty()]

  def node(self, kind, depth):
    rng = self.rng
    self.budget -= 1
    if kind == 'ifc' and rng.random() < 0.2:
      cls = rng.choice(['CallerIfcCL', 'CalleeIfcCL', 'CallerIfcFL', 'CalleeIfcFL'])
      slots = [['method', ['one', ['mport', 'caller' if 'Caller' in cls else 'callee']]]]
      if cls.endswith('CL'): slots.append(['rdy', ['one', ['mport', 'caller' if 'Caller' in cls else 'callee']]])
      return ['ifc', slots, cls]
    nslots = rng.randint(0, 3) if depth else rng.randint(1, 5)
    names = rng.sample(NAMES, nslots)
    slots = []
    for nm in names:
      if rng.random() < 0.04: nm = '_' + nm           # private: never named / collected
      slots.append([nm, self.sval(kind, depth)])
    return [kind, slots]

  def obj(self, parent_kind, depth):
    rng = self.rng
    r = rng.random()
    if self.budget > 0 and depth < self.maxdepth:
      if parent_kind == 'comp' and r < 0.3: return self.node('comp', depth + 1)
      if r < 0.5: return self.node('ifc', depth + 1)
    return self.leaf(parent_kind == 'ifc')

  def sval_dense(self, parent_kind, depth):
    rng = self.rng
    if rng.random() < 0.6: return ['one', self.obj(parent_kind, depth)]
    ndims = rng.choice([1, 1, 1, 2, 2, 3])
    mode = rng.random()
    if mode < 0.6:
      # regular array of structurally identical objects
      proto = self.obj(parent_kind, depth)
      dims = [rng.randint(1, 3) for _ in range(ndims)]
      def build(ds):
        if not ds: return ['one', proto]
        return ['many', [build(ds[1:]) for _ in range(ds[0])]]
      return build(dims)
    # ragged / mixed / with empty sub-lists (the first element must be an object or a list)
    def build2(d, first):
      if d == 0 or (not first and rng.random() < 0.2): return ['one', self.obj(parent_kind, depth)]
      n = rng.randint(1 if first else 0, 3)
      return ['many', [build2(d - 1, False) for _ in range(n)]]
    return build2(ndims, True)

  def sval(self, parent_kind, depth):
    sv = self.sval_dense(parent_kind, depth)
    if sv[0] == 'many' and self.rng.random() < 0.5: punch_holes(self.rng, sv)
    return sv

HOLE = ['hole']

def punch_holes(rng, sv):
  """Replace elements of the (nested) list value by None placeholders: single holes at arbitrary
  positions (leading / middle / trailing, also element 0 of the outermost list), whole rows of None,
  leading rows replaced by None, a diagonal or a lower triangle of a 2-D grid. (Before fix: c7238e1 a
  None as element 0 of the attribute's own list made the hook skip the whole list; see CORPUS.)"""
  mode = rng.random()
  def lists_of(x, acc):
    if x[0] == 'many':
      acc.append(x)
      for y in x[1]: lists_of(y, acc)
    return acc
  ls = lists_of(sv, [])
  rows = ls[1:]
  if mode < 0.25 and rows:
    # crossbar: no self link -> diagonal holes; or upper triangle only
    tri = rng.random() < 0.5
    for i, y in enumerate(sv[1]):
      if y[0] != 'many': continue
      for j in range(len(y[1])):
        if (j <= i) if tri else (j == i): y[1][j] = HOLE
  elif mode < 0.4 and rows:
    r = rng.choice(rows)
    for j in range(len(r[1])): r[1][j] = HOLE               # a whole row of None
  elif mode < 0.55 and sv[1]:
    if rng.random() < 0.5:
      for j in range(rng.randint(1, len(sv[1]))): sv[1][j] = HOLE   # leading rows / elements of the outer list are None
    else:
      sv[1][rng.randrange(len(sv[1]))] = HOLE
  else:
    for l in ls:
      for j in range(len(l[1])):
        if rng.random() < 0.3: l[1][j] = HOLE
  if rng.random() < 0.15:
    l = rng.choice(ls)                                      # an extra None (also into an empty sub-list)
    l[1].insert(rng.randint(0, len(l[1])), HOLE)

def gen_case(rng, big=False):
  g = Gen(rng, big)
  top = g.node('comp', 0)
  kind = 'ok'
  if rng.random() < 0.06:
    kind = 'dup'
    inject_dup(rng, top)
  final, acc_old = top, []
  if kind == 'ok' and rng.random() < 0.5:
    top, final, acc_old = gen_aliases(rng, top)
  sigs = static_signals(final)
  accs_c, accs_p = [], []
  if kind == 'ok' and sigs:
    for _ in range(rng.randint(0, 8)): accs_c.append(gen_access(rng, sigs))
    for _ in range(rng.randint(0, 5)): accs_p.append(gen_access(rng, sigs))
  case = {'desc': top, 'acc_construct': accs_c, 'acc_post': accs_p, 'kind': kind, 'adds': [], 'acc_added': [], 'acc_old': []}
  if kind == 'ok':
    case['adds'] = gen_adds(rng, final)
    case['acc_added'] = gen_after_add_accesses(rng, case)
    if final is not top:
      case['desc_final'] = final
      case['acc_old'] = acc_old
  return case

def final_desc(case):
  """the description the hierarchy is equivalent to once the aliasing re-assignments have run"""
  return case.get('desc_final', case['desc'])

def is_leaf_list(sv):
  # a hole left by an earlier element alias still holds the object in the real list: binding that list again
  # would rename the element back (last binding wins) -- such lists are not picked as sources
  if sv[0] == 'hole': return len(sv) == 1
  if sv[0] == 'one': return sv[1][0] in ('sig', 'mport')
  return all(is_leaf_list(x) for x in sv[1])

def has_leaf(sv):
  if sv[0] == 'hole': return False
  if sv[0] == 'one': return True
  return any(has_leaf(x) for x in sv[1])

def gen_aliases(rng, top):
  """ALIASING re-assignments inside construct: after a component / interface has built its slots it stores a
  reference to an already named LEAF object of its sub-hierarchy (a child's port / wire, an interface port, a list
  element, a method port, at any depth; or an object of its own: same-owner second reference), or to a whole list
  of leaf objects, under a new attribute name of its own.
  What the clean code does: the setattr hook runs again, so the object is renamed completely by its LAST binding
  (name, parent, level move together; the old attribute still reaches it but is no longer its name).  For leaf
  objects the resulting hierarchy is exactly the one built by the description in which the object is constructed
  at its last binding and its earlier slots are left as nameless references (a private attribute / a None hole in
  the list) -- `final`, which is what the model elaborates.
  Not generated (see report): a whole component (elaboration rejects it: clk/reset net checks), a whole interface
  or a signal that already has field / slice children (the children keep their names through the old path, so
  repr(child) no longer starts with repr(parent) and, for an owner in another component, get_host_component() of
  the children disagrees with their names on the clean tree).
  Returns (top annotated with the alias statements, final description, old-path accesses)."""
  top = json.loads(json.dumps(top))            # un-share the prototypes of regular arrays
  nsteps = rng.choice([0, 0, 1, 1, 2, 3, 4])
  if nsteps == 0: return top, top, []
  cur = json.loads(json.dumps(top))
  moves, used = [], {}
  for _ in range(nsteps):
    owners = [x for x in static_nodes(cur) if not (len(x[1]) == 3 and isinstance(x[1][2], str))]
    otoks, onode = rng.choice(owners) if rng.random() < 0.6 else owners[0]
    # sources: leaf objects and whole leaf lists below the owner, by their CURRENT name relative to the owner
    srcs = []
    def node(n, rel, depth):
      if n[0] not in ('comp', 'ifc'): return
      seen = set()
      for idx, (nm, sv) in enumerate(n[1]):
        if nm in seen or nm.startswith('_'): continue
        seen.add(nm)
        if sv[0] == 'many' and is_leaf_list(sv) and has_leaf(sv): srcs.append(('list', rel + [['a', nm]], n, idx))
        sval(sv, rel + [['a', nm]], n, idx, None, depth)
    def sval(sv, rel, n, idx, holder, depth):
      if sv[0] == 'hole': return
      if sv[0] == 'one':
        if sv[1][0] in ('sig', 'mport'): srcs.append(('leaf', rel, n, idx, holder))
        else: node(sv[1], rel, depth + 1)
      else:
        for i, x in enumerate(sv[1]): sval(x, rel + [['i', i]], n, idx, (sv, i), depth)
    node(onode, [], 0)
    if not srcs: continue
    deep = [x for x in srcs if len([t for t in x[1] if t[0] == 'a']) > 1]
    src = rng.choice(deep) if deep and rng.random() < 0.7 else rng.choice(srcs)
    key = render(otoks)
    taken = used.setdefault(key, {nm.lstrip('_') for nm, _ in onode[1]} | {'clk', 'reset', 'method'})
    free = [x for x in NAMES + ['alias', 'first', 'tap'] if x not in taken]
    if not free: continue
    new = rng.choice(free); taken.add(new)
    rel, holder_node, idx = src[1], src[2], src[3]
    if src[0] == 'list' or src[4] is None:
      # the whole slot moves: the old attribute stays as a nameless reference
      nm, sv = holder_node[1][idx]
      holder_node[1][idx] = ['_' + nm, sv]
      used.setdefault(None, set())
      moved = sv
    else:
      lst, i = src[4]
      moved = lst[1][i]
      lst[1][i] = ['hole', 'moved']
    onode[1].append([new, moved])
    ann = find_node(top, otoks)
    if len(ann) == 2: ann.append({'alias': []})
    ann[2]['alias'].append([new, rel])
    moves.append((otoks + rel, otoks + [['a', new]]))
  if not moves: return top, top, []
  # accesses through an OLD path of a re-bound object: they must evaluate to the object named by the last binding
  acc_old = []
  for k, (old, new) in enumerate(moves):
    if rng.random() < 0.6:
      path = new
      for o2, n2 in moves[k + 1:]:
        if path[:len(o2)] == o2: path = n2 + path[len(o2):]
      try:
        v = ['one', cur]
        for t in path: v = next(sv for nm, sv in v[1][1] if nm == t[1]) if t[0] == 'a' else v[1][t[1]]
      except (StopIteration, IndexError, TypeError):
        continue
      extra = []
      while v[0] == 'many':
        cands = [i for i, x in enumerate(v[1]) if has_leaf(x)]
        if not cands: break
        i = rng.choice(cands); extra.append(['i', i]); v = v[1][i]
      if v[0] != 'one': continue
      if v[1][0] == 'sig' and v[1][2][0] == 'bits' and rng.random() < 0.5:
        n = v[1][2][1]; lo = rng.randrange(n); extra.append(['s', lo, rng.randint(lo + 1, n)])
      acc_old.append({'real': old + extra, 'model': path + extra})
  return top, cur, acc_old

def static_nodes(top):
  """[(tokens, node)] of the components / interfaces that get a name (generator bookkeeping)"""
  out = []
  def node(n, toks):
    if n[0] not in ('comp', 'ifc'): return
    out.append((toks, n))
    seen = set()
    for nm, sv in n[1]:
      if nm in seen or nm.startswith('_'): continue
      seen.add(nm); sval(sv, toks + [['a', nm]])
  def sval(sv, toks):
    if sv[0] == 'hole': return
    if sv[0] == 'one': node(sv[1], toks)
    else:
      for i, x in enumerate(sv[1]): sval(x, toks + [['i', i]])
  node(top, [])
  return out

def find_node(desc, toks):
  """the node of the description named by the tokens (first binding of a name, as the real code keeps it)"""
  cur = ['one', desc]
  for t in toks:
    if t[0] == 'a':
      cur = next(sv for nm, sv in cur[1][1] if nm == t[1])
    else:
      cur = cur[1][t[1]]
  return cur[1]

def gen_adds(rng, desc):
  """post-elaboration mutations: top.add_value_port(parent, name, port) with parents drawn from the components AND
  interfaces at every depth (also inside lists), optionally followed by top.add_connection(port, wire of the host)"""
  nodes = static_nodes(desc)
  adds, used = [], {}
  for _ in range(rng.choice([0, 1, 1, 2, 3])):
    # interfaces and deep parents are the interesting ones: bias towards them
    cand = [x for x in nodes if x[1][0] == 'ifc'] if rng.random() < 0.5 else nodes
    if not cand: cand = nodes
    toks, n = rng.choice(cand)
    key = render(toks)
    taken = used.setdefault(key, {nm.lstrip('_') for nm, _ in n[1]} | {'clk', 'reset', 'method'})
    free = [x for x in NAMES + ['dbg', 'dbg_out', 'probe'] if x not in taken]
    if not free: continue
    nm = rng.choice(free); taken.add(nm)
    kind = rng.choice(['in', 'out'])
    # the host component along the name, and a Bits wire stored directly in it to connect to
    k = len(toks)
    while find_node(desc, toks[:k])[0] != 'comp': k -= 1
    host = find_node(desc, toks[:k])
    wires, seen = [], set()
    for wn, sv in host[1]:
      if wn in seen or wn.startswith('_'): continue
      seen.add(wn)
      if sv[0] == 'one' and sv[1][0] == 'sig' and sv[1][1] == 'wire' and sv[1][2][0] == 'bits': wires.append((wn, sv[1][2]))
    conn = None
    if wires and rng.random() < 0.6:
      wn, ty = rng.choice(wires); conn = toks[:k] + [['a', wn]]
    else:
      ty = Gen(rng).ty()
    adds.append({'parent': toks, 'name': nm, 'dir': kind, 'ty': ty, 'connect': conn})
  return adds

def apply_adds(desc, adds):
  """add_value_port reuses the setattr hook: the mutated hierarchy is the description with the slot appended"""
  d = json.loads(json.dumps(desc))
  for a in adds:
    find_node(d, a['parent'])[1].append([a['name'], ['one', ['sig', a['dir'], a['ty']]]])
  return d

def gen_after_add_accesses(rng, case):
  out = []
  for a in case['adds']:
    if rng.random() < 0.5:
      out.append(gen_access(rng, [(a['parent'] + [['a', a['name']]], a['ty'])]))
  return out

def walk_nodes(node, f):
  f(node)
  if node[0] in ('comp', 'ifc'):
    for _, sv in node[1]: walk_sval(sv, f)

def walk_sval(sv, f):
  if sv[0] == 'hole': return
  if sv[0] == 'one': walk_nodes(sv[1], f)
  else:
    for x in sv[1]: walk_sval(x, f)

def inject_dup(rng, top):
  nodes = []
  walk_nodes(top, lambda n: nodes.append(n) if n[0] in ('comp', 'ifc') and not (len(n) == 3 and isinstance(n[2], str)) else None)
  n = rng.choice(nodes)
  if n[0] == 'comp' and rng.random() < 0.4:
    n[1].insert(rng.randint(0, len(n[1])), [rng.choice(['clk', 'reset']), ['one', ['sig', 'in', ['bits', 1]]]])
  elif n[1]:
    hw = [x for x in n[1] if x[1][0] == 'one' or any(y[0] != 'hole' for y in x[1][1])] or [['a']]
    nm = rng.choice(hw)[0].lstrip('_') or 'a'
    n[1].append([nm, ['one', ['sig', 'wire', ['bits', 4]]]])
    if all(x[0] != nm for x in n[1][:-1]): n[1].append([nm, ['one', ['sig', 'wire', ['bits', 4]]]])
  else:
    n[1].append(['a', ['one', ['mport', 'caller']]]); n[1].append(['a', ['one', ['sig', 'wire', ['bits', 4]]]])

def static_signals(top):
  """[(tokens, ty)] of the statically constructed signals (generator bookkeeping, not an oracle)"""
  out = []
  def node(n, toks):
    if n[0] == 'sig': out.append((toks, n[2]))
    elif n[0] == 'comp':
      out.append((toks + [['a', 'clk']], ['bits', 1])); out.append((toks + [['a', 'reset']], ['bits', 1]))
    if n[0] in ('comp', 'ifc'):
      seen = set()
      for nm, sv in n[1]:
        if nm in seen or nm.startswith('_'): continue
        seen.add(nm); sval(sv, toks + [['a', nm]])
  def sval(sv, toks):
    if sv[0] == 'hole': return
    if sv[0] == 'one': node(sv[1], toks)
    else:
      for i, x in enumerate(sv[1]): sval(x, toks + [['i', i]])
  node(top, [])
  return out

def gen_access(rng, sigs):
  toks, ty = rng.choice(sigs) if rng.random() < 0.8 else rng.choice(sigs[-max(1, len(sigs) // 3):])
  toks = list(toks)
  while ty[0] == 'struct' and rng.random() < 0.9:
    fn, fv = rng.choice(ty[1])
    toks.append(['a', fn])
    while fv[0] == 'many':
      i = rng.randrange(len(fv[1])); toks.append(['i', i]); fv = fv[1][i]
    ty = fv[1]
  if ty[0] == 'bits':
    n = ty[1]
    depth = rng.choice([0, 1, 1, 1, 2, 2, 3])
    for _ in range(depth):
      if rng.random() < 0.3:
        i = rng.randrange(n); toks.append(['i', i]); n = 1
      else:
        lo = rng.randrange(n); hi = rng.randint(lo + 1, n); toks.append(['s', lo, hi]); n = hi - lo
  return toks

# ------------------------------------------------------------------------------------------------
# encoding for the Lean driver

def enc_ty(t):
  if t[0] == 'bits': return ['bits', t[1]]
  return ['struct'] + [[fn, enc_fval(fv)] for fn, fv in t[1]]

def enc_fval(fv):
  if fv[0] == 'one': return ['one', enc_ty(fv[1])]
  return ['many'] + [enc_fval(x) for x in fv[1]]

def enc_node(n):
  if n[0] in ('comp', 'ifc'): return [n[0]] + [[nm, enc_sval(sv)] for nm, sv in n[1]]
  if n[0] == 'mport': return ['mport']
  return ['sig', n[1], enc_ty(n[2])]

def enc_sval(sv):
  # a None placeholder occupies its index, names nothing and is not an object: for the model that is
  # exactly an empty sub-list (Model/Hier.lean needs no separate constructor)
  if sv[0] == 'hole': return ['many']
  if sv[0] == 'one': return ['one', enc_node(sv[1])]
  return ['many'] + [enc_sval(x) for x in sv[1]]

def enc_toks(toks):
  return [list(t) for t in toks]

def parse_recs(reply):
  """'ok (rec ...)' -> {full: (my, kind, parent, level, host, tls, slice, toks)}"""
  p = leanio.parse_sexp(reply)
  assert p[0] == 'ok', reply
  out = {}
  for r in p[1]:
    full, my, kind, parent, level, host, tls, sl, toks = r
    tk = []
    for t in toks[1:]:
      if t[0] == 'a': tk.append(['a', t[1]])
      elif t[0] == 'i': tk.append(['i', int(t[1])])
      else: tk.append(['s', int(t[1]), int(t[2])])
    if full in out: raise InfraError(f'driver returned two records for {full}')
    out[full] = (my, kind, parent, level, host, tls, sl, tk)
  return out

# ------------------------------------------------------------------------------------------------
# writing the description as a real PyMTL module

class Emitter:
  def __init__(self, prefix):
    self.prefix = prefix
    self.types = {}        # canonical json -> class name
    self.classes = {}      # canonical json -> class name
    self.lines = ['from pymtl3 import *', '']
    self.n = 0

  def fresh(self, stem):
    self.n += 1
    return f'{self.prefix}_{stem}{self.n}'

  def ty_expr(self, t):
    if t[0] == 'bits': return f'mk_bits({t[1]})'
    key = json.dumps(t)
    if key not in self.types:
      fields = [(fn, self.fval_expr(fv)) for fn, fv in t[1]]
      name = self.fresh('T')
      self.types[key] = name
      self.lines.append('@bitstruct')
      self.lines.append(f'class {name}:')
      for fn, e in fields: self.lines.append(f'  {fn}: {e}')
      self.lines.append('')
    return self.types[key]

  def fval_expr(self, fv):
    if fv[0] == 'one': return self.ty_expr(fv[1])
    return '[' + ', '.join(self.fval_expr(x) for x in fv[1]) + ']'

  def node_expr(self, n):
    if n[0] == 'sig':
      return {'wire': 'Wire', 'in': 'InPort', 'out': 'OutPort'}[n[1]] + f'( {self.ty_expr(n[2])} )'
    if n[0] == 'mport':
      return 'CallerPort()' if n[1] == 'caller' else 'CalleePort()'
    if len(n) == 3 and isinstance(n[2], str): return f'{n[2]}()'
    return self.cls(n) + '()'

  def sval_expr(self, sv):
    if sv[0] == 'hole': return 'None'
    if sv[0] == 'one': return self.node_expr(sv[1])
    return '[ ' + ', '.join(self.sval_expr(x) for x in sv[1]) + ' ]'

  def cls(self, n, accesses=None):
    key = json.dumps(n)
    if accesses is None and key in self.classes: return self.classes[key]
    body = [(nm, self.sval_expr(sv)) for nm, sv in n[1]]
    name = self.fresh('Top' if accesses is not None else ('C' if n[0] == 'comp' else 'I'))
    if accesses is None: self.classes[key] = name
    self.lines.append(f'class {name}( {"Component" if n[0] == "comp" else "Interface"} ):')
    self.lines.append('  def construct( s ):')
    aliases = n[2]['alias'] if len(n) == 3 and isinstance(n[2], dict) else []
    if not body and not accesses and not aliases: self.lines.append('    pass')
    for nm, e in body: self.lines.append(f'    s.{nm} = {e}')
    for nm, rel in aliases: self.lines.append(f'    s.{nm} = {render(rel)}')      # a second binding of an already named object
    for a in accesses or []: self.lines.append(f'    {render(a)}')
    self.lines.append('')
    return name

def write_module(workdir, modname, case):
  em = Emitter(modname)
  top = em.cls(case['desc'], accesses=case['acc_construct'])
  em.lines.append(f'TOP = {top}')
  ctors = [f"  lambda: {'InPort' if a['dir'] == 'in' else 'OutPort'}( {em.ty_expr(a['ty'])} )," for a in case.get('adds', [])]
  em.lines.append('ADD_PORTS = [')
  em.lines.extend(ctors)
  em.lines.append(']')
  path = os.path.join(workdir, modname + '.py')
  with open(path, 'w') as f: f.write('\n'.join(em.lines) + '\n')
  return path

def load_module(path, modname):
  spec = importlib.util.spec_from_file_location(modname, path)
  mod = importlib.util.module_from_spec(spec)
  sys.modules[modname] = mod
  try:
    spec.loader.exec_module(mod)
  finally:
    sys.modules.pop(modname, None)
  return mod

# ------------------------------------------------------------------------------------------------
# the real side

class _DSL:
  pass

def P():
  if not hasattr(_DSL, 'Component'):
    from pymtl3.dsl.Component import Component
    from pymtl3.dsl.Connectable import Interface, MethodPort, Signal
    from pymtl3.dsl.NamedObject import NamedObject
    _DSL.Component, _DSL.Interface, _DSL.MethodPort, _DSL.Signal, _DSL.NamedObject = \
      Component, Interface, MethodPort, Signal, NamedObject
  return _DSL

def kind_of(o):
  dsl = P()
  if isinstance(o, dsl.Component): return 'comp'
  if isinstance(o, dsl.Interface): return 'ifc'
  if isinstance(o, dsl.MethodPort): return 'mport'
  return {'Wire': 'wire', 'InPort': 'in', 'OutPort': 'out'}.get(type(o).__name__, type(o).__name__)

def real_rec(o):
  dsl = P()
  parent = o.get_parent_object()
  is_comp = isinstance(o, dsl.Component)
  is_sig = isinstance(o, dsl.Signal)
  level = o.get_component_level() if is_comp else getattr(o._dsl, 'level', None)
  sl = o._dsl.slice if is_sig else None
  return (o.get_field_name(), kind_of(o), '-' if parent is None else repr(parent),
          '-' if level is None else str(level),
          repr(o) if is_comp else repr(o.get_host_component()),
          repr(o.get_top_level_signal()) if is_sig else '-',
          '-' if sl is None else f'{sl.start}:{sl.stop}')

def apply_tok(v, t):
  if t[0] == 'a': return getattr(v, t[1])
  if t[0] == 'i': return v[t[1]]
  return v[t[1]:t[2]]

def oracle_bad(top, objs):
  """the property itself, stated on the real objects only: the list of failures (kind, name, observed)"""
  dsl = P()
  bad = []
  names = {}
  for o in objs:
    names.setdefault(repr(o), []).append(o)
  for nm, os_ in names.items():
    if len(os_) > 1: bad.append(('repr-not-unique', nm, [type(x).__name__ for x in os_]))
  prefix_cache = {'s': top}
  def value_of(toks):
    key = render(toks)
    if key not in prefix_cache:
      prefix_cache[key] = apply_tok(value_of(toks[:-1]), toks[-1])
    return prefix_cache[key]
  for o in objs:
    nm = repr(o)
    try:
      toks = tokenise(nm)
    except ValueError as e:
      bad.append(('name-not-an-expression', nm, str(e))); continue
    if render(toks) != nm:
      raise InfraError(f'tokenizer round trip failed on {nm!r}')
    try:
      back = eval(nm, {'s': top})
    except Exception as e:
      bad.append(('eval-raises', nm, f'{type(e).__name__}: {e}')); continue
    if back is not o:
      bad.append(('eval-is-another-object', nm, repr(back))); continue
    try:
      vals = [value_of(toks[:k]) for k in range(len(toks))]
    except Exception as e:
      bad.append(('prefix-eval-raises', nm, f'{type(e).__name__}: {e}')); continue
    named = [v for v in vals if isinstance(v, dsl.NamedObject)]
    parent = o.get_parent_object()
    if o is top:
      if parent is not None: bad.append(('top-has-parent', nm, repr(parent)))
    elif not named or parent is not named[-1]:
      bad.append(('parent-is-not-longest-object-prefix', nm, repr(parent)))
    comps = [v for v in vals if isinstance(v, dsl.Component)]
    if isinstance(o, dsl.Component):
      if all(isinstance(v, dsl.Component) for v in named) and o.get_component_level() != len(comps):
        bad.append(('level-is-not-number-of-component-prefixes', nm, o.get_component_level()))
    else:
      if not comps or o.get_host_component() is not comps[-1]:
        bad.append(('host-is-not-deepest-component-prefix', nm, repr(o.get_host_component())))
    if isinstance(o, dsl.Signal):
      sigs = [v for v in vals + [o] if isinstance(v, dsl.Signal)]
      if o.get_top_level_signal() is not sigs[0]:
        bad.append(('top-level-signal-is-not-first-signal-prefix', nm, repr(o.get_top_level_signal())))
    if parent is not None:
      fn = o.get_field_name()
      is_slice = isinstance(o, dsl.Signal) and o._dsl.slice is not None
      want = (parent.get_field_name() + nm[len(repr(parent)):]) if is_slice else nm[len(repr(parent)) + 1:]
      if not nm.startswith(repr(parent)) or fn != want:
        bad.append(('field-name-inconsistent', nm, fn))
  return bad

def oracle(ck, case, top, objs, tag, known=None):
  """the property itself, stated on the real objects only"""
  bad = oracle_bad(top, objs)
  if known is not None:
    # directed reproduction of a registered finding: the kinds it is known to produce carry its signature,
    # anything else is reported as usual (and fails the run)
    for b in [b for b in bad if b[0] not in known['kinds']][:3] + [b for b in bad if b[0] in known['kinds']][:3]:
      sig = dict(known['signature'], kind=b[0]) if b[0] in known['kinds'] else {'kind': b[0]}
      ck.violation(b[0], sig, case, {'where': tag, 'name': b[1], 'observed': b[2],
                                     'oracle': 'uniqueness / eval(repr(o)) is o / metadata read off prefix values'})
    return not bad
  for b in bad[:3]:
    ck.violation(b[0], {'kind': b[0]}, case, {'where': tag, 'name': b[1], 'observed': b[2],
                                              'oracle': 'uniqueness / eval(repr(o)) is o / metadata read off prefix values'})
  return not bad

def build(ck, case, modname):
  path = write_module(ck.workdir, modname, case)
  mod = load_module(path, modname)
  return mod

def run_real(ck, case, modname):
  """returns dict with 'error' or the observations"""
  dsl = P()
  from pymtl3.dsl.errors import FieldReassignError
  mod = build(ck, case, modname)
  top = mod.TOP()
  try:
    top.elaborate()
  except FieldReassignError:
    # the hook is removed by _elaborate_construct on error
    return {'error': 'FieldReassignError'}
  objs1 = top.get_all_object_filter(lambda x: True)
  res = {'top': top, 'objs1': objs1, 'recs1': {repr(o): real_rec(o) for o in objs1}}
  # elaborate the same construction code again
  top2 = mod.TOP(); top2.elaborate()
  res['names2'] = sorted(repr(o) for o in top2.get_all_object_filter(lambda x: True))
  # explicit accesses after elaboration
  post = []
  for a in case['acc_post'] + [a['real'] for a in case.get('acc_old', [])]:
    post.append(eval(render(a), {'s': top}))
  objs2 = top._collect_all_single()
  res['post'] = post
  res['objs2'] = objs2
  res['recs2'] = {repr(o): real_rec(o) for o in objs2}
  # post-elaboration mutation: add value ports to components / interfaces, connect some of them
  if case.get('adds'):
    added = []
    for a, mk in zip(case['adds'], mod.ADD_PORTS):
      parent = eval(render(a['parent']), {'s': top})
      port = mk()
      top.add_value_port(parent, a['name'], port)
      if a['connect'] is not None:
        top.add_connection(port, eval(render(a['connect']), {'s': top}))
      added.append(port)
    for e in case.get('acc_added', []): eval(render(e), {'s': top})
    res['added'] = added
    res['objs3f'] = top.get_all_object_filter(lambda x: True)
    res['objs3'] = top._collect_all_single()
    res['recs3'] = {repr(o): real_rec(o) for o in res['objs3']}
  return res

def model_lines(case):
  d = enc_node(final_desc(case))
  l1 = leanio.line('hier', 'elab', d, [enc_toks(a) for a in case['acc_construct']])
  old_m = [a['model'] for a in case.get('acc_old', [])]
  l2 = leanio.line('hier', 'elab', d, [enc_toks(a) for a in case['acc_construct'] + case['acc_post'] + old_m])
  ls = [l1, l2]
  for a in case['acc_construct'] + case['acc_post'] + old_m:
    ls.append(leanio.line('hier', 'resolve', d, enc_toks(a)))
  for a in case.get('bad_exprs', []):
    ls.append(leanio.line('hier', 'resolve', d, enc_toks(a)))
  if case.get('adds'):
    d3 = enc_node(apply_adds(final_desc(case), case['adds']))
    ls.append(leanio.line('hier', 'elab', d3, [enc_toks(a) for a in case['acc_construct'] + case['acc_post'] + old_m + case.get('acc_added', [])]))
  return ls

def gen_bad_exprs(rng, case):
  """expressions that must raise on the real side and be `none` in the model (evaluated last)"""
  out = []
  sigs = static_signals(final_desc(case))
  if not sigs: return out
  for _ in range(rng.randint(0, 3)):
    toks, ty = rng.choice(sigs)
    toks = list(toks)
    if ty[0] == 'bits':
      n = ty[1]
      r = rng.random()
      if r < 0.3: toks.append(['s', rng.randint(0, n), n + rng.randint(1, 3)])
      elif r < 0.5: toks.append(['i', n + rng.randint(0, 2)])
      elif r < 0.7:
        lo = rng.randrange(n); toks.append(['s', lo, lo])
      elif r < 0.85 and n >= 2:
        lo = rng.randrange(n - 1); hi = rng.randint(lo + 1, n - 1) if lo + 1 <= n - 1 else lo + 1
        toks.append(['s', lo, hi]); toks.append(['s', 0, hi - lo + 1])
      else: toks.append(['a', 'nofield'])
    else:
      r = rng.random()
      if r < 0.4: toks.append(['s', 0, 1])
      elif r < 0.7: toks.append(['a', 'nofield'])
      else:
        lists = [(fn, fv) for fn, fv in ty[1] if fv[0] == 'many']
        if not lists: toks.append(['i', 0])
        else:
          fn, fv = rng.choice(lists); toks.append(['a', fn]); toks.append(['i', len(fv[1]) + rng.randint(0, 2)])
    out.append(toks)
  return out

def compare(ck, case, real, replies, verbose=False):
  """model vs implementation; returns number of disagreements"""
  nd = 0
  def dis(what, m, i):
    nonlocal nd
    nd += 1
    ck.disagreement(what, case, m, i)
    if verbose: print(f'DISAGREE {what}\n  model={m}\n  impl ={i}')
  if 'error' in real:
    if replies[0] != 'err ' + real['error']: dis('Model/Hier≈elaborate(error)', replies[0][:300], real['error'])
    return nd
  if replies[0].startswith('err'):
    dis('Model/Hier≈elaborate(error)', replies[0], 'elaborated without error'); return nd
  nbad = len(case.get('bad_exprs', []))
  stages = [(0, 'recs1'), (1, 'recs2')] + ([(len(replies) - 1, 'recs3')] if case.get('adds') else [])
  for stage, key in stages:
    m = parse_recs(replies[stage]); r = real[key]
    if set(m) != set(r):
      dis(f'Model/Hier≈name set ({key})', sorted(set(m) - set(r))[:8], sorted(set(r) - set(m))[:8]); continue
    for nm in sorted(m):
      if m[nm][:7] != r[nm]:
        dis(f'Model/Hier≈record ({key})', [nm] + list(m[nm][:7]), [nm] + list(r[nm])); break
      if m[nm][7] != tokenise(nm):
        dis('Model/Hier render≈tokens', m[nm][7], tokenise(nm)); break
  # expressions: canonical name of what they evaluate to
  top = real['top']
  exprs = case['acc_construct'] + case['acc_post'] + [a['real'] for a in case.get('acc_old', [])]
  for a, rep in zip(exprs, replies[2:2 + len(exprs)]):
    o = eval(render(a), {'s': top})
    want = f'ok {o!r} 1'
    if rep != want: dis('Model/Hier resolve≈eval', rep, want)
  for a, rep in zip(case.get('bad_exprs', []), replies[2 + len(exprs):2 + len(exprs) + nbad]):
    try:
      o = eval(render(a), {'s': top}); got = f'ok {o!r}'
    except Exception as e:
      got = 'none'
    if rep != got: dis('Model/Hier resolve≈eval (invalid expression)', [render(a), rep], got)
  return nd

def check_expr_identity(ck, case, real):
  """direct oracle on the expressions: a non-canonical expression evaluates to the very object its
  canonical name evaluates to, and evaluating it twice gives the same object (caching)"""
  top = real['top']
  ok = True
  for a in case['acc_construct'] + case['acc_post'] + [a['real'] for a in case.get('acc_old', [])]:
    e = render(a)
    o1 = eval(e, {'s': top}); o2 = eval(e, {'s': top})
    o3 = eval(repr(o1), {'s': top})
    if o1 is not o2 or o1 is not o3:
      ck.violation('expression-not-cached', {'kind': 'expression-not-cached'}, case,
                   {'expr': e, 'repr': repr(o1), 'oracle': 'eval(e) is eval(e) is eval(repr(eval(e)))'})
      ok = False
  return ok

_counter = [0]

def one_case(ck, case, verbose=False):
  _counter[0] += 1
  modname = f'c14m{os.getpid()}_{_counter[0]}'
  replies = ck.drv('hier').batch(model_lines(case))
  try:
    real = run_real(ck, case, modname)
    return finish_case(ck, case, real, replies, verbose)
  except InfraError:
    raise
  except Exception as e:
    # the real code raised on a valid construction / a name that should evaluate: not a verdict of the
    # machinery; report it as a failing input of the property (the traceback says where)
    import traceback
    ck.violation('real-code-raises', {'kind': 'real-code-raises', 'exception': type(e).__name__}, case,
                 {'exception': f'{type(e).__name__}: {e}', 'traceback': traceback.format_exc()[-1500:],
                  'model': replies[0][:500]})
    if verbose: traceback.print_exc()
    return False, 0, {'error': 'exception:' + type(e).__name__}

def finish_case(ck, case, real, replies, verbose=False):
  ok = True
  if 'error' not in real:
    ok &= oracle(ck, case, real['top'], real['objs1'], 'get_all_object_filter')
    ok &= oracle(ck, case, real['top'], real['objs2'], 'after explicit accesses')
    for o in real['post']:
      if o not in real['objs2']:
        ck.violation('accessed-object-not-in-hierarchy', {'kind': 'accessed-object-not-in-hierarchy'}, case,
                     {'name': repr(o)}); ok = False
    n1 = sorted(real['recs1'])
    if n1 != real['names2']:
      ck.violation('re-elaboration-changes-names', {'kind': 're-elaboration-changes-names'}, case,
                   {'first': sorted(set(n1) - set(real['names2']))[:8], 'second': sorted(set(real['names2']) - set(n1))[:8],
                    'oracle': 'same construction code elaborated twice'}); ok = False
    ok &= check_expr_identity(ck, case, real)
    if case.get('adds'):
      ok &= oracle(ck, case, real['top'], real['objs3'], 'after add_value_port (all objects)')
      ok &= oracle(ck, case, real['top'], real['objs3f'], 'after add_value_port (get_all_object_filter)')
      for a, o in zip(case['adds'], real['added']):
        want = render(a['parent'] + [['a', a['name']]])
        if repr(o) != want or o not in real['objs3f'] or o not in real['objs3']:
          ck.violation('added-port-misnamed-or-missing', {'kind': 'added-port-misnamed-or-missing'}, case,
                       {'name': repr(o), 'expected': want, 'oracle': 'add_value_port(parent, name, o): repr(o) == repr(parent).name, o in the hierarchy'})
          ok = False
  nd = compare(ck, case, real, replies, verbose)
  return ok, nd, real

def stats(ck, case, real):
  has_list = [False]
  def f(sv):
    pass
  def scan(n):
    if n[0] in ('comp', 'ifc'):
      for _, sv in n[1]:
        if sv[0] == 'many': has_list[0] = True
  walk_nodes(final_desc(case), scan)
  lazy = 0
  if 'error' not in real:
    n = len(real['recs2'])
    lazy = sum(1 for v in real['recs2'].values() if v[3] == '-' )
    ck.hist('objects', '1-10' if n <= 10 else '11-30' if n <= 30 else '31-100' if n <= 100 else '101-300' if n <= 300 else '300+')
    ck.hist('lazy_signals', '0' if lazy == 0 else '1-5' if lazy <= 5 else '6-20' if lazy <= 20 else '20+')
    depth = max(len([t for t in tokenise(nm) if t[0] == 'a']) for nm in real['recs2'])
    ck.hist('name_depth', depth)
    ck.hist('slices', sum(1 for v in real['recs2'].values() if v[6] != '-') and 'some' or 'none')
  ck.hist('kind', case['kind'] if 'error' not in real else 'error:' + real['error'])
  def count_alias(n):
    if len(n) == 3 and isinstance(n[2], dict):
      for nm, rel in n[2]['alias']:
        d = len([t for t in rel if t[0] == 'a'])
        ck.hist('alias', f"{n[0]} owner, source {'own slot' if d == 1 else 'depth ' + str(d)}{' (list element)' if rel[-1][0] == 'i' else ''}")
  walk_nodes(case['desc'], count_alias)
  for a in case.get('adds', []):
    pk = find_node(final_desc(case), a['parent'])[0]
    ck.hist('add_value_port', f"{pk} depth {len([t for t in a['parent'] if t[0] == 'a'])}{' in list' if any(t[0] == 'i' for t in a['parent']) else ''}"
                              f"{' +add_connection' if a['connect'] else ''}")
  return has_list[0] or lazy > 0 or 'error' in real

def _alias_corpus_case():
  """the demo scenario of the aliasing family: a parent binds a child's port, a port of an interface of a grandchild in
  a list, an element of a grandchild's wire list, and one of its own list elements (same owner) under new names"""
  w8 = lambda: ['one', ['sig', 'wire', ['bits', 8]]]
  ifc = lambda val: ['ifc', [[val, ['one', ['sig', 'out', ['bits', 1]]]], ['msg', ['one', ['sig', 'out', ['bits', 8]]]]]]
  D = lambda w1, val: ['comp', [['w', ['many', [w8(), w1]]], ['ifc', ['one', ifc(val)]]]]
  C = lambda d0, d1, out: ['comp', [['d', ['many', [['one', d0], ['one', d1]]]], [out, ['one', ['sig', 'out', ['bits', 8]]]]]]
  orig = ['comp', [['c', ['one', C(D(w8(), 'val'), D(w8(), 'val'), 'out')]], ['ports', ['many', [w8(), w8()]]]],
          {'alias': [['c_out', [['a', 'c'], ['a', 'out']]],
                     ['d1_val', [['a', 'c'], ['a', 'd'], ['i', 1], ['a', 'ifc'], ['a', 'val']]],
                     ['d0_w1', [['a', 'c'], ['a', 'd'], ['i', 0], ['a', 'w'], ['i', 1]]],
                     ['first', [['a', 'ports'], ['i', 0]]]]}]
  final = ['comp', [['c', ['one', C(D(['hole'], 'val'), D(w8(), '_val'), '_out')]], ['ports', ['many', [['hole'], w8()]]],
                    ['c_out', ['one', ['sig', 'out', ['bits', 8]]]], ['d1_val', ['one', ['sig', 'out', ['bits', 1]]]],
                    ['d0_w1', w8()], ['first', w8()]]]
  return {'desc': orig, 'desc_final': final, 'acc_construct': [[['a', 'c_out'], ['s', 0, 4]]], 'acc_post': [[['a', 'first'], ['i', 7]]],
          'acc_old': [{'real': [['a', 'c'], ['a', 'out'], ['s', 2, 6]], 'model': [['a', 'c_out'], ['s', 2, 6]]},
                      {'real': [['a', 'c'], ['a', 'd'], ['i', 1], ['a', 'ifc'], ['a', 'val']], 'model': [['a', 'd1_val']]},
                      {'real': [['a', 'ports'], ['i', 0]], 'model': [['a', 'first']]}],
          'adds': [], 'acc_added': [], 'kind': 'ok'}

_LEAF = ['comp', [['w', ['one', ['sig', 'wire', ['bits', 8]]]], ['out', ['one', ['ifc', [['msg', ['one', ['sig', 'out', ['bits', 8]]]]]]]]]]

CORPUS = [
  _alias_corpus_case(),
  # post-elaboration mutation: a debug port added to an INTERFACE of a sub-component that lives in a list, then connected
  # to a wire of that sub-component (its host component is the sub-component, not the interface); one added to the top
  {'desc': ['comp', [['mid', ['one', ['comp', [['leaves', ['many', [['one', _LEAF], ['one', _LEAF]]]]]]]]]],
   'acc_construct': [], 'acc_post': [],
   'adds': [{'parent': [['a', 'mid'], ['a', 'leaves'], ['i', 1], ['a', 'out']], 'name': 'dbg', 'dir': 'out', 'ty': ['bits', 8],
             'connect': [['a', 'mid'], ['a', 'leaves'], ['i', 1], ['a', 'w']]},
            {'parent': [], 'name': 'probe', 'dir': 'in', 'ty': ['struct', [['a', ['many', [['one', ['bits', 4]], ['one', ['bits', 4]]]]]]],
             'connect': None}],
   'acc_added': [[['a', 'mid'], ['a', 'leaves'], ['i', 1], ['a', 'out'], ['a', 'dbg'], ['s', 2, 6], ['i', 1]],
                 [['a', 'probe'], ['a', 'a'], ['i', 1]]],
   'kind': 'ok'},
  # fixed regression (fix: c7238e1): None as element 0 of the attribute's own list / leading rows of None; before the
  # fix the hook did not walk such a list and the objects behind the None were collected without a name
  {'desc': ['comp', [['x', ['many', [['hole'], ['one', ['sig', 'wire', ['bits', 4]]]]]],
                     ['g', ['many', [['hole'], ['hole'], ['many', [['hole'], ['one', ['ifc', [['v', ['one', ['sig', 'in', ['bits', 2]]]]]]]]],
                                     ['many', [['one', ['comp', [['p', ['many', [['hole'], ['one', ['mport', 'caller']]]]]]]], ['hole']]]]]],
                     ['n', ['many', [['hole'], ['hole']]]]]],
   'acc_construct': [[['a', 'x'], ['i', 1], ['s', 1, 3]]], 'acc_post': [[['a', 'g'], ['i', 2], ['i', 1], ['a', 'v'], ['i', 0]]], 'kind': 'ok'},
  # slice of slice of slice, int index, list of signals with slices, struct with list field and nested struct
  {'desc': ['comp', [['y', ['one', ['sig', 'wire', ['bits', 16]]]],
                     ['w', ['many', [['one', ['sig', 'in', ['bits', 8]]], ['one', ['sig', 'in', ['bits', 8]]]]]],
                     ['m', ['one', ['sig', 'out', ['struct', [['a', ['many', [['one', ['bits', 8]], ['one', ['bits', 8]]]]],
                                                              ['c', ['one', ['struct', [['q', ['many', [['one', ['bits', 2]]] * 2]]]]]]]]]]]]],
   'acc_construct': [[['a', 'y'], ['s', 2, 10], ['s', 1, 7], ['s', 2, 4]], [['a', 'y'], ['i', 3]], [['a', 'y'], ['s', 3, 4]],
                     [['a', 'w'], ['i', 1], ['i', 7]], [['a', 'm'], ['a', 'a'], ['i', 1], ['s', 2, 5]],
                     [['a', 'm'], ['a', 'c'], ['a', 'q'], ['i', 1], ['i', 0]], [['a', 'clk'], ['i', 0]]],
   'acc_post': [[['a', 'y'], ['s', 0, 16], ['s', 15, 16]], [['a', 'm'], ['a', 'c']], [['a', 'reset'], ['s', 0, 1], ['i', 0]]],
   'kind': 'ok'},
  # nested lists: ragged, mixed, empty sub-list; interfaces in lists; components three deep
  {'desc': ['comp', [['r', ['many', [['many', []], ['many', [['one', ['ifc', [['v', ['one', ['sig', 'in', ['bits', 1]]]]]]],
                                                            ['many', [['one', ['mport', 'caller']]]]]],
                                    ['one', ['comp', [['k', ['many', [['many', [['many', [['one', ['comp', []]]]]]]]]]]]]]]],
                     ['_hidden', ['one', ['sig', 'wire', ['bits', 4]]]],
                     ['ci', ['one', ['ifc', [['method', ['one', ['mport', 'caller']]], ['rdy', ['one', ['mport', 'caller']]]], 'CallerIfcCL']]]]],
   'acc_construct': [[['a', 'r'], ['i', 1], ['i', 0], ['a', 'v'], ['i', 0]]], 'acc_post': [], 'kind': 'ok'},
  {'desc': ['comp', [['a', ['one', ['sig', 'wire', ['bits', 4]]]], ['a', ['one', ['sig', 'wire', ['bits', 4]]]]]],
   'acc_construct': [], 'acc_post': [], 'kind': 'dup'},
  {'desc': ['comp', [['x', ['one', ['comp', [['reset', ['one', ['sig', 'in', ['bits', 1]]]]]]]]]],
   'acc_construct': [], 'acc_post': [], 'kind': 'dup'},
]

def render_check(ck):
  """the Lean `render` against this module's render on random token lists (big numbers, odd identifiers)"""
  rng = ck.rng
  cases = []
  for _ in range(300 if ck.tier == 'quick' else 5000):
    toks = []
    for _ in range(rng.randint(0, 6)):
      r = rng.random()
      big = lambda: rng.choice([0, 1, 9, 10, 11, 99, 100, 101, 999, 1000, 12345, 10 ** 9, 2 ** 64, rng.randint(0, 10 ** 6)])
      if r < 0.4: toks.append(['a', rng.choice(NAMES + FNAMES + ['_x', 'a_', 's0', 'S', 'e1', 'x__'])])
      elif r < 0.7: toks.append(['i', big()])
      else: toks.append(['s', big(), big()])
    cases.append(toks)
  reps = ck.drv('hier').batch([leanio.line('hier', 'render', enc_toks(t)) for t in cases])
  for t, rep in zip(cases, reps):
    want = 'str ' + render(t)
    ck.count(['render', t], True)
    if rep != want: ck.disagreement('Model/Hier render≈python formatting', ['render', t], rep, want)
    if tokenise(render(t)) != t: raise InfraError(f'tokenise(render(t)) != t for {t}')

def exhaustive_slice_case(n):
  """every slice, int index and slice-of-slice of an n-bit wire and of an n-bit struct field"""
  desc = ['comp', [['y', ['one', ['sig', 'wire', ['bits', n]]]],
                   ['m', ['one', ['sig', 'in', ['struct', [['f', ['one', ['bits', n]]]]]]]]]]
  accs = []
  for base in ([['a', 'y']], [['a', 'm'], ['a', 'f']]):
    for i in range(n): accs.append(base + [['i', i]])
    for a in range(n):
      for b in range(a + 1, n + 1):
        accs.append(base + [['s', a, b]])
        for i in range(b - a): accs.append(base + [['s', a, b], ['i', i]])
        for c in range(b - a):
          for d in range(c + 1, b - a + 1): accs.append(base + [['s', a, b], ['s', c, d]])
  bad = []
  for base in ([['a', 'y']], [['a', 'm'], ['a', 'f']]):
    for a in range(n + 2):
      for b in range(n + 2):
        if not (a < b <= n): bad.append(base + [['s', a, b]])
    for a in range(n):
      for b in range(a + 1, n + 1):
        bad.append(base + [['s', a, b], ['s', 0, b - a + 1]]); bad.append(base + [['s', a, b], ['i', b - a]])
  half = len(accs) // 2
  return {'desc': desc, 'acc_construct': accs[:half][::2] + accs[half:][1::2], 'acc_post': accs[:half][1::2] + accs[half:][::2],
          'kind': 'ok', 'bad_exprs': bad}

def list_shapes(n):
  """all nested-list values with exactly n nodes (lists + leaves); leaves are numbered later"""
  if n == 1: return [['leaf'], ['many', []], ['hole']]
  out = []
  def compositions(total, acc):
    if total == 0: yield list(acc); return
    for k in range(1, total + 1):
      acc.append(k); yield from compositions(total - k, acc); acc.pop()
  for comp in compositions(n - 1, []):
    def prod(i):
      if i == len(comp): yield []; return
      for x in list_shapes(comp[i]):
        for rest in prod(i + 1): yield [x] + rest
    for children in prod(0): out.append(['many', children])
  return out

def shape_case(shape, variant):
  cnt = [0]
  def conv(x):
    if x[0] == 'hole': return ['hole']
    if x[0] == 'leaf':
      cnt[0] += 1
      if variant == 0 or cnt[0] % 2: return ['one', ['sig', 'wire', ['bits', 2]]]
      return ['one', ['ifc', [['v', ['one', ['sig', 'in', ['bits', 1]]]]]]]
    return ['many', [conv(y) for y in x[1]]]
  return {'desc': ['comp', [['x', conv(shape)]]], 'acc_construct': [], 'acc_post': [], 'kind': 'ok', 'bad_exprs': []}

# ------------------------------------------------------------------------------------------------
# decorated CL / FL methods, class inheritance, and the HISTORY of the process
#
# Component._construct turns the methods decorated with @method_port / @non_blocking / @blocking into a CalleePort /
# CalleeIfcCL (.method, .rdy) / CalleeIfcFL (.method) named after the method, before construct() runs.  Clean rule
# (ComponentLevel7._handle_decorated_methods walks `s.__class__.__dict__`): only the methods defined in the class's OWN
# body become named objects -- a derived class gets ports for the decorated methods it declares or overrides itself,
# not for the ones it merely inherits.  For the model that is a component whose slots are those objects followed by
# the slots of construct(): the unchanged `hier elab` is compared with every history.

METHODS = ['incr', 'decr', 'push', 'pop', 'peek', 'clear', 'load', 'get', 'tick']

def gen_decorated_chain(rng):
  chain, inherited = [], []
  for k in range(rng.choice([2, 2, 3])):
    own = []
    pool = list(METHODS)
    rng.shuffle(pool)
    n_over = rng.randint(0, min(2, len(inherited))) if k else 0
    names = rng.sample(inherited, n_over) + [m for m in pool if m not in inherited][:rng.randint(0 if k else 1, 3)]
    for m in names: own.append([m, rng.choice(['port', 'cl', 'fl'])])
    wires = [[f'w{k}_{i}', rng.choice([1, 4, 8])] for i in range(rng.randint(0, 2))]
    chain.append({'methods': own, 'wires': wires})
    inherited = sorted(set(inherited) | {m for m, _ in own})
  return chain

def decorated_source(prefix, chain):
  L = ['from pymtl3 import *', '']
  for k, c in enumerate(chain):
    L.append(f'class {prefix}_K{k}( {"Component" if k == 0 else f"{prefix}_K{k-1}"} ):')
    for m, kind in c['methods']:
      L.append({'port': '  @method_port', 'cl': '  @non_blocking( lambda s: True )', 'fl': '  @blocking'}[kind])
      L.append(f'  def {m}( s, x=0 ):'); L.append(f'    return {k}')
    L.append('  def construct( s ):')
    if not c['wires']: L.append('    pass')
    for w, n in c['wires']: L.append(f'    s.{w} = Wire( mk_bits({n}) )')
    L.append('')
  n = len(chain)
  for k in range(n):
    L += [f'class {prefix}_Only{k}( Component ):', '  def construct( s ):', f'    s.x{k} = {prefix}_K{k}()', '']
  for tag, order in (('Up', range(n)), ('Down', reversed(range(n)))):
    L += [f'class {prefix}_Sib{tag}( Component ):', '  def construct( s ):']
    for k in order: L.append(f'    s.x{k} = {prefix}_K{k}()')
    L.append('')
  return '\n'.join(L) + '\n'

def decorated_desc(chain, ks):
  slots = []
  for k in ks:
    c = chain[k]
    ss = []
    for m, kind in c['methods']:
      if kind == 'port': ss.append([m, ['one', ['mport', 'callee']]])
      elif kind == 'cl': ss.append([m, ['one', ['ifc', [['method', ['one', ['mport', 'callee']]], ['rdy', ['one', ['mport', 'callee']]]], 'CalleeIfcCL']]])
      else: ss.append([m, ['one', ['ifc', [['method', ['one', ['mport', 'callee']]]], 'CalleeIfcFL']]])
    for w, n in c['wires']: ss.append([w, ['one', ['sig', 'wire', ['bits', n]]]])
    slots.append([f'x{k}', ['one', ['comp', ss]]])
  return ['comp', slots]

def decorated_history_case(ck, chain, verbose=False):
  """the same construction code elaborated under different histories of the process (each history starts from
  freshly created classes): alone; after designs instantiating its base classes; sibling children of base /
  derived classes assigned in both orders.  Every history: whole direct oracle, records == model; across histories:
  identical name sets."""
  _counter[0] += 1
  prefix = f'c14d{os.getpid()}_{_counter[0]}'
  src = decorated_source(prefix, chain)
  path = os.path.join(ck.workdir, prefix + '.py')
  with open(path, 'w') as f: f.write(src)
  case = {'decorated_chain': chain}
  n = len(chain)
  lines = [leanio.line('hier', 'elab', enc_node(decorated_desc(chain, [k])), []) for k in range(n)]
  lines.append(leanio.line('hier', 'elab', enc_node(decorated_desc(chain, range(n))), []))
  replies = ck.drv('hier').batch(lines)
  ok = [True]
  def elab(mod, cls):
    top = getattr(mod, f'{prefix}_{cls}')(); top.elaborate()
    return top
  def observe(top, tag, reply):
    objs = top.get_all_object_filter(lambda x: True)
    ok[0] &= oracle(ck, case, top, objs, tag)
    recs = {repr(o): real_rec(o) for o in objs}
    m = parse_recs(reply)
    if set(m) != set(recs):
      ck.disagreement(f'Model/Hier≈decorated methods name set', case, sorted(set(m) - set(recs))[:8], [tag] + sorted(set(recs) - set(m))[:8])
      if verbose: print('DISAGREE', tag, sorted(set(m) ^ set(recs)))
    else:
      for nm in sorted(m):
        if m[nm][:7] != recs[nm]:
          ck.disagreement('Model/Hier≈decorated methods record', case, [nm] + list(m[nm][:7]), [tag, nm] + list(recs[nm])); break
    return sorted(recs)
  def same(a, b, what):
    if a != b:
      ck.violation('history-changes-names', {'kind': 'history-changes-names'}, case,
                   {'histories': what, 'only_first': sorted(set(a) - set(b))[:8], 'only_second': sorted(set(b) - set(a))[:8],
                    'oracle': 'the same construction code gives the same names whatever was elaborated earlier in the process'})
      ok[0] = False
  try:
    alone = []
    for k in range(n):                                  # history 1: alone, fresh classes every time
      mod = load_module(path, f'{prefix}_a{k}')
      alone.append(observe(elab(mod, f'Only{k}'), f'class {k} alone', replies[k]))
    mod = load_module(path, f'{prefix}_b')               # history 2: base classes first, then the derived ones
    for k in range(n):
      same(alone[k], observe(elab(mod, f'Only{k}'), f'class {k} after its base classes', replies[k]), [f'class {k} alone', 'after its base classes'])
    mod = load_module(path, f'{prefix}_c')               # history 3: derived classes first, then the base ones
    for k in reversed(range(n)):
      same(alone[k], observe(elab(mod, f'Only{k}'), f'class {k} after its derived classes', replies[k]), [f'class {k} alone', 'after its derived classes'])
    up = observe(elab(load_module(path, f'{prefix}_u'), 'SibUp'), 'siblings base..derived', replies[n])
    down = observe(elab(load_module(path, f'{prefix}_d'), 'SibDown'), 'siblings derived..base', replies[n])
    same(up, down, ['siblings assigned base..derived', 'siblings assigned derived..base'])
    for k in range(n):
      same([x for x in alone[k] if x.startswith(f's.x{k}')], [x for x in up if x == f's.x{k}' or x.startswith(f's.x{k}.')],
           [f'class {k} alone', 'as a sibling'])
  except InfraError:
    raise
  except Exception as e:
    import traceback
    ck.violation('real-code-raises', {'kind': 'real-code-raises', 'exception': type(e).__name__}, case,
                 {'exception': f'{type(e).__name__}: {e}', 'traceback': traceback.format_exc()[-1500:]})
    ok[0] = False
  ck.count(case, True)
  ck.hist('decorated_chain', f"{n} classes, {sum(len(c['methods']) for c in chain)} decorated methods")
  return ok[0]

DECORATED_CORPUS = [
  # UpDownCounterCL( UpCounterCL ): the derived class overrides one decorated method with another kind and adds one
  [{'methods': [['incr', 'cl'], ['peek', 'port'], ['get', 'fl']], 'wires': [['w0_0', 8]]},
   {'methods': [['incr', 'port'], ['decr', 'cl']], 'wires': []}],
  [{'methods': [['push', 'cl']], 'wires': []}, {'methods': [], 'wires': [['w1_0', 4]]}, {'methods': [['pop', 'cl'], ['push', 'fl']], 'wires': []}],
]

REBIND_SRC = '''from pymtl3 import *
class C14RebindIfc( Interface ):
  def construct( s ):
    s.val = OutPort( Bits1 )
class C14RebindD( Component ):
  def construct( s ):
    s.ifc = C14RebindIfc()
    s.out = OutPort( Bits8 )
    s.out[0:4]
class C14RebindTop( Component ):
  def construct( s ):
    s.d = C14RebindD()
    s.whole_ifc = s.d.ifc     # an interface that has a port, bound again on ANOTHER component
    s.sl = s.d.out            # a signal that already has a slice, bound again on ANOTHER component
TOP = C14RebindTop
'''

def rebind_object_with_descendants(ck):
  """Directed case of the known finding C14-rebind-object-with-descendants (outside the generated space: the alias
  generator only re-binds leaf objects): the re-bound object is renamed by its last binding, its already named
  descendants keep the name through the old path while parent / host follow the new binding, so
  get_host_component() of the descendants is not the deepest component prefix of their name and their repr does not
  start with repr(parent). Only these two kinds carry the finding's signature; uniqueness, eval(repr(o)) is o and
  parent == eval(prefix) must still hold here, otherwise the run fails."""
  path = os.path.join(ck.workdir, 'c14rebind.py')
  with open(path, 'w') as f: f.write(REBIND_SRC)
  mod = load_module(path, 'c14rebind')
  top = mod.TOP(); top.elaborate()
  case = {'directed': 'rebind_object_with_descendants', 'module': REBIND_SRC}
  ck.count(case, True)
  oracle(ck, case, top, top.get_all_object_filter(lambda x: True), 'directed: rebind_object_with_descendants',
         known={'kinds': {'host-is-not-deepest-component-prefix', 'field-name-inconsistent'},
                'signature': {'shape': 'rebind_object_with_descendants'}})

def run(ck):
  rng = ck.rng
  import gc
  from . import c14_lists
  rebind_object_with_descendants(ck)
  c14_lists.run_family(ck, sys.modules[__name__])
  for chain in DECORATED_CORPUS: decorated_history_case(ck, json.loads(json.dumps(chain)))
  for _ in range(24 if ck.tier == 'quick' else 1500):
    if len(ck.violations) >= 20: break
    decorated_history_case(ck, gen_decorated_chain(rng))
  nex = 0
  for n in range(1, (5 if ck.tier == 'quick' else 7) + 1):
    c = exhaustive_slice_case(n)
    ok, nd, real = one_case(ck, c); ck.count(c, stats(ck, c, real)); nex += 1
  for n in range(1, (5 if ck.tier == 'quick' else 6) + 1):
    for i, sh in enumerate(list_shapes(n)):
      if sh[0] != 'many': continue
      c = shape_case(sh, i % 2)
      ok, nd, real = one_case(ck, c); ck.count(c, stats(ck, c, real)); nex += 1
  ck.extra_cov['exhaustive_part'] = (f'every slice / int index / slice-of-slice (valid and invalid bounds) of n-bit signals and struct '
                                     f'fields, n <= {5 if ck.tier == "quick" else 7}; every nested-list shape (objects, sub-lists, empty lists, None holes) with <= '
                                     f'{5 if ck.tier == "quick" else 6} nodes (lists + leaves, empty lists included) as a slot value: {nex} hierarchies')
  for c in CORPUS:
    c = json.loads(json.dumps(c))
    c['bad_exprs'] = []
    ok, nd, real = one_case(ck, c)
    ck.count(c, stats(ck, c, real))
  render_check(ck)
  total = 750 if ck.tier == 'quick' else 40000
  budget_s = 45 if ck.tier == 'quick' else 480
  done = 0
  while done < total and ck.elapsed() < budget_s and len(ck.violations) < 20 and len(ck.breaks) < 20:
    case = gen_case(rng, big=(ck.tier == 'thorough' and rng.random() < 0.2))
    case['bad_exprs'] = gen_bad_exprs(rng, case) if case['kind'] == 'ok' else []
    ok, nd, real = one_case(ck, case)
    ck.count(case, stats(ck, case, real))
    done += 1
    if done % 50 == 0: gc.collect()
  ck.extra_cov['generated_hierarchies'] = done

def replay(ck, data):
  case = data['case']
  if isinstance(case, list) and case[0:1] == ['render']:
    rep = ck.drv('hier').batch([leanio.line('hier', 'render', enc_toks(case[1]))])[0]
    print(f'model={rep}\nimpl =str {render(case[1])}')
    return 0 if rep == 'str ' + render(case[1]) else 1
  if isinstance(case, dict) and 'decorated_chain' in case:
    ok = decorated_history_case(ck, case['decorated_chain'], verbose=True)
    for v in ck.violations: print('VIOLATION', v.kind, v.detail)
    for b in ck.breaks: print('DISAGREEMENT', b['correspondence'], b['model'], b['impl'])
    return 0 if ok and not ck.breaks else 1
  if isinstance(case, dict) and case.get('family') == 'lists':
    from . import c14_lists
    return c14_lists.replay(ck, sys.modules[__name__], case)
  if isinstance(case, dict) and case.get('directed') == 'rebind_object_with_descendants':
    rebind_object_with_descendants(ck)
    for v in ck.violations: print('VIOLATION', v.kind, v.signature, v.detail)
    return 1 if ck.violations else 0
  case.setdefault('bad_exprs', [])
  print('module written for the case:')
  print(open(write_module(ck.workdir, 'c14replay', case)).read())
  ok, nd, real = one_case(ck, case, verbose=True)
  replies = ck.drv('hier').batch(model_lines(case))
  print('model:', replies[1][:3000])
  if 'error' in real: print('impl : error', real['error'])
  else: print('impl :', json.dumps(sorted([k] + list(v) for k, v in real['recs2'].items()))[:3000])
  for v in ck.violations: print('VIOLATION', v.kind, v.detail)
  print(f'oracle ok={ok} disagreements={nd}')
  return 0 if ok and nd == 0 else 1
