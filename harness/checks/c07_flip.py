"""C07 (part) — `schedule_posedge_flip`: every double-buffered signal is flipped exactly once at the clock edge.

proof:          lean/PymtlVerif/Props/C07f.lean over Model/Flip.lean (the grouping loop that hoists single registers to the
                parent component): grouping_perm / mem_grouping / grouping_nodup (nothing lost, nothing twice),
                grouping_prefix (relative addressing is meaningful), grouping_settled / grouping_fuel (termination)
correspondence: the generated `double_buffer` source (linecache 'ff_flips') of real designs — component trees of depth 0-4
                with 0-3 registers per component, and the C07 designs — parsed into groups and compared with the model's
                grouping of the same signals in the same visiting order
direct oracle:  independent of the model: the flipped signals (expressions evaluated on the real top) are exactly the
                signals with needs_double_buffer, each once; every signal written by an update_ff block is among them; and
                after a tick every register of the tree design has advanced
"""
import itertools, linecache, os, re, sys, importlib.util

from ..common import leanio, rtlgen
from ..common.leanio import InfraError

THEOREMS = ['PV.C07f.' + t for t in ['grouping_perm', 'mem_grouping', 'grouping_nodup', 'grouping_prefix', 'grouping_nonempty',
                                     'grouping_settled', 'grouping_fuel']]
TRUSTED = ['Model/Flip.lean: the grouping loop of SimpleSchedulePass.schedule_posedge_flip (dict = insertion-ordered association list; '
           'components = paths from top); the rendering of the groups into Python source and `_flip()` itself are outside the model '
           '(compared / exercised by the correspondence)']

_uid = itertools.count()

def tree_source(rng, uid):
  """a random component tree; every component has 0-3 registers r<i> (some written from the parent through an in port)"""
  classes, counter = [], itertools.count()
  def make(depth):
    k = next(counter)
    name = f'Tree{uid}_{k}'
    nreg = rng.choice([0, 0, 1, 1, 1, 2, 3])
    kids = []
    if depth < 4:
      for _ in range(rng.choice([0, 0, 1, 1, 2, 3] if depth > 0 else [1, 2, 3])):
        kids.append(make(depth + 1))
    lines = [f'class {name}( Component ):', '  def construct( s ):', '    s.o = OutPort( Bits8 )']
    for i in range(nreg): lines.append(f'    s.r{i} = Wire( Bits8 )')
    for j, kn in enumerate(kids): lines.append(f'    s.k{j} = {kn}()')
    if nreg:
      # some registers are written through a helper function called from the update_ff block
      via = [i for i in range(nreg) if rng.random() < 0.3]
      for i in via:
        if rng.random() < 0.5:        # the write sits in a helper that is only reached through another helper
          lines += ['    @s.func', f'    def inner{i}():', f'      s.r{i} <<= s.r{i} + {i + 1}',
                    '    @s.func', f'    def bump{i}():', f'      inner{i}()']
        else:
          lines += ['    @s.func', f'    def bump{i}():', f'      s.r{i} <<= s.r{i} + {i + 1}']
      lines += ['    @update_ff', '    def ff():']
      for i in range(nreg): lines.append(f'      bump{i}()' if i in via else f'      s.r{i} <<= s.r{i} + {i + 1}')
    srcs = [f's.r{i}' for i in range(nreg)] + [f's.k{j}.o' for j in range(len(kids))]
    lines += ['    @update', '    def comb():', '      s.o @= ' + (' ^ '.join(srcs) if srcs else '0')]
    classes.append('\n'.join(lines))
    return name
  top = make(0)
  return 'from pymtl3 import *\n\n' + '\n\n'.join(classes) + '\n', top

def comp_paths(top):
  """component object -> path of child indices from top (any injective numbering of siblings will do)"""
  paths, nxt = {top: ()}, {}
  def path(c):
    if c in paths: return paths[c]
    p = c.get_parent_object()
    pp = path(p)
    i = nxt.get(p, 0); nxt[p] = i + 1
    paths[c] = pp + (i,)
    return paths[c]
  for c in sorted(top.get_all_components(), key=repr): path(c)
  return paths

def real_groups(top):
  """parse the generated double_buffer source: [(component expr or None, [signal exprs])]"""
  fn = top._sched.schedule_posedge_flip[0]
  if fn.__name__ == 'no_double_buffer': return []
  ent = linecache.cache.get('ff_flips')
  if not ent: raise InfraError('no ff_flips source in linecache')
  groups, cur = [], None
  for ln in ent[2][2:-1]:
    ln = ln.strip()
    m = re.match(r'x = (\S+)$', ln)
    if m: cur = (m.group(1), []); groups.append(cur); continue
    m = re.match(r'(\S+)\._flip\(\)$', ln)
    if not m: raise InfraError(f'unexpected line in ff_flips: {ln!r}')
    e = m.group(1)
    if e.startswith('x.'):
      if cur is None: raise InfraError('relative flip before any `x = ...`')
      cur[1].append(cur[0] + e[1:])
    else:
      groups.append((None, [e]))
  return groups

def check_top(ck, top, src, what, lines, meta):
  """one elaborated + scheduled design: direct oracle now, model comparison queued"""
  ndb = [x for x in reversed(sorted(top._dsl.all_signals, key=lambda x: x.get_host_component().get_component_level())) if x._dsl.needs_double_buffer]
  groups = real_groups(top)
  flipped = [e for (_, es) in groups for e in es]
  for e in flipped:
    try: eval(e, {'s': top})
    except Exception as ex:
      ck.violation('flip-expression-invalid', {'what': what}, {'source': src}, {'expr': e, 'error': repr(ex)}); return
  nontrivial = len(ndb) >= 2
  ck.count({'flip': hash(src) & 0xffffffff, 'what': what}, nontrivial); ck.hist('flip_regs', min(len(ndb), 12)); ck.hist('flip_groups', min(len(groups), 8))
  want, got = sorted(repr(x) for x in ndb), sorted(flipped)      # the repr of a signal is the expression that reaches it from `s`
  if want != got:
    ck.violation('register-not-flipped-exactly-once', {'what': what}, {'source': src},
                 {'needs_double_buffer': want, 'flipped': got, 'oracle': 'the generated double_buffer function flips every signal with needs_double_buffer exactly once'})
  written = set()
  for blk in top.get_all_update_ff():
    for w in top._dsl.all_upblk_writes.get(blk, ()): written.add(repr(w.get_top_level_signal()))
  missing = sorted(written - set(got))
  if missing:
    ck.violation('ff-written-signal-never-flips', {'what': what}, {'source': src}, {'missing': missing, 'oracle': 'a signal written with <<= takes its new value at the edge'})
  paths = comp_paths(top)
  ids = {x: i for i, x in enumerate(ndb)}
  lines.append(leanio.line('flip', 'group', *[[list(paths[x.get_host_component()]), ids[x]] for x in ndb]))
  byrepr = {repr(x): ids[x] for x in ndb}
  inv = {p: repr(c) for c, p in paths.items()}
  meta.append((src, what, groups, byrepr, inv))

def compare(ck, rep, m):
  src, what, groups, byrepr, inv = m
  r = leanio.parse_sexp(rep)
  if r[0] != 'groups' or r[3] != '1':
    ck.disagreement('Flip.grouping≈schedule_posedge_flip (model not settled)', {'source': src}, rep, 'n/a'); return
  mkeyed, mpool = set(), set()
  for (path, members) in r[1]:
    path = tuple(int(x) for x in path); members = frozenset(int(x) for x in members)
    if path == () or len(members) == 1: mpool |= members
    else: mkeyed.add((inv[path], members))
  rkeyed, rpool = set(), set()
  for (key, es) in groups:
    mem = frozenset(byrepr.get(e, -1) for e in es)
    if key is None: rpool |= mem
    else: rkeyed.add((key, mem))
  if (mkeyed, mpool) != (rkeyed, rpool):
    ck.disagreement('Flip.grouping≈schedule_posedge_flip', {'source': src, 'what': what},
                    {'keyed': sorted((k, sorted(v)) for k, v in mkeyed), 'pool': sorted(mpool)},
                    {'keyed': sorted((k, sorted(v)) for k, v in rkeyed), 'pool': sorted(rpool)})

def load(workdir, src, name):
  uid = next(_uid)
  mod = f'pvflip_{os.getpid()}_{uid}'
  path = os.path.join(workdir, mod + '.py')
  with open(path, 'w') as f: f.write(src)
  spec = importlib.util.spec_from_file_location(mod, path); m = importlib.util.module_from_spec(spec)
  sys.modules[mod] = m; spec.loader.exec_module(m)
  return getattr(m, name)

def run_tree(ck, src, name, lines, meta):
  from pymtl3.passes.PassGroups import DefaultPassGroup
  from pymtl3.passes.mamba.PassGroups import Mamba2020
  cls = load(ck.workdir, src, name)
  for what, grp in [('tree/default', DefaultPassGroup()), ('tree/mamba', Mamba2020(print_line_trace=False))]:
    top = cls(); top.elaborate(); top.apply(grp)
    check_top(ck, top, src, what, lines, meta)
    top.sim_reset()
    regs = [x for x in top._dsl.all_signals if x._dsl.needs_double_buffer]
    val = lambda x: int(eval(repr(x), {'s': top}))
    before = {repr(x): val(x) for x in regs}
    top.sim_tick()
    stuck = sorted(repr(x) for x in regs if val(x) == before[repr(x)])
    if stuck:
      ck.violation('register-did-not-advance', {'what': what}, {'source': src}, {'stuck': stuck, 'oracle': 'r <<= r + k advances every register at every edge'})

def run(ck, queued=()):
  """queued: (lines, meta) pairs already produced by check_top for other designs (the C07 designs)"""
  rng = ck.rng
  lines, meta = [], []
  for (l, m) in queued: lines += l; meta += m
  n = 40 if ck.tier == 'quick' else 1500
  for _ in range(n):
    src, name = tree_source(rng, next(_uid))
    ck.extra_cov.setdefault('sample_tree_source', src)
    run_tree(ck, src, name, lines, meta)
  for rep, m in zip(ck.drv('flip').batch(lines), meta): compare(ck, rep, m)
  ck.extra_cov['flip_designs'] = len(meta)

def replay(ck, data):
  case = data.get('case') or {}
  src = case.get('source')
  if not src or 'Tree' not in src: return None
  name = re.findall(r'class (Tree\d+_\d+)\(', src)[-1]
  ck.tier = 'quick'
  lines, meta = [], []
  run_tree(ck, src, name, lines, meta)
  for rep, m in zip(ck.drv('flip').batch(lines), meta): compare(ck, rep, m)
  return 1 if (ck.violations or ck.breaks) else 0
