"""Hand-written pymtl3 components in the style of the library that exercise the corners of the Python subset
`common/pymtl2rtl.py` handles (the library itself uses only part of it). They are ordinary pymtl3 source, translated and
simulated by the C01 library stream exactly like the stdlib designs; a wrong translation rule shows up as a difference
between the real simulation and the translated dataflow."""
from pymtl3 import *

@bitstruct
class XPair:
  lo: Bits4
  hi: Bits4

@bitstruct
class XMsg:
  tag: Bits3
  pair: XPair
  vec: [Bits2, Bits2, Bits2]
  flag: Bits1

K_SLICE = slice(4, 12)
K_ONE = 1

class XTemps(Component):
  """temporaries, aliases of whole signals, snapshots of slices, reads after writes, augmented temporaries"""
  def construct(s):
    s.a = InPort(Bits8); s.b = InPort(Bits8); s.c = InPort(Bits16)
    s.o0 = OutPort(Bits8); s.o1 = OutPort(Bits8); s.o2 = OutPort(Bits16); s.o3 = OutPort(Bits8); s.w = Wire(Bits8)
    @update
    def up_t():
      t = s.a + s.b
      u = s.w                      # alias of the Bits object of s.w
      v = s.w[0:4]                 # a fresh Bits: snapshot (s.w still holds last evaluation's value here)
      s.w @= t ^ 0x5a
      s.o0 @= u                    # sees the new value
      s.o1 @= concat(v, s.w[4:8])
      t += 3
      t = t << (1 if s.a[0] else 2)
      s.o3 @= t
      x = s.c[K_SLICE]
      s.o2 @= zext(x, 16) | (sext(s.a[2:6], 16) << 8)
      s.o2[0] @= reduce_xor(s.c) ^ reduce_and(s.a[0:3]) ^ reduce_or(s.b[5:8])

class XHold(Component):
  """targets assigned on some paths only (comb block that keeps its pre-state value), elif chains, nested ifs"""
  def construct(s):
    s.sel = InPort(Bits2); s.a = InPort(Bits8); s.en = InPort()
    s.o = OutPort(Bits8); s.p = OutPort(Bits8); s.q = OutPort(Bits4)
    @update
    def up_h():
      if s.en:
        if s.sel == 0: s.o @= s.a
        elif s.sel == 1: s.o @= ~s.a
        elif s.sel == 2:
          s.o @= s.a + 1
          s.p @= s.a - 1
      else:
        s.p @= 0
      s.q @= 0
      if s.a > 200 and s.en: s.q @= 9
      if (s.a < 5) | (s.sel == 3): s.q[1:3] @= 3

class XIndex(Component):
  """variable bit / list indices on both sides, nested lists, struct fields, list-typed struct fields"""
  def construct(s, n=3):
    s.i = InPort(Bits2); s.j = InPort(Bits3); s.d = InPort(Bits8); s.m = InPort(XMsg)
    s.arr = [InPort(Bits8) for _ in range(4)]
    s.grid = [[InPort(Bits4) for _ in range(2)] for _ in range(4)]
    s.o = OutPort(Bits8); s.bit = OutPort(); s.g = OutPort(Bits4); s.om = OutPort(XMsg); s.outs = [OutPort(Bits8) for _ in range(4)]
    s.mask = OutPort(Bits8)
    @update
    def up_i():
      s.o @= s.arr[s.i]
      s.bit @= s.d[s.j] ^ s.arr[s.i][s.j]
      s.g @= s.grid[s.i][s.j[0]]
      for k in range(4): s.outs[k] @= k
      s.outs[s.i] @= s.d
      s.mask @= 0
      s.mask[s.j] @= 1
      s.om @= s.m
      s.om.pair.hi @= s.m.pair.lo
      s.om.vec[1] @= s.m.vec[s.i[0]]
      s.om.tag @= s.m.tag + K_ONE
      if s.m.flag: s.om.pair @= XPair(s.d[0:4], 3)

class XInts(Component):
  """ints meeting Bits: literals, negative literals in assignments, if-expressions of ints, reflected operators, casts"""
  def construct(s, k=5):
    s.a = InPort(Bits8); s.c = InPort()
    s.o0 = OutPort(Bits8); s.o1 = OutPort(Bits8); s.o2 = OutPort(Bits8); s.o3 = OutPort(Bits4); s.o4 = OutPort(); s.o5 = OutPort(Bits8)
    s.o6 = OutPort(Bits16)
    limit = k * 3
    @update
    def up_n():
      s.o0 @= -1
      s.o1 @= 7 if s.c else 250
      s.o2 @= 255 - s.a
      s.o3 @= trunc(s.a, 4) if s.a < limit else Bits4(k)
      s.o4 @= not s.a[0]
      s.o5 @= (3 + s.a) * 2 if (5 <= s.a) & (s.a != 17) else b8(1) << 3
      s.o6 @= concat(Bits8(k), s.a) >> 3
      if 200 > s.a: s.o0 @= s.a & 0xf0 | 1

class XRegs(Component):
  """update_ff: holds, overrides, struct registers (pymtl3 allows only whole top-level signals left of <<=), register arrays with variable index, for with step"""
  def construct(s, n=5):
    s.we = InPort(); s.wi = InPort(Bits3); s.d = InPort(Bits8); s.m = InPort(XMsg)
    s.regs = [Wire(Bits8) for _ in range(n)]
    s.r = Wire(XMsg); s.cnt = Wire(Bits4); s.acc = OutPort(Bits8); s.ro = OutPort(XMsg); s.sum = OutPort(Bits8)
    s.ro //= s.r
    @update_ff
    def ff_r():
      s.cnt <<= s.cnt + 1
      if s.reset:
        s.cnt <<= 0
        for i in range(n): s.regs[i] <<= i
      elif s.we:
        s.regs[s.wi] <<= s.d
      if s.we & ~s.reset:
        s.r <<= s.m
      elif s.cnt == 7:
        s.r <<= XMsg(s.cnt[1:4], s.m.pair, s.r.vec, s.d[7])
      s.acc <<= s.acc + s.regs[0] if ~s.reset else 0
    @update
    def up_s():
      t = b8(0)
      for i in range(n - 1, -1, -2): t = t + s.regs[i]
      s.sum @= t

class XExtraTop(Component):
  """the pieces wired together: slices of struct fields in nets, constant nets, fan-out, a lambda block"""
  def construct(s):
    s.a = InPort(Bits8); s.i = InPort(Bits2); s.m = InPort(XMsg); s.c = InPort()
    s.o = OutPort(Bits8); s.z = OutPort(Bits4); s.y = OutPort(Bits8)
    s.t = XTemps(); s.h = XHold(); s.n = XInts()
    s.t.a //= s.a
    s.t.b[0:4] //= s.m.pair.lo
    s.t.b[4:8] //= s.m.pair.hi
    s.t.c[0:8] //= s.a
    s.t.c[8:16] //= 0x3c
    s.h.sel //= s.i
    s.h.a //= s.t.o0
    s.h.en //= s.c
    s.n.a //= s.h.o
    s.n.c //= s.m.flag
    s.o //= s.n.o5
    s.z //= s.m.pair.hi
    s.y //= lambda: s.t.o2[4:12] + zext(s.m.vec[2], 8) + s.h.p
